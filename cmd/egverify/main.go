// egverify decides the structural obligations of one property on /repo's working tree.
package main

import (
	"encoding/json"
	"flag"
	"fmt"
	"os"
	"runtime/debug"
	"strconv"
	"time"

	"verif/internal/core"
	"verif/internal/load"
	"verif/internal/rules"
)

func main() {
	prop := flag.String("property", "", "property id (C01..C20)")
	tier := flag.String("tier", "quick", "quick|thorough")
	replay := flag.String("replay", "", "replay file written by an earlier violation")
	flag.Parse()
	if t := os.Getenv("VERIF_TIER"); t != "" && !isFlagSet("tier") {
		*tier = t
	}
	seed := 0
	if s := os.Getenv("VERIF_SEED"); s != "" {
		seed, _ = strconv.Atoi(s)
	}
	var want []string
	if *replay != "" {
		b, err := os.ReadFile(*replay)
		if err != nil {
			fmt.Fprintln(os.Stderr, "replay:", err)
			os.Exit(2)
		}
		var doc struct {
			Property   string             `json:"property"`
			Violations []*core.Obligation `json:"violations"`
		}
		if err := json.Unmarshal(b, &doc); err != nil {
			fmt.Fprintln(os.Stderr, "replay:", err)
			os.Exit(2)
		}
		*prop = doc.Property
		for _, o := range doc.Violations {
			want = append(want, o.Key())
		}
	}
	rule, ok := rules.Registry[*prop]
	if !ok {
		fmt.Fprintf(os.Stderr, "unknown property %q\n", *prop)
		os.Exit(2)
	}
	start := time.Now()
	verif := load.VerifDir()
	p, err := load.Load()
	if err != nil {
		fmt.Printf("CHECKER-ERROR: load: %v\n", err)
		os.Exit(2)
	}
	c := core.NewCtx(p, *prop, *tier)
	explanation := ""
	func() {
		defer func() {
			if r := recover(); r != nil {
				c.Errorf("analyser panicked: %v\n%s", r, debug.Stack())
			}
		}()
		explanation = rule(c)
	}()
	code := c.Finish(verif, start, seed, explanation)
	if *replay != "" {
		for _, k := range want {
			still := false
			for _, o := range c.Obligations {
				if o.Key() == k && o.Verdict == core.Violated {
					still = true
				}
			}
			fmt.Printf("replay: %s still violated: %v\n", k, still)
		}
	}
	os.Exit(code)
}

func isFlagSet(name string) bool {
	set := false
	flag.Visit(func(f *flag.Flag) {
		if f.Name == name {
			set = true
		}
	})
	return set
}
