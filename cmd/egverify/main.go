// egverify decides the structural obligations of one property on /repo's working tree.
package main

import (
	"encoding/json"
	"flag"
	"fmt"
	"os"
	"os/exec"
	"path/filepath"
	"runtime/debug"
	"strconv"
	"strings"
	"sync"
	"time"

	"verif/internal/core"
	"verif/internal/load"
	"verif/internal/rules"
)

func main() {
	prop := flag.String("property", "", "property id (C01..C20)")
	tier := flag.String("tier", "quick", "quick|thorough")
	replay := flag.String("replay", "", "replay file written by an earlier violation")
	flag.Parse()
	if t := os.Getenv("VERIF_TIER"); t != "" && !isFlagSet("tier") {
		*tier = t
	}
	seed := 0
	if s := os.Getenv("VERIF_SEED"); s != "" {
		seed, _ = strconv.Atoi(s)
	}
	var want []string
	if *replay != "" {
		b, err := os.ReadFile(*replay)
		if err != nil {
			fmt.Fprintln(os.Stderr, "replay:", err)
			os.Exit(2)
		}
		var doc struct {
			Property   string             `json:"property"`
			Violations []*core.Obligation `json:"violations"`
		}
		if err := json.Unmarshal(b, &doc); err != nil {
			fmt.Fprintln(os.Stderr, "replay:", err)
			os.Exit(2)
		}
		*prop = doc.Property
		for _, o := range doc.Violations {
			want = append(want, o.Key())
		}
	}
	rule, ok := rules.Registry[*prop]
	if !ok {
		fmt.Fprintf(os.Stderr, "unknown property %q\n", *prop)
		os.Exit(2)
	}
	start := time.Now()
	verif := load.VerifDir()
	p, err := load.Load()
	if err == load.ErrOverlaySkipped {
		fmt.Println("SELFTEST-SKIPPED: old fragment not found")
		os.Exit(3)
	}
	if err != nil {
		fmt.Printf("CHECKER-ERROR: load: %v\n", err)
		os.Exit(2)
	}
	c := core.NewCtx(p, *prop, *tier)
	explanation := ""
	func() {
		defer func() {
			if r := recover(); r != nil {
				c.Errorf("analyser panicked: %v\n%s", r, debug.Stack())
			}
		}()
		explanation = rule(c)
	}()
	if *tier == "thorough" && os.Getenv("VERIF_NO_EVIDENCE") == "" {
		runSelfTest(c, verif, *prop)
	}
	code := c.Finish(verif, start, seed, explanation)
	if *replay != "" {
		for _, k := range want {
			still := false
			for _, o := range c.Obligations {
				if o.Key() == k && o.Verdict == core.Violated {
					still = true
				}
			}
			fmt.Printf("replay: %s still violated: %v\n", k, still)
		}
	}
	os.Exit(code)
}

// mutant is one self-test entry of selftest/mutants/<ID>.json: a realistic, compiling edit
// of easegress that the property's rules must report.
type mutant struct {
	Name   string `json:"name"`
	File   string `json:"file"`
	Old    string `json:"old"`
	New    string `json:"new"`
	Expect string `json:"expect"` // rule id that must fire ("" = any)
	// Preserving marks a behaviour-preserving edit: the check must stay silent.
	Preserving bool `json:"preserving,omitempty"`
}

// runSelfTest (thorough tier) applies each seeded mutant as a go/packages overlay in a
// sub-process and requires the property's check to report it (or, for behaviour-preserving
// edits, to stay silent). A surviving mutant is a checker error, never a VIOLATION.
func runSelfTest(c *core.Ctx, verif, prop string) {
	b, err := os.ReadFile(filepath.Join(verif, "selftest", "mutants", prop+".json"))
	if err != nil {
		return
	}
	var ms []mutant
	if err := json.Unmarshal(b, &ms); err != nil {
		c.Errorf("selftest: %v", err)
		return
	}
	exe, _ := os.Executable()
	st := &core.SelfTest{}
	type result struct {
		i    int
		line string
		kind string
	}
	results := make([]result, len(ms))
	sem := make(chan struct{}, 2)
	var wg sync.WaitGroup
	for i, m := range ms {
		wg.Add(1)
		go func(i int, m mutant) {
			defer wg.Done()
			sem <- struct{}{}
			defer func() { <-sem }()
			cmd := exec.Command(exe, "-property", prop, "-tier", "quick")
			cmd.Env = append(os.Environ(), "VERIF_NO_EVIDENCE=1", "VERIF_OVERLAY_FILE="+m.File, "VERIF_OVERLAY_OLD="+m.Old, "VERIF_OVERLAY_NEW="+m.New)
			out, _ := cmd.CombinedOutput()
			code := cmd.ProcessState.ExitCode()
			fired := ""
			for _, l := range strings.Split(string(out), "\n") {
				if strings.HasPrefix(l, "violated: ") {
					fired += strings.SplitN(strings.TrimPrefix(l, "violated: "), "|", 2)[0] + " "
				}
			}
			r := result{i: i}
			switch {
			case code == 3:
				r.kind, r.line = "skipped", m.Name+": skipped (fragment no longer present)"
			case strings.Contains(string(out), "do not type-check"):
				r.kind, r.line = "skipped", m.Name+": skipped (mutant does not compile on this tree)"
			case m.Preserving && code == 0:
				r.kind, r.line = "killed", m.Name+": behaviour-preserving edit, check silent"
			case m.Preserving:
				r.kind, r.line = "survived", m.Name+": behaviour-preserving edit raised an alarm: "+fired
			case code == 1 && (m.Expect == "" || strings.Contains(fired, m.Expect+" ")):
				r.kind, r.line = "killed", m.Name+": reported by "+strings.TrimSpace(fired)
			default:
				r.kind, r.line = "survived", fmt.Sprintf("%s: NOT reported as expected (exit %d, fired: %s, expected %s)", m.Name, code, fired, m.Expect)
			}
			results[i] = r
		}(i, m)
	}
	wg.Wait()
	for _, r := range results {
		st.Total++
		st.Details = append(st.Details, r.line)
		switch r.kind {
		case "killed":
			st.Killed++
		case "skipped":
			st.Skipped++
		default:
			c.Errorf("selftest: %s", r.line)
		}
	}
	c.SelfTest = st
	fmt.Printf("selftest: %d mutants, %d handled as expected, %d skipped\n", st.Total, st.Killed, st.Skipped)
}

func isFlagSet(name string) bool {
	set := false
	flag.Visit(func(f *flag.Flag) {
		if f.Name == name {
			set = true
		}
	})
	return set
}
