// Package http3 is a type-level stub of github.com/lucas-clemente/quic-go/http3
// (v0.27.2 does not compile with Go >= 1.19). It declares only the members that
// easegress' pkg/object/httpserver uses, so the package type-checks for static analysis.
// It is never linked into anything that runs.
package http3

import "net/http"

// Server mirrors http3.Server: an embedded *http.Server plus the two methods used.
type Server struct {
	*http.Server
}

// ListenAndServe mirrors (*http3.Server).ListenAndServe.
func (s *Server) ListenAndServe() error { return nil }

// Close mirrors (*http3.Server).Close.
func (s *Server) Close() error { return nil }
