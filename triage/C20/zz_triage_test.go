package supervisor

// Triage demonstration for R-C20-3 (property C20): a name whose kind changes between two
// configuration snapshots must be handled as a Close of the old object and an Init of the new one.
// On the unfixed tree applyConfig files the name under "updated"; the new object's Inherit
// type-asserts the old instance to its own type (the idiom every real kind uses, e.g.
// GlobalFilter.Inherit: `gf.reload(previousGeneration.(*GlobalFilter))`) and panics; the panic is
// swallowed by InheritWithRecovery, the uninitialised object is stored as live and the old object
// is never closed.

import (
	"testing"

	"github.com/megaease/easegress/pkg/logger"
)

type triageCounts struct{ inits, inherits, closes int }

var triageLog = map[string]*triageCounts{}

func triageOf(kind string) *triageCounts {
	if triageLog[kind] == nil {
		triageLog[kind] = &triageCounts{}
	}
	return triageLog[kind]
}

type triageSpec struct {
	Value string `yaml:"value"`
}

type triageA struct{ ready bool }
type triageB struct{ ready bool }

func (o *triageA) Category() ObjectCategory { return CategoryBusinessController }
func (o *triageA) Kind() string             { return "TriageA" }
func (o *triageA) DefaultSpec() interface{} { return &triageSpec{} }
func (o *triageA) Status() *Status          { return &Status{} }
func (o *triageA) Init(s *Spec)             { o.ready = true; triageOf("A").inits++ }
func (o *triageA) Inherit(s *Spec, prev Object) {
	o.ready = prev.(*triageA).ready
	triageOf("A").inherits++
}
func (o *triageA) Close() { triageOf("A").closes++ }

func (o *triageB) Category() ObjectCategory { return CategoryBusinessController }
func (o *triageB) Kind() string             { return "TriageB" }
func (o *triageB) DefaultSpec() interface{} { return &triageSpec{} }
func (o *triageB) Status() *Status          { return &Status{} }
func (o *triageB) Init(s *Spec)             { o.ready = true; triageOf("B").inits++ }
func (o *triageB) Inherit(s *Spec, prev Object) {
	o.ready = prev.(*triageB).ready
	triageOf("B").inherits++
}
func (o *triageB) Close() { triageOf("B").closes++ }

func init() {
	Register(&triageA{})
	Register(&triageB{})
}

func TestTriageKindChangeIsCloseThenInit(t *testing.T) {
	logger.InitNop()

	s := &Supervisor{}
	or := &ObjectRegistry{
		super:    s,
		entities: make(map[string]*ObjectEntity),
		watchers: map[string]*ObjectEntityWatcher{},
	}
	s.objectRegistry = or
	s.watcher = or.NewWatcher(watcherName, FilterCategory(CategoryBusinessController))
	drain := func() {
		for {
			select {
			case ev := <-s.watcher.Watch():
				s.handleEvent(ev)
			default:
				return
			}
		}
	}
	drain() // the (empty) first event

	// snapshot 1: x is a TriageA
	or.applyConfig(map[string]string{"x": "name: x\nkind: TriageA\nvalue: one\n"})
	drain()
	if a := triageOf("A"); a.inits != 1 || a.closes != 0 {
		t.Fatalf("setup: A inits=%d closes=%d", a.inits, a.closes)
	}

	// snapshot 2: the same name is now a TriageB
	or.applyConfig(map[string]string{"x": "name: x\nkind: TriageB\nvalue: one\n"})
	drain()

	a, b := triageOf("A"), triageOf("B")
	t.Logf("A: inits=%d inherits=%d closes=%d   B: inits=%d inherits=%d closes=%d",
		a.inits, a.inherits, a.closes, b.inits, b.inherits, b.closes)
	if a.closes != 1 {
		t.Errorf("old object of kind TriageA closed %d times, want exactly 1 (it leaks)", a.closes)
	}
	if b.inits != 1 {
		t.Errorf("new object of kind TriageB initialised %d times, want exactly 1", b.inits)
	}
	live, ok := s.GetBusinessController("x")
	if !ok {
		t.Fatalf("x is not live")
	}
	if inst, isB := live.Instance().(*triageB); !isB || !inst.ready {
		t.Errorf("live object for x: %T ready=%v generation=%d, want an initialised *triageB",
			live.Instance(), isB && inst.ready, live.Generation())
	}

	// snapshot 3: x disappears — the live object must be closed exactly once
	or.applyConfig(map[string]string{})
	drain()
	if b.closes != 1 {
		t.Errorf("after deletion TriageB closed %d times, want 1", b.closes)
	}
	if a.closes != 1 {
		t.Errorf("after deletion TriageA closed %d times in total, want 1", a.closes)
	}
}
