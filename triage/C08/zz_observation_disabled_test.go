package circuitbreaker

import (
	"testing"
	"time"
)

// Observation (outside C08's quantifier: SetState has no production caller): a Disabled
// breaker admits calls with the current stateID and RecordResult does not look at the
// state, so failures open a "disabled" breaker.
func TestZZDisabledBreakerOpens(t *testing.T) {
	cb := New(NewPolicy(50, 100, CountBased, 4, 2, 4, time.Minute, 0, time.Minute))
	cb.SetState(StateDisabled)
	for i := 0; i < 4; i++ {
		ok, id := cb.AcquirePermission()
		if !ok {
			t.Fatalf("disabled breaker rejected call %d (state %v)", i, cb.State())
		}
		cb.RecordResult(id, true, time.Millisecond)
	}
	if cb.State() != StateDisabled {
		t.Logf("OBSERVED: disabled breaker moved to state %v", stateStrings[cb.State()])
	}
	if ok, _ := cb.AcquirePermission(); !ok {
		t.Logf("OBSERVED: disabled breaker now rejects calls")
	}
}

// permitted == 0 with no max wait: the breaker stays HalfOpen and rejects forever.
func TestZZPermittedZeroStuck(t *testing.T) {
	now := time.Now()
	nowFunc = func() time.Time { return now }
	defer func() { nowFunc = time.Now }()
	cb := New(NewPolicy(50, 100, CountBased, 2, 0, 2, time.Minute, 0, time.Second))
	for i := 0; i < 2; i++ {
		_, id := cb.AcquirePermission()
		cb.RecordResult(id, true, time.Millisecond)
	}
	now = now.Add(time.Hour)
	for i := 0; i < 3; i++ {
		ok, _ := cb.AcquirePermission()
		t.Logf("after wait: permitted=%v state=%s", ok, stateStrings[cb.State()])
		now = now.Add(time.Hour)
	}
}
