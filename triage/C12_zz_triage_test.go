package httpserver

import (
	"fmt"
	"net/http"
	"strings"
	"testing"

	"github.com/megaease/easegress/pkg/protocols/httpprot"
	"github.com/megaease/easegress/pkg/supervisor"
	"github.com/megaease/easegress/pkg/protocols/httpprot/httpstat"
)

type treq struct {
	host, method, path, ip string
	hdr                    map[string]string
}

func build(t *testing.T, yaml string, cache int) *muxInstance {
	m := newMux(httpstat.New(), httpstat.NewTopN(10), nil)
	ss, err := supervisor.NewSpec(strings.Replace(yaml, "CACHESIZE", fmt.Sprint(cache), 1))
	if err != nil {
		t.Fatal(err)
	}
	m.reload(ss, nil)
	return m.inst.Load().(*muxInstance)
}

func outcome(mi *muxInstance, r treq) string {
	stdr, _ := http.NewRequest(r.method, "http://"+r.host+r.path, http.NoBody)
	stdr.Host = r.host
	stdr.Method = r.method
	stdr.Header.Set("X-Real-Ip", r.ip)
	for k, v := range r.hdr {
		stdr.Header.Set(k, v)
	}
	req, _ := httpprot.NewRequest(stdr)
	rt := mi.search(req)
	if rt.code != 0 {
		return fmt.Sprint(rt.code)
	}
	return "backend:" + rt.path.backend
}

func twin(t *testing.T, name, yaml string, seq []treq) {
	t.Run(name, func(t *testing.T) {
		a, b := build(t, yaml, 0), build(t, yaml, 100)
		for i, r := range seq {
			x, y := outcome(a, r), outcome(b, r)
			if x != y {
				t.Errorf("request %d %+v: no cache -> %s, cache -> %s", i, r, x, y)
			}
		}
	})
}

func TestTriageC12(t *testing.T) {
	hdrYaml := `
kind: HTTPServer
name: test
port: 8080
cacheSize: CACHESIZE
rules:
- paths:
  - path: /x
    headers:
    - key: X-Ver
      values: [v2]
    backend: A
  - path: /x
    backend: B
`
	twin(t, "header-entry-ahead-of-plain", hdrYaml, []treq{
		{"h", "GET", "/x", "1.1.1.1", nil},
		{"h", "GET", "/x", "1.1.1.1", map[string]string{"X-Ver": "v2"}},
	})
	ipYaml := `
kind: HTTPServer
name: test
port: 8080
cacheSize: CACHESIZE
ipFilter:
  blockIPs: [9.9.9.9]
rules:
- host: a.com
  ipFilter:
    blockIPs: [8.8.8.8]
  paths:
  - path: /only
    methods: [PUT]
    backend: A
- paths:
  - path: /y
    backend: B
`
	twin(t, "cached-404-bypasses-server-filter", ipYaml, []treq{
		{"b.com", "GET", "/zzz", "1.1.1.1", nil},
		{"b.com", "GET", "/zzz", "9.9.9.9", nil},
	})
	twin(t, "cached-405-bypasses-rule-filter", ipYaml, []treq{
		{"a.com", "GET", "/only", "1.1.1.1", nil},
		{"a.com", "GET", "/only", "8.8.8.8", nil},
	})
	twin(t, "earlier-rule-filter-not-in-chain", ipYaml, []treq{
		{"a.com", "GET", "/y", "1.1.1.1", nil},
		{"a.com", "GET", "/y", "8.8.8.8", nil},
	})
	keyYaml := `
kind: HTTPServer
name: test
port: 8080
cacheSize: CACHESIZE
rules:
- host: aP
  paths:
  - path: /x
    backend: A
- host: a
  paths:
  - path: /x
    backend: B
`
	twin(t, "key-collision", keyYaml, []treq{
		{"aP", "OST", "/x", "1.1.1.1", nil},
		{"a", "POST", "/x", "1.1.1.1", nil},
	})
}
