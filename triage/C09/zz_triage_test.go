package ratelimiter

import (
	"testing"

	"github.com/megaease/easegress/pkg/filters"
	"github.com/megaease/easegress/pkg/util/urlrule"
)

func c09Spec() *Spec {
	mk := func() *URLRule {
		return &URLRule{URLRule: urlrule.URLRule{
			Methods:   []string{"GET"},
			URL:       urlrule.StringMatch{Prefix: "/api"},
			PolicyRef: "p",
		}}
	}
	return &Spec{
		Policies: []*Policy{{Name: "p", TimeoutDuration: "100ms", LimitRefreshPeriod: "1s", LimitForPeriod: 5}},
		// the same rule listed twice: accepted by Validate
		URLs: []*URLRule{mk(), mk()},
	}
}

// C09 triage: reloading an unchanged spec that lists the same URL rule twice.
// The first new rule takes prev.rl and sets prev.rl = nil; the second new rule is
// DeepEqual to the same prev entry, so it is handed the nil limiter.
func TestC09TriageReloadDuplicateRule(t *testing.T) {
	old := c09Spec()
	if err := old.Validate(); err != nil {
		t.Fatalf("spec rejected: %v", err)
	}
	gen1 := kind.CreateInstance(old).(*RateLimiter)
	gen1.Init()

	gen2 := kind.CreateInstance(c09Spec()).(*RateLimiter)
	func() {
		defer func() {
			if r := recover(); r != nil {
				t.Errorf("Inherit panicked: %v", r)
			}
		}()
		gen2.Inherit(filters.Filter(gen1))
	}()
	for i, u := range gen2.spec.URLs {
		if u.rl == nil {
			t.Errorf("after reload URL rule %d has no rate limiter", i)
		}
	}
}
