package ipfilter

import "testing"

func TestTriageMixed(t *testing.T) {
	pool := []string{"::ffff:10.0.0.1", "1.2.3.4", "::1", "2001:db8::1", "::ffff:10.0.0.0/104", "10.0.0.0/8", "2001:db8::/32", "::ffff:1.2.3.4", "0.0.0.0/0", "::/0", "::ffff:0:0/96"}
	for _, a := range pool {
		for _, b := range pool {
			func() {
				defer func() {
					if r := recover(); r != nil {
						t.Errorf("New panics for allowIPs [%q %q]: %v", a, b, r)
					}
				}()
				f := New(&Spec{BlockByDefault: true, AllowIPs: []string{a, b}})
				_ = f.Allow("10.0.0.1")
				_ = f.Allow("2001:db8::2")
				_ = f.Allow("::ffff:10.0.0.1")
			}()
		}
	}
}

func TestTriageMappedEntriesMeanTheirIPv4Addresses(t *testing.T) {
	defer func() {
		if r := recover(); r != nil {
			t.Fatalf("New panics: %v", r)
		}
	}()
	f := New(&Spec{BlockByDefault: true, AllowIPs: []string{"::ffff:10.0.0.1", "::ffff:10.1.0.0/112", "2001:db8::/32"}})
	for ip, want := range map[string]bool{"10.0.0.1": true, "::ffff:10.0.0.1": true, "10.1.0.7": true, "10.2.0.1": false, "2001:db8::5": true, "2001:db9::5": false} {
		if got := f.Allow(ip); got != want {
			t.Errorf("Allow(%s) = %v, want %v", ip, got, want)
		}
	}
}
