package mqttproxy

import (
	"testing"

	"github.com/megaease/easegress/pkg/supervisor"
)

// C13 triage (R-C13-1): MQTTProxy specs that validation accepts make Init panic:
// an unknown / duplicated rule packet type panics in newBroker, useTLS without certificates
// makes newBroker return nil and MQTTProxy.Init panic ("broker ... start failed").
func TestZZTriageMQTTProxyAcceptedSpecsPanic(t *testing.T) {
	for _, y := range []string{`
name: mqtt
kind: MQTTProxy
port: 18831
rules:
- when:
    packetType: NoSuchPacket
  pipeline: p
`, `
name: mqtt
kind: MQTTProxy
port: 18832
rules:
- when:
    packetType: Publish
  pipeline: p
- when:
    packetType: Publish
  pipeline: q
`, `
name: mqtt
kind: MQTTProxy
port: 18833
useTLS: true
`} {
		superSpec, err := supervisor.NewSpec(y)
		if err != nil {
			t.Logf("rejected at validation time (good): %v", err)
			continue
		}
		spec := superSpec.ObjectSpec().(*Spec)
		func() {
			defer func() {
				if r := recover(); r != nil {
					t.Errorf("accepted spec, but newBroker panicked: %v", r)
				}
			}()
			// what MQTTProxy.Init does
			broker := newBroker(spec, newStorage(nil), nil, nil)
			if broker == nil {
				t.Errorf("accepted spec %q, but newBroker returned nil: MQTTProxy.Init panics with \"broker start failed\"", y)
				return
			}
			broker.close()
		}()
	}
}
