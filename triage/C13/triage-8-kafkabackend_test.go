package kafka

import (
	"testing"

	"github.com/megaease/easegress/pkg/filters"
	"github.com/megaease/easegress/pkg/util/yamltool"
)

// C13 triage (R-C13-1): `topic.dynamic` without a header name passes validation and makes
// Init panic ("empty header") before any broker is contacted.
func TestZZTriageEmptyDynamicHeader(t *testing.T) {
	const y = `
kind: Kafka
name: kafka
backend: ["127.0.0.1:1"]
topic:
  default: t
  dynamic: {}
`
	rawSpec := map[string]interface{}{}
	yamltool.Unmarshal([]byte(y), &rawSpec)
	spec, err := filters.NewSpec(nil, "", rawSpec)
	if err != nil {
		t.Logf("rejected at validation time (good): %v", err)
		return
	}
	defer func() {
		if r := recover(); r != nil {
			t.Fatalf("accepted spec, but setHeader (first step of Init) panicked: %v", r)
		}
	}()
	k := kind.CreateInstance(spec).(*Kafka)
	k.setHeader(k.spec)
}
