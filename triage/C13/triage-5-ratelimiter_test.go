package ratelimiter

import (
	"net/http"
	"testing"

	"github.com/megaease/easegress/pkg/context"
	"github.com/megaease/easegress/pkg/filters"
	"github.com/megaease/easegress/pkg/logger"
	"github.com/megaease/easegress/pkg/protocols/httpprot"
	"github.com/megaease/easegress/pkg/tracing"
	"github.com/megaease/easegress/pkg/util/yamltool"
)

// C13 triage (R-C13-3): `limitRefreshPeriod: 0s` passes validation (format=duration); the first
// matching request panics with an integer divide by zero in acquirePermission.
func TestZZTriageZeroRefreshPeriod(t *testing.T) {
	logger.InitNop()
	const y = `
kind: RateLimiter
name: rl
policies:
- name: p
  limitRefreshPeriod: 0s
  limitForPeriod: 10
defaultPolicyRef: p
urls:
- methods: [GET]
  url:
    prefix: /
`
	rawSpec := map[string]interface{}{}
	yamltool.Unmarshal([]byte(y), &rawSpec)
	spec, err := filters.NewSpec(nil, "", rawSpec)
	if err != nil {
		t.Logf("rejected at validation time (good): %v", err)
		return
	}
	defer func() {
		if r := recover(); r != nil {
			t.Fatalf("accepted spec, but the filter panicked: %v", r)
		}
	}()
	f := kind.CreateInstance(spec)
	f.Init()
	ctx := context.New(tracing.NoopSpan)
	stdr, _ := http.NewRequest(http.MethodGet, "http://example.com/a", nil)
	req, _ := httpprot.NewRequest(stdr)
	ctx.SetInputRequest(req)
	f.Handle(ctx)
}
