package fallback

import (
	"net/http"
	"testing"

	"github.com/megaease/easegress/pkg/context"
	"github.com/megaease/easegress/pkg/filters"
	"github.com/megaease/easegress/pkg/protocols/httpprot"
	"github.com/megaease/easegress/pkg/tracing"
	"github.com/megaease/easegress/pkg/util/yamltool"
)

// C13 triage (R-C13-6): a Fallback filter that runs when no earlier filter produced a
// response (e.g. first filter of the flow, or reached by a jumpIf before the Proxy) must
// return resultResponseNotFound; instead Handle panics in the type assertion.
func TestZZTriageFallbackWithoutResponse(t *testing.T) {
	rawSpec := map[string]interface{}{}
	yamltool.Unmarshal([]byte("kind: Fallback\nname: fb\nmockCode: 200\nmockBody: x\n"), &rawSpec)
	spec, err := filters.NewSpec(nil, "", rawSpec)
	if err != nil {
		t.Fatalf("spec must be valid: %v", err)
	}
	fb := kind.CreateInstance(spec)
	fb.Init()

	ctx := context.New(tracing.NoopSpan)
	stdr, _ := http.NewRequest(http.MethodGet, "http://example.com/", nil)
	req, _ := httpprot.NewRequest(stdr)
	ctx.SetInputRequest(req)

	defer func() {
		if r := recover(); r != nil {
			t.Fatalf("Handle panicked on a context without response: %v", r)
		}
	}()
	if got := fb.Handle(ctx); got != resultResponseNotFound {
		t.Fatalf("want %q, got %q", resultResponseNotFound, got)
	}
}
