package proxy

import (
	"testing"

	"github.com/megaease/easegress/pkg/logger"
	"github.com/megaease/easegress/pkg/object/pipeline"
	"github.com/megaease/easegress/pkg/supervisor"
)

// C13 triage (R-C13-4): a pipeline whose Proxy names a retry policy that is not defined in the
// resilience section passes validation (the admin API stores it) and panics when the pipeline
// object is initialised.
func TestZZTriageDanglingRetryPolicy(t *testing.T) {
	logger.InitNop()
	for _, y := range []string{`
name: pipeline-demo
kind: Pipeline
filters:
- name: proxy
  kind: Proxy
  pools:
  - servers:
    - url: http://127.0.0.1:9095
    retryPolicy: no-such-policy
`, `
name: pipeline-demo
kind: Pipeline
resilience:
- name: cb
  kind: CircuitBreaker
filters:
- name: proxy
  kind: Proxy
  pools:
  - servers:
    - url: http://127.0.0.1:9095
    retryPolicy: cb
`} {
		superSpec, err := supervisor.NewSpec(y)
		if err != nil {
			t.Logf("rejected at validation time (good): %v", err)
			continue
		}
		func() {
			defer func() {
				if r := recover(); r != nil {
					t.Errorf("accepted spec, but Pipeline.Init panicked: %v", r)
				}
			}()
			p := &pipeline.Pipeline{}
			p.Init(superSpec, nil)
			p.Close()
		}()
	}
}
