package requestadaptor

import (
	"testing"

	"github.com/megaease/easegress/pkg/filters"
	"github.com/megaease/easegress/pkg/util/yamltool"
)

// C13 triage (R-C13-1): specs the schema accepts make Init panic.
func TestZZTriageRequestAdaptorInitPanics(t *testing.T) {
	for _, y := range []string{
		"kind: RequestAdaptor\nname: a\ncompress: deflate\n",
		"kind: RequestAdaptor\nname: a\ndecompress: br\n",
		"kind: RequestAdaptor\nname: a\ncompress: gzip\ndecompress: gzip\n",
		"kind: RequestAdaptor\nname: a\nbody: x\ndecompress: gzip\n",
	} {
		rawSpec := map[string]interface{}{}
		yamltool.Unmarshal([]byte(y), &rawSpec)
		spec, err := filters.NewSpec(nil, "", rawSpec)
		if err != nil {
			t.Logf("rejected at validation time (good): %v", err)
			continue
		}
		func() {
			defer func() {
				if r := recover(); r != nil {
					t.Errorf("spec %q was accepted by validation but Init panicked: %v", y, r)
				}
			}()
			kind.CreateInstance(spec).Init()
		}()
	}
}
