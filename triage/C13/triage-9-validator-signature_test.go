package validator

import (
	"net/http"
	"testing"

	"github.com/megaease/easegress/pkg/context"
	"github.com/megaease/easegress/pkg/filters"
	"github.com/megaease/easegress/pkg/logger"
	"github.com/megaease/easegress/pkg/protocols/httpprot"
	"github.com/megaease/easegress/pkg/tracing"
	"github.com/megaease/easegress/pkg/util/yamltool"
)

// C13 triage (R-C13-1): a Validator with a signature section but no accessKeys passes
// validation; every request then panics in Signer.Verify ("access key store must be set").
func TestZZTriageSignatureWithoutAccessKeys(t *testing.T) {
	logger.InitNop()
	const y = `
kind: Validator
name: v
signature:
  accessKeyId: id
  accessKeySecret: secret
`
	rawSpec := map[string]interface{}{}
	yamltool.Unmarshal([]byte(y), &rawSpec)
	spec, err := filters.NewSpec(nil, "", rawSpec)
	if err != nil {
		t.Logf("rejected at validation time (good): %v", err)
		return
	}
	defer func() {
		if r := recover(); r != nil {
			t.Fatalf("accepted spec, but Handle panicked: %v", r)
		}
	}()
	f := kind.CreateInstance(spec)
	f.Init()
	ctx := context.New(tracing.NoopSpan)
	stdr, _ := http.NewRequest(http.MethodGet, "http://example.com/a", nil)
	req, _ := httpprot.NewRequest(stdr)
	ctx.SetInputRequest(req)
	f.Handle(ctx)
}
