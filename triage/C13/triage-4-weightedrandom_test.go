package proxy

import (
	"testing"

	"github.com/megaease/easegress/pkg/filters"
	"github.com/megaease/easegress/pkg/util/yamltool"
)

// C13 triage (R-C13-3): a Proxy spec with loadBalance.policy weightedRandom and servers without
// weights passes validation; the first request panics in rand.Intn(0).
func TestZZTriageWeightedRandomWithoutWeights(t *testing.T) {
	const y = `
kind: Proxy
name: proxy
pools:
- servers:
  - url: http://127.0.0.1:9095
  - url: http://127.0.0.1:9096
  loadBalance:
    policy: weightedRandom
`
	rawSpec := map[string]interface{}{}
	yamltool.Unmarshal([]byte(y), &rawSpec)
	spec, err := filters.NewSpec(nil, "", rawSpec)
	if err != nil {
		t.Logf("rejected at validation time (good): %v", err)
		return
	}
	pool := spec.(*Spec).Pools[0]
	lb := NewLoadBalancer(pool.LoadBalance, pool.Servers)
	defer func() {
		if r := recover(); r != nil {
			t.Fatalf("accepted spec, but ChooseServer panicked: %v", r)
		}
	}()
	if svr := lb.ChooseServer(nil); svr == nil {
		t.Fatalf("no server chosen")
	}
}
