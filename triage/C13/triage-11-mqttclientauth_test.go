package mqttclientauth

import (
	"testing"

	"github.com/eclipse/paho.mqtt.golang/packets"
	"github.com/megaease/easegress/pkg/context"
	_ "github.com/megaease/easegress/pkg/filters/builder"
	"github.com/megaease/easegress/pkg/logger"
	"github.com/megaease/easegress/pkg/object/pipeline"
	_ "github.com/megaease/easegress/pkg/protocols/httpprot"
	"github.com/megaease/easegress/pkg/protocols/mqttprot"
	"github.com/megaease/easegress/pkg/supervisor"
)

// C13 triage (R-C13-6): a pipeline that validation accepts runs MQTTClientAuth in a namespace
// that has (a copy of) the MQTT request but no response; Handle panics in the unguarded
// downcast of ctx.GetOutputResponse() and takes the MQTT client goroutine (the process) down.
func TestZZTriageMQTTClientAuthWithoutResponse(t *testing.T) {
	logger.InitNop()
	const y = `
name: mqtt-pipeline
kind: Pipeline
flow:
- filter: copy
  namespace: other
- filter: cc
  namespace: other
filters:
- name: copy
  kind: RequestBuilder
  sourceNamespace: DEFAULT
- name: cc
  kind: MQTTClientAuth
  auth:
  - username: u
    saltedSha256Pass: x
`
	superSpec, err := supervisor.NewSpec(y)
	if err != nil {
		t.Logf("rejected at validation time (good): %v", err)
		return
	}
	p := &pipeline.Pipeline{}
	p.Init(superSpec, nil)
	defer p.Close()

	// the context MQTTProxy builds for a publish packet (broker.go newContext)
	ctx := context.New(nil)
	packet := packets.NewControlPacket(packets.Connect).(*packets.ConnectPacket)
	packet.ClientIdentifier = "c1"
	ctx.SetRequest(context.DefaultNamespace, mqttprot.NewRequest(packet, &mqttprot.MockClient{MockClientID: "c1"}))
	ctx.SetResponse(context.DefaultNamespace, mqttprot.NewResponse())

	defer func() {
		if r := recover(); r != nil {
			t.Fatalf("accepted pipeline, but handling a connect packet panicked: %v", r)
		}
	}()
	p.Handle(ctx)
}
