package cluster

import (
	"sync"
	"sync/atomic"
	"testing"
	"time"
)

// Triage for R-C18-2: two Mutex values obtained for the SAME name from the SAME member
// (what mesh storage.New / function storage do, each component calling cls.Mutex(name))
// must exclude each other. They do not: every call allocates a fresh process-local
// sync.Mutex, and the etcd concurrency.Mutex is owned per session (one session per
// member), so the second Lock() returns at once while the first holder is still inside.
func TestZZTriageMutexSameNameSameMember(t *testing.T) {
	opts, _, _ := mockMembers(1)
	cls, err := New(opts[0])
	if err != nil {
		t.Fatalf("init failed: %v", err)
	}
	c := cls.(*cluster)
	if _, err = c.getClient(); err != nil {
		t.Fatalf("get ready failed: %v", err)
	}

	const workers = 4
	const rounds = 5
	var inside, maxInside, overlaps int32
	var wg sync.WaitGroup
	for i := 0; i < workers; i++ {
		wg.Add(1)
		go func() {
			defer wg.Done()
			// each component asks the cluster for "the" mutex of the name
			m, err := c.Mutex("zz-shared-name")
			if err != nil {
				t.Errorf("cluster mutex failed: %v", err)
				return
			}
			for r := 0; r < rounds; r++ {
				if err := m.Lock(); err != nil {
					t.Errorf("lock failed: %v", err)
					return
				}
				n := atomic.AddInt32(&inside, 1)
				if n > 1 {
					atomic.AddInt32(&overlaps, 1)
				}
				for {
					old := atomic.LoadInt32(&maxInside)
					if n <= old || atomic.CompareAndSwapInt32(&maxInside, old, n) {
						break
					}
				}
				time.Sleep(20 * time.Millisecond) // hold time
				atomic.AddInt32(&inside, -1)
				if err := m.Unlock(); err != nil {
					t.Logf("unlock: %v", err)
				}
			}
		}()
	}
	wg.Wait()
	if maxInside > 1 {
		t.Fatalf("cluster mutex is not exclusive: up to %d holders of lock %q at the same time on one member (%d overlapping entries in %d acquisitions)",
			maxInside, "zz-shared-name", overlaps, workers*rounds)
	}
}
