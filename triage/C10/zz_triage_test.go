package proxy

// Triage demonstration for property C10 (checker obligation
// R-C10-5|pkg/filters/proxy.(ServerPool).doHandle|response-read failure under the deadline).
//
// A pool with `timeout: 50ms`; the backend sends the response header at once and then
// stalls the body for longer than the timeout. The property demands result "timeout" and
// status 408 ("a backend that does not answer in time yields result timeout (408)");
// the unfixed tree yields "internalError" / 500, so a pipeline's `jumpIf: {timeout: ...}`
// or a fallback on timeout never triggers for slow bodies.
//
//   go test ./pkg/filters/proxy/ -run TestZZTriageBodyTimeout -v

import (
	stdcontext "context"
	"io"
	"net/http"
	"testing"
	"time"

	"github.com/megaease/easegress/pkg/protocols/httpprot"
	"github.com/megaease/easegress/pkg/resilience"
	"github.com/stretchr/testify/assert"
)

// zzStalledBody delivers a first chunk and then blocks until the request context ends,
// exactly like net/http's response body does when the peer stops sending.
type zzStalledBody struct {
	ctx  stdcontext.Context
	sent bool
}

func (s *zzStalledBody) Read(p []byte) (int, error) {
	if !s.sent {
		s.sent = true
		return copy(p, "partial"), nil
	}
	select {
	case <-s.ctx.Done():
		return 0, s.ctx.Err()
	case <-time.After(5 * time.Second):
		return 0, io.EOF
	}
}

func (s *zzStalledBody) Close() error { return nil }

func TestZZTriageBodyTimeout(t *testing.T) {
	assert := assert.New(t)
	proxy := newTestProxy(`
name: proxy
kind: Proxy
pools:
- servers:
  - url: http://127.0.0.1:9095
  timeout: 50ms
`, assert)
	proxy.InjectResiliencePolicy(map[string]resilience.Policy{})
	defer proxy.Close()

	old := fnSendRequest
	defer func() { fnSendRequest = old }()
	fnSendRequest = func(r *http.Request, client *http.Client) (*http.Response, error) {
		return &http.Response{StatusCode: 200, Header: http.Header{}, ContentLength: -1,
			Body: &zzStalledBody{ctx: r.Context()}}, nil
	}

	stdr, _ := http.NewRequest(http.MethodGet, "https://www.megaease.com", nil)
	ctx := getCtx(stdr)
	start := time.Now()
	result := proxy.Handle(ctx)
	elapsed := time.Since(start)
	resp, _ := ctx.GetOutputResponse().(*httpprot.Response)

	t.Logf("result=%q status=%d elapsed=%v", result, resp.StatusCode(), elapsed)
	assert.Less(elapsed, time.Second, "the pool timeout must bound the call")
	assert.Equal(resultTimeout, result, "pool timeout expired while reading the body: result must be timeout")
	assert.Equal(http.StatusRequestTimeout, resp.StatusCode(), "client must see 408")
}
