package validator

// Triage demonstrations for property C06 (not part of the repository's suite).
// Both tests drive the real Validator filter exactly as the HTTP server does:
// httpprot.NewRequest + FetchPayload, then Validator.Handle.

import (
	"bytes"
	"encoding/base64"
	"io"
	"net/http"
	"os"
	"testing"
	"time"

	"github.com/megaease/easegress/pkg/context"
	"github.com/megaease/easegress/pkg/protocols/httpprot"
	"github.com/megaease/easegress/pkg/util/signer"
)

// R-C06-5: parseCredentials splits at every colon and keeps only the second part.
func TestTriageBasicAuthPasswordWithColon(t *testing.T) {
	userFile, err := os.CreateTemp("", "triage-htpasswd")
	check(err)
	defer os.Remove(userFile.Name())
	enc := func(pw string) string {
		h, err := bcryptHash([]byte(pw))
		check(err)
		return h
	}
	// alice's password is "pa"; bob's password contains a colon
	userFile.Write([]byte("alice:" + enc("pa") + "\nbob:" + enc("se:cret") + "\n"))
	v := createValidator(`
kind: Validator
name: validator
basicAuth:
  mode: FILE
  userFile: `+userFile.Name(), nil, nil)
	defer v.Close()

	try := func(creds string) string {
		ctx, header := prepareCtxAndHeader()
		header.Set("Authorization", "Basic "+base64.StdEncoding.EncodeToString([]byte(creds)))
		return v.Handle(ctx)
	}
	if r := try("alice:pa"); r != "" {
		t.Fatalf("sanity: alice:pa must be accepted, got %q", r)
	}
	if r := try("alice:wrong"); r != resultInvalid {
		t.Fatalf("sanity: alice:wrong must be rejected, got %q", r)
	}
	// soundness: the password presented is "pa:anything", not alice's password
	if r := try("alice:pa:anything"); r != resultInvalid {
		t.Errorf("DEFECT: credentials alice:\"pa:anything\" accepted (result %q): the password is cut at the second colon", r)
	}
	// completeness: bob presents exactly his configured password
	if r := try("bob:se:cret"); r != "" {
		t.Errorf("DEFECT: bob with his configured password \"se:cret\" is rejected (result %q)", r)
	}
}

// R-C06-3: Signer.Verify hashes req.Std().Body, which FetchPayload has already drained.
func TestTriageSignatureOverBufferedBody(t *testing.T) {
	v := createValidator(`
kind: Validator
name: validator
signature:
  accessKeys:
    AKID: SECRET
`, nil, nil)

	// an independent client signs a POST with a body
	client := signer.New().SetCredential("AKID", "SECRET")
	newSigned := func(body string) *http.Request {
		r, err := http.NewRequest(http.MethodPost, "http://example.com/orders?x=1", bytes.NewReader([]byte(body)))
		check(err)
		check(client.NewContext(time.Now(), "scope").Sign(r))
		return r
	}
	// what the server does with the request it read from the socket
	maxBody := int64(1 << 20)
	serve := func(r *http.Request, tamper func(req *httpprot.Request)) (string, []byte) {
		req, err := httpprot.NewRequest(r)
		check(err)
		check(req.FetchPayload(maxBody))
		if tamper != nil {
			tamper(req)
		}
		ctx := context.New(nil)
		ctx.SetInputRequest(req)
		res := v.Handle(ctx)
		fwd, _ := io.ReadAll(req.GetPayload())
		return res, fwd
	}

	// sanity: a bodiless signed request passes
	r0, err := http.NewRequest(http.MethodGet, "http://example.com/orders?x=1", nil)
	check(err)
	check(client.NewContext(time.Now(), "scope").Sign(r0))
	if res, _ := serve(r0, nil); res != "" {
		t.Fatalf("sanity: bodiless signed request must be accepted, got %q", res)
	}

	// completeness: a correctly signed request with a body
	res, fwd := serve(newSigned(`{"amount":1}`), nil)
	if res != "" {
		t.Errorf("DEFECT: a correctly signed POST with a body is rejected (result %q): the signature is verified against the drained std body", res)
	}
	if string(fwd) != `{"amount":1}` {
		t.Errorf("forwarded payload changed: %q", fwd)
	}

	// soundness: the body that will be forwarded differs from the signed one
	res, fwd = serve(newSigned(`{"amount":1}`), func(req *httpprot.Request) {
		req.SetPayload([]byte(`{"amount":1000000}`))
	})
	if res != resultInvalid {
		t.Errorf("DEFECT: request accepted although the forwarded body %q is not the signed body", fwd)
	}

	// the signature of the *empty* body is what the filter actually checks: sign an empty
	// body, then attach any body at all — accepted, i.e. the body is not bound
	r := newSigned("")
	r.Body = io.NopCloser(bytes.NewReader([]byte(`{"amount":1000000}`)))
	r.ContentLength = int64(len(`{"amount":1000000}`))
	res, fwd = serve(r, nil)
	if res != resultInvalid {
		t.Errorf("DEFECT: request signed over an empty body is accepted with body %q (result %q): the signature does not bind the forwarded body", fwd, res)
	}

	// stream mode (clientMaxBodySize < 0): the signature is verified, but over the very
	// reader the payload wraps, so nothing is left to forward
	maxBody = -1
	res, fwd = serve(newSigned(`{"amount":1}`), nil)
	if res != "" {
		t.Errorf("stream mode: a correctly signed POST is rejected (result %q)", res)
	}
	if string(fwd) != `{"amount":1}` {
		t.Errorf("DEFECT (stream mode): signature verified but the payload left to forward is %q, not the signed body", fwd)
	}
}
