package mqttproxy

// Triage demonstration for C17 / R-C17-5 "inserted client is run or removed":
// Broker.handleConn inserts the client into Broker.clients and only afterwards writes the CONNACK.
// If that write fails (the peer reset the connection right after sending CONNECT) handleConn
// returns without running client.readLoop, whose deferred teardown is the only code that removes
// the entry. The entry stays forever (status Connected, no goroutine), so every such aborted
// connection permanently consumes one of the maxAllowedConnection slots: capacity released by a
// closed connection does NOT become usable again.

import (
	"bytes"
	"errors"
	"net"
	"testing"
	"time"

	"github.com/eclipse/paho.mqtt.golang/packets"
)

// abortedConn delivers one CONNECT packet and fails every write, like a TCP connection that the
// peer reset immediately after sending CONNECT.
type abortedConn struct {
	r      *bytes.Reader
	closed bool
}

func (c *abortedConn) Read(p []byte) (int, error) { return c.r.Read(p) }
func (c *abortedConn) Write(p []byte) (int, error) {
	return 0, errors.New("write: connection reset by peer")
}
func (c *abortedConn) Close() error                     { c.closed = true; return nil }
func (c *abortedConn) LocalAddr() net.Addr              { return &net.TCPAddr{} }
func (c *abortedConn) RemoteAddr() net.Addr             { return &net.TCPAddr{} }
func (c *abortedConn) SetDeadline(time.Time) error      { return nil }
func (c *abortedConn) SetReadDeadline(time.Time) error  { return nil }
func (c *abortedConn) SetWriteDeadline(time.Time) error { return nil }

func connectBytes(t *testing.T, id string) *bytes.Reader {
	t.Helper()
	cp := packets.NewControlPacket(packets.Connect).(*packets.ConnectPacket)
	cp.ProtocolName = "MQTT"
	cp.ProtocolVersion = 4
	cp.CleanSession = true
	cp.ClientIdentifier = id
	cp.Keepalive = 30
	var buf bytes.Buffer
	if err := cp.Write(&buf); err != nil {
		t.Fatal(err)
	}
	return bytes.NewReader(buf.Bytes())
}

func TestTriageC17AbortedConnectLeaksSlot(t *testing.T) {
	spec := getDefaultSpec()
	spec.MaxAllowedConnection = 2
	broker := getBrokerFromSpec(spec, nil)
	defer broker.close()

	// two clients send CONNECT and vanish before the CONNACK can be written
	for _, id := range []string{"ghost-1", "ghost-2"} {
		conn := &abortedConn{r: connectBytes(t, id)}
		broker.handleConn(conn) // returns: connack write failed
		if !conn.closed {
			t.Fatalf("handleConn did not close the aborted connection")
		}
	}
	time.Sleep(100 * time.Millisecond)

	broker.Lock()
	n := len(broker.clients)
	broker.Unlock()
	if n != 0 {
		t.Errorf("no client is connected, but Broker.clients still holds %d entries: the slots of the aborted connections were never released", n)
	}

	// a well-behaved client is now refused although nobody is connected
	c := getUnConnectClient("honest", "test", "test", true)
	token := c.Connect()
	token.Wait()
	if token.Error() != nil {
		t.Errorf("maxAllowedConnection=2, 0 clients connected, but a new client is refused: %v", token.Error())
	} else {
		c.Disconnect(100)
	}
}
