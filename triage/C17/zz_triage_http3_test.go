package httpserver

// Triage demonstration for C17 / R-C17-3 (HTTP/3 path has no connection cap).
//
// quic-go v0.27.2 does not compile with the sandbox toolchain, so the package is built against the
// type-level http3 stub (see the verifier README: -modfile with the quic stub). The stub's
// ListenAndServe returns immediately; what this test demonstrates against the real runtime code is
// structural but decisive: with http3 enabled the runtime never creates a LimitListener (the only
// mechanism that enforces Spec.MaxConnections), and a later reload with a different maxConnections
// has nothing to resize - while the same spec with http3 disabled gets a listener with exactly the
// configured capacity.

import (
	"testing"
	"time"

	"github.com/megaease/easegress/pkg/context/contexttest"
	"github.com/megaease/easegress/pkg/supervisor"
)

func triageRuntime(t *testing.T, http3 bool, port uint16, maxConn uint32) *runtime {
	t.Helper()
	superSpec, err := supervisor.NewSpec("kind: HTTPServer\nname: triage\nport: 38999\nkeepAlive: true\nhttps: false\n")
	if err != nil {
		t.Fatal(err)
	}
	r := newRuntime(superSpec, &contexttest.MockedMuxMapper{})
	// the spec as it would arrive after validation (https+certs omitted: startServer only reads
	// HTTPS to fetch the tls config, which is irrelevant to the cap)
	r.spec = &Spec{Port: port, KeepAlive: true, HTTP3: http3, MaxConnections: maxConn}
	r.startServer()
	time.Sleep(50 * time.Millisecond)
	return r
}

func TestTriageC17HTTP3HasNoConnectionCap(t *testing.T) {
	// control: HTTP/1+2 server gets a LimitListener
	c := triageRuntime(t, false, 38997, 1)
	if c.limitListener == nil {
		t.Fatalf("control failed: http1/2 server has no LimitListener")
	}
	c.closeServer()

	r := triageRuntime(t, true, 38998, 1)
	if r.server3 == nil {
		t.Fatalf("http3 server not started")
	}
	if r.limitListener == nil {
		t.Errorf("maxConnections=1, http3=true: the HTTP/3 server was started by (*http3.Server).ListenAndServe " +
			"with no LimitListener (runtime.limitListener == nil): nothing counts or holds back QUIC connections, " +
			"so more than maxConnections clients are served concurrently")
	}
	// a run-time change of maxConnections has nothing to act on
	next, err := supervisor.NewSpec("kind: HTTPServer\nname: triage\nport: 38998\nkeepAlive: true\nhttps: false\nmaxConnections: 5\n")
	if err != nil {
		t.Fatal(err)
	}
	ns := next.ObjectSpec().(*Spec)
	ns.HTTP3 = true
	r.reload(next, &contexttest.MockedMuxMapper{})
	if r.limitListener == nil {
		t.Errorf("after reload with maxConnections=5 there is still no limiter for the HTTP/3 server: the new cap is ignored")
	}
}
