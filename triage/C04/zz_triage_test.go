package proxy

// Triage demonstration for C04 / R-C04-6 (verification framework, not part of easegress):
// a Proxy spec that filters.NewSpec accepts (JSON schema + Spec.Validate +
// ServerPoolSpec.Validate) with `policy: weightedRandom` and servers that carry no weight
// (the default, weight 0) panics on the first request: rand.Intn(0).

import (
	"io"
	"net/http"
	"strings"
	"testing"

	"github.com/megaease/easegress/pkg/resilience"
	"github.com/stretchr/testify/assert"
)

func TestTriageC04WeightedRandomAllZeroWeights(t *testing.T) {
	assert := assert.New(t)

	const yamlSpec = `
name: proxy
kind: Proxy
pools:
- servers:
  - url: http://127.0.0.1:9095
  - url: http://127.0.0.1:9096
  loadBalance:
    policy: weightedRandom
`
	// accepted by validation (newTestProxy asserts NewSpec returned no error)
	proxy := newTestProxy(yamlSpec, assert)
	proxy.InjectResiliencePolicy(make(map[string]resilience.Policy))

	saved := fnSendRequest
	defer func() { fnSendRequest = saved }()
	targets := map[string]int{}
	fnSendRequest = func(r *http.Request, client *http.Client) (*http.Response, error) {
		targets[r.URL.Host]++
		return &http.Response{Header: http.Header{}, Body: io.NopCloser(strings.NewReader("ok"))}, nil
	}

	// 1. the balancer itself
	lb := proxy.mainPool.LoadBalancer()
	func() {
		defer func() {
			if r := recover(); r != nil {
				t.Errorf("ChooseServer panicked for a pool that validation accepted: %v", r)
			}
		}()
		if svr := lb.ChooseServer(nil); svr == nil {
			t.Errorf("ChooseServer returned nil for a non-empty list")
		}
	}()

	// 2. a request through the filter
	func() {
		defer func() {
			if r := recover(); r != nil {
				t.Errorf("Proxy.Handle panicked for a pool that validation accepted: %v", r)
			}
		}()
		for i := 0; i < 200; i++ {
			stdr, _ := http.NewRequest(http.MethodGet, "https://www.megaease.com", nil)
			ctx := getCtx(stdr)
			assert.Equal("", proxy.Handle(ctx))
		}
		if len(targets) != 2 {
			t.Errorf("with equal (zero) weights both servers should receive traffic, got %v", targets)
		}
	}()
}
