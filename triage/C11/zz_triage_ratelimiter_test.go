package ratelimiter

// Triage demonstration for R-C11-3 (property C11): RateLimiter.Inherit mutates the
// previous generation (prev.rl = nil), so a request that is still handled by the old
// generation after the new one inherited from it dereferences a nil *RateLimiter.
// Put this file into pkg/filters/ratelimiter/ and run
//   go test -run TestTriageOldGenerationAfterInherit ./pkg/filters/ratelimiter/

import (
	"net/http"
	"testing"

	"github.com/megaease/easegress/pkg/context"
	"github.com/megaease/easegress/pkg/filters"
	"github.com/megaease/easegress/pkg/logger"
	"github.com/megaease/easegress/pkg/protocols/httpprot"
	"github.com/megaease/easegress/pkg/util/yamltool"
)

func init() { logger.InitNop() }

const triageYAML = `
kind: RateLimiter
name: rl
policies:
- name: p
  limitForPeriod: 100
  limitRefreshPeriod: 10ms
  timeoutDuration: 10ms
defaultPolicyRef: p
urls:
- methods: [GET]
  url:
    prefix: /
  policyRef: p
`

func triageNew(t *testing.T) *RateLimiter {
	rawSpec := map[string]interface{}{}
	yamltool.Unmarshal([]byte(triageYAML), &rawSpec)
	spec, err := filters.NewSpec(nil, "pipeline", rawSpec)
	if err != nil {
		t.Fatalf("spec: %v", err)
	}
	return kind.CreateInstance(spec).(*RateLimiter)
}

func triageHandle(t *testing.T, rl *RateLimiter) (result string, panicked interface{}) {
	defer func() { panicked = recover() }()
	stdr, _ := http.NewRequest(http.MethodGet, "http://example.com/a", nil)
	req, _ := httpprot.NewRequest(stdr)
	ctx := context.New(nil)
	ctx.SetInputRequest(req)
	return rl.Handle(ctx), nil
}

func TestTriageOldGenerationAfterInherit(t *testing.T) {
	oldGen := triageNew(t)
	oldGen.Init()
	if _, p := triageHandle(t, oldGen); p != nil {
		t.Fatalf("old generation before the update: panic %v", p)
	}

	// the update: same spec semantics, new generation inherits from the old one.
	// (Pipeline.reload calls filter.Inherit(prev) while the old pipeline is still the one
	// published in the TrafficController, and in-flight requests keep the old one anyway.)
	newGen := triageNew(t)
	newGen.Inherit(oldGen)

	if _, p := triageHandle(t, newGen); p != nil {
		t.Fatalf("new generation: panic %v", p)
	}
	if _, p := triageHandle(t, oldGen); p != nil {
		t.Fatalf("request on the old generation after Inherit panicked: %v", p)
	}
}
