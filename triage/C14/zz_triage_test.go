package mqttproxy

import (
	"fmt"
	"testing"
	"time"

	paho "github.com/eclipse/paho.mqtt.golang"
	"github.com/eclipse/paho.mqtt.golang/packets"
)

// zzBroker starts a broker on its own port (the package's tests all use 1883, which may be
// taken when several test binaries run on one machine) and returns a connect function.
func zzBroker(t *testing.T, port int) (*Broker, func(cid string, h paho.MessageHandler) paho.Client) {
	spec := getDefaultSpec()
	spec.Port = uint16(port)
	broker := getBrokerFromSpec(spec, &mockMuxMapper{})
	if broker == nil {
		t.Fatalf("cannot listen on port %d", port)
	}
	return broker, func(cid string, h paho.MessageHandler) paho.Client {
		opts := paho.NewClientOptions().AddBroker(fmt.Sprintf("tcp://127.0.0.1:%d", port)).SetClientID(cid).
			SetUsername("test").SetPassword("test").SetCleanSession(true)
		if h != nil {
			opts.SetDefaultPublishHandler(h)
		}
		c := paho.NewClient(opts)
		if token := c.Connect(); token.Wait() && token.Error() != nil {
			t.Fatalf("connect %s: %v", cid, token.Error())
		}
		return c
	}
}

// C14 triage, defect 1: a SUBSCRIBE whose batch contains a malformed filter is rejected
// (error, no SUBACK, nothing recorded in the session) but the well-formed filters that
// precede the malformed one stay in the routing trie - and survive the disconnect, because
// closeAndDelSession only unsubscribes the filters recorded in the session.
func TestZZTriageC14PartialSubscribe(t *testing.T) {
	// TopicManager level: subscribe reports failure yet the trie has changed
	mgr := newTopicManager(100)
	if err := mgr.subscribe([]string{"a/b", "a/#/c"}, []byte{1, 1}, "A"); err == nil {
		t.Fatal("malformed filter a/#/c accepted")
	}
	if subs, _ := mgr.findSubscribers("a/b"); len(subs) != 0 {
		t.Errorf("TopicManager.subscribe returned an error but routes a/b to %v", subs)
	}

	// broker level: same batch through the SUBSCRIBE handler, then disconnect
	broker, connect := zzBroker(t, 18914)
	defer broker.close()
	cid := "zzPartialSub"
	client := connect(cid, nil)
	c := broker.getClient(cid)
	if c == nil {
		t.Fatal("no server side client")
	}
	sub := packets.NewControlPacket(packets.Subscribe).(*packets.SubscribePacket)
	sub.MessageID = 7
	sub.Topics = []string{"zz/partial", "zz/#/bad"}
	sub.Qoss = []byte{1, 1}
	processSubscribe(c, sub)
	topics, _, _ := c.session.allSubscribes()
	if len(topics) != 0 {
		t.Fatalf("rejected SUBSCRIBE recorded in session: %v", topics)
	}
	client.Disconnect(200)
	time.Sleep(300 * time.Millisecond)
	c.closeAndDelSession()
	if subs, _ := broker.topicMgr.findSubscribers("zz/partial"); len(subs) != 0 {
		t.Errorf("after a rejected SUBSCRIBE and the client's disconnect, zz/partial is still routed to %v", subs)
	}
}

// C14 triage, defect 2: an UNSUBSCRIBE whose batch contains a malformed filter stops at it;
// the well-formed filters after it stay in the routing trie although the session forgets the
// whole batch and the client gets its UNSUBACK. The client keeps receiving the topic, and
// the entry survives the disconnect.
func TestZZTriageC14PartialUnsubscribe(t *testing.T) {
	mgr := newTopicManager(100)
	mgr.subscribe([]string{"a/b"}, []byte{1}, "A")
	mgr.unsubscribe([]string{"a/#/c", "a/b"}, "A")
	if subs, _ := mgr.findSubscribers("a/b"); len(subs) != 0 {
		t.Errorf("TopicManager.unsubscribe([a/#/c a/b]) left a/b routed to %v", subs)
	}

	broker, connect := zzBroker(t, 18915)
	defer broker.close()
	cid := "zzPartialUnsub"
	got := make(chan string, 10)
	client := connect(cid, func(_ paho.Client, m paho.Message) { got <- m.Topic() })
	if token := client.Subscribe("zz/keep", 1, nil); token.Wait() && token.Error() != nil {
		t.Fatal(token.Error())
	}
	if token := client.Unsubscribe("zz/#/bad", "zz/keep"); token.Wait() && token.Error() != nil {
		t.Fatal(token.Error())
	}
	c := broker.getClient(cid)
	topics, _, _ := c.session.allSubscribes()
	if len(topics) != 0 {
		t.Fatalf("session still has %v", topics)
	}
	if subs, _ := broker.topicMgr.findSubscribers("zz/keep"); len(subs) != 0 {
		t.Errorf("UNSUBACK sent and session cleared, but zz/keep is still routed to %v", subs)
	}
	broker.sendMsgToClient(nil, "zz/keep", []byte("x"), 1)
	select {
	case tp := <-got:
		t.Errorf("client received %s after its UNSUBSCRIBE was acknowledged", tp)
	case <-time.After(500 * time.Millisecond):
	}
	client.Disconnect(200)
	time.Sleep(300 * time.Millisecond)
	c.closeAndDelSession()
	if subs, _ := broker.topicMgr.findSubscribers("zz/keep"); len(subs) != 0 {
		t.Errorf("after disconnect zz/keep is still routed to %v (permanent residue)", subs)
	}
}
