package mqttproxy

// Demonstration for defect "reconnectWatcher closes every connected client" (fix-7).
//
// Broker.reconnectWatcher lists the stored sessions with getPrefix(sessionStoreKey(""), true) - a map
// keyed by FULL storage keys - and then looks the bare client ids of Broker.clients up in it. The
// lookup never succeeds, so after every watcher reconnect all connected clients are closed, not
// only those whose session was deleted while the watcher was down.

import (
	"fmt"
	"net"
	"testing"
	"time"

	"github.com/eclipse/paho.mqtt.golang/packets"
)

const fix7Port = 18167

func fix7Connect(t *testing.T, cid string) net.Conn {
	conn, err := net.Dial("tcp", fmt.Sprintf("127.0.0.1:%d", fix7Port))
	if err != nil {
		t.Fatalf("dial: %v", err)
	}
	c := packets.NewControlPacket(packets.Connect).(*packets.ConnectPacket)
	c.ProtocolName = "MQTT"
	c.ProtocolVersion = 4
	c.CleanSession = false
	c.ClientIdentifier = cid
	if err := c.Write(conn); err != nil {
		t.Fatalf("write connect: %v", err)
	}
	conn.SetReadDeadline(time.Now().Add(3 * time.Second))
	p, err := packets.ReadPacket(conn)
	if err != nil {
		t.Fatalf("read connack: %v", err)
	}
	if ack, ok := p.(*packets.ConnackPacket); !ok || ack.ReturnCode != packets.Accepted {
		t.Fatalf("unexpected connack %v", p)
	}
	return conn
}

func TestFix7ReconnectWatcherKeepsClientsWithStoredSession(t *testing.T) {
	spec := getDefaultSpec()
	spec.Port = fix7Port
	broker := getBrokerFromSpec(spec, &mockMuxMapper{})
	if broker == nil {
		t.Fatalf("broker did not start on port %d", fix7Port)
	}
	defer broker.close()

	const kept, deleted = "fix7-kept", "fix7-deleted"
	c1 := fix7Connect(t, kept)
	defer c1.Close()
	c2 := fix7Connect(t, deleted)
	defer c2.Close()
	for _, id := range []string{kept, deleted} {
		if err := checkSessionStore(broker, id, ""); err != nil {
			t.Fatalf("precondition: session of %s not stored: %v", id, err)
		}
	}
	keptClient, deletedClient := broker.getClient(kept), broker.getClient(deleted)
	if keptClient == nil || deletedClient == nil {
		t.Fatalf("precondition: clients not registered")
	}

	// the session of one client disappears from the storage while the watcher is down
	// (written directly into the mock so that no watch event is produced)
	ms := broker.sessMgr.store.(*mockStorage)
	ms.mu.Lock()
	delete(ms.store, sessionStoreKey(deleted))
	ms.mu.Unlock()

	// the watch channel broke: watchDelete starts reconnectWatcher, which re-checks all clients
	broker.reconnectWatcher()

	if !deletedClient.disconnected() {
		t.Errorf("the client whose session was deleted while the watcher was down must be closed")
	}
	if keptClient.disconnected() {
		t.Errorf("reconnectWatcher closed client %q although its session is still stored: the stored-session listing is keyed by storage keys (%q) but is looked up with bare client ids", kept, sessionStoreKey(kept))
	}
}
