package mqttproxy

// Demonstration for defect "a very late teardown of a superseded connection deletes its
// successor's stored session" (fix-8).
//
// Client.closeAndDelSession runs the teardown keyed by client id when the connection is still the
// registered one OR when nothing is registered under the id (`!ok || cur == c`). The second arm
// also holds for a superseded connection A whose successor B has meanwhile disconnected and been
// removed from Broker.clients: A's teardown then deletes (A being a clean-session connection) the
// stored session B left behind for its next cleanSession=false reconnect.
//
// Raw MQTT over TCP; EOF on a socket means that connection's teardown in the broker has completed.

import (
	"fmt"
	"io"
	"net"
	"testing"
	"time"

	"github.com/eclipse/paho.mqtt.golang/packets"
)

const fix8Port = 18168

func fix8Connect(t *testing.T, cid string, clean bool) net.Conn {
	conn, err := net.Dial("tcp", fmt.Sprintf("127.0.0.1:%d", fix8Port))
	if err != nil {
		t.Fatalf("dial: %v", err)
	}
	c := packets.NewControlPacket(packets.Connect).(*packets.ConnectPacket)
	c.ProtocolName = "MQTT"
	c.ProtocolVersion = 4
	c.CleanSession = clean
	c.ClientIdentifier = cid
	if err := c.Write(conn); err != nil {
		t.Fatalf("write connect: %v", err)
	}
	conn.SetReadDeadline(time.Now().Add(3 * time.Second))
	p, err := packets.ReadPacket(conn)
	if err != nil {
		t.Fatalf("read connack: %v", err)
	}
	if ack, ok := p.(*packets.ConnackPacket); !ok || ack.ReturnCode != packets.Accepted {
		t.Fatalf("unexpected connack %v", p)
	}
	return conn
}

func fix8Subscribe(t *testing.T, conn net.Conn, topic string) {
	s := packets.NewControlPacket(packets.Subscribe).(*packets.SubscribePacket)
	s.MessageID = 3
	s.Topics = []string{topic}
	s.Qoss = []byte{1}
	s.Qos = 1
	if err := s.Write(conn); err != nil {
		t.Fatalf("write subscribe: %v", err)
	}
	conn.SetReadDeadline(time.Now().Add(3 * time.Second))
	if p, err := packets.ReadPacket(conn); err != nil {
		t.Fatalf("read suback: %v", err)
	} else if _, ok := p.(*packets.SubackPacket); !ok {
		t.Fatalf("expected suback, got %v", p)
	}
}

// fix8WaitEOF waits until the broker has closed its side: the connection's teardown is complete.
func fix8WaitEOF(t *testing.T, conn net.Conn) {
	conn.SetReadDeadline(time.Now().Add(5 * time.Second))
	buf := make([]byte, 64)
	for {
		_, err := conn.Read(buf)
		if err == io.EOF {
			return
		}
		if err != nil {
			t.Fatalf("connection was not closed by the broker: %v", err)
		}
	}
}

func TestFix8LateTeardownOfSupersededConnectionKeepsSuccessorsStoredSession(t *testing.T) {
	spec := getDefaultSpec()
	spec.Port = fix8Port
	broker := getBrokerFromSpec(spec, &mockMuxMapper{})
	if broker == nil {
		t.Fatalf("broker did not start on port %d", fix8Port)
	}
	defer broker.close()
	const cid, topic = "fix8-dev", "fix8/t"

	// A: clean-session connection; its TCP peer goes silent, the broker has not noticed yet
	connA := fix8Connect(t, cid, true)
	defer connA.Close()

	// B: the device reconnects with a persistent session and takes the id over
	connB := fix8Connect(t, cid, false)
	defer connB.Close()
	fix8Subscribe(t, connB, topic)
	if err := checkSessionStore(broker, cid, topic); err != nil {
		// the asynchronous stores may be reordered; all that matters below is that a session is stored
		if err := checkSessionStore(broker, cid, ""); err != nil {
			t.Fatalf("precondition: B's session not stored: %v", err)
		}
	}

	// B disconnects regularly and is completely torn down; its session stays stored for the next
	// cleanSession=false connect
	dis := packets.NewControlPacket(packets.Disconnect).(*packets.DisconnectPacket)
	if err := dis.Write(connB); err != nil {
		t.Fatalf("write disconnect: %v", err)
	}
	fix8WaitEOF(t, connB)
	if broker.getClient(cid) != nil {
		t.Fatalf("precondition: B should be unregistered after its teardown")
	}
	if str, err := broker.sessMgr.store.get(sessionStoreKey(cid)); err != nil || str == nil {
		t.Fatalf("precondition: B's stored session must survive B's own teardown")
	}

	// only now the broker notices the end of the superseded connection A (one more packet arrives)
	ping := packets.NewControlPacket(packets.Pingreq).(*packets.PingreqPacket)
	if err := ping.Write(connA); err != nil {
		t.Fatalf("write ping on the superseded connection: %v", err)
	}
	fix8WaitEOF(t, connA)

	if str, err := broker.sessMgr.store.get(sessionStoreKey(cid)); err != nil || str == nil {
		t.Errorf("the late teardown of the superseded connection deleted the stored session of its successor: a cleanSession=false reconnect starts without its subscriptions")
	}
}
