package mqttproxy

// Triage demonstration for verification property C16 (rule R-C16-3): when a new connection takes
// over a client id, the teardown of the superseded connection - whenever its read loop notices
// its end - must not remove the new connection's session, subscriptions or registration.
//
// The tests speak raw MQTT over TCP so that the moment at which the old connection's read loop
// ends is controlled: after the takeover the old connection sends one more packet (PINGREQ); the
// broker's read loop for that connection processes it, sees that it was closed, runs its deferred
// teardown and only then handleConn's deferred conn.Close() runs. EOF on the old socket therefore
// means "the superseded connection's teardown has completed" - no sleeps are involved.

import (
	"fmt"
	"io"
	"net"
	"testing"
	"time"

	"github.com/eclipse/paho.mqtt.golang/packets"
)

const zzPort = 18163

func zzBroker(t *testing.T) *Broker {
	spec := getDefaultSpec()
	spec.Port = zzPort
	b := getBrokerFromSpec(spec, &mockMuxMapper{})
	if b == nil {
		t.Fatalf("broker did not start on port %d", zzPort)
	}
	return b
}

func zzConnect(t *testing.T, cid string, clean bool) net.Conn {
	conn, err := net.Dial("tcp", fmt.Sprintf("127.0.0.1:%d", zzPort))
	if err != nil {
		t.Fatalf("dial: %v", err)
	}
	c := packets.NewControlPacket(packets.Connect).(*packets.ConnectPacket)
	c.ProtocolName = "MQTT"
	c.ProtocolVersion = 4
	c.CleanSession = clean
	c.ClientIdentifier = cid
	c.Keepalive = 0
	if err := c.Write(conn); err != nil {
		t.Fatalf("write connect: %v", err)
	}
	conn.SetReadDeadline(time.Now().Add(3 * time.Second))
	p, err := packets.ReadPacket(conn)
	if err != nil {
		t.Fatalf("read connack: %v", err)
	}
	ack, ok := p.(*packets.ConnackPacket)
	if !ok || ack.ReturnCode != packets.Accepted {
		t.Fatalf("unexpected connack %v", p)
	}
	return conn
}

func zzSubscribe(t *testing.T, conn net.Conn, topic string, qos byte) {
	s := packets.NewControlPacket(packets.Subscribe).(*packets.SubscribePacket)
	s.MessageID = 7
	s.Topics = []string{topic}
	s.Qoss = []byte{qos}
	s.Qos = 1
	if err := s.Write(conn); err != nil {
		t.Fatalf("write subscribe: %v", err)
	}
	conn.SetReadDeadline(time.Now().Add(3 * time.Second))
	p, err := packets.ReadPacket(conn)
	if err != nil {
		t.Fatalf("read suback: %v", err)
	}
	if _, ok := p.(*packets.SubackPacket); !ok {
		t.Fatalf("expected suback, got %v", p)
	}
}

// zzEndOldConnection makes the superseded connection's read loop notice its end and waits until
// the broker has finished the teardown of that connection (EOF on the socket).
func zzEndOldConnection(t *testing.T, old net.Conn) {
	ping := packets.NewControlPacket(packets.Pingreq).(*packets.PingreqPacket)
	if err := ping.Write(old); err != nil {
		t.Fatalf("write ping on old connection: %v", err)
	}
	old.SetReadDeadline(time.Now().Add(5 * time.Second))
	buf := make([]byte, 64)
	for {
		_, err := old.Read(buf)
		if err == io.EOF {
			return
		}
		if err != nil {
			t.Fatalf("old connection was not closed by the broker: %v", err)
		}
	}
}

func zzExpectPublish(t *testing.T, conn net.Conn, topic string) bool {
	conn.SetReadDeadline(time.Now().Add(1500 * time.Millisecond))
	for {
		p, err := packets.ReadPacket(conn)
		if err != nil {
			return false
		}
		if pub, ok := p.(*packets.PublishPacket); ok && pub.TopicName == topic {
			return true
		}
	}
}

// Both connections use cleanSession=false (the normal IoT reconnect: the device reconnects before
// the broker has noticed the dead TCP connection).
func TestZZTriageTakeoverPersistentSession(t *testing.T) {
	broker := zzBroker(t)
	defer broker.close()
	const cid, topic = "zz-dev-1", "zz/t/1"

	oldConn := zzConnect(t, cid, false)
	defer oldConn.Close()
	zzSubscribe(t, oldConn, topic, 1)

	newConn := zzConnect(t, cid, false) // takeover; the session (and its subscription) is reused
	defer newConn.Close()
	zzSubscribe(t, newConn, topic, 1) // devices re-subscribe after reconnecting

	newClient := broker.getClient(cid)
	if newClient == nil {
		t.Fatalf("new connection is not registered")
	}
	if subs, _ := broker.topicMgr.findSubscribers(topic); len(subs) != 1 {
		t.Fatalf("precondition: expected the new connection to be subscribed, got %v", subs)
	}

	zzEndOldConnection(t, oldConn)

	// 1. the new connection's subscription must still be there
	subs, _ := broker.topicMgr.findSubscribers(topic)
	if _, ok := subs[cid]; !ok {
		t.Errorf("teardown of the superseded connection removed the new connection's subscription to %s (subscribers now: %v)", topic, subs)
	}
	// 2. the new connection's session must still be registered and alive (its resend loop running)
	if _, ok := broker.sessMgr.sessionMap.Load(cid); !ok {
		t.Errorf("teardown of the superseded connection removed the new connection's session from the session manager")
	}
	select {
	case <-newClient.session.done:
		t.Errorf("teardown of the superseded connection closed the new connection's session (QoS1 retransmission stopped)")
	default:
	}
	// 3. the registration is untouched
	if broker.getClient(cid) != newClient {
		t.Errorf("the new connection is no longer registered in the broker")
	}
	// 4. end to end: a message for the topic still reaches the surviving connection
	broker.sendMsgToClient(nil, topic, []byte("hello"), QoS1)
	if !zzExpectPublish(t, newConn, topic) {
		t.Errorf("the surviving connection did not receive a message published to %s after the old connection was torn down", topic)
	}
}

// The superseded connection had cleanSession=true, the new one asks for a persistent session.
func TestZZTriageTakeoverCleanOldPersistentNew(t *testing.T) {
	broker := zzBroker(t)
	defer broker.close()
	const cid, topic = "zz-dev-2", "zz/t/2"

	oldConn := zzConnect(t, cid, true)
	defer oldConn.Close()
	zzSubscribe(t, oldConn, topic, 1)

	newConn := zzConnect(t, cid, false) // takeover with a fresh persistent session
	defer newConn.Close()
	zzSubscribe(t, newConn, topic, 1)
	newClient := broker.getClient(cid)

	// wait until the new session has been persisted (the store is asynchronous)
	if err := checkSessionStore(broker, cid, ""); err != nil {
		t.Fatalf("precondition: new session was not persisted: %v", err)
	}

	zzEndOldConnection(t, oldConn)

	if str, err := broker.sessMgr.store.get(sessionStoreKey(cid)); err != nil || str == nil {
		t.Errorf("teardown of the superseded (clean) connection deleted the persisted copy of the new connection's session")
	}
	// the storage deletion is watched and disconnects whoever is registered under the id
	time.Sleep(300 * time.Millisecond)
	if newClient.disconnected() {
		t.Errorf("the new connection was disconnected as a consequence of the superseded connection's teardown")
	}
	if broker.getClient(cid) != newClient {
		t.Errorf("the new connection is no longer registered in the broker")
	}
	broker.sendMsgToClient(nil, topic, []byte("hello"), QoS1)
	if !zzExpectPublish(t, newConn, topic) {
		t.Errorf("the surviving connection did not receive a message published to %s after the old connection was torn down", topic)
	}
}

// A takeover with cleanSession=true discards the previous session: the new connection must not
// receive messages for subscriptions it never made - neither before nor after the superseded
// connection's teardown.
func TestZZTriageTakeoverCleanNewDiscardsSubscriptions(t *testing.T) {
	broker := zzBroker(t)
	defer broker.close()
	const cid, topic = "zz-dev-3", "zz/t/3"

	oldConn := zzConnect(t, cid, false)
	defer oldConn.Close()
	zzSubscribe(t, oldConn, topic, 1)

	newConn := zzConnect(t, cid, true) // takeover, previous session discarded
	defer newConn.Close()
	// a round trip on the new connection: handleConn has finished its set-up
	zzSubscribe(t, newConn, "zz/other", 1)

	if subs, _ := broker.topicMgr.findSubscribers(topic); len(subs) != 0 {
		t.Errorf("after a takeover with cleanSession=true the discarded session's subscription to %s is still in the topic tree: %v", topic, subs)
	}
	broker.sendMsgToClient(nil, topic, []byte("hello"), QoS1)
	if zzExpectPublish(t, newConn, topic) {
		t.Errorf("the clean-session connection received a message for a subscription of the discarded session")
	}

	zzEndOldConnection(t, oldConn)

	if subs, _ := broker.topicMgr.findSubscribers(topic); len(subs) != 0 {
		t.Errorf("after the superseded connection's teardown the discarded session's subscription is still there: %v", subs)
	}
	if subs, _ := broker.topicMgr.findSubscribers("zz/other"); len(subs) != 1 {
		t.Errorf("the new connection's own subscription was removed by the superseded connection's teardown: %v", subs)
	}
}
