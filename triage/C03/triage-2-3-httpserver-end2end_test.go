package httpserver

// Triage demonstration for R-C03-6 (b): filters that replace the payload of the backend's
// response without touching its Content-Length header make the gateway send an ill-framed
// response. End to end: real backend, real Proxy filter, real ResponseAdaptor / RemoteFilter,
// real mux write-out on a loopback listener, real HTTP client.

import (
	"encoding/json"
	"fmt"
	"io"
	"net/http"
	"net/http/httptest"
	"strconv"
	"testing"

	"github.com/megaease/easegress/pkg/context"
	"github.com/megaease/easegress/pkg/context/contexttest"
	"github.com/megaease/easegress/pkg/filters"
	_ "github.com/megaease/easegress/pkg/filters/proxy"
	_ "github.com/megaease/easegress/pkg/filters/remotefilter"
	_ "github.com/megaease/easegress/pkg/filters/responseadaptor"
	"github.com/megaease/easegress/pkg/logger"
	"github.com/megaease/easegress/pkg/protocols/httpprot/httpstat"
	"github.com/megaease/easegress/pkg/resilience"
	"github.com/megaease/easegress/pkg/supervisor"
	"gopkg.in/yaml.v2"
)

func triageFilter(t *testing.T, yamlSpec string) filters.Filter {
	rawSpec := make(map[string]interface{})
	if err := yaml.Unmarshal([]byte(yamlSpec), &rawSpec); err != nil {
		t.Fatal(err)
	}
	spec, err := filters.NewSpec(nil, "", rawSpec)
	if err != nil {
		t.Fatal(err)
	}
	f := filters.GetKind(spec.Kind()).CreateInstance(spec)
	f.Init()
	if r, ok := f.(interface {
		InjectResiliencePolicy(map[string]resilience.Policy)
	}); ok {
		r.InjectResiliencePolicy(map[string]resilience.Policy{})
	}
	return f
}

const triageBackendBody = "hello from the backend"

// triageGateway serves a pipeline "Proxy → second" through the real mux and returns what
// a real client sees.
func triageGateway(t *testing.T, second func(backendURL string) filters.Filter) (status int, declared string, body []byte, readErr error) {
	logger.InitNop()
	backend := httptest.NewServer(http.HandlerFunc(func(w http.ResponseWriter, r *http.Request) {
		w.Header().Set("Content-Length", strconv.Itoa(len(triageBackendBody)))
		io.WriteString(w, triageBackendBody)
	}))
	defer backend.Close()

	proxy := triageFilter(t, fmt.Sprintf(`
name: proxy
kind: Proxy
pools:
- servers:
  - url: %s
`, backend.URL))
	defer proxy.Close()
	next := second(backend.URL)
	defer next.Close()

	mm := &contexttest.MockedMuxMapper{}
	mm.MockedGetHandler = func(name string) (context.Handler, bool) {
		return &contexttest.MockedHandler{MockedHandle: func(ctx *context.Context) string {
			if res := proxy.Handle(ctx); res != "" {
				return res
			}
			return next.Handle(ctx)
		}}, true
	}
	m := newMux(httpstat.New(), httpstat.NewTopN(10), mm)
	superSpec, err := supervisor.NewSpec(`
kind: HTTPServer
name: test
port: 8080
rules:
- paths:
  - pathPrefix: /
    backend: p
`)
	if err != nil {
		t.Fatal(err)
	}
	m.reload(superSpec, mm)

	gateway := httptest.NewServer(m)
	defer gateway.Close()

	resp, err := http.Get(gateway.URL + "/x")
	if err != nil {
		t.Fatal(err)
	}
	defer resp.Body.Close()
	body, readErr = io.ReadAll(resp.Body)
	return resp.StatusCode, resp.Header.Get("Content-Length"), body, readErr
}

func triageCheck(t *testing.T, want string, status int, declared string, body []byte, readErr error) {
	t.Logf("status=%d declared Content-Length=%q received %d bytes %q readErr=%v", status, declared, len(body), body, readErr)
	if readErr != nil {
		t.Fatalf("ill-framed response: %v", readErr)
	}
	if declared != "" && declared != strconv.Itoa(len(body)) {
		t.Fatalf("declared Content-Length %s but %d body bytes", declared, len(body))
	}
	if string(body) != want {
		t.Fatalf("client received %q, want %q", body, want)
	}
}

// ResponseAdaptor with `body:` longer than the backend's body.
func TestTriageC03ResponseAdaptorBodyLonger(t *testing.T) {
	const newBody = "this body was written by the ResponseAdaptor filter and is longer"
	st, cl, body, err := triageGateway(t, func(string) filters.Filter {
		return triageFilter(t, "name: ra\nkind: ResponseAdaptor\nbody: \""+newBody+"\"\n")
	})
	triageCheck(t, newBody, st, cl, body, err)
}

// ResponseAdaptor with `body:` shorter than the backend's body.
func TestTriageC03ResponseAdaptorBodyShorter(t *testing.T) {
	const newBody = "short"
	st, cl, body, err := triageGateway(t, func(string) filters.Filter {
		return triageFilter(t, "name: ra\nkind: ResponseAdaptor\nbody: \""+newBody+"\"\n")
	})
	triageCheck(t, newBody, st, cl, body, err)
}

// RemoteFilter whose remote side rewrites the response body (and, as the JSON protocol
// carries the body length implicitly, returns no Content-Length header).
func TestTriageC03RemoteFilterBody(t *testing.T) {
	const newBody = "body rewritten by the remote filter service"
	remote := httptest.NewServer(http.HandlerFunc(func(w http.ResponseWriter, r *http.Request) {
		var ent map[string]map[string]interface{}
		if err := json.NewDecoder(r.Body).Decode(&ent); err != nil {
			w.WriteHeader(500)
			return
		}
		ent["response"]["body"] = []byte(newBody)
		ent["response"]["header"] = map[string][]string{"X-Remote": {"1"}}
		json.NewEncoder(w).Encode(ent)
	}))
	defer remote.Close()
	st, cl, body, err := triageGateway(t, func(string) filters.Filter {
		return triageFilter(t, "name: rf\nkind: RemoteFilter\nurl: "+remote.URL+"\n")
	})
	triageCheck(t, newBody, st, cl, body, err)
}
