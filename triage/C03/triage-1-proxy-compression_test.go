package proxy

// Triage demonstration for R-C03-6 (a): compression.compress swaps resp.Body for a gzip
// reader but leaves resp.ContentLength at the length of the uncompressed body, so
// Response.FetchPayload reads exactly that many bytes from the compressed stream.

import (
	"bytes"
	"compress/gzip"
	"fmt"
	"io"
	"math/rand"
	"net/http"
	"net/http/httptest"
	"strconv"
	"strings"
	"testing"

	"github.com/megaease/easegress/pkg/protocols/httpprot"
	"github.com/megaease/easegress/pkg/resilience"
	"github.com/stretchr/testify/assert"
)

func triageProxyRoundTrip(t *testing.T, body []byte) (result string, status int, payload []byte, header http.Header) {
	backend := httptest.NewServer(http.HandlerFunc(func(w http.ResponseWriter, r *http.Request) {
		w.Header().Set("Content-Type", "text/plain")
		w.Header().Set("Content-Length", strconv.Itoa(len(body)))
		w.Write(body)
	}))
	defer backend.Close()

	// other tests of the package leave a stub in fnSendRequest; use the real transport
	saved := fnSendRequest
	fnSendRequest = func(r *http.Request, client *http.Client) (*http.Response, error) { return client.Do(r) }
	defer func() { fnSendRequest = saved }()

	yamlSpec := fmt.Sprintf(`
name: proxy
kind: Proxy
pools:
- servers:
  - url: %s
compression:
  minLength: 100
`, backend.URL)
	proxy := newTestProxy(yamlSpec, assert.New(t))
	proxy.InjectResiliencePolicy(make(map[string]resilience.Policy))
	defer proxy.Close()

	stdr, _ := http.NewRequest(http.MethodGet, "http://gateway.example/data", nil)
	stdr.Header.Set("Accept-Encoding", "gzip")
	ctx := getCtx(stdr)
	result = proxy.Handle(ctx)
	resp := ctx.GetOutputResponse().(*httpprot.Response)
	payload, _ = io.ReadAll(resp.GetPayload())
	return result, resp.StatusCode(), payload, resp.HTTPHeader()
}

func gunzip(b []byte) ([]byte, error) {
	zr, err := gzip.NewReader(bytes.NewReader(b))
	if err != nil {
		return nil, err
	}
	return io.ReadAll(zr)
}

// A compressible body: the gzip stream is shorter than the declared length,
// FetchPayload hits EOF early and the proxy answers 500 instead of the backend's 200.
func TestTriageC03CompressShorterThanContentLength(t *testing.T) {
	body := []byte(strings.Repeat("easegress ", 500))
	result, status, payload, hdr := triageProxyRoundTrip(t, body)
	t.Logf("result=%q status=%d payload=%d bytes Content-Encoding=%q", result, status, len(payload), hdr.Get("Content-Encoding"))
	if result != "" || status != http.StatusOK {
		t.Fatalf("backend answered 200 with %d bytes; proxy with compression returned result=%q status=%d", len(body), result, status)
	}
	got, err := gunzip(payload)
	if err != nil || !bytes.Equal(got, body) {
		t.Fatalf("client cannot recover the backend's body: err=%v", err)
	}
}

// An incompressible body: the gzip stream is longer than the declared length and is cut
// off after ContentLength bytes; the client receives Content-Encoding: gzip with a
// truncated stream.
func TestTriageC03CompressLongerThanContentLength(t *testing.T) {
	body := make([]byte, 300)
	rand.New(rand.NewSource(1)).Read(body)
	result, status, payload, hdr := triageProxyRoundTrip(t, body)
	t.Logf("result=%q status=%d payload=%d bytes Content-Encoding=%q", result, status, len(payload), hdr.Get("Content-Encoding"))
	if result != "" || status != http.StatusOK {
		t.Fatalf("proxy returned result=%q status=%d", result, status)
	}
	got, err := gunzip(payload)
	if err != nil || !bytes.Equal(got, body) {
		t.Fatalf("client cannot recover the backend's body from the gzip payload (%d bytes): err=%v", len(payload), err)
	}
}
