package responseadaptor

// Demonstration for fix-5 (property C03): ResponseAdaptor `compress: gzip` gzips a response
// that already carries another Content-Encoding and overwrites the label with "gzip".
//
// Place as pkg/filters/responseadaptor/zz_fix5_demo_test.go.

import (
	"bytes"
	"compress/gzip"
	"compress/zlib"
	"fmt"
	"io"
	"math/rand"
	"net/http"
	"strconv"
	"strings"
	"testing"

	"github.com/megaease/easegress/pkg/protocols/httpprot"
)

func fix5Decode(h http.Header, body []byte) ([]byte, error) {
	var codings []string
	for _, line := range h.Values("Content-Encoding") {
		for _, c := range strings.Split(line, ",") {
			if c = strings.ToLower(strings.TrimSpace(c)); c != "" && c != "identity" {
				codings = append(codings, c)
			}
		}
	}
	for i := len(codings) - 1; i >= 0; i-- {
		var r io.Reader
		var err error
		switch codings[i] {
		case "gzip":
			r, err = gzip.NewReader(bytes.NewReader(body))
		case "deflate":
			r, err = zlib.NewReader(bytes.NewReader(body))
		default:
			return nil, fmt.Errorf("unknown coding %q", codings[i])
		}
		if err != nil {
			return nil, fmt.Errorf("undo %s: %v", codings[i], err)
		}
		if body, err = io.ReadAll(r); err != nil {
			return nil, fmt.Errorf("undo %s: %v", codings[i], err)
		}
	}
	return body, nil
}

func TestFix5ResponseAdaptorCompressKeepsForeignCoding(t *testing.T) {
	// text that does not compress to almost nothing, so that the coded body exceeds minLength
	rnd := rand.New(rand.NewSource(3))
	var sb strings.Builder
	for i := 0; i < 400; i++ {
		fmt.Fprintf(&sb, "item-%d=%x; ", i, rnd.Uint64())
	}
	plain := []byte(sb.String())
	var deflated bytes.Buffer
	zw := zlib.NewWriter(&deflated)
	zw.Write(plain)
	zw.Close()

	for _, stream := range []bool{false, true} {
		std := &http.Response{
			StatusCode:    200,
			Header:        http.Header{},
			Body:          io.NopCloser(bytes.NewReader(deflated.Bytes())),
			ContentLength: int64(deflated.Len()),
		}
		std.Header.Set("Content-Encoding", "deflate")
		std.Header.Set("Content-Length", strconv.Itoa(deflated.Len()))
		ctx := getCtx(t, std)
		resp := ctx.GetInputResponse().(*httpprot.Response)
		if stream {
			resp.SetPayload(bytes.NewReader(deflated.Bytes()))
		}

		ra := &ResponseAdaptor{spec: &Spec{Compress: "gzip"}}
		ra.Init()
		if res := ra.Handle(ctx); res != "" {
			t.Fatalf("stream=%v: result %q", stream, res)
		}
		payload, _ := io.ReadAll(resp.GetPayload())
		t.Logf("stream=%v: %d deflate bytes labelled \"deflate\" in; %d bytes labelled %q out",
			stream, deflated.Len(), len(payload), resp.HTTPHeader().Values("Content-Encoding"))
		got, err := fix5Decode(resp.HTTPHeader(), payload)
		if err != nil {
			t.Fatalf("stream=%v: client cannot undo the labelled codings: %v", stream, err)
		}
		if !bytes.Equal(got, plain) {
			t.Fatalf("stream=%v: after undoing the labelled Content-Encoding %q the client holds %d bytes that are not the backend's content (%d bytes): the deflate layer is still there but no longer declared",
				stream, resp.HTTPHeader().Values("Content-Encoding"), len(got), len(plain))
		}
	}
}
