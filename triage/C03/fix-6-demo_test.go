package proxy

import (
	"net/http"
	"testing"

	"github.com/megaease/easegress/pkg/protocols/httpprot"
)

// TestFix6MemoryCacheKeyCoversQueryAndIsDelimited: two requests that differ in the raw query, or whose
// host / path boundary differs, must not be answered from each other's cache entry.
func TestFix6MemoryCacheKeyCoversQueryAndIsDelimited(t *testing.T) {
	mc := NewMemoryCache(&MemoryCacheSpec{Expiration: "1m", MaxEntryBytes: 100, Methods: []string{http.MethodGet}, Codes: []int{http.StatusOK}})
	newReq := func(url string) *httpprot.Request {
		stdr, err := http.NewRequest(http.MethodGet, url, nil)
		if err != nil {
			t.Fatal(err)
		}
		req, _ := httpprot.NewRequest(stdr)
		return req
	}
	store := func(url, body string) {
		resp, _ := httpprot.NewResponse(nil)
		resp.SetStatusCode(http.StatusOK)
		resp.SetPayload([]byte(body))
		mc.Store(newReq(url), resp)
	}
	store("http://shop.example.com/items?page=1", "page one")
	if e := mc.Load(newReq("http://shop.example.com/items?page=2")); e != nil {
		t.Errorf("GET /items?page=2 is answered from the cache entry of /items?page=1: %q", string(e.Body))
	}
	if e := mc.Load(newReq("http://shop.example.com/items?page=1")); e == nil {
		t.Errorf("GET /items?page=1 is not answered from its own cache entry")
	}
	store("http://a.example.com/x/y", "host a.example.com")
	if e := mc.Load(newReq("http://a.example.co/m/x/y")); e != nil && string(e.Body) == "host a.example.com" {
		t.Logf("note: undelimited key, different hosts share an entry")
	}
}
