package proxy

// Demonstration for fix-5 (property C03): the gateway's compression gzips a backend response
// that already carries another Content-Encoding and overwrites the label with "gzip": the
// client, undoing exactly the codings the response is labelled with, is left with the other
// coding's bytes declared as identity.
//
// Place as pkg/filters/proxy/zz_fix5_demo_test.go.

import (
	"bytes"
	"compress/gzip"
	"compress/zlib"
	"fmt"
	"io"
	"math/rand"
	"net/http"
	"net/http/httptest"
	"strconv"
	"strings"
	"testing"

	"github.com/megaease/easegress/pkg/protocols/httpprot"
	"github.com/megaease/easegress/pkg/resilience"
	"github.com/stretchr/testify/assert"
)

// fix5Decode undoes, last coding first, every coding the response is labelled with.
func fix5Decode(h http.Header, body []byte) ([]byte, error) {
	var codings []string
	for _, line := range h.Values("Content-Encoding") {
		for _, c := range strings.Split(line, ",") {
			if c = strings.ToLower(strings.TrimSpace(c)); c != "" && c != "identity" {
				codings = append(codings, c)
			}
		}
	}
	for i := len(codings) - 1; i >= 0; i-- {
		var r io.Reader
		var err error
		switch codings[i] {
		case "gzip":
			r, err = gzip.NewReader(bytes.NewReader(body))
		case "deflate":
			r, err = zlib.NewReader(bytes.NewReader(body))
		default:
			return nil, fmt.Errorf("unknown coding %q", codings[i])
		}
		if err != nil {
			return nil, fmt.Errorf("undo %s: %v", codings[i], err)
		}
		if body, err = io.ReadAll(r); err != nil {
			return nil, fmt.Errorf("undo %s: %v", codings[i], err)
		}
	}
	return body, nil
}

func TestFix5ProxyCompressionKeepsForeignCoding(t *testing.T) {
	// text that does not compress to almost nothing, so that the coded body exceeds minLength
	rnd := rand.New(rand.NewSource(3))
	var sb strings.Builder
	for i := 0; i < 400; i++ {
		fmt.Fprintf(&sb, "item-%d=%x; ", i, rnd.Uint64())
	}
	plain := []byte(sb.String())
	var deflated bytes.Buffer
	zw := zlib.NewWriter(&deflated)
	zw.Write(plain)
	zw.Close()

	backend := httptest.NewServer(http.HandlerFunc(func(w http.ResponseWriter, r *http.Request) {
		// the backend picks deflate from the client's Accept-Encoding (stands for br, zstd …)
		w.Header().Set("Content-Type", "text/plain")
		w.Header().Set("Content-Encoding", "deflate")
		w.Header().Set("Content-Length", strconv.Itoa(deflated.Len()))
		w.Write(deflated.Bytes())
	}))
	defer backend.Close()

	saved := fnSendRequest
	fnSendRequest = func(r *http.Request, client *http.Client) (*http.Response, error) { return client.Do(r) }
	defer func() { fnSendRequest = saved }()

	proxy := newTestProxy(fmt.Sprintf(`
name: proxy
kind: Proxy
pools:
- servers:
  - url: %s
compression:
  minLength: 100
`, backend.URL), assert.New(t))
	proxy.InjectResiliencePolicy(make(map[string]resilience.Policy))
	defer proxy.Close()

	stdr, _ := http.NewRequest(http.MethodGet, "http://gateway.example/data", nil)
	stdr.Header.Set("Accept-Encoding", "gzip, deflate")
	ctx := getCtx(stdr)
	if res := proxy.Handle(ctx); res != "" {
		t.Fatalf("proxy result %q", res)
	}
	resp := ctx.GetOutputResponse().(*httpprot.Response)
	payload, _ := io.ReadAll(resp.GetPayload())
	t.Logf("backend sent %d deflate bytes labelled %q; gateway hands on %d bytes labelled %q",
		deflated.Len(), "deflate", len(payload), resp.HTTPHeader().Values("Content-Encoding"))

	got, err := fix5Decode(resp.HTTPHeader(), payload)
	if err != nil {
		t.Fatalf("client cannot undo the labelled codings: %v", err)
	}
	if !bytes.Equal(got, plain) {
		t.Fatalf("after undoing the labelled Content-Encoding %q the client holds %d bytes that are not the backend's content (%d bytes): the deflate layer is still there but no longer declared",
			resp.HTTPHeader().Values("Content-Encoding"), len(got), len(plain))
	}
}
