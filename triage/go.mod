module triage

go 1.23
