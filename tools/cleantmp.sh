#!/bin/bash
# removes embedded-etcd data directories that pkg/cluster tests leave under /tmp (800 MB each)
find /tmp -maxdepth 1 -type d -regex '/tmp/[0-9a-f]+' -mmin +12 -exec rm -rf {} + 2>/dev/null
df -h / | tail -1
