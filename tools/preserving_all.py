#!/usr/bin/env python3
"""Runs every behaviour-preserving refactoring under /verif/preserving/<ID>/<x>/patch.diff (written by independent
sub-agents that saw only the property text) against the check of its own property and of every property anchored in a
file the patch touches, on a scratch worktree (never /repo). Expected: exit 0 everywhere. Writes preserving/results.json.
usage: preserving_all.py [<dir>=/verif/preserving] [ID...]"""
import json, os, re, subprocess, sys, glob
args = sys.argv[1:]
base = '/verif/preserving'
if args and args[0].startswith('/'): base = args.pop(0)
only = set(args)
anch = {}
for l in open('/verif/properties.jsonl'):
    d = json.loads(l); anch[d['id']] = set(d['anchors'].get('files', []))
res = {}
for patch in sorted(glob.glob(base + '/*/*/patch.diff')):
    pid, x = patch.split('/')[-3:-1]
    if only and pid not in only: continue
    files = [l[6:].strip() for l in open(patch, errors='replace') if l.startswith('+++ b/')]
    files += [l[6:].strip() for l in open(patch, errors='replace') if l.startswith('--- a/')]
    props = [pid] + sorted(p for p in anch if p != pid and anch[p] & set(files))
    if os.environ.get('PRES_ONLY_PROPS'):  # re-run of some properties' checks only; results are merged per property
        props = [p for p in props if p in os.environ['PRES_ONLY_PROPS'].split(',')]
        if not props: continue
    out = subprocess.run([os.environ.get('VERIF_HOME', '/verif') + '/tools/mut.sh', patch] + props, capture_output=True).stdout.decode('utf-8', 'replace')
    entry = {}
    for line in out.splitlines():
        if line.startswith('PATCH-DOES-NOT-APPLY'): entry['error'] = 'patch does not apply'
        parts = line.split(' ', 2)
        if len(parts) >= 2 and parts[1].startswith('exit='):
            e = {'exit': int(parts[1][5:])}
            if e['exit'] != 0: e['report'] = parts[2][:600] if len(parts) > 2 else ''
            entry[parts[0]] = e
    res[f'{pid}/{x}'] = entry
    bad = {k: v for k, v in entry.items() if isinstance(v, dict) and v['exit'] != 0}
    print(pid, x, 'props', ','.join(props), 'ALARM ' + json.dumps(bad)[:700] if bad or 'error' in entry else 'silent', flush=True)
out = os.environ.get('PRES_OUT', base + '/results.json')
old = json.load(open(out)) if os.path.exists(out) else {}
if os.environ.get('PRES_ONLY_PROPS'):
    for k, e in res.items(): old.setdefault(k, {}).update(e)
else:
    old.update(res)
json.dump(old, open(out, 'w'), indent=1, sort_keys=True)
