#!/bin/bash
# baseline.sh : runs the project's pinned test suite (the 255 stable tests of /root/.vp/BASELINE.json) on a scratch
# worktree of /repo HEAD, in a private network namespace, and reports which of the pinned tests did not pass.
set -u
export GOFLAGS=-mod=mod GOPROXY=off GOSUMDB=off GOTOOLCHAIN=local GOWORK=off
W=/tmp/bl; T=/tmp/bl-tmp
git -C /repo worktree remove --force $W 2>/dev/null; rm -rf $T; mkdir -p $T
git -C /repo worktree add -q --detach $W HEAD || exit 2
(cd $W && TMPDIR=$T unshare -n sh -c 'ip link set lo up && go test -json -vet=off -count=1 -timeout 25m ./... 2>/dev/null' > $T/gotest.json)
python3 - $T/gotest.json <<'PY'
import json, sys
want = set(json.load(open('/root/.vp/BASELINE.json'))['stable_pass'])
got = {}
for l in open(sys.argv[1], errors='replace'):
    try: e = json.loads(l)
    except Exception: continue
    if e.get('Test') and e.get('Action') in ('pass', 'fail', 'skip'):
        got[e['Package'].replace('/v2', '') + '::' + e['Test']] = e['Action']
bad = sorted(t for t in want if got.get(t) != 'pass')
print(f'pinned tests: {len(want)}  passed: {len(want) - len(bad)}  not passed: {len(bad)}')
for t in bad: print('  ', t, got.get(t, 'missing'))
sys.exit(1 if bad else 0)
PY
rc=$?
git -C /repo worktree remove --force $W; rm -rf $T
exit $rc
