#!/bin/bash
# usage: tools/seeded.sh [ID ...]   — run each seeded change of /verif/seeded/<ID>/<x>/patch.diff against the
# check of its own property (scratch worktree, never /repo). Output: one line per seeded change.
cd /verif
ids=${@:-$(ls seeded)}
for id in $ids; do
  for x in a b; do
    p=seeded/$id/$x/patch.diff
    [ -f $p ] || continue
    if ! ./bin/egverify -property $id >/dev/null 2>&1 && [ $? -eq 2 ]; then :; fi
    r=$(tools/mut.sh /verif/$p $id 2>&1 | head -3 | cut -c1-330)
    echo "$id/$x: $r"
  done
done
