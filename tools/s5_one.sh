#!/bin/bash
# usage: [S5_OUT=<dir>] [S5_ROUND=<n>] tools/s5_one.sh <ID> [letter]   — round-5 seeded change of an author agent in /tmp/s5/out/<ID>:
# re-confirm it (tools/confirm_seeded.sh, own scratch worktree), and when confirmed keep it as /verif/seeded/<ID>/<letter>/
# and run the property's own check against it (S5_ALSO=Cxx,Cyy: further checks recorded in meta for tools/seeded_all.py) (tools/mut.sh, own scratch worktree).
set -u
ID=$1; L=${2:-i}; S=${S5_OUT:-/tmp/s5/out}/$ID
[ -f $S/patch.diff ] && [ -f $S/meta.json ] && [ -f $S/demo/where.txt ] || { echo "$ID: deliverables missing"; exit 1; }
line=$(/verif/tools/confirm_seeded.sh $S /tmp/s5/cf-$ID | tail -1)
echo "$line"
case "$line" in *"without=PASS build=ok with=FAIL existing=pass"*) ;; *) echo "$ID: NOT CONFIRMED"; exit 1;; esac
D=/verif/seeded/$ID/$L; rm -rf $D; mkdir -p $D/demo
cp $S/patch.diff $D/; cp $S/demo/* $D/demo/
python3 - "$S/meta.json" "$D/meta.json" "$ID" "$L" "$line" <<'EOF'
import json, sys
src, dst, pid, l, line = sys.argv[1:6]
m = json.load(open(src))
m.update({"property": pid, "variant": l, "round": int(__import__("os").environ.get("S5_ROUND", "5")), "status": "confirmed",
          "confirmed_by": "tools/confirm_seeded.sh in a scratch worktree of /repo HEAD (demo without the change, apply, build, demo with the change, existing tests of the touched packages with the change and without the demo)",
          "confirm_result": line,
          "also_check": [p for p in __import__("os").environ.get("S5_ALSO", "").split(",") if p]})
json.dump(m, open(dst, "w"), indent=1)
EOF
MUT_WORKTREE=/tmp/s5/mt-$ID /verif/tools/mut.sh $D/patch.diff $ID | cut -c1-400
