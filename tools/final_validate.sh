#!/bin/bash
# final_validate.sh : the three regression suites against /verif's binary, in parallel queues (scratch worktrees only):
#   self-test entries (two queues), seeded changes (one queue), behaviour-preserving refactorings (four queues).
# Logs under /tmp/fv/, results merged into seeded/results.json and preserving/results.json.
set -u
cd /verif; mkdir -p /tmp/fv; rm -f /tmp/fv/*
for w in mt mt3 mt4 mt5 mt6; do [ -d /tmp/$w ] || git -C /repo worktree add -q --detach /tmp/$w HEAD; done
(for i in 01 03 05 07 09 11 13 15 17 19; do python3 tools/stcheck.py C$i ""; done > /tmp/fv/st_a.log 2>&1) &
(for i in 02 04 06 08 10 12 14 16 18 20; do python3 tools/stcheck.py C$i ""; done > /tmp/fv/st_b.log 2>&1) &
(MUT_WORKTREE=/tmp/mt python3 tools/seeded_all.py > /tmp/fv/seeded.log 2>&1) &
(MUT_WORKTREE=/tmp/mt3 PRES_OUT=/tmp/fv/pres_1.json python3 tools/preserving_all.py C01 C02 C03 C04 C05 > /tmp/fv/pres_1.log 2>&1) &
(MUT_WORKTREE=/tmp/mt4 PRES_OUT=/tmp/fv/pres_2.json python3 tools/preserving_all.py C06 C07 C08 C09 C10 > /tmp/fv/pres_2.log 2>&1) &
(MUT_WORKTREE=/tmp/mt5 PRES_OUT=/tmp/fv/pres_3.json python3 tools/preserving_all.py C11 C12 C13 C14 C15 > /tmp/fv/pres_3.log 2>&1) &
(MUT_WORKTREE=/tmp/mt6 PRES_OUT=/tmp/fv/pres_4.json python3 tools/preserving_all.py C16 C17 C18 C19 C20 > /tmp/fv/pres_4.log 2>&1) &
wait
python3 - <<'PY'
import json, glob
res = {}
for f in sorted(glob.glob('/tmp/fv/pres_*.json')): res.update(json.load(open(f)))
json.dump(res, open('/verif/preserving/results.json', 'w'), indent=1, sort_keys=True)
silent = sum(1 for k, r in res.items() if 'error' not in r and all(v.get('exit') == 0 for v in r.values() if isinstance(v, dict)))
print('preserving:', silent, 'of', len(res), 'silent')
PY
echo "self-test mismatches:"; grep -h -v " OK$" /tmp/fv/st_a.log /tmp/fv/st_b.log; echo "(end)"
