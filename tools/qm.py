#!/usr/bin/env python3
"""Quick mutant: qm.py <file-rel> <old> <new> <prop> [<prop>...]
Replaces the unique occurrence of <old> by <new> in a scratch worktree (/tmp/mt), checks that
the package still compiles, runs the given property checks against it and restores the tree."""
import subprocess, sys, os
W = os.environ.get("MUT_WORKTREE", "/tmp/mt")
env = dict(os.environ, GOFLAGS="-mod=mod", GOPROXY="off", GOSUMDB="off", GOTOOLCHAIN="local", GOWORK="off")
def sh(*a, **k): return subprocess.run(a, capture_output=True, text=True, env=env, **k)
rel, old, new, props = sys.argv[1], sys.argv[2], sys.argv[3], sys.argv[4:]
head = sh("git", "-C", "/repo", "rev-parse", "HEAD").stdout.strip()
if not os.path.isdir(W): sh("git", "-C", "/repo", "worktree", "add", "-q", "--detach", W, "HEAD")
sh("git", "-C", W, "reset", "-q", "--hard"); sh("git", "-C", W, "clean", "-fdq"); sh("git", "-C", W, "checkout", "-q", "--detach", head)
p = os.path.join(W, rel); s = open(p).read()
old = old.encode().decode("unicode_escape"); new = new.encode().decode("unicode_escape")
if s.count(old) != 1:
    print("OLD-NOT-UNIQUE count=%d" % s.count(old)); sys.exit(3)
open(p, "w").write(s.replace(old, new))
alt = "/tmp/alt.mod"
open(alt, "w").write(open("/repo/go.mod").read() + "\nreplace github.com/lucas-clemente/quic-go => /verif/stubs/quic-go\n")
open("/tmp/alt.sum", "w").write(open("/repo/go.sum").read())
b = sh("go", "build", "-modfile=" + alt, "./" + os.path.dirname(rel) + "/", cwd=W)
if b.returncode != 0:
    print("DOES-NOT-COMPILE", b.stderr[:400]); sh("git", "-C", W, "reset", "-q", "--hard"); sys.exit(4)
for pr in props:
    r = subprocess.run(["/verif/bin/egverify", "-property", pr], capture_output=True, text=True, env=dict(env, VERIF_REPO=W))
    lines = [l[:230] for l in r.stdout.splitlines() if l.startswith(("violated", "CHECKER-ERROR"))]
    print(pr, "exit=%d" % r.returncode, " ;; ".join(lines))
sh("git", "-C", W, "reset", "-q", "--hard")
