#!/usr/bin/env python3
"""Runs every seeded change under /verif/seeded/<ID>/<x>/patch.diff against the check of its own property (plus extra
properties given in meta 'also'), on a scratch worktree (never /repo), and writes /verif/seeded/results.json."""
import json, os, re, subprocess, sys, glob
os.chdir('/verif')
res = {}
only = set(sys.argv[1:])
for meta in sorted(glob.glob('seeded/*/*/meta.json')):
    _, pid, x, _ = meta.split('/')
    if only and pid not in only: continue
    if os.environ.get('SEEDED_ONLY_VARIANT') and x not in os.environ['SEEDED_ONLY_VARIANT'].split(','): continue
    patch = f'/verif/seeded/{pid}/{x}/patch.diff'
    props = [pid] + json.load(open(meta)).get('also_check', [])
    out = subprocess.run(['tools/mut.sh', patch] + props, capture_output=True).stdout.decode('utf-8', 'replace')
    entry = {}
    for line in out.splitlines():
        if line.startswith('PATCH-DOES-NOT-APPLY'):
            entry['error'] = 'patch does not apply'
        parts = line.split(' ', 2)
        if len(parts) >= 2 and parts[1].startswith('exit='):
            rules = sorted(set(re.findall(r'violated: (R-C\d+-\d+)', line)))
            entry[parts[0]] = {'exit': int(parts[1][5:]), 'rules': rules}
    res[f'{pid}/{x}'] = entry
    print(pid, x, entry, flush=True)
outp = os.environ.get('SEEDED_OUT', 'seeded/results.json')
old = {}
if os.path.exists(outp): old = json.load(open(outp))
old.update(res)
json.dump(old, open(outp, 'w'), indent=1, sort_keys=True)
