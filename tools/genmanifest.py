#!/usr/bin/env python3
"""Regenerates /verif/MANIFEST.json from the table below (kept in one place so the manifest
stays valid while properties land one by one)."""
import json, os, sys

HERE = os.path.dirname(os.path.dirname(os.path.abspath(__file__)))

ENV = "GOFLAGS=-mod=mod GOPROXY=off GOSUMDB=off GOTOOLCHAIN=local GOWORK=off"

# property id -> (technique, level text, level note, design ref)
CLAIMED = json.load(open(os.path.join(HERE, "tools", "claims.json")))
NOT_APPLICABLE = json.load(open(os.path.join(HERE, "tools", "not_applicable.json")))

checks = []
for pid in sorted(CLAIMED):
    c = CLAIMED[pid]
    checks.append({
        "property_id": pid,
        "quick_cmd": f"./bin/egverify -property {pid} -tier quick",
        "thorough_cmd": f"./bin/egverify -property {pid} -tier thorough",
        "evidence_file": f"/verif/evidence/{pid}.json",
        "replay_cmd_template": "./bin/egverify -replay {path}",
        "engine": "egverify",
        "level_claimed": {
            "category": "other",
            "text": c["text"],
            "design_ref": f"DESIGN.md §3 {pid}",
        },
        "level_note": c["note"],
        "technique": c["technique"],
    })

manifest = {
    "version": 1,
    "setup_cmd": f"cd /verif && {ENV} go build -o bin/egverify ./cmd/egverify",
    "hooks": {
        "guard": "verif",
        "enable": "none needed: static analysis reads /repo's working tree; no instrumentation is compiled into easegress (build tag 'verif' reserved, unused)",
        "baseline_off_cmd": "cd /repo && go test -mod=mod -vet=off -count=1 -timeout 25m ./...",
        "source_commits": [],
        "add_only": True,
    },
    "engines": [{
        "name": "egverify",
        "path": "/verif/cmd/egverify",
        "serves_properties": sorted(CLAIMED),
        "kind_free_text": "repository-specific static analyser: go/packages type-checked load of /repo's working tree (quic-go http3 type stub via -modfile), path-sensitive predicate/typestate engine over go/cfg (internal/flow), SSA field-access and call-graph queries (internal/ssaq), per-property obligations keyed by rule+construct (internal/rules)",
    }],
    "checks": checks,
    "notes": "Static analysis only: no registered check compiles-and-runs easegress code or its tests. Exit codes: 0 held (or only KNOWN-FINDING lines), 1 + VIOLATION line, 2 = checker error (unresolved anchor, undecided obligation, vacuity guard). Every claim is level 'other': a static decision of listed structural necessary conditions on all paths / call sites, not of the whole behaviour; what is not decided is listed in each evidence file under coverage.not_decided and in DESIGN.md §3.",
    "not_applicable": [{"property_id": k, "reason": v} for k, v in sorted(NOT_APPLICABLE.items()) if k not in CLAIMED],
}
json.dump(manifest, open(os.path.join(HERE, "MANIFEST.json"), "w"), indent=1)
print("claimed:", " ".join(sorted(CLAIMED)), "| n/a:", len(manifest["not_applicable"]))
