#!/bin/bash
# integrate.sh <ID> : copies a checker agent's rule files and self-test list from /tmp/vw/<ID>/verif into /verif, rebuilds,
# runs the property on /repo and then on the round-3 seeded changes of that property (scratch worktree).
set -u
ID=$1; nn=$(echo $ID | tr 'C' 'c')
export GOFLAGS=-mod=mod GOPROXY=off GOSUMDB=off GOTOOLCHAIN=local
cd /verif
cp /tmp/vw/$ID/verif/internal/rules/${nn}*.go internal/rules/
[ -f /tmp/vw/$ID/out/selftest.json ] && cp /tmp/vw/$ID/out/selftest.json selftest/mutants/$ID.json
go build -o bin/egverify ./cmd/egverify || exit 9
go vet ./internal/rules/ || exit 9
./bin/egverify -property $ID > /tmp/int_$ID.log 2>&1; echo "$ID on /repo: exit $? $(grep -c KNOWN-FINDING /tmp/int_$ID.log) known"; grep -E "VIOLATION|CHECKER-ERROR|undecided" /tmp/int_$ID.log | head
for x in a b; do
  p=/tmp/mut3/out/$ID/$x/patch.diff; [ -f $p ] || continue
  echo "--- round3 $ID/$x"; tools/mut.sh $p $ID 2>&1 | tail -4
done
git status --short | head
