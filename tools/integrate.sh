#!/bin/bash
# integrate.sh <ID> [<copy-dir>=/tmp/vw/<ID>] : copies a checker agent's rule files (c<NN>*.go) and self-test list from its private
# copy into /verif, rebuilds and runs the property on /repo.
set -u
ID=$1; D=${2:-/tmp/vw/$ID}; nn=$(echo $ID | tr 'C' 'c')
export GOFLAGS=-mod=mod GOPROXY=off GOSUMDB=off GOTOOLCHAIN=local
cd /verif
cp $D/verif/internal/rules/${nn}*.go internal/rules/
cp $D/verif/selftest/mutants/$ID.json selftest/mutants/$ID.json
go build -o bin/egverify ./cmd/egverify || exit 9
go vet ./internal/rules/ || exit 9
gofmt -l internal/rules
VERIF_NO_EVIDENCE=1 ./bin/egverify -property $ID > /tmp/int_$ID.log 2>&1; echo "$ID on /repo: exit $? $(grep -c KNOWN-FINDING /tmp/int_$ID.log) known; $(head -1 /tmp/int_$ID.log)"; grep -E "VIOLATION|CHECKER-ERROR|undecided" /tmp/int_$ID.log | head
