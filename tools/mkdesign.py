#!/usr/bin/env python3
"""Fills the generated tables of DESIGN.md §8 (between BEGIN/END GENERATED markers)."""
import re, subprocess
p = '/verif/DESIGN.md'
s = open(p).read()
for name in ['totals', 'rules', 'findings', 'seeded', 'preserving']:
    tbl = subprocess.run(['python3', '/verif/tools/report.py', name], capture_output=True, text=True).stdout.strip()
    s = re.sub(r'(<!-- BEGIN GENERATED:%s -->).*?(<!-- END GENERATED:%s -->)' % (name, name), lambda m: m.group(1) + "\n" + tbl + "\n" + m.group(2), s, flags=re.S)
open(p, 'w').write(s)
print("DESIGN.md tables regenerated")
