#!/bin/bash
# usage: applyfix.sh <fix.diff> <demo_test.go|-> <dest pkg dir rel> "<go test args>" "<commit message>"
# In the triage worktree (/tmp/triage at /repo HEAD): run the demo WITHOUT the fix (must fail),
# apply the fix, run the demo (must pass) and the package's tests, commit with the message.
set -u
export GOFLAGS=-mod=mod GOPROXY=off GOSUMDB=off GOTOOLCHAIN=local GOWORK=off
fix=$1; demo=$2; dest=$3; targs=$4; msg=$5
T=/tmp/triage
[ -d $T ] || git -C /repo worktree add -q --detach $T HEAD
git -C $T reset -q --hard; git -C $T clean -fdq
cp /repo/go.mod /tmp/alt.mod; cp /repo/go.sum /tmp/alt.sum; echo "replace github.com/lucas-clemente/quic-go => /verif/stubs/quic-go" >> /tmp/alt.mod
run() { (cd $T && unshare -n sh -c "ip link set lo up && go test -modfile=/tmp/alt.mod -ldflags=-checklinkname=0 -vet=off -count=1 $1" 2>&1 | tail -${2:-6}); }
if [ "$demo" != "-" ]; then
  cp "$demo" $T/$dest/zz_triage_test.go
  echo "--- demo WITHOUT fix (expect FAIL):"; run "$targs -run 'Triage|triage|ZZ|Demo|Fix[0-9]' ./$dest/" 8
fi
git -C $T apply "$fix" || { echo "FIX DOES NOT APPLY"; exit 1; }
if [ "$demo" != "-" ]; then echo "--- demo WITH fix (expect ok):"; run "$targs -run 'Triage|triage|ZZ|Demo|Fix[0-9]' ./$dest/" 4; rm -f $T/$dest/zz_triage_test.go; fi
echo "--- package tests WITH fix:"; run "$targs ./$dest/" 4
(cd $T && gofmt -l $(git -C $T diff --name-only | grep '\.go$') )
git -C $T add -A && git -C $T -c user.name=builder -c user.email=builder@example.com commit -qm "$msg" && git -C $T log --oneline | head -1
