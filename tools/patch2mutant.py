#!/usr/bin/env python3
"""patch2mutant.py <patch.diff> <ID> <name> <expect-rule|-> : turns a one-file patch into an overlay self-test entry
(file, old, new) appended to selftest/mutants/<ID>.json. old = the smallest run of whole lines that contains every changed
line and occurs once in the file on /repo HEAD. Uses a scratch worktree ($MUT_WORKTREE or /tmp/mt)."""
import json, os, subprocess, sys
patch, pid, name, expect = sys.argv[1:5]
wt = os.environ.get('MUT_WORKTREE', '/tmp/mt')
def sh(*a): return subprocess.run(a, check=True, capture_output=True, text=True).stdout
sh('git', '-C', wt, 'checkout', '-q', '--detach', sh('git', '-C', '/repo', 'rev-parse', 'HEAD').strip())
sh('git', '-C', wt, 'checkout', '--', '.')
files = [l[6:].strip() for l in open(patch) if l.startswith('+++ b/') and not l.strip().endswith('_test.go')]
assert len(files) == 1, files
f = files[0]
old = open(f'{wt}/{f}').read().split('\n')
sh('git', '-C', wt, 'apply', '--include', f, patch)
new = open(f'{wt}/{f}').read().split('\n')
sh('git', '-C', wt, 'checkout', '--', '.')
i = 0
while i < min(len(old), len(new)) and old[i] == new[i]: i += 1
j = 0
while j < min(len(old), len(new)) - i and old[-1 - j] == new[-1 - j]: j += 1
whole = '\n'.join(old)
while True:
    o = '\n'.join(old[i:len(old) - j]); n = '\n'.join(new[i:len(new) - j])
    if o and whole.count(o) == 1: break
    if i > 0: i -= 1
    elif j > 0: j -= 1
    else: raise SystemExit('no unique fragment')
path = f'/verif/selftest/mutants/{pid}.json'
d = json.load(open(path))
d = [e for e in d if e['name'] != name]
e = {'name': name, 'file': f, 'old': o, 'new': n, 'expect': '' if expect == '-' else expect}
if expect == '-': e['preserving'] = True
d.append(e)
json.dump(d, open(path, 'w'), indent=1, ensure_ascii=False)
print(pid, name, f, len(o.split('\n')), 'old lines ->', len(n.split('\n')), 'new lines')
