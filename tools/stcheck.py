#!/usr/bin/env python3
"""stcheck.py <ID> <name-substring> : validates self-test entries of selftest/mutants/<ID>.json whose name contains the
substring, one overlay run each (no thorough tier). Prints exit code and the rules reported."""
import json, os, re, subprocess, sys
pid, sub = sys.argv[1], sys.argv[2]
V = os.environ.get('VERIF_HOME', '/verif')
bad = 0
for e in json.load(open(f'{V}/selftest/mutants/{pid}.json')):
    if sub not in e['name']: continue
    env = dict(os.environ, VERIF_NO_EVIDENCE='1', VERIF_OVERLAY_FILE=e['file'], VERIF_OVERLAY_OLD=e['old'], VERIF_OVERLAY_NEW=e['new'])
    r = subprocess.run([V + '/bin/egverify', '-property', pid], env=env, capture_output=True)
    out = (r.stdout + r.stderr).decode(errors='replace')
    rules = sorted(set(re.findall(r'violated: (R-C\d+-\d+)', out)))
    want = e.get('expect', '')
    ok = (r.returncode == 0) if e.get('preserving') else (r.returncode == 1 and want in rules)
    if not ok: bad += 1
    print(pid, e['name'], 'exit', r.returncode, rules, 'expect', want or 'silent', 'OK' if ok else 'MISMATCH')
sys.exit(1 if bad else 0)
