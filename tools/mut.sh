#!/bin/bash
# usage: tools/mut.sh <patch.diff> <property> [<property>...]
# Applies a seeded change to a scratch worktree of /repo (never to /repo itself) and runs the
# given checks against it. Prints one line per property: exit code and the violated keys.
set -u
export GOFLAGS=-mod=mod GOPROXY=off GOSUMDB=off GOTOOLCHAIN=local GOWORK=off
patch=$1; shift
W=${MUT_WORKTREE:-/tmp/mt}
if [ ! -d "$W" ]; then git -C /repo worktree add -q --detach "$W" HEAD; fi
git -C "$W" reset -q --hard && git -C "$W" clean -fdq && git -C "$W" checkout -q --detach "$(git -C /repo rev-parse HEAD)"
if ! git -C "$W" apply "$patch" 2>/dev/null; then
  if ! git -C "$W" apply --3way "$patch" 2>/dev/null; then echo "PATCH-DOES-NOT-APPLY $patch"; exit 3; fi
fi
for p in "$@"; do
  out=$(VERIF_NO_EVIDENCE=1 VERIF_REPO=$W ${VERIF_HOME:-/verif}/bin/egverify -property "$p" 2>&1); code=$?
  echo "$p exit=$code $(echo "$out" | grep -E '^(violated|CHECKER-ERROR)' | cut -c1-260 | tr '\n' ';')"
done
git -C "$W" reset -q --hard && git -C "$W" clean -fdq
