#!/usr/bin/env python3
"""Generates the tables of DESIGN.md §8 from the committed evidence files, known_findings.json and
seeded/results.json: prints markdown to stdout (pasted into DESIGN.md by tools/mkdesign.py)."""
import json, glob, os, subprocess

V = '/verif'

def rules_table():
    out = ["| property | rule | obligations (discharged / known) | what the rule decides |", "|---|---|---|---|"]
    for f in sorted(glob.glob(V + '/evidence/C*.json')):
        d = json.load(open(f))
        pid = d['property_id']
        for rid, r in sorted(d['coverage'].get('rules', {}).items(), key=lambda kv: (len(kv[0]), kv[0])):
            t = r['template'].replace('|', '\\|').replace('\n', ' ')
            out.append(f"| {pid} | {rid} | {r['obligations']} ({r['discharged']} / {r['known_findings']}) | {t} |")
    return "\n".join(out)

def totals():
    out = ["| property | obligations | discharged | known findings | not decided (from the check's own evidence) |", "|---|---|---|---|---|"]
    for f in sorted(glob.glob(V + '/evidence/C*.json')):
        d = json.load(open(f)); c = d['coverage']
        nd = "; ".join(c.get('not_decided') or [])
        out.append(f"| {d['property_id']} | {c['obligations']} | {c['discharged']} | {c['known_findings']} | {nd.replace('|', '/')} |")
    return "\n".join(out)

def findings():
    d = json.load(open(V + '/known_findings.json'))['findings']
    out = ["| property | status | commit | rule \\| construct | what |", "|---|---|---|---|---|"]
    for f in d:
        what = f['what'].replace('|', '/')
        if what.startswith('fixed: '):
            what = what.split(' ', 3)[3] if len(what.split(' ', 3)) > 3 else what
        out.append(f"| {f['property']} | {f['status']} | {f.get('commit', '')} | `{f['key']}` | {what[:400]} |")
    return "\n".join(out)

def seeded():
    res = json.load(open(V + '/seeded/results.json'))
    out = ["| seeded change | round | files | what was changed (author's summary, shortened) | own check | other checks |", "|---|---|---|---|---|---|"]
    caught = total = 0
    for key in sorted(res):
        pid, x = key.split('/')
        m = json.load(open(f'{V}/seeded/{pid}/{x}/meta.json'))
        r = res[key]
        own = r.get(pid, {})
        total += 1
        def fmt(e):
            if not e: return 'n/a'
            rules = sorted(set(e.get('rules', [])))
            if e['exit'] == 1: return 'caught: ' + ', '.join(rules)
            if e['exit'] == 0: return '**missed** (exit 0)'
            return f"checker error (exit {e['exit']})"
        if own.get('exit') == 1: caught += 1
        others = "; ".join(f"{k}: {fmt(v)}" for k, v in sorted(r.items()) if k != pid and isinstance(v, dict))
        files = ", ".join(os.path.basename(f) for f in (m.get('files') or []))
        summ = (m.get('summary') or '').replace('|', '/').replace('\n', ' ')
        out.append(f"| {key} | {m.get('round', 1)} | {files} | {summ[:260]} | {fmt(own)} | {others} |")
    out.append("")
    out.append(f"Own-property check reports {caught} of {total} seeded changes on the final tree.")
    return "\n".join(out)

def preserving():
    res = json.load(open(V + '/preserving/results.json'))
    out = ["| refactoring | files | what was changed (author's summary, shortened) | checks run | outcome |", "|---|---|---|---|---|"]
    silent = total = 0
    for key in sorted(res):
        pid, x = key.split('/')
        m = json.load(open(f'{V}/preserving/{pid}/{x}/meta.json'))
        r = res[key]
        total += 1
        bad = {k: v for k, v in r.items() if isinstance(v, dict) and v.get('exit') != 0}
        props = ", ".join(sorted(k for k, v in r.items() if isinstance(v, dict)))
        if 'error' in r: outcome = r['error']
        elif not bad: outcome = 'silent'; silent += 1
        else: outcome = "; ".join(f"**{k}: exit {v['exit']}** " + (v.get('report', '')[:160].replace('|', '/')) for k, v in sorted(bad.items()))
        files = ", ".join(os.path.basename(f) for f in (m.get('files') or []))
        summ = (m.get('summary') or '').replace('|', '/').replace('\n', ' ')
        out.append(f"| {key} | {files} | {summ[:220]} | {props} | {outcome} |")
    out.append("")
    out.append(f"{silent} of {total} refactorings leave every check that was run silent on the final tree.")
    return "\n".join(out)

if __name__ == '__main__':
    import sys
    which = sys.argv[1] if len(sys.argv) > 1 else 'all'
    if which in ('rules', 'all'): print(rules_table()); print()
    if which in ('totals', 'all'): print(totals()); print()
    if which in ('findings', 'all'): print(findings()); print()
    if which in ('seeded', 'all'): print(seeded()); print()
    if which in ('preserving', 'all'): print(preserving()); print()
