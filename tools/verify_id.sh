#!/bin/bash
# verify_id.sh <ID> : after an integration — every self-test entry (overlay run each), every seeded change of the property and
# every refactoring of /tmp/vw/<ID>/refactors.txt (or preserving/<ID>/r*) against /verif's binary. One line per item.
set -u
ID=$1; cd /verif
echo "== $ID selftest"; python3 tools/stcheck.py $ID "" 2>&1 | grep -v " OK$"; echo "   selftest rc=$?"
echo "== $ID seeded"; for p in seeded/$ID/*/patch.diff; do echo "$(basename $(dirname $p)): $(tools/mut.sh /verif/$p $ID | cut -c1-120)"; done
echo "== $ID refactorings"; L=/tmp/vw/$ID/refactors.txt; [ -f $L ] || ls -d /verif/preserving/$ID/r*/patch.diff > /tmp/rl_$ID.txt
for p in $(cat ${L:-/tmp/rl_$ID.txt} 2>/dev/null || cat /tmp/rl_$ID.txt); do echo "$(echo $p | sed 's#/verif/preserving/##;s#/patch.diff##'): $(tools/mut.sh $p $ID | cut -c1-220)"; done
