#!/bin/bash
# usage: tools/confirm_seeded.sh <dir with patch.diff, demo/, meta.json> [worktree]
# Independent re-confirmation of a seeded change in a scratch worktree of /repo (never /repo itself):
#  1. demo passes on the unchanged tree, 2. patch applies and the touched packages build,
#  3. demo fails with the patch, 4. the existing tests of every touched package pass with the patch (demo removed).
# Prints one line "CONFIRM <dir> without=<PASS|FAIL> build=<ok|fail> with=<PASS|FAIL> existing=<pass|fail>".
set -u
export GOFLAGS=-mod=mod GOPROXY=off GOSUMDB=off GOTOOLCHAIN=local GOWORK=off
D=$1; W=${2:-/tmp/s5/cf}
mkdir -p /tmp/s5/tmp; export TMPDIR=/tmp/s5/tmp
[ -d "$W" ] || git -C /repo worktree add -q --detach "$W" HEAD
git -C "$W" reset -q --hard && git -C "$W" clean -fdq && git -C "$W" checkout -q --detach "$(git -C /repo rev-parse HEAD)"
ALT=$W/../alt-$(basename $W).mod
cp /repo/go.mod $ALT; cp /repo/go.sum ${ALT%.mod}.sum; echo "replace github.com/lucas-clemente/quic-go => /verif/stubs/quic-go" >> $ALT
MF="-modfile=$ALT -ldflags=-checklinkname=0"
where=$(head -1 $D/demo/where.txt | sed 's/.*->//' | awk '{print $1}'); where=${where#./}; where=${where%/}
tests=$(cat $D/demo/*_test.go | grep -oE '^func (Test[A-Za-z0-9_]+)' | awk '{print $2}' | paste -sd'|')
demo() { (cd $W && timeout 600 go test $MF -vet=off -count=1 -run "^($tests)\$" ./$where/ >$D/.demo_$1.log 2>&1) && echo PASS || echo FAIL; }
cp $D/demo/*_test.go $W/$where/
for f in $D/demo/*; do case $f in *_test.go|*/where.txt) ;; *) [ -f $f ] && cp $f $W/$where/;; esac; done
without=$(demo without)
if ! git -C $W apply $D/patch.diff 2>$D/.apply.log; then echo "CONFIRM $D patch-does-not-apply"; exit 1; fi
pkgs=$(git -C $W diff --name-only | grep '\.go$' | xargs -n1 dirname | sort -u | sed 's#^#./#' | tr '\n' ' ')
(cd $W && go build $MF $pkgs >$D/.build.log 2>&1) && build=ok || build=fail
with=$(demo with)
(cd $W/$where && for f in $D/demo/*; do rm -f $(basename $f); done)
(cd $W && timeout 1500 go test $MF -vet=off -count=1 -p 4 $pkgs >$D/.existing.log 2>&1) && existing=pass || existing=fail
git -C "$W" reset -q --hard && git -C "$W" clean -fdq
echo "CONFIRM $D without=$without build=$build with=$with existing=$existing pkgs=$pkgs"
