module preserving

go 1.17
