package rules

import (
	"go/ast"
	"go/token"
	"go/types"
	"sort"
	"strings"

	"golang.org/x/tools/go/packages"

	"verif/internal/core"
	"verif/internal/flow"
)

// ---------------------------------------------------------------------------------------
// shared helpers (C11)

// c11FieldCall reports whether call is `X.<field>.<method>(...)` with <field> the given
// struct field object (resolved through go/types, never by text).
func c11FieldCall(f *flow.Func, call *ast.CallExpr, field *types.Var, methods ...string) bool {
	sel, ok := ast.Unparen(call.Fun).(*ast.SelectorExpr)
	if !ok {
		return false
	}
	inner, ok := ast.Unparen(sel.X).(*ast.SelectorExpr)
	if !ok {
		return false
	}
	sl := f.Info.Selections[inner]
	if sl == nil || sl.Obj() != field {
		return false
	}
	if len(methods) == 0 {
		return true
	}
	for _, m := range methods {
		if sel.Sel.Name == m {
			return true
		}
	}
	return false
}

// c11FieldsOf returns the field objects of the named struct types (field -> "Type.field").
func c11FieldsOf(c *core.Ctx, rel string, typeNames ...string) map[*types.Var]string {
	out := map[*types.Var]string{}
	for _, tn := range typeNames {
		n := namedType(c, rel, tn)
		if n == nil {
			continue
		}
		st, ok := n.Underlying().(*types.Struct)
		if !ok {
			c.Errorf("anchor: %s.%s is not a struct", rel, tn)
			continue
		}
		var add func(st *types.Struct, prefix string, depth int)
		add = func(st *types.Struct, prefix string, depth int) {
			for i := 0; i < st.NumFields(); i++ {
				fv := st.Field(i)
				out[fv] = prefix + "." + fv.Name()
				// a field group moved into an embedded / named sub-struct held by value is still
				// part of the same object
				if sub, ok := types.Unalias(fv.Type()).(*types.Named); ok && depth < 3 && sub.Obj().Pkg() == n.Obj().Pkg() {
					if sst, ok := sub.Underlying().(*types.Struct); ok {
						add(sst, prefix+"."+fv.Name(), depth+1)
					}
				}
			}
		}
		add(st, tn, 0)
	}
	return out
}

// c11Store is an assignment whose left side goes through a field of a generation type.
type c11Store struct {
	stmt  ast.Stmt
	lhs   ast.Expr
	field *types.Var
	root  *ast.Ident // root identifier of the left side (nil if the root is not an identifier)
	lit   *ast.FuncLit
}

// c11LhsField walks a left-hand side (selectors, indexes, derefs) and returns the first
// generation field it goes through plus the root identifier.
func c11LhsField(info *types.Info, e ast.Expr, fields map[*types.Var]string) (*types.Var, *ast.Ident) {
	var hit *types.Var
	for {
		switch x := ast.Unparen(e).(type) {
		case *ast.SelectorExpr:
			if sl := info.Selections[x]; sl != nil && sl.Kind() == types.FieldVal {
				// embedded promotions: check every field on the implicit path too
				if v, ok := sl.Obj().(*types.Var); ok {
					if _, isGen := fields[v]; isGen {
						hit = v
					}
				}
			}
			e = x.X
		case *ast.IndexExpr:
			e = x.X
		case *ast.StarExpr:
			e = x.X
		case *ast.SliceExpr:
			e = x.X
		case *ast.TypeAssertExpr:
			e = x.X
		case *ast.Ident:
			return hit, x
		default:
			return hit, nil
		}
	}
}

// c11Stores lists the stores through generation fields inside a function declaration
// (function literals included; lit is the innermost literal containing the store).
func c11Stores(info *types.Info, fd *ast.FuncDecl, fields map[*types.Var]string, wholeTypes map[*types.Named]bool) []c11Store {
	var out []c11Store
	var lits []*ast.FuncLit
	add := func(stmt ast.Stmt, lhs ast.Expr) {
		var lit *ast.FuncLit
		if len(lits) > 0 {
			lit = lits[len(lits)-1]
		}
		fv, root := c11LhsField(info, lhs, fields)
		if fv != nil {
			out = append(out, c11Store{stmt: stmt, lhs: lhs, field: fv, root: root, lit: lit})
			return
		}
		// whole-object overwrite: *x = T{...} / xs[i] = T{...} for a generation struct type
		if _, isIdent := ast.Unparen(lhs).(*ast.Ident); isIdent {
			return
		}
		if tv, ok := info.Types[lhs]; ok && tv.Type != nil {
			if n, ok := tv.Type.(*types.Named); ok && wholeTypes[n] {
				out = append(out, c11Store{stmt: stmt, lhs: lhs, field: nil, root: root, lit: lit})
			}
		}
	}
	var visit func(n ast.Node) bool
	visit = func(n ast.Node) bool {
		switch x := n.(type) {
		case *ast.FuncLit:
			lits = append(lits, x)
			ast.Inspect(x.Body, visit)
			lits = lits[:len(lits)-1]
			return false
		case *ast.AssignStmt:
			if x.Tok != token.DEFINE {
				for _, l := range x.Lhs {
					add(x, l)
				}
			}
		case *ast.IncDecStmt:
			add(x, x.X)
		case *ast.RangeStmt:
			if x.Tok == token.ASSIGN {
				if x.Key != nil {
					add(x, x.Key)
				}
				if x.Value != nil {
					add(x, x.Value)
				}
			}
		}
		return true
	}
	ast.Inspect(fd.Body, visit)
	return out
}

// c11LocalValueStore: the left side writes into the storage of a struct-valued local
// variable itself (x.f.g = v with x, x.f struct values, no pointer hop, no indexing):
// the copy-then-modify idiom; such a store cannot touch a published object.
func c11LocalValueStore(info *types.Info, body *ast.BlockStmt, lhs ast.Expr) bool {
	e := ast.Unparen(lhs)
	for {
		switch x := e.(type) {
		case *ast.SelectorExpr:
			tv, ok := info.Types[x.X]
			if !ok || tv.Type == nil {
				return false
			}
			if _, isStruct := tv.Type.Underlying().(*types.Struct); !isStruct {
				return false
			}
			e = ast.Unparen(x.X)
		case *ast.Ident:
			o := info.Uses[x]
			v, ok := o.(*types.Var)
			return ok && !v.IsField() && body.Pos() <= v.Pos() && v.Pos() < body.End()
		default:
			return false
		}
	}
}

// c11IsFreshExpr: the expression creates a new object (&T{...}, T{...}, new(T), make(...)).
func c11IsFreshExpr(info *types.Info, e ast.Expr) bool {
	return c11IsFreshExprD(info, nil, e, 0)
}

// c11IsFreshExprD additionally accepts a call of a same-package constructor (decls != nil).
func c11IsFreshExprD(info *types.Info, decls map[*types.Func]*ast.FuncDecl, e ast.Expr, depth int) bool {
	if c11CtorCall(info, decls, e, depth) {
		return true
	}
	switch x := ast.Unparen(e).(type) {
	case *ast.UnaryExpr:
		if x.Op == token.AND {
			_, ok := ast.Unparen(x.X).(*ast.CompositeLit)
			return ok
		}
	case *ast.CompositeLit:
		return true
	case *ast.CallExpr:
		if id, ok := ast.Unparen(x.Fun).(*ast.Ident); ok {
			if b, ok := info.Uses[id].(*types.Builtin); ok && (b.Name() == "new" || b.Name() == "make") {
				return true
			}
		}
	}
	return false
}

// c11FreshLocal: obj is a variable declared inside body and every assignment to it in
// body takes a freshly created object.
func c11FreshLocal(info *types.Info, body *ast.BlockStmt, obj types.Object) bool {
	return c11FreshLocalD(info, nil, body, obj, 0)
}

func c11FreshLocalD(info *types.Info, decls map[*types.Func]*ast.FuncDecl, body *ast.BlockStmt, obj types.Object, depth int) bool {
	if obj == nil || !(body.Pos() <= obj.Pos() && obj.Pos() < body.End()) {
		return false
	}
	n, good := 0, 0
	ast.Inspect(body, func(x ast.Node) bool {
		switch s := x.(type) {
		case *ast.AssignStmt:
			for i, l := range s.Lhs {
				id, ok := l.(*ast.Ident)
				if !ok || !(info.Defs[id] == obj || info.Uses[id] == obj) {
					continue
				}
				n++
				if len(s.Rhs) == len(s.Lhs) && (s.Tok == token.DEFINE || s.Tok == token.ASSIGN) && c11IsFreshExprD(info, decls, s.Rhs[i], depth) {
					good++
				} else if len(s.Rhs) == 1 && len(s.Lhs) == 2 && i == 0 && s.Tok == token.DEFINE && c11CtorCall(info, decls, s.Rhs[0], depth) {
					good++ // v, err := newT(...)
				}
			}
		case *ast.ValueSpec:
			for i, id := range s.Names {
				if info.Defs[id] != obj {
					continue
				}
				n++
				if len(s.Values) == 0 {
					// var x T (zero value struct) is fresh; var x *T is nil (stores would panic, not mutate)
					good++
				} else if i < len(s.Values) && c11IsFreshExprD(info, decls, s.Values[i], depth) {
					good++
				}
			}
		case *ast.RangeStmt:
			for _, e := range []ast.Expr{s.Key, s.Value} {
				if id, ok := e.(*ast.Ident); ok && (info.Defs[id] == obj || info.Uses[id] == obj) {
					n++ // a range variable aliases existing elements: not fresh
				}
			}
		}
		return true
	})
	return n > 0 && n == good
}

func c11DeclOf(pkg *packages.Package) map[*types.Func]*ast.FuncDecl {
	out := map[*types.Func]*ast.FuncDecl{}
	for _, file := range pkg.Syntax {
		for _, d := range file.Decls {
			if fd, ok := d.(*ast.FuncDecl); ok && fd.Body != nil {
				if o, ok := pkg.TypesInfo.Defs[fd.Name].(*types.Func); ok {
					out[o] = fd
				}
			}
		}
	}
	return out
}

// c11Reach returns the function declarations of pkg reachable from root through static
// calls (function literals included).
// c11SoleImpl resolves a method of an interface declared in pkg to the method of the single
// concrete type of pkg that implements that interface (an unexported interface put in front
// of its only implementation); any other function object is returned unchanged.
func c11SoleImpl(pkg *packages.Package, o *types.Func) *types.Func {
	if o == nil {
		return nil
	}
	sig, ok := o.Type().(*types.Signature)
	if !ok || sig.Recv() == nil || o.Pkg() != pkg.Types {
		return o
	}
	rt := sig.Recv().Type()
	if !types.IsInterface(rt) {
		return o
	}
	it, ok := rt.Underlying().(*types.Interface)
	if !ok {
		return o
	}
	var found *types.Func
	n := 0
	scope := pkg.Types.Scope()
	for _, name := range scope.Names() {
		tn, ok := scope.Lookup(name).(*types.TypeName)
		if !ok || tn.IsAlias() {
			continue
		}
		named, ok := tn.Type().(*types.Named)
		if !ok || types.IsInterface(named) || named.TypeParams().Len() > 0 {
			continue
		}
		for _, t := range []types.Type{named, types.NewPointer(named)} {
			if types.Implements(t, it) {
				obj, _, _ := types.LookupFieldOrMethod(t, true, pkg.Types, o.Name())
				if m, ok := obj.(*types.Func); ok {
					found = m
					n++
				}
				break
			}
		}
	}
	if n == 1 {
		return found
	}
	return o
}

func c11Reach(pkg *packages.Package, decls map[*types.Func]*ast.FuncDecl, root *types.Func) map[*types.Func]bool {
	seen := map[*types.Func]bool{}
	var walk func(o *types.Func)
	walk = func(o *types.Func) {
		if seen[o] {
			return
		}
		fd := decls[o]
		if fd == nil {
			return
		}
		seen[o] = true
		ast.Inspect(fd.Body, func(n ast.Node) bool {
			switch x := n.(type) {
			case *ast.Ident:
				// calls and method values / function values alike
				if callee, ok := pkg.TypesInfo.Uses[x].(*types.Func); ok {
					walk(c11SoleImpl(pkg, callee))
				}
			}
			return true
		})
	}
	walk(root)
	return seen
}

func c11MethodObj(c *core.Ctx, rel, typ, method string) *types.Func {
	n := namedType(c, rel, typ)
	if n == nil {
		return nil
	}
	obj, _, _ := types.LookupFieldOrMethod(types.NewPointer(n), true, n.Obj().Pkg(), method)
	m, _ := obj.(*types.Func)
	if m == nil {
		c.Errorf("anchor: method %s.(%s).%s not found", rel, typ, method)
	}
	return m
}

// c11TypeReaches searches a field path from type `from` to named type `to` through
// struct fields, pointers, slices, arrays, maps and channels of module-declared types
// (interfaces, function types and types of other modules are opaque).
func c11TypeReaches(from types.Type, to *types.Named) []string {
	seen := map[types.Type]bool{}
	var walk func(t types.Type, path []string) []string
	walk = func(t types.Type, path []string) []string {
		if len(path) > 12 {
			return nil
		}
		switch x := t.(type) {
		case *types.Alias:
			return walk(types.Unalias(x), path)
		case *types.Pointer:
			return walk(x.Elem(), path)
		case *types.Slice:
			return walk(x.Elem(), path)
		case *types.Array:
			return walk(x.Elem(), path)
		case *types.Chan:
			return walk(x.Elem(), path)
		case *types.Map:
			if p := walk(x.Key(), path); p != nil {
				return p
			}
			return walk(x.Elem(), path)
		case *types.Named:
			if x.Obj() == to.Obj() {
				return append(append([]string{}, path...), "("+to.Obj().Name()+")")
			}
			if seen[x] {
				return nil
			}
			seen[x] = true
			if x.Obj().Pkg() == nil || !strings.HasPrefix(x.Obj().Pkg().Path(), Mod[:len(Mod)-1]) {
				return nil
			}
			return walk(x.Underlying(), append(path, x.Obj().Name()))
		case *types.Struct:
			for i := 0; i < x.NumFields(); i++ {
				if p := walk(x.Field(i).Type(), append(append([]string{}, path...), "."+x.Field(i).Name())); p != nil {
					return p
				}
			}
		}
		return nil
	}
	return walk(from, nil)
}

// c11Uniq makes a construct unique within the run: the second, third ... site with the same
// role in the same function gets an ordinal suffix.
func c11Uniq(c *core.Ctx, rule, construct string) string {
	n := 1
	for _, o := range c.Obligations {
		if o.Rule == rule && (o.Construct == construct || strings.HasPrefix(o.Construct, construct+" #")) {
			n++
		}
	}
	if n == 1 {
		return construct
	}
	return sprintf("%s #%d", construct, n)
}

// c11Bump counts an event up to 2 ("ev:x:1", "ev:x:2").
func c11Bump(st *flow.State, ev string) {
	if st.Is(ev+":1", flow.True) {
		st.Set(ev+":2", flow.True)
	} else {
		st.Set(ev+":1", flow.True)
	}
}

// ---------------------------------------------------------------------------------------
// R-C11-1

func c11SingleLoad(c *core.Ctx) {
	r := c11ResolveRouter(c)
	if r == nil {
		return
	}
	pkg, instF, muxT, miT, serveInst := r.pkg, r.instF, r.muxT, r.miT, r.serveInst
	info := pkg.TypesInfo
	muxN, miN := muxT.Obj().Name(), miT.Obj().Name()
	decls := c11DeclOf(pkg)

	// (a) the generation pointer is only ever used as the receiver of Load / Store
	uses, badUse := 0, 0
	loadsIn := map[*ast.FuncDecl][]*ast.CallExpr{}
	nLoads, nStores := 0, 0
	eachFunc(c, func(p *packages.Package, fd *ast.FuncDecl) {
		if p != pkg {
			return
		}
		f := flow.NewFunc(p, fd)
		okSel := map[*ast.SelectorExpr]bool{}
		for _, call := range calls(fd.Body, true) {
			if c11FieldCall(f, call, instF, "Load", "Store") {
				okSel[ast.Unparen(ast.Unparen(call.Fun).(*ast.SelectorExpr).X).(*ast.SelectorExpr)] = true
				if methodName(call) == "Load" {
					loadsIn[fd] = append(loadsIn[fd], call)
					nLoads++
				} else {
					nStores++
				}
			}
		}
		ast.Inspect(fd.Body, func(n ast.Node) bool {
			if sel, ok := n.(*ast.SelectorExpr); ok {
				if sl := info.Selections[sel]; sl != nil && sl.Obj() == instF {
					uses++
					if !okSel[sel] {
						badUse++
						c.Violate("R-C11-1", declName(p, fd)+"|mux.inst accessed only by Load/Store", pos(c, sel),
							"the generation pointer "+muxN+"."+instF.Name()+" is used other than as the receiver of atomic Load/Store (copied, address taken, swapped): readers may then see a torn or stale generation")
					}
				}
			}
			return true
		})
	})
	c.RequireCount("R-C11-1", "Load call sites of the generation pointer", nLoads, 1)
	c.RequireCount("R-C11-1", "Store call sites of the generation pointer", nStores, 1)
	if badUse == 0 {
		c.Discharge("R-C11-1", hs+".mux.inst|accessed only by Load/Store", c.Prog.Rel(instF.Pos()), sprintf("%d uses of %s.%s, all receivers of atomic.Value Load/Store", uses, muxN, instF.Name()))
	}

	// (b) serving one request: at most one Load and one dispatch on any path through ServeHTTP
	// and the same-package functions it calls; the dispatch receiver is the loaded value
	serveFd := decls[r.serve]
	if serveFd == nil {
		c.Errorf("R-C11-1: anchor: %s.ServeHTTP has no body", muxN)
		return
	}
	c.Count("functions_analysed", 1)
	cons := fname(hs, muxN, "ServeHTTP")
	loaders := c11Loaders(pkg, decls, instF)
	loadCnt := c11NewCounter(c, pkg, decls, func(g *flow.Func, call *ast.CallExpr) bool { return c11FieldCall(g, call, instF, "Load") })
	dispCnt := c11NewCounter(c, pkg, decls, func(g *flow.Func, call *ast.CallExpr) bool { return g.Callee(call) == serveInst })
	c.RequireCount("R-C11-1", "generation Load sites in the call tree of ServeHTTP", len(loadCnt.sites(r.serve)), 1)
	dispatch := dispCnt.sites(r.serve)
	var top []reachCall // dispatch sites outside the instance's own call tree
	below := c11Reach(pkg, decls, serveInst)
	for _, d := range dispatch {
		if o, ok := info.Defs[d.Fn.Node.(*ast.FuncDecl).Name].(*types.Func); ok && !below[o] {
			top = append(top, d)
		}
	}
	if c.RequireCount("R-C11-1", "dispatch call sites ServeHTTP -> "+miN+"."+serveInst.Name(), len(top), 1) {
		nl, nd := loadCnt.max(serveFd), dispCnt.max(serveFd)
		var w []string
		why := ""
		switch {
		case nl > 1:
			why = "the generation pointer is loaded more than once while serving one request (ServeHTTP and the functions it calls): a reload between the two loads makes the request use two generations (e.g. options of one, routes of the other)"
			w = witness(loadCnt.wit[serveFd])
		case nd > 1:
			why = "one request is dispatched to " + miN + "." + serveInst.Name() + " twice"
			w = witness(dispCnt.wit[serveFd])
		}
		c.Check(why == "", "R-C11-1", cons+"|generation loaded once per request", pos(c, top[0].Call),
			sprintf("on every path through ServeHTTP and its same-package callees: at most %d Load of the generation pointer, %d dispatch", nl, nd), why, w...)
		for _, d := range top {
			ok, why := c11FromLoad(d.Fn, d.Call, instF, loaders), ""
			if !ok {
				why = "the " + miN + " that serves the request is not the value returned by this request's Load of the generation pointer"
			}
			for _, a := range d.Call.Args {
				if a == c11Subject(d.Fn, d.Call) {
					continue
				}
				if tv, has := info.Types[a]; has && c11TypeReaches(tv.Type, muxT) != nil {
					ok, why = false, "the mux itself is handed to the instance's request method: the request path can load the generation pointer a second time"
				}
			}
			c.Check(ok, "R-C11-1", c11Uniq(c, "R-C11-1", cons+"|dispatch on the loaded generation"), pos(c, d.Call),
				"the receiver of the request method is the result of the generation Load and no argument leads back to the mux", why)
		}
	}

	// (c) no Load on the request path
	reach := below
	c.RequireCount("R-C11-1", "functions on the request path below the instance's request method", len(reach), 5)
	bad := 0
	for o := range reach {
		fd := decls[o]
		for _, l := range loadsIn[fd] {
			bad++
			c.Violate("R-C11-1", declName(pkg, fd)+"|no generation load on the request path", pos(c, l),
				"a function reachable from "+miN+"."+serveInst.Name()+" loads the generation pointer again: after a concurrent reload the request continues with parts of a second generation")
		}
	}
	if bad == 0 {
		c.Discharge("R-C11-1", fname(hs, miN, serveInst.Name())+"|no generation load on the request path", c.Prog.Rel(serveInst.Pos()),
			sprintf("%d functions reachable from %s, none loads the generation pointer", len(reach), serveInst.Name()))
	}

	// (d) no field path from a generation type back to the mux
	gen := c11GenTypes(r)
	c.RequireCount("R-C11-1", "generation types (instance, rule, path, route)", len(gen), 3)
	for _, n := range gen {
		p := c11TypeReaches(n.Underlying(), muxT)
		c.Check(p == nil, "R-C11-1", hs+"."+n.Obj().Name()+"|no field path back to mux", c.Prog.Rel(n.Obj().Pos()),
			"no chain of struct fields leads from the generation to the mux", "field path "+n.Obj().Name()+strings.Join(p, "")+" lets the request path reach the generation pointer and load another generation")
	}

	// (e) the pipeline handler is resolved once per request (over the request method and its callees)
	if shFd := decls[serveInst]; shFd != nil {
		getCnt := c11NewCounter(c, pkg, decls, func(g *flow.Func, call *ast.CallExpr) bool {
			return ifaceMethodCall(g, call, "pkg/context", "MuxMapper", "GetHandler")
		})
		gets := getCnt.sites(serveInst)
		if c.RequireCount("R-C11-1", "MuxMapper.GetHandler call sites below the instance's request method", len(gets), 1) {
			n := getCnt.max(shFd)
			c.Check(n <= 1, "R-C11-1", fname(hs, miN, serveInst.Name())+"|pipeline handler resolved once", pos(c, gets[0].Call),
				sprintf("GetHandler is evaluated at most once on every path (%d site(s) in the call tree)", len(gets)),
				"the backend pipeline is looked up more than once for one request: an update or delete between the lookups gives the request two pipeline generations (or a nil handler)", witness(getCnt.wit[shFd])...)
		}
	}
	gh := fn(c, "pkg/object/trafficcontroller", "Namespace", "GetHandler")
	if gh != nil {
		var maps []*types.Var
		for _, rg := range c11Registries(c) {
			if rg.owner == "Namespace" {
				maps = append(maps, rg.field)
			}
		}
		tcPkg := c.Prog.Pkg("pkg/object/trafficcontroller")
		tcDecls := c11DeclOf(tcPkg)
		_ = maps
		regs := c11Registries(c)
		isAcc := func(g *flow.Func, call *ast.CallExpr) bool {
			_, ok := c11RegCall(g, call, regs)
			return ok
		}
		cnt := c11NewCounter(c, tcPkg, tcDecls, isAcc)
		ghObj, _ := tcPkg.TypesInfo.Defs[gh.Node.(*ast.FuncDecl).Name].(*types.Func)
		if ghObj != nil && c.RequireCount("R-C11-1", "registry map accesses in Namespace.GetHandler", len(cnt.sites(ghObj)), 1) {
			n := cnt.max(gh.Node.(*ast.FuncDecl))
			c.Check(n <= 1, "R-C11-1", fname("pkg/object/trafficcontroller", "Namespace", "GetHandler")+"|entity loaded once", pos(c, gh.Body),
				"the pipelines map is consulted at most once per lookup", "the pipelines map is consulted twice in one lookup: the existence test and the returned handler may belong to different generations (nil entity after a delete)", witness(cnt.wit[gh.Node.(*ast.FuncDecl)])...)
		}
	}
}

// c11Loaders: same-package functions every return of which yields (a type assertion of)
// the generation Load — `func (m *mux) current() *muxInstance`.
func c11Loaders(pkg *packages.Package, decls map[*types.Func]*ast.FuncDecl, instF *types.Var) map[*types.Func]bool {
	out := map[*types.Func]bool{}
	for o, fd := range decls {
		if fd.Type.Results == nil || len(fd.Type.Results.List) != 1 {
			continue
		}
		f := flow.NewFunc(pkg, fd)
		n, good := 0, 0
		ast.Inspect(fd.Body, func(x ast.Node) bool {
			switch s := x.(type) {
			case *ast.FuncLit:
				return false
			case *ast.ReturnStmt:
				n++
				if len(s.Results) == 1 && c11IsLoadExpr(f, s.Results[0], instF, nil) {
					good++
				} else if len(s.Results) == 1 {
					if id, ok := ast.Unparen(s.Results[0]).(*ast.Ident); ok && c11OnlyFromLoad(f, id, instF, nil) {
						good++
					}
				}
			}
			return true
		})
		if n > 0 && n == good {
			out[o] = true
		}
	}
	return out
}

func c11IsLoadExpr(f *flow.Func, e ast.Expr, instF *types.Var, loaders map[*types.Func]bool) bool {
	switch x := ast.Unparen(e).(type) {
	case *ast.TypeAssertExpr:
		return c11IsLoadExpr(f, x.X, instF, loaders)
	case *ast.CallExpr:
		if c11FieldCall(f, x, instF, "Load") {
			return true
		}
		if callee, ok := f.Callee(x).(*types.Func); ok && loaders[callee.Origin()] {
			return true
		}
	}
	return false
}

// c11OnlyFromLoad: the local variable is only ever assigned from the generation Load.
func c11OnlyFromLoad(f *flow.Func, id *ast.Ident, instF *types.Var, loaders map[*types.Func]bool) bool {
	obj := f.Info.Uses[id]
	if obj == nil {
		return false
	}
	n, good := 0, 0
	ast.Inspect(f.Body, func(x ast.Node) bool {
		switch as := x.(type) {
		case *ast.AssignStmt:
			for i, l := range as.Lhs {
				if lid, ok := l.(*ast.Ident); ok && (f.Info.Defs[lid] == obj || f.Info.Uses[lid] == obj) {
					n++
					if len(as.Rhs) == len(as.Lhs) && c11IsLoadExpr(f, as.Rhs[i], instF, loaders) {
						good++
					} else if len(as.Rhs) == 1 && len(as.Lhs) == 2 && i == 0 && c11IsLoadExpr(f, as.Rhs[0], instF, loaders) {
						good++ // v, ok := Load().(*T)
					}
				}
			}
		case *ast.ValueSpec:
			for i, lid := range as.Names {
				if f.Info.Defs[lid] == obj {
					n++
					if i < len(as.Values) && c11IsLoadExpr(f, as.Values[i], instF, loaders) {
						good++
					}
				}
			}
		}
		return true
	})
	return n > 0 && n == good
}

// c11FromLoad: the receiver of call is (a type assertion of) the generation Load, a call of
// a loader helper, or a local variable only ever assigned from one of these.
func c11FromLoad(f *flow.Func, call *ast.CallExpr, instF *types.Var, loaders map[*types.Func]bool) bool {
	subj := c11Subject(f, call)
	if subj == nil {
		return false
	}
	if c11IsLoadExpr(f, subj, instF, loaders) {
		return true
	}
	id, ok := ast.Unparen(subj).(*ast.Ident)
	return ok && c11OnlyFromLoad(f, id, instF, loaders)
}

// c11Subject is the object a call works on: the receiver of a method call, the first
// argument of a plain function call (a method turned into a function).
func c11Subject(f *flow.Func, call *ast.CallExpr) ast.Expr {
	if sel, ok := ast.Unparen(call.Fun).(*ast.SelectorExpr); ok {
		if s := f.Info.Selections[sel]; s != nil && s.Kind() == types.MethodVal {
			return sel.X
		}
	}
	// a method value held in a single-assignment local: serve := X.m; serve(w, r)
	if id, ok := ast.Unparen(call.Fun).(*ast.Ident); ok {
		if v, ok := f.Info.Uses[id].(*types.Var); ok && !v.IsField() {
			var src ast.Expr
			n := 0
			ast.Inspect(f.Body, func(x ast.Node) bool {
				if as, ok := x.(*ast.AssignStmt); ok {
					for i, l := range as.Lhs {
						if lid, ok := l.(*ast.Ident); ok && (f.Info.Defs[lid] == v || f.Info.Uses[lid] == v) {
							n++
							if len(as.Rhs) == len(as.Lhs) {
								src = as.Rhs[i]
							}
						}
					}
				}
				return true
			})
			if n == 1 && src != nil {
				if sel, ok := ast.Unparen(src).(*ast.SelectorExpr); ok {
					if s := f.Info.Selections[sel]; s != nil && s.Kind() == types.MethodVal {
						return sel.X
					}
				}
			}
		}
	}
	if len(call.Args) > 0 {
		return call.Args[0]
	}
	return nil
}

// ---------------------------------------------------------------------------------------
// R-C11-2 (router generation)

type c11FnInfo struct {
	fd     *ast.FuncDecl
	f      *flow.Func
	stores []c11Store
	pubs   []*ast.CallExpr
	res    *flow.Result
	ran    bool
}

func c11MuxImmutable(c *core.Ctx) {
	r := c11ResolveRouter(c)
	if r == nil {
		return
	}
	pkg, instF := r.pkg, r.instF
	info := pkg.TypesInfo
	var genTypes []string
	whole := map[*types.Named]bool{}
	for _, n := range c11GenTypes(r) {
		genTypes = append(genTypes, n.Obj().Name())
		whole[n] = true
	}
	fields := c11FieldsOf(c, hs, genTypes...)
	if len(genTypes) < 3 || len(fields) < 20 {
		c.Errorf("R-C11-2: anchor: expected the instance type, its rule and path types (and the route result type), found %v with %d fields", genTypes, len(fields))
		return
	}
	decls := c11DeclOf(pkg)
	sites, escapes := c11CallIndex(pkg, decls)
	infos := map[*ast.FuncDecl]*c11FnInfo{}
	get := func(fd *ast.FuncDecl) *c11FnInfo {
		if fi := infos[fd]; fi != nil {
			return fi
		}
		fi := &c11FnInfo{fd: fd, f: flow.NewFunc(pkg, fd)}
		fi.stores = c11Stores(info, fd, fields, whole)
		for _, call := range calls(fd.Body, true) {
			if c11FieldCall(fi.f, call, instF, "Store") {
				fi.pubs = append(fi.pubs, call)
			}
		}
		infos[fd] = fi
		return fi
	}
	run := func(fi *c11FnInfo) *flow.Result {
		if fi.ran {
			return fi.res
		}
		fi.ran = true
		c.Count("functions_analysed", 1)
		f := fi.f
		fi.res = analyze(c, f, flow.Config{NoHavoc: true, Track: func(string) bool { return false },
			OnCall: func(st *flow.State, call *ast.CallExpr, callee types.Object, deferred bool) {
				if c11FieldCall(f, call, instF, "Store") && len(call.Args) == 1 {
					st.Set("ev:pub:"+f.Render(call.Args[0]), flow.True)
					st.Set("ev:pub", flow.True)
				}
			}})
		return fi.res
	}
	// publishedAt: some state reaching node n has already published the variable id
	publishedAt := func(fi *c11FnInfo, n ast.Node, id *ast.Ident) (*flow.State, int) {
		res := run(fi)
		if res == nil {
			return nil, 0
		}
		for _, st := range res.At[n] {
			if st.Is("ev:pub:"+fi.f.Render(id), flow.True) {
				return st, len(res.At[n])
			}
		}
		return nil, len(res.At[n])
	}

	// builder: fd assigns through its receiver / idx-th parameter; that is construction iff every
	// call site hands it a fresh, not yet published object (or the caller is such a helper itself).
	// verdict: 1 ok, 0 violated, -1 cannot tell.
	var builder func(fd *ast.FuncDecl, idx int, depth int, seen map[*ast.FuncDecl]bool) (int, string)
	builder = func(fd *ast.FuncDecl, idx int, depth int, seen map[*ast.FuncDecl]bool) (int, string) {
		obj, _ := info.Defs[fd.Name].(*types.Func)
		if obj == nil || depth > 3 || seen[fd] {
			return -1, "helper chain too deep"
		}
		seen[fd] = true
		defer delete(seen, fd)
		if escapes[obj] {
			return -1, declName(pkg, fd) + " is also used as a function value: its callers cannot be enumerated"
		}
		if fd.Name.IsExported() && (fd.Recv == nil || ast.IsExported(c11RecvName(obj))) {
			return -1, declName(pkg, fd) + " is exported: it may be called on a published object from another package"
		}
		ss := sites[obj]
		if len(ss) == 0 {
			return -1, declName(pkg, fd) + " has no static caller"
		}
		var callers []string
		for _, s := range ss {
			var arg ast.Expr
			if idx < 0 {
				arg = c11Recv(s.call)
			} else if idx < len(s.call.Args) {
				arg = s.call.Args[idx]
			}
			where := declName(pkg, s.caller) + " at " + pos(c, s.call)
			// an element of a fresh local container that only ever receives freshly created objects
			// (paths[j] after paths[j] = newMuxPath(...), or the range variable over paths)
			if arg != nil {
				if root := c11FreshElement(info, decls, s.caller.Body, arg); root != nil {
					if s.inLit {
						return -1, "the call in " + where + " is inside a function literal: it cannot be ordered against the publication"
					}
					fi := get(s.caller)
					res := run(fi)
					published, n := false, 0
					if res != nil {
						n = len(res.At[s.call])
						for _, st := range res.At[s.call] {
							if st.Is("ev:pub", flow.True) {
								published = true
							}
						}
					}
					if published {
						return 0, "the caller " + where + " calls it after a generation has been published with Store"
					} else if n == 0 {
						return -1, "the call in " + where + " is not reached by the flow analysis"
					}
					callers = append(callers, declName(pkg, s.caller))
					continue
				}
			}
			id, ok := ast.Unparen(arg).(*ast.Ident)
			if !ok {
				if arg != nil && c11IsFreshExprD(info, decls, arg, 0) {
					callers = append(callers, declName(pkg, s.caller))
					continue
				}
				return 0, "the caller " + where + " passes an expression that is not a freshly created object"
			}
			o := info.Uses[id]
			switch {
			case c11FreshLocalD(info, decls, s.caller.Body, o, 0):
				if s.inLit {
					return -1, "the call in " + where + " is inside a function literal: it cannot be ordered against the publication"
				}
				if st, n := publishedAt(get(s.caller), s.call, id); st != nil {
					return 0, "the caller " + where + " calls it after the instance has been published with Store"
				} else if n == 0 {
					return -1, "the call in " + where + " is not reached by the flow analysis"
				}
				callers = append(callers, declName(pkg, s.caller))
			default:
				if j, ok := c11ParamIndex(info, s.caller, o); ok {
					v, why := builder(s.caller, j, depth+1, seen)
					if v != 1 {
						return v, why
					}
					callers = append(callers, declName(pkg, s.caller))
				} else {
					return 0, "the caller " + where + " passes " + id.Name + ", which is not an object freshly created there (a published generation)"
				}
			}
		}
		return 1, "callers: " + strings.Join(callers, ", ")
	}

	nStores, nPub := 0, 0
	var fds []*ast.FuncDecl
	for _, fd := range decls {
		fds = append(fds, fd)
	}
	sort.Slice(fds, func(i, j int) bool { return fds[i].Pos() < fds[j].Pos() })
	for _, fd := range fds {
		fi := get(fd)
		if len(fi.stores) == 0 && len(fi.pubs) == 0 {
			continue
		}
		f := fi.f
		name := declName(pkg, fd)
		nStores += len(fi.stores)
		nPub += len(fi.pubs)
		res := run(fi)
		if res == nil {
			continue
		}
		for _, s := range fi.stores {
			what := "a generation object"
			if s.field != nil {
				what = fields[s.field]
			}
			cons := c11Uniq(c, "R-C11-2", name+"|store to "+what)
			inPlace := sprintf("%s is assigned through %q, which is not an object freshly created in this function: a published router generation is modified in place while requests that loaded it are running (they see a mix of old and new rules/options)", what, types.ExprString(s.lhs))
			var rootObj types.Object
			if s.root != nil {
				rootObj = f.Info.Uses[s.root]
			}
			fresh := s.root != nil && (c11FreshLocalD(info, decls, fd.Body, rootObj, 0) || c11LocalValueStore(info, fd.Body, s.lhs))
			switch {
			case s.lit != nil:
				c.Undecide("R-C11-2", cons, pos(c, s.stmt), "store inside a function literal: cannot order it against the publication")
			case fresh:
				bad, n := publishedAt(fi, s.stmt, s.root)
				c.Check(bad == nil, "R-C11-2", cons, pos(c, s.stmt),
					sprintf("written on the new, not yet published instance (%d states)", n),
					sprintf("%s is written after the instance has been published with Store: requests already see the new generation while it is still being built", what), witness(bad)...)
			default:
				idx, isParam := c11ParamIndex(info, fd, rootObj)
				if !isParam {
					c.Violate("R-C11-2", cons, pos(c, s.stmt), inPlace)
					break
				}
				if bad, _ := publishedAt(fi, s.stmt, s.root); bad != nil {
					c.Violate("R-C11-2", cons, pos(c, s.stmt), sprintf("%s is written after the helper itself published the instance with Store", what), witness(bad)...)
					break
				}
				v, why := builder(fd, idx, 0, map[*ast.FuncDecl]bool{})
				switch v {
				case 1:
					c.Discharge("R-C11-2", cons, pos(c, s.stmt), "construction helper: every call site hands it a freshly created instance before that instance is published ("+why+")")
				case 0:
					c.Violate("R-C11-2", cons, pos(c, s.stmt), inPlace+" — "+why)
				default:
					c.Undecide("R-C11-2", cons, pos(c, s.stmt), "cannot tell whether "+s.root.Name+" is still private when this helper runs: "+why)
				}
			}
		}
		for _, p := range fi.pubs {
			cons := c11Uniq(c, "R-C11-2", name+"|published value")
			arg := ast.Unparen(p.Args[0])
			fresh := c11IsFreshExprD(info, decls, arg, 0)
			if id, ok := arg.(*ast.Ident); ok {
				fresh = c11FreshLocalD(info, decls, fd.Body, f.Info.Uses[id], 0)
			}
			if ue, ok := arg.(*ast.UnaryExpr); ok && ue.Op == token.AND {
				// &local of a struct-valued local: its own storage
				if id, ok := ast.Unparen(ue.X).(*ast.Ident); ok {
					if v, ok := f.Info.Uses[id].(*types.Var); ok && !v.IsField() && fd.Body.Pos() <= v.Pos() && v.Pos() < fd.Body.End() {
						if _, isStruct := v.Type().Underlying().(*types.Struct); isStruct {
							fresh = true
						}
					}
				}
			}
			c.Check(fresh, "R-C11-2", cons, pos(c, p),
				"the generation Store publishes an instance created in this function",
				"the generation Store publishes a value that is not a freshly built instance (nil or an instance shared with an older generation)")
		}
		if len(fi.pubs) > 0 {
			var bad *flow.Exit
			for _, ex := range res.Exits {
				if ex.Kind == flow.ExitReturn && !ex.State.Is("ev:pub", flow.True) {
					bad = ex
					break
				}
			}
			var w []string
			if bad != nil {
				w = witness(bad.State)
			}
			c.Check(bad == nil, "R-C11-2", name+"|every return publishes the new generation", pos(c, fi.pubs[0]),
				sprintf("%d exits, all after the generation Store", len(res.Exits)),
				"the function can return without storing the new instance: the update is reported as applied but new requests keep seeing the old generation", w...)
		}
	}
	c11RuntimeReload(c, r, decls, sites)
	// stores may legitimately all live in composite literals (then there is nothing to order);
	// the subject that must exist is the publication
	c.Stats["R-C11-2:stores through fields of generation types"] = nStores
	c.RequireCount("R-C11-2", "generation Store publication sites", nPub, 1)
}

// c11RuntimeReload: every update event reaches the router — on every returning path of the
// function(s) that call the mux's reload (the method of the mux that publishes a new
// generation), the mux has been reloaded exactly once.
func c11RuntimeReload(c *core.Ctx, r *c11Router, decls map[*types.Func]*ast.FuncDecl, sites map[*types.Func][]c11CallSite) {
	pkg := r.pkg
	// role: methods of the mux type that Store a new generation
	var reloads []*types.Func
	for o, fd := range decls {
		f := flow.NewFunc(pkg, fd)
		for _, call := range calls(fd.Body, true) {
			if !c11FieldCall(f, call, r.instF, "Store") {
				continue
			}
			// the mux is handed in (receiver or parameter): an update of an existing mux, not its construction
			if root := c11RootIdent(c11Recv(call)); root != nil {
				if _, isParam := c11ParamIndex(f.Info, fd, f.Info.Uses[root]); isParam {
					reloads = append(reloads, o)
					break
				}
			}
		}
	}
	sort.Slice(reloads, func(i, j int) bool { return reloads[i].Pos() < reloads[j].Pos() })
	if len(reloads) == 0 {
		c.Errorf("R-C11-2: anchor: no function publishes a new generation into an existing %s", r.muxT.Obj().Name())
		return
	}
	isReload := func(o types.Object) bool {
		if fo, ok := o.(*types.Func); ok {
			o = c11SoleImpl(pkg, fo.Origin())
		}
		for _, m := range reloads {
			if o == m {
				return true
			}
		}
		return false
	}
	// the update handlers: same-package functions that receive the new *supervisor.Spec and
	// (transitively) reload the mux; the outermost ones are where an update is accepted
	supSpec := namedType(c, c11Sup, "Spec")
	hsSpec := namedType(c, hs, "Spec")
	if supSpec == nil || hsSpec == nil {
		return
	}
	cnt := c11NewCounter(c, pkg, decls, func(g *flow.Func, call *ast.CallExpr) bool { return isReload(g.Callee(call)) })
	takesSpec := func(o *types.Func) bool {
		sig := o.Type().(*types.Signature)
		for i := 0; i < sig.Params().Len(); i++ {
			if types.Identical(sig.Params().At(i).Type(), types.NewPointer(supSpec)) {
				return true
			}
		}
		return false
	}
	// a handler hands the spec it received on to the reload (directly or through another handler)
	handler := map[*types.Func]bool{}
	for changed := true; changed; {
		changed = false
		for o, fd := range decls {
			if handler[o] || isReload(o) || !takesSpec(o) {
				continue
			}
			g := flow.NewFunc(pkg, fd)
			for _, call := range calls(fd.Body, true) {
				callee, ok := g.Callee(call).(*types.Func)
				if !ok {
					continue
				}
				callee = c11SoleImpl(pkg, callee.Origin())
				if !(isReload(callee) || handler[callee]) {
					continue
				}
				for _, a := range call.Args {
					if tv, ok := g.Info.Types[a]; ok && tv.Type != nil && types.Identical(tv.Type, types.NewPointer(supSpec)) {
						handler[o] = true
						changed = true
					}
				}
			}
		}
	}
	var roots []*types.Func
	for o := range handler {
		outer := true
		for _, st := range sites[o] {
			if co, ok := pkg.TypesInfo.Defs[st.caller.Name].(*types.Func); ok && handler[co] && co != o {
				outer = false
			}
		}
		if outer {
			roots = append(roots, o)
		}
	}
	sort.Slice(roots, func(i, j int) bool { return roots[i].Pos() < roots[j].Pos() })
	if len(roots) == 0 {
		// the publishing function itself receives the new spec (the store moved to the caller):
		// "every return publishes the new generation" already covers all its paths
		for _, m := range reloads {
			if takesSpec(m) {
				c.Discharge("R-C11-2", declName(pkg, decls[m])+"|router reloaded on every update", c.Prog.Rel(m.Pos()),
					"the function that receives the new spec publishes the new generation itself (see 'every return publishes the new generation')")
				return
			}
		}
		c.Violate("R-C11-2", hs+".runtime|router reloaded on every update", c.Prog.Rel(reloads[0].Pos()), "no function that receives a new *supervisor.Spec reloads the mux: rule/option updates are not applied to the router")
		return
	}
	for _, root := range roots {
		fd := decls[root]
		f := flow.NewFunc(pkg, fd)
		cons := declName(pkg, fd) + "|router reloaded on every update"
		c.Count("functions_analysed", 1)
		// variables holding the new object spec (*Spec of this package): a path on which one of
		// them is known to be nil is the defensive "no spec" path, not an accepted update
		specVar := map[*types.Var]*ast.Ident{}
		ast.Inspect(fd, func(n ast.Node) bool {
			if id, ok := n.(*ast.Ident); ok {
				if v, ok := f.Info.Defs[id].(*types.Var); ok && !v.IsField() && types.Identical(v.Type(), types.NewPointer(hsSpec)) {
					specVar[v] = id
				}
			}
			return true
		})
		res := analyze(c, f, flow.Config{NoHavoc: true, Track: func(k string) bool { return strings.HasPrefix(k, "nil:") },
			OnCall: func(st *flow.State, call *ast.CallExpr, callee types.Object, deferred bool) {
				for i, n := 0, cnt.weight(f, call); i < n; i++ {
					c11Bump(st, "ev:reload")
				}
				for i, n := 0, cnt.minWeight(f, call); i < n; i++ {
					c11Bump(st, "ev:surely")
				}
			}})
		if res == nil {
			continue
		}
		var bad *flow.Exit
		why := ""
		for _, ex := range res.Exits {
			if ex.Kind != flow.ExitReturn {
				continue
			}
			noSpec := false
			for _, id := range specVar {
				if ex.State.Is(f.NilKey(id), flow.True) {
					noSpec = true
				}
			}
			switch {
			case !noSpec && !ex.State.Is("ev:surely:1", flow.True):
				bad, why = ex, "the update handler can return, having accepted a new spec, without the router having been reloaded with it (e.g. on the restart branch): the listener and the server options follow the new spec but requests are still routed by the previous generation's rules"
			case ex.State.Is("ev:reload:2", flow.True):
				bad, why = ex, "the router is reloaded twice for one update"
			}
			if bad != nil {
				break
			}
		}
		var w []string
		if bad != nil {
			w = witness(bad.State)
		}
		c.Check(bad == nil, "R-C11-2", cons, pos(c, fd.Name), sprintf("%d exits: every path that accepts a new spec reloads the mux exactly once (directly or in a same-package helper)", len(res.Exits)), why, w...)
	}
}
