package rules

import (
	"go/ast"
	"go/token"
	"go/types"
	"sort"
	"strings"

	"golang.org/x/tools/go/packages"

	"verif/internal/core"
	"verif/internal/flow"
)

// ---------------------------------------------------------------------------------------
// shared helpers (C11)

// c11FieldCall reports whether call is `X.<field>.<method>(...)` with <field> the given
// struct field object (resolved through go/types, never by text).
func c11FieldCall(f *flow.Func, call *ast.CallExpr, field *types.Var, methods ...string) bool {
	sel, ok := ast.Unparen(call.Fun).(*ast.SelectorExpr)
	if !ok {
		return false
	}
	inner, ok := ast.Unparen(sel.X).(*ast.SelectorExpr)
	if !ok {
		return false
	}
	sl := f.Info.Selections[inner]
	if sl == nil || sl.Obj() != field {
		return false
	}
	if len(methods) == 0 {
		return true
	}
	for _, m := range methods {
		if sel.Sel.Name == m {
			return true
		}
	}
	return false
}

// c11FieldsOf returns the field objects of the named struct types (field -> "Type.field").
func c11FieldsOf(c *core.Ctx, rel string, typeNames ...string) map[*types.Var]string {
	out := map[*types.Var]string{}
	for _, tn := range typeNames {
		n := namedType(c, rel, tn)
		if n == nil {
			continue
		}
		st, ok := n.Underlying().(*types.Struct)
		if !ok {
			c.Errorf("anchor: %s.%s is not a struct", rel, tn)
			continue
		}
		for i := 0; i < st.NumFields(); i++ {
			out[st.Field(i)] = tn + "." + st.Field(i).Name()
		}
	}
	return out
}

// c11Store is an assignment whose left side goes through a field of a generation type.
type c11Store struct {
	stmt  ast.Stmt
	lhs   ast.Expr
	field *types.Var
	root  *ast.Ident // root identifier of the left side (nil if the root is not an identifier)
	lit   *ast.FuncLit
}

// c11LhsField walks a left-hand side (selectors, indexes, derefs) and returns the first
// generation field it goes through plus the root identifier.
func c11LhsField(info *types.Info, e ast.Expr, fields map[*types.Var]string) (*types.Var, *ast.Ident) {
	var hit *types.Var
	for {
		switch x := ast.Unparen(e).(type) {
		case *ast.SelectorExpr:
			if sl := info.Selections[x]; sl != nil && sl.Kind() == types.FieldVal {
				// embedded promotions: check every field on the implicit path too
				if v, ok := sl.Obj().(*types.Var); ok {
					if _, isGen := fields[v]; isGen {
						hit = v
					}
				}
			}
			e = x.X
		case *ast.IndexExpr:
			e = x.X
		case *ast.StarExpr:
			e = x.X
		case *ast.SliceExpr:
			e = x.X
		case *ast.TypeAssertExpr:
			e = x.X
		case *ast.Ident:
			return hit, x
		default:
			return hit, nil
		}
	}
}

// c11Stores lists the stores through generation fields inside a function declaration
// (function literals included; lit is the innermost literal containing the store).
func c11Stores(info *types.Info, fd *ast.FuncDecl, fields map[*types.Var]string, wholeTypes map[*types.Named]bool) []c11Store {
	var out []c11Store
	var lits []*ast.FuncLit
	add := func(stmt ast.Stmt, lhs ast.Expr) {
		var lit *ast.FuncLit
		if len(lits) > 0 {
			lit = lits[len(lits)-1]
		}
		fv, root := c11LhsField(info, lhs, fields)
		if fv != nil {
			out = append(out, c11Store{stmt: stmt, lhs: lhs, field: fv, root: root, lit: lit})
			return
		}
		// whole-object overwrite: *x = T{...} / xs[i] = T{...} for a generation struct type
		if _, isIdent := ast.Unparen(lhs).(*ast.Ident); isIdent {
			return
		}
		if tv, ok := info.Types[lhs]; ok && tv.Type != nil {
			if n, ok := tv.Type.(*types.Named); ok && wholeTypes[n] {
				out = append(out, c11Store{stmt: stmt, lhs: lhs, field: nil, root: root, lit: lit})
			}
		}
	}
	var visit func(n ast.Node) bool
	visit = func(n ast.Node) bool {
		switch x := n.(type) {
		case *ast.FuncLit:
			lits = append(lits, x)
			ast.Inspect(x.Body, visit)
			lits = lits[:len(lits)-1]
			return false
		case *ast.AssignStmt:
			if x.Tok != token.DEFINE {
				for _, l := range x.Lhs {
					add(x, l)
				}
			}
		case *ast.IncDecStmt:
			add(x, x.X)
		case *ast.RangeStmt:
			if x.Tok == token.ASSIGN {
				if x.Key != nil {
					add(x, x.Key)
				}
				if x.Value != nil {
					add(x, x.Value)
				}
			}
		}
		return true
	}
	ast.Inspect(fd.Body, visit)
	return out
}

// c11LocalValueStore: the left side writes into the storage of a struct-valued local
// variable itself (x.f.g = v with x, x.f struct values, no pointer hop, no indexing):
// the copy-then-modify idiom; such a store cannot touch a published object.
func c11LocalValueStore(info *types.Info, body *ast.BlockStmt, lhs ast.Expr) bool {
	e := ast.Unparen(lhs)
	for {
		switch x := e.(type) {
		case *ast.SelectorExpr:
			tv, ok := info.Types[x.X]
			if !ok || tv.Type == nil {
				return false
			}
			if _, isStruct := tv.Type.Underlying().(*types.Struct); !isStruct {
				return false
			}
			e = ast.Unparen(x.X)
		case *ast.Ident:
			o := info.Uses[x]
			v, ok := o.(*types.Var)
			return ok && !v.IsField() && body.Pos() <= v.Pos() && v.Pos() < body.End()
		default:
			return false
		}
	}
}

// c11IsFreshExpr: the expression creates a new object (&T{...}, T{...}, new(T), make(...)).
func c11IsFreshExpr(info *types.Info, e ast.Expr) bool {
	switch x := ast.Unparen(e).(type) {
	case *ast.UnaryExpr:
		if x.Op == token.AND {
			_, ok := ast.Unparen(x.X).(*ast.CompositeLit)
			return ok
		}
	case *ast.CompositeLit:
		return true
	case *ast.CallExpr:
		if id, ok := ast.Unparen(x.Fun).(*ast.Ident); ok {
			if b, ok := info.Uses[id].(*types.Builtin); ok && (b.Name() == "new" || b.Name() == "make") {
				return true
			}
		}
	}
	return false
}

// c11FreshLocal: obj is a variable declared inside body and every assignment to it in
// body takes a freshly created object.
func c11FreshLocal(info *types.Info, body *ast.BlockStmt, obj types.Object) bool {
	if obj == nil || !(body.Pos() <= obj.Pos() && obj.Pos() < body.End()) {
		return false
	}
	n, good := 0, 0
	ast.Inspect(body, func(x ast.Node) bool {
		switch s := x.(type) {
		case *ast.AssignStmt:
			for i, l := range s.Lhs {
				id, ok := l.(*ast.Ident)
				if !ok || !(info.Defs[id] == obj || info.Uses[id] == obj) {
					continue
				}
				n++
				if len(s.Rhs) == len(s.Lhs) && (s.Tok == token.DEFINE || s.Tok == token.ASSIGN) && c11IsFreshExpr(info, s.Rhs[i]) {
					good++
				}
			}
		case *ast.ValueSpec:
			for i, id := range s.Names {
				if info.Defs[id] != obj {
					continue
				}
				n++
				if len(s.Values) == 0 {
					// var x T (zero value struct) is fresh; var x *T is nil (stores would panic, not mutate)
					good++
				} else if i < len(s.Values) && c11IsFreshExpr(info, s.Values[i]) {
					good++
				}
			}
		case *ast.RangeStmt:
			for _, e := range []ast.Expr{s.Key, s.Value} {
				if id, ok := e.(*ast.Ident); ok && (info.Defs[id] == obj || info.Uses[id] == obj) {
					n++ // a range variable aliases existing elements: not fresh
				}
			}
		}
		return true
	})
	return n > 0 && n == good
}

func c11DeclOf(pkg *packages.Package) map[*types.Func]*ast.FuncDecl {
	out := map[*types.Func]*ast.FuncDecl{}
	for _, file := range pkg.Syntax {
		for _, d := range file.Decls {
			if fd, ok := d.(*ast.FuncDecl); ok && fd.Body != nil {
				if o, ok := pkg.TypesInfo.Defs[fd.Name].(*types.Func); ok {
					out[o] = fd
				}
			}
		}
	}
	return out
}

// c11Reach returns the function declarations of pkg reachable from root through static
// calls (function literals included).
func c11Reach(pkg *packages.Package, decls map[*types.Func]*ast.FuncDecl, root *types.Func) map[*types.Func]bool {
	seen := map[*types.Func]bool{}
	var walk func(o *types.Func)
	walk = func(o *types.Func) {
		if seen[o] {
			return
		}
		fd := decls[o]
		if fd == nil {
			return
		}
		seen[o] = true
		ast.Inspect(fd.Body, func(n ast.Node) bool {
			switch x := n.(type) {
			case *ast.Ident:
				// calls and method values / function values alike
				if callee, ok := pkg.TypesInfo.Uses[x].(*types.Func); ok {
					walk(callee)
				}
			}
			return true
		})
	}
	walk(root)
	return seen
}

func c11MethodObj(c *core.Ctx, rel, typ, method string) *types.Func {
	n := namedType(c, rel, typ)
	if n == nil {
		return nil
	}
	obj, _, _ := types.LookupFieldOrMethod(types.NewPointer(n), true, n.Obj().Pkg(), method)
	m, _ := obj.(*types.Func)
	if m == nil {
		c.Errorf("anchor: method %s.(%s).%s not found", rel, typ, method)
	}
	return m
}

// c11TypeReaches searches a field path from type `from` to named type `to` through
// struct fields, pointers, slices, arrays, maps and channels of module-declared types
// (interfaces, function types and types of other modules are opaque).
func c11TypeReaches(from types.Type, to *types.Named) []string {
	seen := map[types.Type]bool{}
	var walk func(t types.Type, path []string) []string
	walk = func(t types.Type, path []string) []string {
		if len(path) > 12 {
			return nil
		}
		switch x := t.(type) {
		case *types.Alias:
			return walk(types.Unalias(x), path)
		case *types.Pointer:
			return walk(x.Elem(), path)
		case *types.Slice:
			return walk(x.Elem(), path)
		case *types.Array:
			return walk(x.Elem(), path)
		case *types.Chan:
			return walk(x.Elem(), path)
		case *types.Map:
			if p := walk(x.Key(), path); p != nil {
				return p
			}
			return walk(x.Elem(), path)
		case *types.Named:
			if x.Obj() == to.Obj() {
				return append(append([]string{}, path...), "("+to.Obj().Name()+")")
			}
			if seen[x] {
				return nil
			}
			seen[x] = true
			if x.Obj().Pkg() == nil || !strings.HasPrefix(x.Obj().Pkg().Path(), Mod[:len(Mod)-1]) {
				return nil
			}
			return walk(x.Underlying(), append(path, x.Obj().Name()))
		case *types.Struct:
			for i := 0; i < x.NumFields(); i++ {
				if p := walk(x.Field(i).Type(), append(append([]string{}, path...), "."+x.Field(i).Name())); p != nil {
					return p
				}
			}
		}
		return nil
	}
	return walk(from, nil)
}

// c11Uniq makes a construct unique within the run: the second, third ... site with the same
// role in the same function gets an ordinal suffix.
func c11Uniq(c *core.Ctx, rule, construct string) string {
	n := 1
	for _, o := range c.Obligations {
		if o.Rule == rule && (o.Construct == construct || strings.HasPrefix(o.Construct, construct+" #")) {
			n++
		}
	}
	if n == 1 {
		return construct
	}
	return sprintf("%s #%d", construct, n)
}

// c11Bump counts an event up to 2 ("ev:x:1", "ev:x:2").
func c11Bump(st *flow.State, ev string) {
	if st.Is(ev+":1", flow.True) {
		st.Set(ev+":2", flow.True)
	} else {
		st.Set(ev+":1", flow.True)
	}
}

// ---------------------------------------------------------------------------------------
// R-C11-1

func c11SingleLoad(c *core.Ctx) {
	instF := structField(c, hs, "mux", "inst")
	pkg := c.Prog.Pkg(hs)
	muxT := namedType(c, hs, "mux")
	miT := namedType(c, hs, "muxInstance")
	if instF == nil || pkg == nil || muxT == nil || miT == nil {
		return
	}
	info := pkg.TypesInfo

	// (a) mux.inst is only ever used as the receiver of Load / Store
	uses, badUse := 0, 0
	loadsIn := map[*ast.FuncDecl][]*ast.CallExpr{}
	storesIn := map[*ast.FuncDecl][]*ast.CallExpr{}
	eachFunc(c, func(p *packages.Package, fd *ast.FuncDecl) {
		if p != pkg {
			return
		}
		f := flow.NewFunc(p, fd)
		okSel := map[*ast.SelectorExpr]bool{}
		for _, call := range calls(fd.Body, true) {
			if c11FieldCall(f, call, instF, "Load", "Store") {
				okSel[ast.Unparen(ast.Unparen(call.Fun).(*ast.SelectorExpr).X).(*ast.SelectorExpr)] = true
				if methodName(call) == "Load" {
					loadsIn[fd] = append(loadsIn[fd], call)
				} else {
					storesIn[fd] = append(storesIn[fd], call)
				}
			}
		}
		ast.Inspect(fd.Body, func(n ast.Node) bool {
			if sel, ok := n.(*ast.SelectorExpr); ok {
				if sl := info.Selections[sel]; sl != nil && sl.Obj() == instF {
					uses++
					if !okSel[sel] {
						badUse++
						c.Violate("R-C11-1", declName(p, fd)+"|mux.inst accessed only by Load/Store", pos(c, sel),
							"the generation pointer mux.inst is used other than as the receiver of atomic Load/Store (copied, address taken, swapped): readers may then see a torn or stale generation")
					}
				}
			}
			return true
		})
	})
	nLoads, nStores := 0, 0
	for _, l := range loadsIn {
		nLoads += len(l)
	}
	for _, l := range storesIn {
		nStores += len(l)
	}
	c.RequireCount("R-C11-1", "mux.inst.Load call sites", nLoads, 3)
	c.RequireCount("R-C11-1", "mux.inst.Store call sites", nStores, 2)
	if badUse == 0 {
		c.Discharge("R-C11-1", hs+".mux.inst|accessed only by Load/Store", c.Prog.Rel(instF.Pos()), sprintf("%d uses, all receivers of atomic.Value Load/Store", uses))
	}

	// (b) ServeHTTP: exactly one Load on every dispatching path, dispatch on the loaded value
	serve := fn(c, hs, "mux", "ServeHTTP")
	serveInst := c11MethodObj(c, hs, "muxInstance", "serveHTTP")
	if serve == nil || serveInst == nil {
		return
	}
	cons := fname(hs, "mux", "ServeHTTP")
	var dispatch []*ast.CallExpr
	for _, call := range calls(serve.Body, true) {
		if serve.Callee(call) == serveInst {
			dispatch = append(dispatch, call)
		}
	}
	if c.RequireCount("R-C11-1", "dispatch call sites ServeHTTP -> muxInstance.serveHTTP", len(dispatch), 1) {
		res := analyze(c, serve, flow.Config{NoHavoc: true, Track: func(string) bool { return false },
			OnCall: func(st *flow.State, call *ast.CallExpr, callee types.Object, deferred bool) {
				if c11FieldCall(serve, call, instF, "Load") {
					c11Bump(st, "ev:load")
				}
				if callee == serveInst {
					c11Bump(st, "ev:dispatch")
				}
			}})
		if res != nil {
			var bad *flow.State
			why := ""
			for _, ex := range res.Exits {
				st := ex.State
				switch {
				case st.Is("ev:load:2", flow.True):
					bad, why = st, "mux.inst is loaded more than once while serving one request: a reload between the two loads makes the request use two generations (e.g. options of one, routes of the other)"
				case st.Is("ev:dispatch:2", flow.True):
					bad, why = st, "one request is dispatched to muxInstance.serveHTTP twice"
				case st.Is("ev:dispatch:1", flow.True) && !st.Is("ev:load:1", flow.True):
					bad, why = st, "the request is dispatched without loading the current generation"
				}
				if bad != nil {
					break
				}
			}
			c.Check(bad == nil, "R-C11-1", cons+"|generation loaded once per request", pos(c, dispatch[0]),
				sprintf("%d exits: at most one Load of mux.inst, one dispatch", len(res.Exits)), why, witness(bad)...)
		}
		for _, d := range dispatch {
			ok, why := c11FromLoad(serve, d, instF), ""
			if !ok {
				why = "the muxInstance that serves the request is not the value returned by this request's mux.inst.Load()"
			}
			for _, a := range d.Args {
				if tv, has := serve.Info.Types[a]; has && c11TypeReaches(tv.Type, muxT) != nil {
					ok, why = false, "the mux itself is handed to the instance's serveHTTP: the request path can reload mux.inst a second time"
				}
			}
			c.Check(ok, "R-C11-1", cons+"|dispatch on the loaded generation", pos(c, d),
				"the receiver of serveHTTP is the result of mux.inst.Load() and no argument leads back to the mux", why)
		}
	}

	// (c) no Load on the request path
	decls := c11DeclOf(pkg)
	reach := c11Reach(pkg, decls, serveInst)
	c.RequireCount("R-C11-1", "functions on the request path below muxInstance.serveHTTP", len(reach), 5)
	bad := 0
	for o := range reach {
		fd := decls[o]
		for _, l := range loadsIn[fd] {
			bad++
			c.Violate("R-C11-1", declName(pkg, fd)+"|no generation load on the request path", pos(c, l),
				"a function reachable from muxInstance.serveHTTP loads mux.inst again: after a concurrent reload the request continues with parts of a second generation")
		}
	}
	if bad == 0 {
		c.Discharge("R-C11-1", fname(hs, "muxInstance", "serveHTTP")+"|no generation load on the request path", c.Prog.Rel(serveInst.Pos()),
			sprintf("%d functions reachable from serveHTTP, none loads mux.inst", len(reach)))
	}

	// (d) no field path from a generation type back to the mux
	for _, tn := range []string{"muxInstance", "muxRule", "MuxPath", "route"} {
		n := namedType(c, hs, tn)
		if n == nil {
			continue
		}
		p := c11TypeReaches(n.Underlying(), muxT)
		c.Check(p == nil, "R-C11-1", hs+"."+tn+"|no field path back to mux", c.Prog.Rel(n.Obj().Pos()),
			"no chain of struct fields leads from the generation to the mux", "field path "+tn+strings.Join(p, "")+" lets the request path reach mux.inst and load another generation")
	}

	// (e) the pipeline handler is resolved once per request
	sh := fn(c, hs, "muxInstance", "serveHTTP")
	if sh != nil {
		var gets []*ast.CallExpr
		for _, call := range calls(sh.Body, true) {
			if ifaceMethodCall(sh, call, "pkg/context", "MuxMapper", "GetHandler") {
				gets = append(gets, call)
			}
		}
		if c.RequireCount("R-C11-1", "MuxMapper.GetHandler call sites in muxInstance.serveHTTP", len(gets), 1) {
			res := analyze(c, sh, flow.Config{NoHavoc: true, Track: func(string) bool { return false },
				OnCall: func(st *flow.State, call *ast.CallExpr, callee types.Object, deferred bool) {
					for _, g := range gets {
						if g == call {
							c11Bump(st, "ev:get")
						}
					}
				}})
			if res != nil {
				var badSt *flow.State
				for _, ex := range res.Exits {
					if ex.State.Is("ev:get:2", flow.True) {
						badSt = ex.State
						break
					}
				}
				c.Check(badSt == nil, "R-C11-1", fname(hs, "muxInstance", "serveHTTP")+"|pipeline handler resolved once", pos(c, gets[0]),
					sprintf("%d exits, GetHandler evaluated at most once on each", len(res.Exits)),
					"the backend pipeline is looked up more than once for one request: an update or delete between the lookups gives the request two pipeline generations (or a nil handler)", witness(badSt)...)
			}
		}
	}
	gh := fn(c, "pkg/object/trafficcontroller", "Namespace", "GetHandler")
	pipesF := structField(c, "pkg/object/trafficcontroller", "Namespace", "pipelines")
	if gh != nil && pipesF != nil {
		n := 0
		for _, call := range calls(gh.Body, true) {
			if c11FieldCall(gh, call, pipesF) {
				n++
			}
		}
		if c.RequireCount("R-C11-1", "Namespace.pipelines accesses in Namespace.GetHandler", n, 1) {
			res := analyze(c, gh, flow.Config{NoHavoc: true, Track: func(string) bool { return false },
				OnCall: func(st *flow.State, call *ast.CallExpr, callee types.Object, deferred bool) {
					if c11FieldCall(gh, call, pipesF) {
						c11Bump(st, "ev:get")
					}
				}})
			if res != nil {
				var badSt *flow.State
				for _, ex := range res.Exits {
					if ex.State.Is("ev:get:2", flow.True) {
						badSt = ex.State
						break
					}
				}
				c.Check(badSt == nil, "R-C11-1", fname("pkg/object/trafficcontroller", "Namespace", "GetHandler")+"|entity loaded once", pos(c, gh.Body),
					"the pipelines map is consulted at most once per lookup", "the pipelines map is consulted twice in one lookup: the existence test and the returned handler may belong to different generations (nil entity after a delete)", witness(badSt)...)
			}
		}
	}
}

// c11FromLoad: the receiver of call is (a type assertion of) mux.inst.Load() or a local
// variable only ever assigned from it.
func c11FromLoad(f *flow.Func, call *ast.CallExpr, instF *types.Var) bool {
	sel, ok := ast.Unparen(call.Fun).(*ast.SelectorExpr)
	if !ok {
		return false
	}
	var isLoad func(e ast.Expr) bool
	isLoad = func(e ast.Expr) bool {
		switch x := ast.Unparen(e).(type) {
		case *ast.TypeAssertExpr:
			return isLoad(x.X)
		case *ast.CallExpr:
			return c11FieldCall(f, x, instF, "Load")
		}
		return false
	}
	if isLoad(sel.X) {
		return true
	}
	id, ok := ast.Unparen(sel.X).(*ast.Ident)
	if !ok {
		return false
	}
	obj := f.Info.Uses[id]
	n, good := 0, 0
	ast.Inspect(f.Body, func(x ast.Node) bool {
		if as, ok := x.(*ast.AssignStmt); ok {
			for i, l := range as.Lhs {
				if lid, ok := l.(*ast.Ident); ok && (f.Info.Defs[lid] == obj || f.Info.Uses[lid] == obj) {
					n++
					if len(as.Rhs) == len(as.Lhs) && isLoad(as.Rhs[i]) {
						good++
					} else if len(as.Rhs) == 1 && len(as.Lhs) == 2 && i == 0 && isLoad(as.Rhs[0]) {
						good++ // v, ok := Load().(*T)
					}
				}
			}
		}
		return true
	})
	return n > 0 && n == good
}

// ---------------------------------------------------------------------------------------
// R-C11-2 (router generation)

func c11MuxImmutable(c *core.Ctx) {
	pkg := c.Prog.Pkg(hs)
	instF := structField(c, hs, "mux", "inst")
	if pkg == nil || instF == nil {
		return
	}
	genTypes := []string{"muxInstance", "muxRule", "MuxPath", "route"}
	fields := c11FieldsOf(c, hs, genTypes...)
	whole := map[*types.Named]bool{}
	for _, tn := range genTypes {
		if n := namedType(c, hs, tn); n != nil {
			whole[n] = true
		}
	}
	if len(fields) < 20 {
		c.Errorf("R-C11-2: anchor: expected the fields of muxInstance/muxRule/MuxPath/route, found %d", len(fields))
		return
	}
	nStores := 0
	nPub := 0
	var files []*ast.File
	files = append(files, pkg.Syntax...)
	sort.Slice(files, func(i, j int) bool { return files[i].Pos() < files[j].Pos() })
	for _, file := range files {
		for _, d := range file.Decls {
			fd, ok := d.(*ast.FuncDecl)
			if !ok || fd.Body == nil {
				continue
			}
			stores := c11Stores(pkg.TypesInfo, fd, fields, whole)
			f := flow.NewFunc(pkg, fd)
			var pubs []*ast.CallExpr
			for _, call := range calls(fd.Body, true) {
				if c11FieldCall(f, call, instF, "Store") {
					pubs = append(pubs, call)
				}
			}
			if len(stores) == 0 && len(pubs) == 0 {
				continue
			}
			name := declName(pkg, fd)
			nStores += len(stores)
			nPub += len(pubs)
			c.Count("functions_analysed", 1)
			res := analyze(c, f, flow.Config{NoHavoc: true, Track: func(string) bool { return false },
				OnCall: func(st *flow.State, call *ast.CallExpr, callee types.Object, deferred bool) {
					if c11FieldCall(f, call, instF, "Store") && len(call.Args) == 1 {
						st.Set("ev:pub:"+f.Render(call.Args[0]), flow.True)
						st.Set("ev:pub", flow.True)
					}
				}})
			if res == nil {
				continue
			}
			for _, s := range stores {
				what := "a generation object"
				if s.field != nil {
					what = fields[s.field]
				}
				cons := c11Uniq(c, "R-C11-2", name+"|store to "+what)
				switch {
				case s.lit != nil:
					c.Undecide("R-C11-2", cons, pos(c, s.stmt), "store inside a function literal: cannot order it against the publication")
				case s.root == nil || !(c11FreshLocal(pkg.TypesInfo, fd.Body, f.Info.Uses[s.root]) || c11LocalValueStore(pkg.TypesInfo, fd.Body, s.lhs)):
					c.Violate("R-C11-2", cons, pos(c, s.stmt),
						sprintf("%s is assigned through %q, which is not an object freshly created in this function: a published router generation is modified in place while requests that loaded it are running (they see a mix of old and new rules/options)", what, types.ExprString(s.lhs)))
				default:
					var bad *flow.State
					for _, st := range res.At[s.stmt] {
						if st.Is("ev:pub:"+f.Render(s.root), flow.True) {
							bad = st
							break
						}
					}
					c.Check(bad == nil, "R-C11-2", cons, pos(c, s.stmt),
						sprintf("written on the new, not yet published instance (%d states)", len(res.At[s.stmt])),
						sprintf("%s is written after the instance has been published with mux.inst.Store: requests already see the new generation while it is still being built", what), witness(bad)...)
				}
			}
			for _, p := range pubs {
				cons := c11Uniq(c, "R-C11-2", name+"|published value")
				arg := ast.Unparen(p.Args[0])
				fresh := c11IsFreshExpr(pkg.TypesInfo, arg)
				if id, ok := arg.(*ast.Ident); ok {
					fresh = c11FreshLocal(pkg.TypesInfo, fd.Body, f.Info.Uses[id])
				}
				if ue, ok := arg.(*ast.UnaryExpr); ok && ue.Op == token.AND {
					// &local of a struct-valued local: its own storage
					if id, ok := ast.Unparen(ue.X).(*ast.Ident); ok {
						if v, ok := f.Info.Uses[id].(*types.Var); ok && !v.IsField() && fd.Body.Pos() <= v.Pos() && v.Pos() < fd.Body.End() {
							if _, isStruct := v.Type().Underlying().(*types.Struct); isStruct {
								fresh = true
							}
						}
					}
				}
				c.Check(fresh, "R-C11-2", cons, pos(c, p),
					"mux.inst.Store publishes an instance created in this function",
					"mux.inst.Store publishes a value that is not a freshly built *muxInstance (nil or an instance shared with an older generation)")
			}
			if len(pubs) > 0 {
				var bad *flow.Exit
				for _, ex := range res.Exits {
					if ex.Kind == flow.ExitReturn && !ex.State.Is("ev:pub", flow.True) {
						bad = ex
						break
					}
				}
				var w []string
				if bad != nil {
					w = witness(bad.State)
				}
				c.Check(bad == nil, "R-C11-2", name+"|every return publishes the new generation", pos(c, pubs[0]),
					sprintf("%d exits, all after mux.inst.Store", len(res.Exits)),
					"the function can return without storing the new instance: the update is reported as applied but new requests keep seeing the old generation", w...)
			}
		}
	}
	c11RuntimeReload(c)
	c.RequireCount("R-C11-2", "stores through fields of muxInstance/muxRule/MuxPath/route", nStores, 2)
	c.RequireCount("R-C11-2", "mux.inst.Store publication sites", nPub, 2)
}

// c11RuntimeReload: every update event reaches the router — on every returning path of
// runtime.reload the mux has been reloaded exactly once.
func c11RuntimeReload(c *core.Ctx) {
	f := fn(c, hs, "runtime", "reload")
	muxReload := c11MethodObj(c, hs, "mux", "reload")
	if f == nil || muxReload == nil {
		return
	}
	n := 0
	for _, call := range calls(f.Body, true) {
		if f.Callee(call) == muxReload {
			n++
		}
	}
	cons := fname(hs, "runtime", "reload") + "|router reloaded on every update"
	if n == 0 {
		c.Violate("R-C11-2", cons, pos(c, f.Body), "runtime.reload never calls mux.reload: rule/option updates are not applied to the router")
		return
	}
	res := analyze(c, f, flow.Config{NoHavoc: true, Track: func(string) bool { return false },
		OnCall: func(st *flow.State, call *ast.CallExpr, callee types.Object, deferred bool) {
			if callee == muxReload {
				c11Bump(st, "ev:reload")
			}
		}})
	if res == nil {
		return
	}
	var bad *flow.Exit
	why := ""
	for _, ex := range res.Exits {
		if ex.Kind != flow.ExitReturn {
			continue
		}
		switch {
		case !ex.State.Is("ev:reload:1", flow.True):
			bad, why = ex, "runtime.reload can return without reloading the router: the update is applied to the server options but new requests are still routed by the old generation"
		case ex.State.Is("ev:reload:2", flow.True):
			bad, why = ex, "the router is reloaded twice for one update"
		}
		if bad != nil {
			break
		}
	}
	var w []string
	if bad != nil {
		w = witness(bad.State)
	}
	c.Check(bad == nil, "R-C11-2", cons, pos(c, f.Body), sprintf("%d exits, each after exactly one mux.reload", len(res.Exits)), why, w...)
}
