package rules

// R-C18-3 and R-C18-4: interprocedural audit of pkg/api (see c18.go for the rule list and the
// mutants tried). Every function of pkg/api that is reached is analysed once with the flow
// engine; a summary (object writes, version upgrades, unprotected write sites, never
// returns, value returned relative to the version read …) is applied at its call sites.

import (
	"go/ast"
	"go/token"
	"go/types"
	"sort"
	"strconv"
	"strings"

	"golang.org/x/tools/go/cfg"
	"golang.org/x/tools/go/packages"

	"verif/internal/core"
	"verif/internal/flow"
)

const (
	c18evS       = "ev:c18:slock"      // admin server's cluster lock held
	c18evDead    = "ev:c18:dead"       // a callee that never returns was called: the state is infeasible
	c18evO1      = "ev:c18:obj1"       // >= 1 object write
	c18evO2      = "ev:c18:obj2"       // >= 2 object writes
	c18evV1      = "ev:c18:ver1"       // >= 1 version upgrade
	c18evV2      = "ev:c18:ver2"       // >= 2 version upgrades
	c18evVFirst  = "ev:c18:verFirst"   // an object write happened after a version upgrade
	c18evPend    = "ev:c18:pending"    // lock released after a write that has not been followed by its upgrade yet
	c18evGap     = "ev:c18:gap"        // write and upgrade are not in one critical section
	c18evErr     = "ev:c18:apierr"     // an API error response has been sent
	c18evNonU    = "ev:c18:nonuniform" // a callee with path-dependent write counts was called
	c18evReadL   = "ev:c18:readLocked" // existence read made under the lock
	c18evReadU   = "ev:c18:readUnlocked"
	c18evMxL     = "ev:c18:mxLock"   // cluster.Mutex.Lock called
	c18evMxU     = "ev:c18:mxUnlock" // cluster.Mutex.Unlock called
	c18evHdr     = "ev:c18:hdr"      // X-Config-Version set after the upgrade
	c18evVW      = "ev:c18:vw#"      // + delta of the version written by the last upgrade ("?" unknown)
	c18evRet     = "ev:c18:ret#"     // + delta of the returned value
	c18evRetUnk  = "ev:c18:retUnknown"
	c18evFn1     = "ev:c18:fn1"      // the function parameter has been called
	c18evFn2     = "ev:c18:fn2"      // … more than once
	c18evWrapped = "ev:c18:wrapped"  // a closure was handed to a lock wrapper on this path
	c18evLockRes = "ev:c18:lockres:" // + nil-ness key of the value holding the result of an error-returning lock function
	c18evSeeded  = "ev:c18:seeded"   // (closure analysis) the entry state has been installed
	c18dPrefix   = "ev:c18:d:"       // + render + "#" + delta
	c18stPrefix  = "ev:c18:status:"
)

var c18readers = map[string]bool{"Get": true, "GetPrefix": true, "GetRaw": true, "GetRawPrefix": true, "GetWithOp": true}
var c18neutral = map[string]bool{"IsLeader": true, "Layout": true, "Watcher": true, "Syncer": true, "Mutex": true,
	"CloseServer": true, "StartServer": true, "Close": true}

func c18isWriter(name string) bool {
	return strings.HasPrefix(name, "Put") || strings.HasPrefix(name, "Delete") || name == "STM" || name == "PurgeMember"
}

type c18direct struct {
	call   *ast.CallExpr
	method string // Cluster method name
	kind   string // "object" | "version" | "member" | "other"
	roles  []string
	write  bool
}

type c18site struct {
	call      *ast.CallExpr
	what      string // stable role of the site (part of the construct)
	chain     string // for calls of helpers: what the helper ends up writing
	protected bool
	reachable bool
	inLit     bool
	bad       *flow.State
}

type c18sum struct {
	fo   *types.Func
	fd   *ast.FuncDecl
	f    *flow.Func
	res  *flow.Result
	cons string

	noreturn     bool
	obj, ver     int // uniform counts over live return exits; -1 = path dependent
	verFirst     bool
	hdr          bool        // every live return exit has set the version header
	hdrBad       *flow.State // the header is set to something else than the version written
	hdrSeen      bool
	w            c18dv // value written to the version key (base r = version read, p<i> = parameter i)
	wKnown       bool
	errAll       bool        // every live return exit has sent an API error response
	errMixed     bool        // some do, some do not
	statuses     []string    // status codes sent on every exit (errAll)
	statusParam  int         // index of the parameter forwarded as status code (-1 = none)
	objRead      bool        // reads the config-object key space (directly or through a callee)
	verRead      bool        // reads the config version key (directly or through a callee)
	wrapParam    int         // index of the func parameter this function runs exactly once with the cluster lock held (-1: not a lock wrapper)
	wrapLocked   bool        // … and holds the cluster lock while it runs it
	decorParam   int         // index of the func parameter a returned closure runs exactly once (decorator role, -1: none)
	decorLocked  bool        // … with the cluster lock held
	unlockUnheld *flow.State // the unlock function is called on a path where the lock is not held
	unlocks      int
	bodies       []*ast.BlockStmt // the declaration body and the bodies of closures run through a lock wrapper
	takesLock    bool
	ret          c18dv // value returned
	retKnown     bool
	sites        []*c18site
	needs        []*c18site
	wBad         *flow.State // a version write whose value is not read+1
	wSeen        bool
}

type c18apiCtx struct {
	c      *core.Ctx
	pkg    *packages.Package
	decls  map[*types.Func]*ast.FuncDecl
	sums   map[*types.Func]*c18sum
	inprog map[*types.Func]bool
	direct map[*ast.CallExpr]*c18direct
	lockFn map[*types.Func]bool
	unlkFn map[*types.Func]bool
	hdrKey string
	respFn *types.Func // HandleAPIError
	// value references of the package's functions (handler tables, arguments): where, and the call
	// they are an argument of
	valueRefs map[*types.Func][]c18valueRef
	entryLk   map[*types.Func]int // cache of entryLock: 1 locked, 2 not
	// dependency inversion: Lock() { s.applyToMutex(cluster.Mutex.Lock) } — the lock / unlock function hands the
	// method expression to an applicator that calls its func parameter on the mutex
	applicator map[*types.Func]*types.Func
	forceLk    map[*types.Func]bool // functions re-analysed as entered with the lock held
}

// c18valueRef is one use of a function as a value.
type c18valueRef struct {
	at   ast.Node
	call *ast.CallExpr // the call it is an argument of (nil otherwise)
	arg  int
}

// c18clusterCall returns the method name if call is a dynamic call of a cluster.Cluster method.
func c18ifaceCall(info *types.Info, call *ast.CallExpr, iface string) string {
	sel, ok := ast.Unparen(call.Fun).(*ast.SelectorExpr)
	if !ok {
		return ""
	}
	s := info.Selections[sel]
	if s == nil {
		return ""
	}
	fo, ok := s.Obj().(*types.Func)
	if !ok {
		return ""
	}
	recv := fo.Type().(*types.Signature).Recv()
	if recv == nil || !types.IsInterface(recv.Type()) {
		return ""
	}
	match := func(t types.Type) bool {
		if p, ok := t.(*types.Pointer); ok {
			t = p.Elem()
		}
		n, ok := t.(*types.Named)
		return ok && n.Obj().Pkg() != nil && n.Obj().Pkg().Path() == Mod+c18cl && n.Obj().Name() == iface
	}
	if match(recv.Type()) {
		return fo.Name()
	}
	if tv, ok := info.Types[sel.X]; ok && match(tv.Type) {
		return fo.Name()
	}
	return ""
}

// c18layoutRoles collects the (*cluster.Layout) methods whose results flow into exprs
// (through local variables assigned in root and into closures).
func c18layoutRoles(info *types.Info, root ast.Node, exprs []ast.Expr) []string {
	roles := map[string]bool{}
	seen := map[types.Object]bool{}
	var walk func(n ast.Node, depth int)
	walk = func(n ast.Node, depth int) {
		ast.Inspect(n, func(x ast.Node) bool {
			switch t := x.(type) {
			case *ast.CallExpr:
				if fo, ok := typeutilCallee(info, t).(*types.Func); ok {
					if sig, ok := fo.Type().(*types.Signature); ok && sig.Recv() != nil {
						rt := sig.Recv().Type()
						if p, ok := rt.(*types.Pointer); ok {
							rt = p.Elem()
						}
						if nmd, ok := rt.(*types.Named); ok && nmd.Obj().Pkg() != nil && nmd.Obj().Pkg().Path() == Mod+c18cl && nmd.Obj().Name() == "Layout" {
							roles[fo.Name()] = true
						}
					}
				}
			case *ast.Ident:
				o, ok := info.Uses[t].(*types.Var)
				if !ok || o.IsField() || seen[o] || depth > 4 || o.Parent() == o.Pkg().Scope() {
					return true
				}
				seen[o] = true
				ast.Inspect(root, func(y ast.Node) bool {
					switch s := y.(type) {
					case *ast.AssignStmt:
						for i, l := range s.Lhs {
							id, ok := l.(*ast.Ident)
							if !ok || (info.Defs[id] != o && info.Uses[id] != o) {
								continue
							}
							if len(s.Lhs) == len(s.Rhs) {
								walk(s.Rhs[i], depth+1)
							} else {
								for _, r := range s.Rhs {
									walk(r, depth+1)
								}
							}
						}
					case *ast.ValueSpec:
						for i, id := range s.Names {
							if info.Defs[id] != o {
								continue
							}
							if len(s.Names) == len(s.Values) {
								walk(s.Values[i], depth+1)
							} else {
								for _, r := range s.Values {
									walk(r, depth+1)
								}
							}
						}
					}
					return true
				})
			}
			return true
		})
	}
	for _, e := range exprs {
		walk(e, 0)
	}
	return sortedKeys(roles)
}

func typeutilCallee(info *types.Info, call *ast.CallExpr) types.Object {
	f := &flow.Func{Info: info}
	return f.Callee(call)
}

func c18kindOf(method string, roles []string) string {
	if method == "PurgeMember" {
		return "member"
	}
	has := func(n string) bool {
		for _, r := range roles {
			if r == n {
				return true
			}
		}
		return false
	}
	switch {
	case has("ConfigObjectKey") || has("ConfigObjectPrefix"):
		return "object"
	case has("ConfigVersion"):
		return "version"
	case len(roles) > 0:
		return "other"
	}
	return ""
}

func c18Admin(c *core.Ctx) {
	pkg := c.Prog.Pkg(c18api)
	if pkg == nil {
		c.Errorf("anchor: package %s not loaded", c18api)
		return
	}
	a := &c18apiCtx{c: c, pkg: pkg, decls: map[*types.Func]*ast.FuncDecl{}, sums: map[*types.Func]*c18sum{},
		inprog: map[*types.Func]bool{}, direct: map[*ast.CallExpr]*c18direct{}, lockFn: map[*types.Func]bool{}, unlkFn: map[*types.Func]bool{},
		hdrKey: "X-Config-Version", entryLk: map[*types.Func]int{}, applicator: map[*types.Func]*types.Func{}, forceLk: map[*types.Func]bool{}}
	info := pkg.TypesInfo
	if k, ok := pkg.Types.Scope().Lookup("ConfigVersionKey").(*types.Const); ok {
		if s, err := strconv.Unquote(k.Val().ExactString()); err == nil {
			a.hdrKey = s
		}
	}
	if r, ok := pkg.Types.Scope().Lookup("HandleAPIError").(*types.Func); ok {
		a.respFn = r
	} else {
		c.Errorf("anchor: %s.HandleAPIError not found", c18api)
		return
	}
	var order []*types.Func
	for _, file := range pkg.Syntax {
		for _, d := range file.Decls {
			fd, ok := d.(*ast.FuncDecl)
			if !ok || fd.Body == nil {
				continue
			}
			fo, ok := info.Defs[fd.Name].(*types.Func)
			if !ok {
				continue
			}
			a.decls[fo] = fd
			order = append(order, fo)
			// classify the direct cluster calls and find the lock functions
			for _, call := range calls(fd.Body, true) {
				switch c18ifaceCall(info, call, "Mutex") {
				case "Lock":
					a.lockFn[fo] = true
				case "Unlock":
					a.unlkFn[fo] = true
				}
				m := c18ifaceCall(info, call, "Cluster")
				if m == "" || c18neutral[m] {
					continue
				}
				d := &c18direct{call: call, method: m, write: c18isWriter(m)}
				if !d.write && !c18readers[m] {
					c.Undecide("R-C18-3", declName(pkg, fd)+"|cluster."+m, pos(c, call), "unknown Cluster method: is it a write?")
					continue
				}
				var exprs []ast.Expr
				exprs = append(exprs, call.Args...)
				d.roles = c18layoutRoles(info, fd.Body, exprs)
				d.kind = c18kindOf(m, d.roles)
				if d.kind == "" {
					if d.write {
						c.Undecide("R-C18-3", declName(pkg, fd)+"|cluster."+m, pos(c, call), "cannot tell which key space this write targets (no Layout method flows into the key)")
						continue
					}
					d.kind = "other"
				}
				a.direct[call] = d
			}
		}
	}
	sort.Slice(order, func(i, j int) bool { return a.decls[order[i]].Pos() < a.decls[order[j]].Pos() })
	a.collectValueRefs()
	// lock / unlock functions by dependency inversion
	for _, fo := range order {
		for _, call := range calls(a.decls[fo].Body, true) {
			g := a.calleeOf(call)
			if g == nil || g == fo {
				continue
			}
			gd := a.decls[g]
			if gd == nil {
				continue
			}
			for i, arg := range call.Args {
				m := c18mutexMethodExpr(info, arg)
				if m == "" || !c18callsParam(info, gd, i) {
					continue
				}
				switch m {
				case "Lock":
					a.lockFn[fo] = true
					a.applicator[fo] = g
				case "Unlock":
					a.unlkFn[fo] = true
					a.applicator[fo] = g
				}
			}
		}
	}

	// vacuity: the subject writes known today
	nObj, nVer, nMem, nOther := 0, 0, 0, 0
	for _, d := range a.direct {
		if !d.write {
			continue
		}
		switch d.kind {
		case "object":
			nObj++
		case "version":
			nVer++
		case "member":
			nMem++
		default:
			nOther++
		}
	}
	c.RequireCount("R-C18-3", "config-object writes in pkg/api", nObj, 2)
	c.RequireCount("R-C18-3", "config-version writes in pkg/api", nVer, 1)
	c.RequireCount("R-C18-3", "member purges in pkg/api", nMem, 1)
	c.Count("R-C18-3:out-of-scope cluster writes in pkg/api (wasm, …)", nOther)
	c.RequireCount("R-C18-3", "functions acquiring the cluster mutex in pkg/api", len(a.lockFn), 1)
	c.RequireCount("R-C18-3", "functions releasing the cluster mutex in pkg/api", len(a.unlkFn), 1)

	// relevant functions: those that (transitively, statically) reach a subject write
	relevant := map[*types.Func]bool{}
	for call, d := range a.direct {
		if d.write && d.kind != "other" {
			for fo, fd := range a.decls {
				if contains(fd, call) {
					relevant[fo] = true
				}
			}
		}
	}
	for changed := true; changed; {
		changed = false
		for fo, fd := range a.decls {
			if relevant[fo] {
				continue
			}
			for _, call := range calls(fd.Body, true) {
				if g := a.calleeOf(call); g != nil && relevant[g] {
					relevant[fo] = true
					changed = true
					break
				}
			}
		}
	}
	for fo := range a.lockFn {
		relevant[fo] = true
	}
	// … and whoever takes the lock (lock wrappers such as withLock(fn) reach no write themselves)
	for fo, fd := range a.decls {
		for _, call := range calls(fd.Body, true) {
			if g := a.calleeOf(call); g != nil && a.lockFn[g] {
				relevant[fo] = true
			}
		}
	}
	for fo := range a.unlkFn {
		relevant[fo] = true
	}
	var rel []*types.Func
	for _, fo := range order {
		if relevant[fo] {
			rel = append(rel, fo)
			a.summary(fo)
		}
	}

	escapes, external := a.references()
	a.lockRules(rel, escapes, external)
	a.versionRules(rel, escapes)
	a.exactKeyRules()
}

// references classifies, module-wide, how the functions of pkg/api are referenced: escapes =
// used as a value (handler tables, method values); external = called from another package.
func (a *c18apiCtx) references() (escapes, external map[*types.Func]bool) {
	escapes, external = map[*types.Func]bool{}, map[*types.Func]bool{}
	for _, pkg := range a.c.Prog.Module {
		if pkg != a.pkg {
			if _, imp := pkg.Imports[a.pkg.PkgPath]; !imp {
				continue
			}
		}
		calleeIdent := map[*ast.Ident]bool{}
		for _, file := range pkg.Syntax {
			ast.Inspect(file, func(n ast.Node) bool {
				if call, ok := n.(*ast.CallExpr); ok {
					switch f := ast.Unparen(call.Fun).(type) {
					case *ast.SelectorExpr:
						calleeIdent[f.Sel] = true
					case *ast.Ident:
						calleeIdent[f] = true
					}
				}
				return true
			})
		}
		// locals bound once to a function / method value and used only as callees
		calledLocal := map[*ast.Ident]bool{} // identifiers of such bound values
		for _, file := range pkg.Syntax {
			ast.Inspect(file, func(n ast.Node) bool {
				as, ok := n.(*ast.AssignStmt)
				if !ok || len(as.Lhs) != len(as.Rhs) {
					return true
				}
				for i, l := range as.Lhs {
					lid, ok := l.(*ast.Ident)
					if !ok {
						continue
					}
					v, _ := pkg.TypesInfo.Defs[lid].(*types.Var)
					if v == nil {
						continue
					}
					var fid *ast.Ident
					switch r := ast.Unparen(as.Rhs[i]).(type) {
					case *ast.SelectorExpr:
						fid = r.Sel
					case *ast.Ident:
						fid = r
					}
					if fid == nil || c18boundValue(pkg, v) != ast.Unparen(as.Rhs[i]) {
						continue
					}
					onlyCalled := true
					for uid, uo := range pkg.TypesInfo.Uses {
						if uo == v && !calleeIdent[uid] {
							onlyCalled = false
						}
					}
					if onlyCalled {
						calledLocal[fid] = true
					}
				}
				return true
			})
		}
		for id, o := range pkg.TypesInfo.Uses {
			fo, ok := o.(*types.Func)
			if !ok {
				continue
			}
			if _, mine := a.decls[fo]; !mine {
				continue
			}
			if !calleeIdent[id] {
				if !calledLocal[id] {
					escapes[fo] = true
				}
			} else if pkg != a.pkg {
				external[fo] = true
			}
		}
	}
	return
}

func c18paren(s string) string {
	if s == "" {
		return ""
	}
	return " (" + s + ")"
}

func c18setVW(st *flow.State, v c18dv, known bool) {
	for _, kv := range st.Facts() {
		if strings.HasPrefix(kv, c18evVW) {
			st.Set(kv[:len(kv)-2], flow.Unknown)
		}
	}
	if known {
		st.Set(c18evVW+v.String(), flow.True)
	} else {
		st.Set(c18evVW+"?", flow.True)
	}
}

func c18count(st *flow.State, k1, k2 string) int {
	switch {
	case st.Is(k2, flow.True):
		return 2
	case st.Is(k1, flow.True):
		return 1
	}
	return 0
}

func c18addObj(st *flow.State, n int) {
	for i := 0; i < n; i++ {
		if st.Is(c18evV1, flow.True) {
			st.Set(c18evVFirst, flow.True)
		}
		if st.Is(c18evO1, flow.True) {
			st.Set(c18evO2, flow.True)
		}
		st.Set(c18evO1, flow.True)
	}
}

func c18addVer(st *flow.State, n int) {
	for i := 0; i < n; i++ {
		if st.Is(c18evPend, flow.True) {
			st.Set(c18evGap, flow.True)
		}
		if st.Is(c18evV1, flow.True) {
			st.Set(c18evV2, flow.True)
		}
		st.Set(c18evV1, flow.True)
	}
}

// ---- summaries

func c18live(st *flow.State) bool { return !st.Is(c18evDead, flow.True) }

// calleeOf resolves the function a call reaches (through a local bound once to a method value
// or a function), nil for dynamic calls and closures.
func (a *c18apiCtx) calleeOf(call *ast.CallExpr) *types.Func {
	o, _, _ := c18target(a.pkg, call)
	fo, _ := o.(*types.Func)
	return fo
}

func (a *c18apiCtx) summary(fo *types.Func) *c18sum {
	if s, ok := a.sums[fo]; ok {
		return s
	}
	fd := a.decls[fo]
	if fd == nil || a.inprog[fo] {
		return nil
	}
	a.inprog[fo] = true
	defer delete(a.inprog, fo)

	c := a.c
	f := flow.NewFunc(a.pkg, fd)
	c.Count("functions_analysed", 1)
	s := &c18sum{fo: fo, fd: fd, f: f, cons: declName(a.pkg, fd), statusParam: -1, wrapParam: -1, decorParam: -1, bodies: []*ast.BlockStmt{fd.Body}}
	info := a.pkg.TypesInfo
	dx := &c18dctx{a: a, f: f, params: c18paramIndex(f)}

	wSet, wUnknown := map[c18dv]bool{}, false
	// a version write of value v (known or not) happens in state st
	versionWrite := func(st *flow.State, v c18dv, known bool) {
		c18setVW(st, v, known)
		if !c18live(st) {
			return
		}
		if known {
			wSet[v] = true
		} else {
			wUnknown = true
		}
		if known && v.base != "r" {
			return // relative to a parameter: judged where the caller supplies the value
		}
		s.wSeen = true
		if (!known || v.d != 1) && s.wBad == nil {
			s.wBad = st
		}
	}
	fnParam, fnUnlocked := -2, false
	wraps := map[*ast.CallExpr]*ast.FuncLit{}
	wrapLocked := map[*ast.CallExpr]bool{}
	var onCall func(st *flow.State, call *ast.CallExpr, callee types.Object, deferred bool, depth int)
	onCall = func(st *flow.State, call *ast.CallExpr, callee types.Object, deferred bool, depth int) {
		switch c18ifaceCall(info, call, "Mutex") {
		case "Lock":
			st.Set(c18evMxL, flow.True)
		case "Unlock":
			st.Set(c18evMxU, flow.True)
		}
		if d := a.direct[call]; d != nil {
			switch {
			case d.write && d.kind == "object":
				c18addObj(st, 1)
			case d.write && d.kind == "version":
				c18addVer(st, 1)
				var v c18dv
				known := false
				if (d.method == "Put" || d.method == "PutUnderLease") && len(call.Args) == 2 {
					v, known = dx.eval(st, call.Args[1])
				}
				versionWrite(st, v, known)
			case !d.write && d.kind == "object":
				if st.Is(c18evS, flow.True) {
					st.Set(c18evReadL, flow.True)
				} else {
					st.Set(c18evReadU, flow.True)
				}
			}
			return
		}
		fo2, ok := callee.(*types.Func)
		if v, isVar := callee.(*types.Var); isVar {
			if pi, isParam := dx.params[v]; isParam {
				// the function runs a function it was handed (lock wrapper role)
				if fnParam == -2 || fnParam == pi {
					fnParam = pi
				} else {
					fnParam = -1
				}
				if !st.Is(c18evS, flow.True) && c18live(st) {
					fnUnlocked = true
				}
				if st.Is(c18evFn1, flow.True) {
					st.Set(c18evFn2, flow.True)
				}
				st.Set(c18evFn1, flow.True)
				return
			}
		}
		if !ok {
			// a call through a local: a method value / function (resolved), or a closure whose
			// straight-line body is applied here
			target, _, lit := c18target(a.pkg, call)
			if t, ok := target.(*types.Func); ok {
				fo2 = t
			} else if lit != nil && depth < 3 {
				inner, straight := c18straightCalls(lit.Body)
				if !straight {
					if a.mentionsAPI(lit.Body) {
						st.Set(c18evNonU, flow.True)
					}
					return
				}
				for _, ic := range inner {
					onCall(st, ic, f.Callee(ic), deferred, depth+1)
				}
				return
			} else {
				return
			}
		}
		// the version header
		if fo2.FullName() == "(net/http.Header).Set" && len(call.Args) == 2 {
			if tv, ok := info.Types[call.Args[0]]; ok && tv.Value != nil && tv.Value.ExactString() == strconv.Quote(a.hdrKey) {
				if st.Is(c18evV1, flow.True) {
					st.Set(c18evHdr, flow.True)
					s.hdrSeen = true
					v, known := dx.eval(st, call.Args[1])
					if (!known || !st.Is(c18evVW+v.String(), flow.True)) && s.hdrBad == nil && c18live(st) {
						s.hdrBad = st
					}
				}
			}
			return
		}
		if fo2 == a.respFn {
			st.Set(c18evErr, flow.True)
			sig := fo2.Type().(*types.Signature)
			for i := 0; i < sig.Params().Len() && i < len(call.Args); i++ {
				if b, ok := sig.Params().At(i).Type().Underlying().(*types.Basic); ok && b.Info()&types.IsInteger != 0 {
					a.setStatus(st, dx, call.Args[i])
				}
			}
			return
		}
		if _, mine := a.decls[fo2]; !mine {
			return
		}
		if a.lockFn[fo2] {
			s.takesLock = true
			if !c18returnsError(fo2) {
				st.Set(c18evS, flow.True) // returns only when the lock is held
				return
			}
			// Lock() error: the lock is held once the result is known to be nil
			holder, how := c18resultHolder(fd.Body, call)
			switch how {
			case "assign":
				st.Set(c18evLockRes+f.NilKey(holder), flow.True)
			case "dropped":
				// a failed acquisition goes unnoticed: the lock is not known to be held
			default:
				st.Set(c18evLockRes+f.NilKey(call), flow.True)
			}
			return
		}
		if a.unlkFn[fo2] {
			s.unlocks++
			if !st.Is(c18evS, flow.True) && c18live(st) && s.unlockUnheld == nil {
				s.unlockUnheld = st
			}
			st.Set(c18evS, flow.False)
			if st.Is(c18evO1, flow.True) && !st.Is(c18evV1, flow.True) {
				st.Set(c18evPend, flow.True)
			}
			return
		}
		g := a.summary(fo2)
		if g == nil {
			return // recursion: no contribution
		}
		if g.noreturn {
			st.Set(c18evDead, flow.True)
			return
		}
		if g.wrapParam >= 0 && g.wrapParam < len(call.Args) && c18mutexMethodExpr(info, call.Args[g.wrapParam]) != "" {
			return // applyToMutex(cluster.Mutex.Lock): modelled through the lock / unlock function that makes this call
		}
		if g.wrapParam >= 0 {
			// withLock(func() {..}): the closure is the critical section; it is analysed below with
			// the lock held and the state reached here
			var lit *ast.FuncLit
			if g.wrapParam < len(call.Args) {
				switch x := ast.Unparen(call.Args[g.wrapParam]).(type) {
				case *ast.FuncLit:
					lit = x
				case *ast.Ident:
					if v, ok := info.Uses[x].(*types.Var); ok {
						lit, _ = c18boundValue(a.pkg, v).(*ast.FuncLit)
					}
				}
			}
			if lit == nil || depth > 0 {
				st.Set(c18evNonU, flow.True)
				return
			}
			wraps[call] = lit
			wrapLocked[call] = g.wrapLocked
			st.Set(c18evWrapped, flow.True)
			return
		}
		if g.obj < 0 || g.ver < 0 || g.errMixed {
			st.Set(c18evNonU, flow.True)
		} else {
			if g.obj > 0 && g.ver > 0 && g.verFirst {
				c18addVer(st, g.ver)
				c18addObj(st, g.obj)
			} else {
				c18addObj(st, g.obj)
				c18addVer(st, g.ver)
			}
			if g.ver > 0 {
				switch {
				case g.wKnown && g.w.base != "r":
					// the helper writes what it is handed: the value is ours
					v, known := dx.rebase(st, call, g.w)
					versionWrite(st, v, known)
				case g.retKnown:
					v, known := dx.rebase(st, call, g.ret)
					c18setVW(st, v, known)
				case g.wKnown:
					c18setVW(st, g.w, true)
				default:
					c18setVW(st, c18dv{}, false)
				}
			}
		}
		if g.errAll {
			st.Set(c18evErr, flow.True)
			for _, code := range g.statuses {
				st.Set(c18stPrefix+code, flow.True)
			}
			if g.statusParam >= 0 && g.statusParam < len(call.Args) {
				a.setStatus(st, dx, call.Args[g.statusParam])
			}
		}
		if g.hdr {
			st.Set(c18evHdr, flow.True)
		}
		if g.objRead {
			if st.Is(c18evS, flow.True) {
				st.Set(c18evReadL, flow.True)
			} else {
				st.Set(c18evReadU, flow.True)
			}
		}
	}
	entryLocked := a.entryLock(fo)
	mkcfg := func(onBlock func(st *flow.State, b *cfg.Block)) flow.Config {
		return flow.Config{
			NoHavoc: true,
			OnBlock: onBlock,
			Init: func(st *flow.State) {
				if entryLocked {
					st.Set(c18evS, flow.True)
				}
			},
			AfterAssume: func(st *flow.State, cond ast.Expr, outcome bool) {
				for _, kv := range st.Facts() {
					if !strings.HasPrefix(kv, c18evLockRes) || !strings.HasSuffix(kv, "=T") {
						continue
					}
					k := kv[len(c18evLockRes) : len(kv)-2]
					switch st.Get(k) {
					case flow.True:
						st.Set(c18evS, flow.True)
						st.Set(kv[:len(kv)-2], flow.Unknown)
					case flow.False:
						st.Set(kv[:len(kv)-2], flow.Unknown) // the acquisition failed: not held
					}
				}
			},
			MayPanic: func(call *ast.CallExpr, callee types.Object) bool {
				switch o := callee.(type) {
				case *types.Builtin:
					return false
				case *types.Func:
					if o.Pkg() == nil {
						return true // interface method of the universe (error.Error)
					}
					if strings.HasPrefix(o.Pkg().Path(), Mod) {
						return true
					}
					sig, _ := o.Type().(*types.Signature)
					return sig != nil && sig.Recv() != nil && types.IsInterface(sig.Recv().Type())
				default:
					if tv, ok := info.Types[call.Fun]; ok && tv.IsType() {
						return false
					}
					return true // call through a function value
				}
			},
			OnNode: func(st *flow.State, n ast.Node) { dx.node(st, n) },
			OnCall: func(st *flow.State, call *ast.CallExpr, callee types.Object, deferred bool) {
				onCall(st, call, callee, deferred, 0)
			},
		}
	}
	res := analyze(c, f, mkcfg(nil))
	if res == nil {
		a.sums[fo] = s
		return s
	}
	// decorator role: the function returns a closure that runs a func parameter (locked(h) http.HandlerFunc):
	// the closure is what matters
	isDecorator := false
	if lit := c18returnedLit(fd); lit != nil && len(dx.params) > 0 {
		fnParam, fnUnlocked = -2, false
		if lres := analyze(c, f.Lit(lit), mkcfg(nil)); lres != nil && fnParam >= 0 {
			once, n := true, 0
			for _, ex := range lres.Exits {
				if ex.Kind == flow.ExitReturn && c18live(ex.State) {
					n++
					if !ex.State.Is(c18evFn1, flow.True) || ex.State.Is(c18evFn2, flow.True) {
						once = false
					}
				}
			}
			if once && n > 0 {
				isDecorator = true
				s.decorParam = fnParam
				s.decorLocked = !fnUnlocked && s.takesLock
				for k, v := range lres.At {
					res.At[k] = append(res.At[k], v...)
				}
				res.Exits = lres.Exits // the obligations of a lock taker (release on every exit) are the closure's
			}
		}
		fnParam = -2
	}
	// closures run through a lock wrapper: analysed from the states that reach the wrapper call,
	// with the lock held; their exits replace the exits that passed through the call
	if len(wraps) > 0 {
		var calls2 []*ast.CallExpr
		for call := range wraps {
			calls2 = append(calls2, call)
		}
		sort.Slice(calls2, func(i, j int) bool { return calls2[i].Pos() < calls2[j].Pos() })
		last := false
		if len(calls2) == 1 && len(fd.Body.List) > 0 {
			tail := fd.Body.List[len(fd.Body.List)-1]
			if r, ok := tail.(*ast.ReturnStmt); ok && len(r.Results) == 0 && len(fd.Body.List) > 1 {
				tail = fd.Body.List[len(fd.Body.List)-2]
			}
			if es, ok := tail.(*ast.ExprStmt); ok && ast.Unparen(es.X) == ast.Expr(calls2[0]) {
				last = true
			}
		}
		var kept []*flow.Exit
		for _, ex := range res.Exits {
			if !ex.State.Is(c18evWrapped, flow.True) {
				kept = append(kept, ex)
			} else if !last {
				st2 := ex.State.Clone()
				st2.Set(c18evNonU, flow.True)
				kept = append(kept, &flow.Exit{Kind: ex.Kind, Return: ex.Return, At: ex.At, State: st2})
			}
		}
		for _, call := range calls2 {
			lit := wraps[call]
			s.bodies = append(s.bodies, lit.Body)
			seen := map[string]bool{}
			for _, pre := range res.At[call] {
				if !c18live(pre) || seen[pre.Key()] {
					continue
				}
				seen[pre.Key()] = true
				facts := pre.Facts()
				lres := analyze(c, f.Lit(lit), mkcfg(func(st *flow.State, b *cfg.Block) {
					if st.Is(c18evSeeded, flow.True) {
						return
					}
					for _, kv := range facts {
						if len(kv) < 3 {
							continue
						}
						v := flow.True
						if kv[len(kv)-1] == 'F' {
							v = flow.False
						}
						st.Set(kv[:len(kv)-2], v)
					}
					if wrapLocked[call] {
						st.Set(c18evS, flow.True)
					}
					st.Set(c18evSeeded, flow.True)
				}))
				if lres == nil {
					continue
				}
				for k, v := range lres.At {
					res.At[k] = append(res.At[k], v...)
				}
				if !last {
					continue
				}
				for _, ex := range lres.Exits {
					st2 := ex.State.Clone()
					if wrapLocked[call] {
						st2.Set(c18evS, flow.False) // the wrapper's unlock (an obligation of the wrapper itself)
					}
					kept = append(kept, &flow.Exit{Kind: ex.Kind, Return: ex.Return, At: ex.At, State: st2})
				}
			}
		}
		res.Exits = kept
	}
	s.res = res

	// exits
	first := true
	liveReturns, errExits := 0, 0
	s.hdr = true
	retSet := map[c18dv]bool{}
	retUnknown := false
	var statusSets []map[string]bool
	for _, ex := range res.Exits {
		if ex.Kind != flow.ExitReturn || !c18live(ex.State) {
			continue
		}
		liveReturns++
		st := ex.State
		o, v := c18count(st, c18evO1, c18evO2), c18count(st, c18evV1, c18evV2)
		if st.Is(c18evNonU, flow.True) {
			o, v = -1, -1
		}
		if first {
			s.obj, s.ver = o, v
			first = false
		} else {
			if s.obj != o {
				s.obj = -1
			}
			if s.ver != v {
				s.ver = -1
			}
		}
		if st.Is(c18evVFirst, flow.True) {
			s.verFirst = true
		}
		if !st.Is(c18evHdr, flow.True) {
			s.hdr = false
		}
		if st.Is(c18evRetUnk, flow.True) {
			retUnknown = true
		}
		codes := map[string]bool{}
		for _, kv := range st.Facts() {
			if !strings.HasSuffix(kv, "=T") {
				continue
			}
			k := kv[:len(kv)-2]
			if strings.HasPrefix(k, c18evRet) {
				if dv, ok := c18parseDV(k[len(c18evRet):]); ok {
					retSet[dv] = true
				}
			}
			if strings.HasPrefix(k, c18stPrefix) {
				codes[k[len(c18stPrefix):]] = true
			}
		}
		if st.Is(c18evErr, flow.True) {
			errExits++
			statusSets = append(statusSets, codes)
		}
	}
	s.noreturn = liveReturns == 0
	if s.noreturn {
		s.hdr = false
	}
	s.errAll = liveReturns > 0 && errExits == liveReturns
	s.errMixed = errExits > 0 && errExits < liveReturns
	if s.errAll {
		// the statuses sent on every exit
		for code := range statusSets[0] {
			all := true
			for _, m := range statusSets[1:] {
				if !m[code] {
					all = false
				}
			}
			if !all {
				continue
			}
			if strings.HasPrefix(code, "p") {
				if i, err := strconv.Atoi(code[1:]); err == nil {
					s.statusParam = i
				}
				continue
			}
			s.statuses = append(s.statuses, code)
		}
		sort.Strings(s.statuses)
	}
	if !wUnknown && len(wSet) == 1 {
		for v := range wSet {
			s.w, s.wKnown = v, true
		}
	}
	if !retUnknown && len(retSet) == 1 {
		for v := range retSet {
			s.ret, s.retKnown = v, true
		}
	}

	// lock wrapper role: runs its function parameter exactly once, with the lock held, and does nothing else
	if !isDecorator && fnParam >= 0 && s.obj == 0 && s.ver == 0 && !s.errAll && !s.errMixed {
		once := liveReturns > 0
		for _, ex := range res.Exits {
			if ex.Kind == flow.ExitReturn && c18live(ex.State) &&
				(!ex.State.Is(c18evFn1, flow.True) || ex.State.Is(c18evFn2, flow.True)) {
				once = false
			}
		}
		if once {
			s.wrapParam = fnParam
			s.wrapLocked = !fnUnlocked && s.takesLock
		}
	}

	// sites: direct subject writes and calls of functions that need the lock from their caller
	lits := []*ast.FuncLit{}
	ast.Inspect(fd.Body, func(n ast.Node) bool {
		if l, ok := n.(*ast.FuncLit); ok {
			lits = append(lits, l)
		}
		return true
	})
	for _, call := range calls(fd.Body, true) {
		what, chain := "", ""
		if d := a.direct[call]; d != nil {
			if !d.write {
				if d.kind == "object" {
					s.objRead = true
				}
				if d.kind != "version" {
					continue
				}
				s.verRead = true
				if s.ver == 0 {
					continue // a reader (e.g. the version attacher): no upgrade depends on it here
				}
				what = "cluster." + d.method + " of the config version feeding the upgrade"
			}
			switch {
			case what != "":
			default:
				switch d.kind {
				case "object":
					what = "cluster." + d.method + " of a config object"
				case "version":
					what = "cluster." + d.method + " of the config version"
				case "member":
					what = "cluster." + d.method
				default:
					continue
				}
			}
		} else if g := a.calleeOf(call); g != nil {
			if _, mine := a.decls[g]; !mine || a.lockFn[g] || a.unlkFn[g] {
				continue
			}
			gs := a.summary(g)
			if gs == nil {
				continue
			}
			if gs.objRead {
				s.objRead = true
			}
			if gs.verRead {
				s.verRead = true
			}
			switch {
			case len(gs.needs) > 0:
				what = "call of " + g.Name()
				chain = gs.needs[0].what
				if gs.needs[0].chain != "" {
					chain += " → " + gs.needs[0].chain
				}
			case gs.verRead && gs.ver == 0 && s.ver != 0:
				// the version this function upgrades is read through a pure reader
				what = "call of " + g.Name()
				chain = "read of the config version feeding the upgrade"
			default:
				continue
			}
		} else {
			continue
		}
		site := &c18site{call: call, what: what, chain: chain, protected: true}
		for _, st := range res.At[call] {
			if !c18live(st) {
				continue
			}
			site.reachable = true
			if !st.Is(c18evS, flow.True) {
				site.protected = false
				if site.bad == nil {
					site.bad = st
				}
			}
		}
		if !site.reachable {
			for _, l := range lits {
				if contains(l, call) {
					site.inLit = true
				}
			}
		}
		s.sites = append(s.sites, site)
		if site.reachable && !site.protected || site.inLit {
			s.needs = append(s.needs, site)
		}
	}
	a.sums[fo] = s
	return s
}

// c18returnsError reports whether the last result of fo is an error.
func c18returnsError(fo *types.Func) bool {
	sig, _ := fo.Type().(*types.Signature)
	if sig == nil || sig.Results().Len() == 0 {
		return false
	}
	return c18isErrorType(sig.Results().At(sig.Results().Len() - 1).Type())
}

// c18returnedLit returns the function literal a declaration returns, if its only return statement
// (outside nested literals) returns exactly one literal.
func c18returnedLit(fd *ast.FuncDecl) *ast.FuncLit {
	var lit *ast.FuncLit
	n := 0
	ast.Inspect(fd.Body, func(x ast.Node) bool {
		switch t := x.(type) {
		case *ast.FuncLit:
			return false
		case *ast.ReturnStmt:
			n++
			if len(t.Results) == 1 {
				lit, _ = ast.Unparen(t.Results[0]).(*ast.FuncLit)
			}
		}
		return true
	})
	if n != 1 {
		return nil
	}
	return lit
}

// entryLock reports whether fo is entered with the cluster lock held: it is only ever used as a value,
// and every such use hands it to a decorator that runs its parameter with the lock held
// (`Handler: s.locked(s.createObject)` at every registration site).
func (a *c18apiCtx) entryLock(fo *types.Func) bool {
	if a.forceLk[fo] {
		return true
	}
	if v, ok := a.entryLk[fo]; ok {
		return v == 1
	}
	a.entryLk[fo] = 2 // (also breaks cycles)
	refs := a.valueRefs[fo]
	if len(refs) == 0 {
		return false
	}
	for _, r := range refs {
		if r.call == nil {
			return false
		}
		d := a.calleeOf(r.call)
		if d == nil || d == fo {
			return false
		}
		if _, mine := a.decls[d]; !mine {
			return false
		}
		ds := a.summary(d)
		if ds == nil || ds.decorParam != r.arg || !ds.decorLocked {
			return false
		}
	}
	a.entryLk[fo] = 1
	return true
}

// collectValueRefs records where the functions of the package are used as values.
func (a *c18apiCtx) collectValueRefs() {
	a.valueRefs = map[*types.Func][]c18valueRef{}
	info := a.pkg.TypesInfo
	for _, file := range a.pkg.Syntax {
		pm := parentMap(file)
		ast.Inspect(file, func(n ast.Node) bool {
			id, ok := n.(*ast.Ident)
			if !ok {
				return true
			}
			fo, ok := info.Uses[id].(*types.Func)
			if !ok {
				return true
			}
			if _, mine := a.decls[fo]; !mine {
				return true
			}
			var expr ast.Node = id
			if sel, ok := pm[id].(*ast.SelectorExpr); ok && sel.Sel == id {
				expr = sel
			}
			for {
				p, ok := pm[expr].(*ast.ParenExpr)
				if !ok {
					break
				}
				expr = p
			}
			ref := c18valueRef{at: expr}
			if call, ok := pm[expr].(*ast.CallExpr); ok {
				if call.Fun == expr {
					return true // a call, not a value use
				}
				for i, arg := range call.Args {
					if arg == expr {
						ref.call, ref.arg = call, i
					}
				}
			}
			a.valueRefs[fo] = append(a.valueRefs[fo], ref)
			return true
		})
	}
}

// setStatus records the status code handed to the error responder: a constant, or a parameter
// of the analysed function (a wrapper forwarding its code), or unknown.
func (a *c18apiCtx) setStatus(st *flow.State, dx *c18dctx, arg ast.Expr) {
	info := a.pkg.TypesInfo
	if tv, ok := info.Types[arg]; ok && tv.Value != nil {
		st.Set(c18stPrefix+tv.Value.ExactString(), flow.True)
		return
	}
	if id, ok := ast.Unparen(arg).(*ast.Ident); ok {
		if i, ok := dx.params[info.Uses[id]]; ok {
			st.Set(c18stPrefix+"p"+strconv.Itoa(i), flow.True)
			return
		}
	}
	st.Set(c18stPrefix+"?", flow.True)
}

// mentionsAPI reports whether a body calls a function of pkg/api or the cluster.
func (a *c18apiCtx) mentionsAPI(body ast.Node) bool {
	for _, call := range calls(body, true) {
		if a.direct[call] != nil {
			return true
		}
		if g := a.calleeOf(call); g != nil {
			if _, mine := a.decls[g]; mine {
				return true
			}
		}
	}
	return false
}

// ---- R-C18-3

func (a *c18apiCtx) lockRules(rel []*types.Func, escapes, external map[*types.Func]bool) {
	c := a.c
	nSites, nRoots := 0, 0
	for _, fo := range rel {
		s := a.sums[fo]
		if s == nil || s.res == nil {
			continue
		}
		for _, site := range s.sites {
			nSites++
			cons := s.cons + "|" + site.what
			switch {
			case site.inLit:
				c.Undecide("R-C18-3", cons, pos(c, site.call), "the write is made inside a closure; the lock state at its execution is not tracked")
			case !site.reachable:
				c.Discharge("R-C18-3", cons, pos(c, site.call), "unreachable")
			case site.protected:
				nRoots++
				c.Discharge("R-C18-3", cons, pos(c, site.call), "reached only with the admin server's cluster lock held in this function")
			case external[fo]:
				c.Undecide("R-C18-3", cons, pos(c, site.call), "made without the lock in this function, which is called from another package")
			case escapes[fo]:
				c.Violate("R-C18-3", cons, pos(c, site.call),
					sprintf("%s performs %s%s without holding the admin server's cluster lock, and %s is installed as a handler / used as a function value"+a.bareUses(fo)+" (no caller takes the lock for it): concurrent admin mutations are no longer serialised — two requests can both pass the existence check or both read the same version and return the same X-Config-Version", fo.Name(), site.what, c18paren(site.chain), fo.Name()),
					witness(site.bad)...)
			default:
				c.Discharge("R-C18-3", cons, pos(c, site.call), "no lock in this helper; it is only ever called directly and each call site is an obligation of its own")
			}
		}
		// the unlock function only where the lock is held
		if s.unlocks > 0 {
			c.Check(s.unlockUnheld == nil, "R-C18-3", s.cons+"|Unlock only with the lock held", pos(c, s.fd.Body),
				"every call of the unlock function (deferred ones included) is reached with the cluster lock held",
				fo.Name()+" can run the unlock function on a path where the cluster lock is not held (the acquisition failed, or was not made): Unlock then deletes this member's etcd lock key and releases the process-local mutex that ANOTHER request holds, so two later mutations are inside the critical section together", witness(s.unlockUnheld)...)
		}
		// release on every exit
		if s.takesLock {
			var bad *flow.Exit
			n := 0
			for _, ex := range s.res.Exits {
				if ex.Kind == flow.ExitReturn && !c18live(ex.State) {
					continue
				}
				n++
				if ex.State.Is(c18evS, flow.True) && bad == nil {
					bad = ex
				}
			}
			why := ""
			var w []string
			if bad != nil {
				kind := "return"
				if bad.Kind == flow.ExitPanic {
					kind = "panic (cluster errors surface as ClusterPanic and are recovered by the API middleware)"
				}
				why = sprintf("%s can end by %s at %s with the cluster lock still held: every later admin mutation on this member blocks, and other members wait for the etcd key", fo.Name(), kind, pos(c, bad.At))
				w = witness(bad.State)
			}
			c.Check(bad == nil, "R-C18-3", s.cons+"|lock released on every exit", pos(c, s.fd.Body),
				sprintf("%d exit state(s) (returns and panics) all have the lock released", n), why, w...)
		}
	}
	c.RequireCount("R-C18-3", "write sites (direct and through helpers) in pkg/api", nSites, 4)
	c.Count("R-C18-3:write sites protected by a lock taken in the same function", nRoots)

	// the lock functions really acquire / release the cluster mutex
	for fo := range a.lockFn {
		s := a.sums[fo]
		if s == nil || s.res == nil {
			continue
		}
		var acq []*ast.CallExpr
		evAcq := c18evMxL
		consL := s.cons
		if g := a.applicator[fo]; g != nil {
			// the acquisition is the applicator's call of its func parameter
			gs := a.summary(g)
			if gs == nil || gs.res == nil || s.noreturn {
				c.Undecide("R-C18-3", consL+"|returns only with the cluster mutex acquired", pos(c, s.fd.Body), "cannot analyse "+g.Name()+", which applies the lock operation")
				continue
			}
			s = gs
			evAcq = c18evFn1
			for _, call := range s.bodyCalls() {
				if v, ok := s.f.Callee(call).(*types.Var); ok {
					if _, isParam := c18paramIndex(s.f)[v]; isParam {
						acq = append(acq, call)
					}
				}
			}
		} else {
			for _, call := range s.bodyCalls() {
				if c18ifaceCall(a.pkg.TypesInfo, call, "Mutex") == "Lock" {
					acq = append(acq, call)
				}
			}
		}
		var keys []string
		undecided := false
		retErr := c18returnsError(fo)
		for _, q := range acq {
			holder, how := c18resultHolder(s.fd.Body, q)
			switch {
			case how == "assign":
				keys = append(keys, s.f.NilKey(holder))
			case how == "return" && retErr:
				keys = append(keys, s.f.NilKey(q)) // `return mutex.Lock()`: the result is the acquisition's
			case how != "dropped":
				undecided = true
			}
		}
		if undecided {
			c.Undecide("R-C18-3", consL+"|returns only with the cluster mutex acquired", pos(c, s.fd.Body), "cannot tell where the result of Mutex.Lock goes")
			continue
		}
		var bad *flow.State
		n := 0
		for _, ex := range s.res.Exits {
			if ex.Kind != flow.ExitReturn || !c18live(ex.State) {
				continue
			}
			n++
			ok := false
			for _, k := range keys {
				if ex.State.Is(k, flow.True) {
					ok = true
				}
			}
			if retErr {
				// Lock() error: a nil result must be the acquisition's nil result
				r := c18lastResult(ex.Return)
				direct := false
				for _, q := range acq {
					if r != nil && ast.Unparen(r) == ast.Expr(q) {
						direct = true
					}
				}
				if direct && ex.State.Is(evAcq, flow.True) {
					continue
				}
				if r != nil && c18nilOf(s.f, ex.State, r) == flow.False {
					continue // reports a failure
				}
			}
			if (!ok || !ex.State.Is(evAcq, flow.True)) && bad == nil {
				bad = ex.State
			}
		}
		c.RequireCount("R-C18-3", "returning exits of "+consL, n, 1)
		c.Check(bad == nil, "R-C18-3", consL+"|returns only with the cluster mutex acquired", pos(c, s.fd.Body),
			sprintf("%d returning exit state(s): cluster.Mutex.Lock was called and its error is nil (or the error is what is returned)", n),
			fo.Name()+" can return although cluster.Mutex.Lock failed (timeout, etcd error) or was not called: the handler runs its critical section without the lock", witness(bad)...)
	}
	for fo := range a.unlkFn {
		s := a.sums[fo]
		if s == nil || s.res == nil {
			continue
		}
		var bad *flow.State
		n := 0
		evRel := c18evMxU
		if g := a.applicator[fo]; g != nil {
			if gs := a.summary(g); gs != nil && gs.res != nil && !s.noreturn {
				s0 := s
				s = gs
				s.cons = s0.cons
				defer func(gs *c18sum, cons string) { gs.cons = cons }(gs, declName(a.pkg, gs.fd))
				evRel = c18evFn1
			}
		}
		for _, ex := range s.res.Exits {
			if ex.Kind != flow.ExitReturn || !c18live(ex.State) {
				continue
			}
			n++
			if !ex.State.Is(evRel, flow.True) && bad == nil {
				bad = ex.State
			}
		}
		c.RequireCount("R-C18-3", "returning exits of "+s.cons, n, 1)
		c.Check(bad == nil, "R-C18-3", s.cons+"|releases the cluster mutex", pos(c, s.fd.Body),
			"every returning path calls cluster.Mutex.Unlock",
			fo.Name()+" can return without calling cluster.Mutex.Unlock: the lock stays held", witness(bad)...)
	}
}

// ---- R-C18-4

// entryRoles maps handler functions to the HTTP method of the api.Entry literal they are
// installed in.
func (a *c18apiCtx) entryRoles() map[*types.Func]string {
	out := map[*types.Func]string{}
	info := a.pkg.TypesInfo
	for _, file := range a.pkg.Syntax {
		ast.Inspect(file, func(n ast.Node) bool {
			cl, ok := n.(*ast.CompositeLit)
			if !ok {
				return true
			}
			tv, ok := info.Types[cl]
			if !ok {
				return true
			}
			t := tv.Type
			if p, ok := t.(*types.Pointer); ok {
				t = p.Elem()
			}
			nmd, ok := t.(*types.Named)
			if !ok || nmd.Obj().Pkg() != a.pkg.Types || nmd.Obj().Name() != "Entry" {
				return true
			}
			method := ""
			var h *types.Func
			for _, el := range cl.Elts {
				kv, ok := el.(*ast.KeyValueExpr)
				if !ok {
					continue
				}
				k, ok := kv.Key.(*ast.Ident)
				if !ok {
					continue
				}
				switch k.Name {
				case "Method":
					if v, ok := info.Types[kv.Value]; ok && v.Value != nil {
						if s, err := strconv.Unquote(v.Value.ExactString()); err == nil {
							method = s
						}
					}
				case "Handler":
					val := ast.Unparen(kv.Value)
					// Handler: s.locked(s.createObject): the decorated function is the handler
					for hop := 0; hop < 3; hop++ {
						if id, ok := val.(*ast.Ident); ok {
							// a local holding the (decorated) handler
							if v, ok := info.Uses[id].(*types.Var); ok {
								if b := c18boundValue(a.pkg, v); b != nil {
									val = b
									continue
								}
							}
						}
						call, ok := val.(*ast.CallExpr)
						if !ok {
							break
						}
						d := a.calleeOf(call)
						if d == nil {
							break
						}
						ds := a.sums[d]
						if ds == nil || ds.decorParam < 0 || ds.decorParam >= len(call.Args) {
							break
						}
						val = ast.Unparen(call.Args[ds.decorParam])
					}
					switch v := val.(type) {
					case *ast.SelectorExpr:
						h, _ = info.Uses[v.Sel].(*types.Func)
					case *ast.Ident:
						h, _ = info.Uses[v].(*types.Func)
					}
				}
			}
			if h != nil && method != "" {
				out[h] = method
			}
			return true
		})
	}
	return out
}

func (a *c18apiCtx) versionRules(rel []*types.Func, escapes map[*types.Func]bool) {
	c := a.c
	roles := a.entryRoles()
	handlers := 0
	verWriters := 0
	hdrSetters := 0
	for _, fo := range rel {
		s := a.sums[fo]
		if s == nil || s.res == nil {
			continue
		}
		// the version helper: value written and returned = value read + 1
		// (judged in the function where the written value is expressed relative to the version
		// read: the direct writer, or the caller of a helper that writes what it is handed)
		if s.wSeen {
			verWriters++
			c.Check(s.wBad == nil && s.wSeen, "R-C18-4", s.cons+"|writes version read + 1", pos(c, s.fd.Body),
				"the value put under the config version key is (value read under the lock) + 1 on every path",
				"the value written to the config version key is not provably (value read) + 1: versions do not grow by exactly one per successful mutation", witness(s.wBad)...)
			if sig := fo.Type().(*types.Signature); sig.Results().Len() > 0 {
				c.Check(s.retKnown && s.wKnown && s.ret == s.w, "R-C18-4", s.cons+"|returns the version written", pos(c, s.fd.Body),
					"the returned value is the value written",
					"the value returned is not the version that was written: X-Config-Version of the response differs from the stored version (two mutations can report the same version)")
			}
		}
		// the function that sets the version header
		if s.hdrSeen {
			hdrSetters++
			c.Check(s.hdrBad == nil, "R-C18-4", s.cons+"|X-Config-Version carries the version written", pos(c, s.fd.Body),
				"the header is set, after the upgrade, to the value returned by the version upgrade",
				"X-Config-Version is set to a value that is not the version this mutation wrote (e.g. a version read before the upgrade): two successful mutations can report the same version", witness(s.hdrBad)...)
		}
		// handlers: functions with object writes that are installed as values
		hasObj := s.obj != 0
		if !hasObj || !escapes[fo] {
			continue
		}
		handlers++
		a.handlerRules(a.delegated(s), roles[fo])
	}
	c.RequireCount("R-C18-4", "functions writing the config version key", verWriters, 1)
	c.Count("R-C18-4:functions setting X-Config-Version after an upgrade", hdrSetters)
	c.RequireCount("R-C18-4", "mutation handlers (installed functions that write config objects)", handlers, 3)
}

func (a *c18apiCtx) handlerRules(s *c18sum, method string) {
	c := a.c
	f := s.f
	info := a.pkg.TypesInfo
	role := map[string]string{"POST": "create", "PUT": "update", "DELETE": "delete"}[method]

	// ---- exit table
	var bad *flow.Exit
	why := ""
	nOK, nErr := 0, 0
	for _, ex := range s.res.Exits {
		st := ex.State
		if ex.Kind != flow.ExitReturn || !c18live(st) {
			continue
		}
		if st.Is(c18evNonU, flow.True) {
			c.Undecide("R-C18-4", s.cons+"|exit table", pos(c, ex.At), "a helper with path-dependent write counts is called")
			return
		}
		o, v := c18count(st, c18evO1, c18evO2), c18count(st, c18evV1, c18evV2)
		w := ""
		if st.Is(c18evErr, flow.True) {
			nErr++
			if o != 0 || v != 0 {
				w = sprintf("an error response is sent on a path that performed %d object write(s) and %d version upgrade(s): the request is reported as failed but the store was modified", o, v)
			}
		} else {
			nOK++
			switch {
			case o == 0 && v == 0:
				w = "the handler can end successfully (no error response) without writing anything"
			case o == 0:
				w = "the config version is upgraded on a path without an object write: versions grow without a mutation"
			case o > 1:
				w = "more than one object write on a successful path"
			case v == 0:
				w = "a successful mutation is not followed by a version upgrade: it returns no new X-Config-Version and two successful mutations share a version"
			case v > 1:
				w = "the version is upgraded more than once for one mutation: versions do not grow by exactly one"
			case st.Is(c18evVFirst, flow.True):
				w = "the version is upgraded before the object is written: a failure in between leaves a version without its mutation"
			case st.Is(c18evGap, flow.True):
				w = "the lock is released between the object write and the version upgrade: another mutation can interleave, version order no longer equals write order"
			case !st.Is(c18evHdr, flow.True):
				w = "a successful mutation does not set the X-Config-Version header after upgrading the version"
			}
		}
		if w != "" && bad == nil {
			bad, why = ex, w
		}
	}
	c.RequireCount("R-C18-4", "successful exits of "+s.cons, nOK, 1)
	c.Count("R-C18-4:error-response exits of "+s.cons, nErr)
	var w []string
	if bad != nil {
		w = append([]string{"exit at " + pos(c, bad.At)}, witness(bad.State)...)
	}
	c.Check(bad == nil, "R-C18-4", s.cons+"|exit table", pos(c, s.fd.Body),
		sprintf("%d error exit state(s) with 0 writes / 0 upgrades, %d success exit state(s) with exactly 1 write then 1 upgrade in one critical section and the version header set", nErr, nOK), why, w...)

	if role == "" {
		c.Undecide("R-C18-4", s.cons+"|guards", pos(c, s.fd.Body), "handler writes config objects but is not installed under POST/PUT/DELETE (method \""+method+"\")")
		return
	}

	if role == "delete" {
		// deleting an absent name successfully would not contradict the property; only the
		// exit table is required of the delete handler
		return
	}

	// ---- the existence read
	var reads []*ast.CallExpr
	for _, call := range s.bodyCalls() {
		if d := a.direct[call]; d != nil {
			if !d.write && d.kind == "object" {
				reads = append(reads, call)
			}
			continue
		}
		if g := a.calleeOf(call); g != nil {
			if gs := a.sums[g]; gs != nil && gs.objRead && gs.obj == 0 && !a.lockFn[g] && !a.unlkFn[g] {
				reads = append(reads, call)
			}
		}
	}
	consG := s.cons + "|" + role + " guard"
	if len(reads) != 1 {
		if len(reads) == 0 {
			c.Violate("R-C18-4", consG, pos(c, s.fd.Body), "the "+role+" handler writes without reading the stored object first: existing names are overwritten / absent names are accepted")
		} else {
			c.Undecide("R-C18-4", consG, pos(c, s.fd.Body), sprintf("%d existence reads in the handler", len(reads)))
		}
		return
	}
	read := reads[0]
	holder, how := c18resultHolder(s.fd.Body, read)
	if how != "assign" {
		c.Undecide("R-C18-4", consG, pos(c, read), "the stored object read is not assigned to a variable")
		return
	}
	if tv, ok := info.Types[holder]; ok && tv.Type != nil {
		switch tv.Type.Underlying().(type) {
		case *types.Pointer, *types.Interface, *types.Map, *types.Slice:
		default:
			c.Undecide("R-C18-4", consG, pos(c, read), "the existence read yields a "+tv.Type.String()+", not a nil-able object: the guard shape is not recognised")
			return
		}
	}
	vKey := f.NilKey(holder)
	var hObj types.Object
	if id, ok := holder.(*ast.Ident); ok {
		hObj = info.Defs[id]
		if hObj == nil {
			hObj = info.Uses[id]
		}
	}
	var badRead *flow.State
	for _, st := range s.res.At[read] {
		if c18live(st) && !st.Is(c18evS, flow.True) {
			badRead = st
		}
	}
	c.Check(badRead == nil, "R-C18-4", s.cons+"|existence read under the lock", pos(c, read),
		"the stored object is read with the cluster lock held (check and write are one critical section)",
		"the stored object is read before the cluster lock is taken: check-then-act race — two concurrent requests for one name both pass the check (two creates both answer 201 instead of one 409; an update resurrects a concurrently deleted object)", witness(badRead)...)

	// ---- kind comparison (update)
	kindKey := ""
	kindEq, kindNe := flow.True, flow.False // values of kindKey meaning "same kind" / "another kind"
	if role == "update" {
		isKind := func(e ast.Expr, depth int) (types.Object, bool) { return nil, false }
		isKind = func(e ast.Expr, depth int) (types.Object, bool) {
			e = ast.Unparen(e)
			switch x := e.(type) {
			case *ast.CallExpr:
				fo, ok := f.Callee(x).(*types.Func)
				if !ok || fo.Name() != "Kind" || fo.Pkg() == nil || fo.Pkg().Path() != Mod+"pkg/supervisor" {
					return nil, false
				}
				if sel, ok := ast.Unparen(x.Fun).(*ast.SelectorExpr); ok {
					if id, ok := ast.Unparen(sel.X).(*ast.Ident); ok {
						return info.Uses[id], true
					}
				}
				return nil, true
			case *ast.Ident:
				if depth > 0 {
					return nil, false
				}
				o := info.Uses[x]
				var recv types.Object
				found := false
				ast.Inspect(s.fd.Body, func(n ast.Node) bool {
					if as, ok := n.(*ast.AssignStmt); ok && len(as.Lhs) == len(as.Rhs) {
						for i, l := range as.Lhs {
							if lid, ok := l.(*ast.Ident); ok && (info.Defs[lid] == o || info.Uses[lid] == o) && o != nil {
								if r, ok := isKind(as.Rhs[i], depth+1); ok {
									recv, found = r, true
								}
							}
						}
					}
					return true
				})
				return recv, found
			}
			return nil, false
		}
		ast.Inspect(s.fd.Body, func(n ast.Node) bool {
			b, ok := n.(*ast.BinaryExpr)
			if !ok || (b.Op != token.EQL && b.Op != token.NEQ) {
				return true
			}
			rx, okx := isKind(b.X, 0)
			ry, oky := isKind(b.Y, 0)
			if okx && oky && (rx == hObj) != (ry == hObj) {
				kindKey = f.EqKey(b.X, b.Y)
			}
			return true
		})
		// … or a same-package bool helper that compares the kinds of its two parameters
		// (sameKind(a, b) / differentKind(a, b)), called with the stored object
		if kindKey == "" {
			for _, call := range s.bodyCalls() {
				g := a.calleeOf(call)
				if g == nil {
					continue
				}
				eq, ok := a.kindHelper(g)
				if !ok {
					continue
				}
				withHolder := false
				exprs := append([]ast.Expr{}, call.Args...)
				if sel, ok := ast.Unparen(call.Fun).(*ast.SelectorExpr); ok {
					exprs = append(exprs, sel.X)
				}
				for _, e := range exprs {
					if id, ok := ast.Unparen(e).(*ast.Ident); ok && hObj != nil && info.Uses[id] == hObj {
						withHolder = true
					}
				}
				if withHolder {
					kindKey = f.CallKey(call)
					if !eq {
						kindEq, kindNe = flow.False, flow.True
					}
				}
			}
		}
		// a bool-valued call on the stored object that the rule cannot look into
		if kindKey == "" {
			for _, call := range s.bodyCalls() {
				tv, ok := info.Types[call]
				if !ok || tv.Type == nil {
					continue
				}
				if b, ok := tv.Type.Underlying().(*types.Basic); !ok || b.Info()&types.IsBoolean == 0 {
					continue
				}
				uses := false
				ast.Inspect(call, func(n ast.Node) bool {
					if id, ok := n.(*ast.Ident); ok && hObj != nil && info.Uses[id] == hObj {
						uses = true
					}
					return true
				})
				if uses {
					c.Undecide("R-C18-4", consG, pos(c, call), "the stored object is tested by "+f.Render(call.Fun)+", which is not recognised as a kind comparison")
					return
				}
			}
		}
	}

	// ---- guard at the write sites
	var writes []*ast.CallExpr
	for _, call := range s.bodyCalls() {
		if d := a.direct[call]; d != nil {
			if d.write && d.kind == "object" {
				writes = append(writes, call)
			}
			continue
		}
		if g := a.calleeOf(call); g != nil {
			if gs := a.sums[g]; gs != nil && gs.obj > 0 {
				writes = append(writes, call)
			}
		}
	}
	var badW *flow.State
	whyW := ""
	for _, wc := range writes {
		for _, st := range s.res.At[wc] {
			if !c18live(st) || badW != nil {
				continue
			}
			switch role {
			case "create":
				if !st.Is(vKey, flow.True) {
					badW, whyW = st, "create writes the object on a path where the name is not known to be absent: an existing object is overwritten instead of answering 409"
				}
			case "update":
				switch {
				case kindKey == "":
					badW, whyW = st, "update never compares the kind of the stored object with the kind of the request: an update with another kind replaces the object instead of answering 400"
				case !st.Is(kindKey, kindEq):
					badW, whyW = st, "update writes the object on a path where the kinds are not known to be equal: an update with another kind modifies the object instead of answering 400"
				}
			}
		}
	}
	c.RequireCount("R-C18-4", "object write sites in "+s.cons, len(writes), 1)
	c.Check(badW == nil, "R-C18-4", consG, pos(c, s.fd.Body),
		map[string]string{"create": "the object is written only when the stored object is absent",
			"update": "the object is written only when the stored object has the request's kind"}[role], whyW, witness(badW)...)

	// ---- status of the refused requests
	var badS *flow.State
	whyS := ""
	unknownStatus := false
	n := 0
	for _, ex := range s.res.Exits {
		st := ex.State
		if ex.Kind != flow.ExitReturn || !c18live(st) || badS != nil {
			continue
		}
		switch role {
		case "create":
			if st.Is(vKey, flow.False) {
				n++
				if !st.Is(c18stPrefix+"409", flow.True) {
					badS, whyS = st, "creating an existing name does not answer 409 Conflict"
					unknownStatus = unknownStatus || st.Is(c18stPrefix+"?", flow.True)
				}
			}
		case "update":
			if kindKey != "" && st.Is(kindKey, kindNe) {
				n++
				if !st.Is(c18stPrefix+"400", flow.True) {
					badS, whyS = st, "updating with another kind does not answer 400 Bad Request"
					unknownStatus = unknownStatus || st.Is(c18stPrefix+"?", flow.True)
				}
			}
		}
	}
	if role == "create" || role == "update" {
		if n == 0 && badW == nil {
			c.Violate("R-C18-4", s.cons+"|refusal status", pos(c, s.fd.Body), "no exit of the handler refuses the request ("+role+")")
		} else if badW == nil && badS != nil && unknownStatus {
			c.Undecide("R-C18-4", s.cons+"|refusal status", pos(c, s.fd.Body), "the status code of the refusal is not a constant the analysis can follow")
		} else if badW == nil {
			c.Check(badS == nil, "R-C18-4", s.cons+"|refusal status", pos(c, s.fd.Body),
				map[string]string{"create": sprintf("%d exit state(s) with an existing name all answered 409", n),
					"update": sprintf("%d exit state(s) with another kind all answered 400", n)}[role], whyS, witness(badS)...)
		}
	}
}

// kindHelper recognises a function whose body is `return a.Kind() == b.Kind()` (eq = true) or
// `return a.Kind() != b.Kind()` (eq = false) over two of its parameters / its receiver.
func (a *c18apiCtx) kindHelper(g *types.Func) (eq, ok bool) {
	fd := a.decls[g]
	if fd == nil || len(fd.Body.List) != 1 {
		return false, false
	}
	ret, isRet := fd.Body.List[0].(*ast.ReturnStmt)
	if !isRet || len(ret.Results) != 1 {
		return false, false
	}
	e := ast.Unparen(ret.Results[0])
	neg := false
	for {
		u, isNot := e.(*ast.UnaryExpr)
		if !isNot || u.Op != token.NOT {
			break
		}
		neg = !neg
		e = ast.Unparen(u.X)
	}
	b, isBin := e.(*ast.BinaryExpr)
	if !isBin || (b.Op != token.EQL && b.Op != token.NEQ) {
		return false, false
	}
	info := a.pkg.TypesInfo
	var objs []types.Object
	for _, side := range []ast.Expr{b.X, b.Y} {
		call, isCall := ast.Unparen(side).(*ast.CallExpr)
		if !isCall {
			return false, false
		}
		fo, _ := typeutilCallee(info, call).(*types.Func)
		if fo == nil || fo.Name() != "Kind" || fo.Pkg() == nil || fo.Pkg().Path() != Mod+"pkg/supervisor" {
			return false, false
		}
		sel, isSel := ast.Unparen(call.Fun).(*ast.SelectorExpr)
		if !isSel {
			return false, false
		}
		id, isID := ast.Unparen(sel.X).(*ast.Ident)
		if !isID {
			return false, false
		}
		v, isVar := info.Uses[id].(*types.Var)
		if !isVar || v.IsField() || v.Parent() == v.Pkg().Scope() {
			return false, false
		}
		objs = append(objs, v)
	}
	if objs[0] == objs[1] {
		return false, false
	}
	return (b.Op == token.EQL) != neg, true
}

// ---- R-C18-5

// c18prefixOp reports whether a Cluster call is a prefix (range) operation: a *Prefix method, or
// GetWithOp with the OpPrefix option.
func c18prefixOp(info *types.Info, d *c18direct) bool {
	if strings.HasSuffix(d.method, "Prefix") {
		return true
	}
	if d.method != "GetWithOp" {
		return false
	}
	for _, arg := range d.call.Args[1:] {
		found := false
		ast.Inspect(arg, func(n ast.Node) bool {
			if id, ok := n.(*ast.Ident); ok {
				if k, ok := info.Uses[id].(*types.Const); ok && k.Pkg() != nil && k.Pkg().Path() == Mod+c18cl && k.Name() == "OpPrefix" {
					found = true
				}
			}
			return true
		})
		if found {
			return true
		}
	}
	return false
}

// exactKeyRules: the handlers address one object (one version counter) by one key. Object
// names are arbitrary strings and the per-object key has no terminator, so a range
// operation on it also covers every object whose name merely starts with the name.
func (a *c18apiCtx) exactKeyRules() {
	c := a.c
	info := a.pkg.TypesInfo
	var ds []*c18direct
	for _, d := range a.direct {
		ds = append(ds, d)
	}
	sort.Slice(ds, func(i, j int) bool { return ds[i].call.Pos() < ds[j].call.Pos() })
	n := 0
	for _, d := range ds {
		if d.kind != "object" && d.kind != "version" {
			continue
		}
		var single, prefix []string
		for _, r := range d.roles {
			if strings.HasSuffix(r, "Prefix") {
				prefix = append(prefix, r)
			} else if strings.HasPrefix(r, "Config") {
				single = append(single, r)
			}
		}
		if len(single) == 0 || len(prefix) > 0 {
			continue // listing over a prefix key of the layout
		}
		n++
		var fd *ast.FuncDecl
		for _, x := range a.decls {
			if contains(x, d.call) {
				fd = x
			}
		}
		if fd == nil {
			continue
		}
		rw := "read"
		if d.write {
			rw = "write"
		}
		cons := declName(a.pkg, fd) + "|exact-key " + rw + " on " + strings.Join(single, "+")
		what := "object"
		if d.kind == "version" {
			what = "version counter"
		}
		why := "the key has no terminator and names are not prefix-free, so the operation also covers every stored object whose name merely starts with this name — one successful request removes / reads several objects while the existence check, the 409/404 decision and the single version step of the handlers are made for exactly one key"
		if d.kind == "version" {
			why = "every key that merely starts with the counter's key is read / written with it, so the version the handlers increment and report is no longer the value of one key"
		}
		c.Check(!c18prefixOp(info, d), "R-C18-5", cons, pos(c, d.call),
			"cluster."+d.method+" addresses exactly the key of one "+what,
			sprintf("cluster.%s is a range operation applied to the key of a single %s (Layout.%s): %s", d.method, what, strings.Join(single, "+"), why))
	}
	c.RequireCount("R-C18-5", "cluster operations on single-object / version keys in pkg/api", n, 4)
}

// bodyCalls lists the calls of the declaration body and of the closures it runs through a lock
// wrapper (other function literals are not entered).
func (s *c18sum) bodyCalls() []*ast.CallExpr {
	var out []*ast.CallExpr
	for _, b := range s.bodies {
		out = append(out, calls(b, false)...)
	}
	return out
}

// bareUses describes the value uses of fo that do not go through a locking decorator.
func (a *c18apiCtx) bareUses(fo *types.Func) string {
	var bare []string
	decorated := 0
	for _, r := range a.valueRefs[fo] {
		if r.call != nil {
			if d := a.calleeOf(r.call); d != nil {
				if ds := a.sums[d]; ds != nil && ds.decorParam == r.arg && ds.decorLocked {
					decorated++
					continue
				}
			}
		}
		bare = append(bare, pos(a.c, r.at))
	}
	if len(bare) == 0 {
		return ""
	}
	out := " at " + strings.Join(bare, ", ")
	if decorated > 0 {
		out += sprintf(" — registered there without the locking wrapper that its %d other registration(s) use", decorated)
	} else {
		for _, ds := range a.sums {
			if ds != nil && ds.decorLocked {
				out += " — registered there bare, while other handlers are registered through " + ds.fo.Name() + "(..), which takes the lock around the handler"
				break
			}
		}
	}
	return out
}

// c18mutexMethodExpr returns "Lock" / "Unlock" when e is the method expression cluster.Mutex.Lock / .Unlock.
func c18mutexMethodExpr(info *types.Info, e ast.Expr) string {
	sel, ok := ast.Unparen(e).(*ast.SelectorExpr)
	if !ok {
		return ""
	}
	sl := info.Selections[sel]
	if sl == nil || sl.Kind() != types.MethodExpr {
		return ""
	}
	fo, ok := sl.Obj().(*types.Func)
	if !ok {
		return ""
	}
	rt := sl.Recv()
	if p, isPtr := rt.(*types.Pointer); isPtr {
		rt = p.Elem()
	}
	n, ok := rt.(*types.Named)
	if !ok || n.Obj().Pkg() == nil || n.Obj().Pkg().Path() != Mod+c18cl || n.Obj().Name() != "Mutex" {
		return ""
	}
	if fo.Name() == "Lock" || fo.Name() == "Unlock" {
		return fo.Name()
	}
	return ""
}

// c18callsParam reports whether fd calls its i-th parameter.
func c18callsParam(info *types.Info, fd *ast.FuncDecl, i int) bool {
	var p types.Object
	k := 0
	for _, fld := range fd.Type.Params.List {
		for _, n := range fld.Names {
			if k == i {
				p = info.Defs[n]
			}
			k++
		}
		if len(fld.Names) == 0 {
			k++
		}
	}
	if p == nil {
		return false
	}
	for _, call := range calls(fd.Body, true) {
		if id, ok := ast.Unparen(call.Fun).(*ast.Ident); ok && info.Uses[id] == p {
			return true
		}
	}
	return false
}

// delegated: a handler that keeps parsing and locking and hands its critical section to a helper
// (createObject → createObjectLocked(w, r, spec), called last, with the lock held at every call site of the
// helper): the handler obligations are judged on the helper analysed as entered with the lock held, together
// with the handler's own earlier exits. Anything else is returned unchanged.
func (a *c18apiCtx) delegated(s *c18sum) *c18sum {
	if s == nil || s.res == nil || len(s.fd.Body.List) == 0 {
		return s
	}
	nonU := false
	for _, ex := range s.res.Exits {
		if ex.Kind == flow.ExitReturn && c18live(ex.State) && ex.State.Is(c18evNonU, flow.True) {
			nonU = true
		}
	}
	if !nonU {
		return s
	}
	tail := s.fd.Body.List[len(s.fd.Body.List)-1]
	if r, ok := tail.(*ast.ReturnStmt); ok && len(r.Results) == 0 && len(s.fd.Body.List) > 1 {
		tail = s.fd.Body.List[len(s.fd.Body.List)-2]
	}
	es, ok := tail.(*ast.ExprStmt)
	if !ok {
		return s
	}
	call, ok := ast.Unparen(es.X).(*ast.CallExpr)
	if !ok {
		return s
	}
	g := a.calleeOf(call)
	if g == nil || g == s.fo || a.decls[g] == nil || len(a.valueRefs[g]) > 0 {
		return s
	}
	gs := a.sums[g]
	if gs == nil || !(gs.obj < 0 || gs.ver < 0 || gs.errMixed) {
		return s
	}
	// every call of the helper in the package is made with the lock held
	sitesSeen := 0
	for _, t := range a.sums {
		if t == nil {
			continue
		}
		for _, site := range t.sites {
			if a.calleeOf(site.call) != g {
				continue
			}
			sitesSeen++
			if !site.reachable || !site.protected {
				return s
			}
		}
	}
	if sitesSeen == 0 {
		return s
	}
	// the only path-dependent callee on the handler's paths must be this one
	for _, c2 := range s.bodyCalls() {
		if c2 == call {
			continue
		}
		if h := a.calleeOf(c2); h != nil {
			if hs := a.sums[h]; hs != nil && a.decls[h] != nil && !a.lockFn[h] && !a.unlkFn[h] && (hs.obj < 0 || hs.ver < 0 || hs.errMixed) {
				return s
			}
		}
	}
	old := a.sums[g]
	delete(a.sums, g)
	a.forceLk[g] = true
	gl := a.summary(g)
	delete(a.forceLk, g)
	a.sums[g] = old
	if gl == nil || gl.res == nil {
		return s
	}
	merged := *gl
	merged.cons = s.cons
	var exits []*flow.Exit
	for _, ex := range s.res.Exits {
		if !ex.State.Is(c18evNonU, flow.True) {
			exits = append(exits, ex)
		}
	}
	exits = append(exits, gl.res.Exits...)
	merged.res = &flow.Result{Fn: gl.res.Fn, At: gl.res.At, Exits: exits}
	return &merged
}
