package rules

// R-C04-3 (second follow-up): one concrete balancer type per pool.
//
// ServerPool keeps its balancer in an atomic.Value, and atomic.Value.Store panics ("store of
// inconsistently typed value into Value") when the concrete type of the stored value differs
// from the previous store. A pool's policy is fixed, its server list is not (service discovery
// replaces it), so a necessary condition of "no policy panics … under list replacement" is:
// for a fixed policy constant the concrete type NewLoadBalancer returns does not depend on the
// server list, and nothing but NewLoadBalancer's result is ever stored.
//
// Decided on the AST + go/types: the set of concrete types an interface-typed expression can
// evaluate to = its static type if that is concrete; for a call of a module function with an
// interface result the union over the callee's return statements (recursively); for a local the
// union over everything assigned to it. Anything else is "unknown" (undecided, never violated).
//
// Mutants (compile, package tests pass): round-2 seeded b (weighted constructor returns the
// interface and hands back newRandomLoadBalancer when the total is <= 0); `case random: if
// len(servers) == 1 { return newRoundRobinLoadBalancer(servers) }`; ipHash constructor returning
// the interface with a round-robin fallback for an empty list; createLoadBalancer storing a
// literal &randomLoadBalancer{} for an empty list. Behaviour-preserving: every constructor
// returning the LoadBalancer interface but one concrete type; NewLoadBalancer's result kept in a
// local before the Store; a local `var lb LoadBalancer` assigned in both arms with one type.

import (
	"go/ast"
	"go/constant"
	"go/token"
	"go/types"
	"sort"
	"strings"

	"golang.org/x/tools/go/packages"

	"verif/internal/core"
)

// c04TypeSet is the set of concrete types an expression may evaluate to.
type c04TypeSet struct {
	types   map[string]types.Type
	viaNew  bool   // (also) the result of NewLoadBalancer
	unknown string // non-empty: could not be determined (reason)
	// dep is a branch condition enclosing one of the contributing returns/assignments that is
	// not a function of the pool's configuration alone (nil = the choice depends on the spec only)
	dep    ast.Expr
	depPkg *packages.Package
}

func (s *c04TypeSet) add(o *c04TypeSet) {
	for k, t := range o.types {
		s.types[k] = t
	}
	s.viaNew = s.viaNew || o.viaNew
	if s.unknown == "" {
		s.unknown = o.unknown
	}
	if s.dep == nil {
		s.dep, s.depPkg = o.dep, o.depPkg
	}
}

func (s *c04TypeSet) names() string {
	var out []string
	for _, t := range s.types {
		out = append(out, types.TypeString(t, func(p *types.Package) string { return p.Name() }))
	}
	sort.Strings(out)
	return strings.Join(out, ", ")
}

type c04Typer struct {
	c     *core.Ctx
	newLB *types.Func
	news  map[*types.Func]bool // NewLoadBalancer and the functions it merely delegates to
	busy  map[*types.Func]bool
	pms   map[*ast.FuncDecl]map[ast.Node]ast.Node
}

// c04Env is the set of variables of the current function that are functions of the pool's
// configuration alone (the spec parameter, parameters bound to such arguments, the receiver).
type c04Env map[types.Object]bool

// specOnly: e mentions only constants, fields, functions and variables of env.
func (t *c04Typer) specOnly(pkg *packages.Package, e ast.Expr, env c04Env) bool {
	ok := true
	ast.Inspect(e, func(n ast.Node) bool {
		if _, isLit := n.(*ast.FuncLit); isLit {
			ok = false
			return false
		}
		id, isID := n.(*ast.Ident)
		if !isID || !ok {
			return ok
		}
		switch o := c04ObjOf(pkg.TypesInfo, id).(type) {
		case *types.Var:
			if !o.IsField() && !env[o] {
				ok = false
			}
		case nil:
			if id.Name != "_" {
				ok = false
			}
		}
		return ok
	})
	return ok
}

// guard returns the first branch condition enclosing site (in fd) that is not specOnly.
func (t *c04Typer) guard(pkg *packages.Package, fd *ast.FuncDecl, site ast.Node, env c04Env) ast.Expr {
	if fd == nil {
		return nil
	}
	if t.pms == nil {
		t.pms = map[*ast.FuncDecl]map[ast.Node]ast.Node{}
	}
	pm := t.pms[fd]
	if pm == nil {
		pm = parentMap(fd.Body)
		t.pms[fd] = pm
	}
	check := func(e ast.Expr) ast.Expr {
		if e != nil && !t.specOnly(pkg, e, env) {
			return e
		}
		return nil
	}
	for ch, p := site, pm[site]; p != nil; ch, p = p, pm[p] {
		switch x := p.(type) {
		case *ast.IfStmt:
			if ch != ast.Node(x.Init) && ch != ast.Node(x.Cond) {
				if d := check(x.Cond); d != nil {
					return d
				}
			}
		case *ast.CaseClause:
			for _, c := range x.List {
				if d := check(c); d != nil {
					return d
				}
			}
		case *ast.SwitchStmt:
			if d := check(x.Tag); d != nil {
				return d
			}
		case *ast.TypeSwitchStmt:
			return &ast.BadExpr{From: x.Pos(), To: x.Pos()}
		case *ast.ForStmt:
			if x.Cond == nil {
				continue
			}
			if d := check(x.Cond); d != nil {
				return d
			}
		case *ast.RangeStmt:
			if d := check(x.X); d != nil {
				return d
			}
		case *ast.CommClause:
			return &ast.BadExpr{From: x.Pos(), To: x.Pos()}
		}
	}
	// early-return style: `if c { return A }; return B` — B is governed by c as well
	if blk, ok := pm[site].(*ast.BlockStmt); ok {
		for _, st := range blk.List {
			if st.Pos() >= site.Pos() {
				break
			}
			if is, ok := st.(*ast.IfStmt); ok {
				exits := false
				ast.Inspect(is.Body, func(n ast.Node) bool {
					if _, ok := n.(*ast.ReturnStmt); ok {
						exits = true
					}
					return !exits
				})
				if exits {
					if d := check(is.Cond); d != nil {
						return d
					}
				}
			}
		}
	}
	return nil
}

func (s *c04TypeSet) note(pkg *packages.Package, d ast.Expr) {
	if d != nil && s.dep == nil {
		s.dep, s.depPkg = d, pkg
	}
}

// exprTypes computes the concrete types of e, an expression of function fd in pkg.
func (t *c04Typer) exprTypes(pkg *packages.Package, fd *ast.FuncDecl, e ast.Expr, env c04Env, depth int) *c04TypeSet {
	out := &c04TypeSet{types: map[string]types.Type{}}
	if depth > 6 {
		out.unknown = "nesting too deep"
		return out
	}
	e = ast.Unparen(e)
	tv, ok := pkg.TypesInfo.Types[e]
	if id, isID := e.(*ast.Ident); isID && (!ok || tv.Type == nil) {
		if o := c04ObjOf(pkg.TypesInfo, id); o != nil { // defining identifier (named result)
			tv.Type, ok = o.Type(), true
		}
	}
	if !ok || tv.Type == nil {
		out.unknown = "untyped expression " + types.ExprString(e)
		return out
	}
	if tv.IsNil() {
		return out
	}
	if !types.IsInterface(tv.Type) {
		out.types[types.TypeString(tv.Type, nil)] = tv.Type
		return out
	}
	switch x := e.(type) {
	case *ast.CallExpr:
		if ftv, ok := pkg.TypesInfo.Types[x.Fun]; ok && ftv.IsType() && len(x.Args) == 1 {
			return t.exprTypes(pkg, fd, x.Args[0], env, depth+1) // conversion to the interface
		}
		fo, _ := c04Callee(pkg.TypesInfo, x).(*types.Func)
		if fo == nil {
			out.unknown = "dynamic call " + types.ExprString(x.Fun)
			return out
		}
		if fo == t.newLB || t.news[fo] {
			out.viaNew = true
			return out
		}
		cp, cd := c04DeclOf(t.c, fo)
		if cd == nil {
			out.unknown = "no source for " + fo.FullName()
			return out
		}
		if t.busy[fo] {
			return out // recursion adds nothing new
		}
		t.busy[fo] = true
		defer delete(t.busy, fo)
		// parameters bound to configuration-only arguments stay configuration-only
		cenv := c04Env{}
		sig := fo.Type().(*types.Signature)
		for i := 0; i < sig.Params().Len() && i < len(x.Args); i++ {
			if t.specOnly(pkg, x.Args[i], env) {
				cenv[sig.Params().At(i)] = true
			}
		}
		out.add(t.returnTypes(cp, cd, cd.Body, cenv, depth+1))
		return out
	case *ast.Ident:
		o := c04ObjOf(pkg.TypesInfo, x)
		v, isVar := o.(*types.Var)
		if !isVar || v.IsField() || v.Parent() == v.Pkg().Scope() || fd == nil {
			out.unknown = "value of " + x.Name
			return out
		}
		n := 0
		ast.Inspect(fd.Body, func(nd ast.Node) bool {
			switch s := nd.(type) {
			case *ast.AssignStmt:
				for i, l := range s.Lhs {
					id, ok := l.(*ast.Ident)
					if !ok || c04ObjOf(pkg.TypesInfo, id) != o {
						continue
					}
					n++
					if len(s.Lhs) != len(s.Rhs) {
						out.unknown = "multi-value assignment to " + x.Name
						continue
					}
					out.add(t.exprTypes(pkg, fd, s.Rhs[i], env, depth+1))
					out.note(pkg, t.guard(pkg, fd, s, env))
				}
			case *ast.ValueSpec:
				for i, id := range s.Names {
					if c04ObjOf(pkg.TypesInfo, id) != o {
						continue
					}
					if len(s.Values) == len(s.Names) {
						n++
						out.add(t.exprTypes(pkg, fd, s.Values[i], env, depth+1))
					}
				}
			case *ast.UnaryExpr:
				if id, ok := ast.Unparen(s.X).(*ast.Ident); ok && s.Op.String() == "&" && c04ObjOf(pkg.TypesInfo, id) == o {
					out.unknown = "address of " + x.Name + " taken"
				}
			}
			return true
		})
		if n == 0 && out.unknown == "" {
			// a parameter of an unexported function (a setter such as slot.store(lb)): what the
			// callers of that function hand over
			if idx := c04ParamPos(pkg.TypesInfo, fd, o); idx >= 0 && !fd.Name.IsExported() && depth < 4 {
				fobj := pkg.TypesInfo.Defs[fd.Name]
				sites := 0
				for _, file := range pkg.Syntax {
					for _, d := range file.Decls {
						gd, ok := d.(*ast.FuncDecl)
						if !ok || gd.Body == nil {
							continue
						}
						for _, call := range calls(gd.Body, true) {
							if c04Callee(pkg.TypesInfo, call) == fobj && idx < len(call.Args) {
								sites++
								cenv := c04Env{}
								if gd.Recv != nil && len(gd.Recv.List) == 1 && len(gd.Recv.List[0].Names) == 1 {
									cenv[pkg.TypesInfo.Defs[gd.Recv.List[0].Names[0]]] = true
								}
								out.add(t.exprTypes(pkg, gd, call.Args[idx], cenv, depth+1))
								out.note(pkg, t.guard(pkg, gd, call, cenv))
							}
						}
					}
				}
				if sites > 0 {
					return out
				}
			}
			out.unknown = "value of " + x.Name + " (parameter or never assigned)"
		}
		return out
	}
	out.unknown = "expression " + types.ExprString(e)
	return out
}

// returnTypes unions the types of the first result over the return statements inside body.
func (t *c04Typer) returnTypes(pkg *packages.Package, fd *ast.FuncDecl, body ast.Node, env c04Env, depth int) *c04TypeSet {
	out := &c04TypeSet{types: map[string]types.Type{}}
	ast.Inspect(body, func(n ast.Node) bool {
		switch s := n.(type) {
		case *ast.FuncLit:
			return false
		case *ast.ReturnStmt:
			if len(s.Results) == 0 {
				if r := c04NamedResult(fd); r != nil {
					out.add(t.exprTypes(pkg, fd, r, env, depth))
					out.note(pkg, t.guard(pkg, fd, s, env))
				} else {
					out.unknown = "bare return in " + fd.Name.Name
				}
				return true
			}
			out.add(t.exprTypes(pkg, fd, s.Results[0], env, depth))
			out.note(pkg, t.guard(pkg, fd, s, env))
		}
		return true
	})
	return out
}

// c04ParamPos returns the position of parameter o in fd's parameter list (-1 if it is none).
func c04ParamPos(info *types.Info, fd *ast.FuncDecl, o types.Object) int {
	i := 0
	for _, fld := range fd.Type.Params.List {
		if len(fld.Names) == 0 {
			i++
			continue
		}
		for _, n := range fld.Names {
			if info.Defs[n] == o {
				return i
			}
			i++
		}
	}
	return -1
}

// c04NamedResult returns the identifier of the first named result of fd (nil if unnamed).
func c04NamedResult(fd *ast.FuncDecl) *ast.Ident {
	if fd.Type.Results == nil || len(fd.Type.Results.List) == 0 || len(fd.Type.Results.List[0].Names) == 0 {
		return nil
	}
	if id := fd.Type.Results.List[0].Names[0]; id.Name != "_" {
		return id
	}
	return nil
}

func c04Callee(info *types.Info, call *ast.CallExpr) types.Object {
	switch f := ast.Unparen(call.Fun).(type) {
	case *ast.Ident:
		return info.Uses[f]
	case *ast.SelectorExpr:
		if s := info.Selections[f]; s != nil {
			return s.Obj()
		}
		return info.Uses[f.Sel]
	}
	return nil
}

// c04PolicyCase is one case clause of NewLoadBalancer's switch.
type c04PolicyCase struct {
	label    string // `roundRobin,""`, `random`, `<other>`
	policies []string
	set      *c04TypeSet
	at       ast.Node
}

// c04PolicyCases evaluates the switch of NewLoadBalancer.
func c04PolicyCases(c *core.Ctx, pkg *packages.Package, fd *ast.FuncDecl) (cases []c04PolicyCase, outside *c04TypeSet, disp ast.Node) {
	newLB, _ := pkg.TypesInfo.Defs[fd.Name].(*types.Func)
	t := &c04Typer{c: c, newLB: newLB, busy: map[*types.Func]bool{newLB: true}}
	var sw *ast.SwitchStmt
	ast.Inspect(fd.Body, func(n ast.Node) bool {
		if s, ok := n.(*ast.SwitchStmt); ok && sw == nil && s.Tag != nil {
			sw = s
		}
		return sw == nil
	})
	if sw == nil {
		if cs, at := c04PolicyTable(c, t, pkg, fd); at != nil {
			return cs, nil, at
		}
		if cs, at := c04PolicyIfChain(c, t, pkg, fd); at != nil {
			return cs, nil, at
		}
	}
	if sw == nil {
		return nil, nil, nil
	}
	env := c04Env{}
	if sig, ok := newLB.Type().(*types.Signature); ok {
		for i := 0; i < sig.Params().Len(); i++ {
			if _, isSlice := sig.Params().At(i).Type().Underlying().(*types.Slice); !isSlice {
				env[sig.Params().At(i)] = true
			}
		}
		if fd.Recv != nil && len(fd.Recv.List) == 1 && len(fd.Recv.List[0].Names) == 1 {
			env[pkg.TypesInfo.Defs[fd.Recv.List[0].Names[0]]] = true // (*LoadBalanceSpec).newBalancer: the spec itself
		}
	}
	var named types.Object
	if id := c04NamedResult(fd); id != nil {
		named = pkg.TypesInfo.Defs[id]
	}
	isNamedReturn := func(rs *ast.ReturnStmt) bool {
		if named == nil {
			return false
		}
		if len(rs.Results) == 0 {
			return true
		}
		id, ok := ast.Unparen(rs.Results[0]).(*ast.Ident)
		return ok && c04ObjOf(pkg.TypesInfo, id) == named
	}
	for _, cl := range sw.Body.List {
		cc := cl.(*ast.CaseClause)
		pc := c04PolicyCase{at: cc}
		var labels []string
		for _, x := range cc.List {
			if tv, ok := pkg.TypesInfo.Types[x]; ok && tv.Value != nil && tv.Value.Kind() == constant.String {
				p := constant.StringVal(tv.Value)
				pc.policies = append(pc.policies, p)
				if p == "" {
					p = `""`
				}
				labels = append(labels, p)
			}
		}
		if cc.List == nil {
			labels = []string{"<other>"}
		}
		pc.label = strings.Join(labels, ",")
		pc.set = &c04TypeSet{types: map[string]types.Type{}}
		for _, s := range cc.Body {
			ast.Inspect(s, func(n ast.Node) bool {
				switch x := n.(type) {
				case *ast.FuncLit:
					return false
				case *ast.ReturnStmt:
					if isNamedReturn(x) {
						return true // the value is what the clause assigned to the named result
					}
					pc.set.add(t.exprTypes(pkg, fd, x.Results[0], env, 0))
					pc.set.note(pkg, t.guard(pkg, fd, x, env))
				case *ast.AssignStmt:
					if named == nil || len(x.Lhs) != len(x.Rhs) {
						return true
					}
					for i, l := range x.Lhs {
						if id, ok := l.(*ast.Ident); ok && c04ObjOf(pkg.TypesInfo, id) == named {
							pc.set.add(t.exprTypes(pkg, fd, x.Rhs[i], env, 0))
							pc.set.note(pkg, t.guard(pkg, fd, x, env))
						}
					}
				}
				return true
			})
		}
		cases = append(cases, pc)
	}
	// returns outside the switch
	outside = &c04TypeSet{types: map[string]types.Type{}}
	n := 0
	ast.Inspect(fd.Body, func(nd ast.Node) bool {
		if nd == ast.Node(sw) {
			return false
		}
		if _, ok := nd.(*ast.FuncLit); ok {
			return false
		}
		if rs, ok := nd.(*ast.ReturnStmt); ok && !isNamedReturn(rs) && len(rs.Results) > 0 {
			n++
			outside.add(t.exprTypes(pkg, fd, rs.Results[0], env, 0))
		}
		// the named result assigned outside the switch: the clauses no longer tell the whole story
		if as, ok := nd.(*ast.AssignStmt); ok && named != nil {
			for _, l := range as.Lhs {
				if id, ok := l.(*ast.Ident); ok && c04ObjOf(pkg.TypesInfo, id) == named {
					n++
					outside.unknown = "the named result is assigned outside the policy switch"
				}
			}
		}
		return true
	})
	if n == 0 {
		outside = nil
	}
	return cases, outside, sw
}

// c04PolicyTable handles the table form of the dispatch:
//
//	factory, ok := factories[spec.Policy]; if !ok { factory = newRoundRobin }; return factory(spec, servers)
//
// with factories a package-level map literal from policy constants to constructor functions that
// is never modified. One case per map entry, "<other>" for the fallback assignment(s).
func c04PolicyTable(c *core.Ctx, t *c04Typer, pkg *packages.Package, fd *ast.FuncDecl) ([]c04PolicyCase, ast.Node) {
	info := pkg.TypesInfo
	// return v(args) with v a local function variable
	var v types.Object
	var retCall *ast.CallExpr
	nret := 0
	ast.Inspect(fd.Body, func(n ast.Node) bool {
		if _, ok := n.(*ast.FuncLit); ok {
			return false
		}
		rs, ok := n.(*ast.ReturnStmt)
		if !ok {
			return true
		}
		nret++
		if len(rs.Results) == 1 {
			if call, ok := ast.Unparen(rs.Results[0]).(*ast.CallExpr); ok {
				if id, ok := ast.Unparen(call.Fun).(*ast.Ident); ok {
					if lv, ok := c04ObjOf(info, id).(*types.Var); ok && !lv.IsField() && lv.Parent() != lv.Pkg().Scope() {
						if _, isSig := lv.Type().Underlying().(*types.Signature); isSig {
							v, retCall = lv, call
						}
					}
				}
			}
		}
		return true
	})
	if v == nil || nret != 1 {
		return nil, nil
	}
	// parameters of the constructors that receive configuration only
	specArg := make([]bool, len(retCall.Args))
	if sig, ok := t.newLB.Type().(*types.Signature); ok {
		env := c04Env{}
		for i := 0; i < sig.Params().Len(); i++ {
			if _, isSlice := sig.Params().At(i).Type().Underlying().(*types.Slice); !isSlice {
				env[sig.Params().At(i)] = true
			}
		}
		for i, a := range retCall.Args {
			specArg[i] = t.specOnly(pkg, a, env)
		}
	}
	funcTypes := func(e ast.Expr, at ast.Node, label string) c04PolicyCase {
		pc := c04PolicyCase{label: label, at: at, set: &c04TypeSet{types: map[string]types.Type{}}}
		e = ast.Unparen(e)
		var fo *types.Func
		switch x := e.(type) {
		case *ast.Ident:
			fo, _ = c04ObjOf(info, x).(*types.Func)
		case *ast.SelectorExpr:
			fo, _ = info.Uses[x.Sel].(*types.Func)
		}
		if fo == nil {
			pc.set.unknown = "the table entry is not a named function"
			return pc
		}
		cp, cd := c04DeclOf(c, fo)
		if cd == nil {
			pc.set.unknown = "no source for " + fo.FullName()
			return pc
		}
		cenv := c04Env{}
		sig := fo.Type().(*types.Signature)
		for i := 0; i < sig.Params().Len() && i < len(specArg); i++ {
			if specArg[i] {
				cenv[sig.Params().At(i)] = true
			}
		}
		pc.set.add(t.returnTypes(cp, cd, cd.Body, cenv, 1))
		return pc
	}
	var cases []c04PolicyCase
	var table *types.Var
	var at ast.Node
	bad := false
	ast.Inspect(fd.Body, func(n ast.Node) bool {
		as, ok := n.(*ast.AssignStmt)
		if !ok {
			return true
		}
		for i, l := range as.Lhs {
			id, ok := l.(*ast.Ident)
			if !ok || c04ObjOf(info, id) != v {
				continue
			}
			switch {
			case len(as.Rhs) == 1 && i == 0:
				ix, isIx := ast.Unparen(as.Rhs[0]).(*ast.IndexExpr)
				if !isIx {
					if len(as.Lhs) == 1 {
						cases = append(cases, funcTypes(as.Rhs[0], as, "<other>"))
						continue
					}
					bad = true
					continue
				}
				mid, isID := ast.Unparen(ix.X).(*ast.Ident)
				mv, _ := c04ObjOf(info, mid).(*types.Var)
				if !isID || mv == nil || mv.Pkg() == nil || mv.Parent() != mv.Pkg().Scope() || table != nil {
					bad = true
					continue
				}
				table, at = mv, ix
			case len(as.Lhs) == len(as.Rhs):
				cases = append(cases, funcTypes(as.Rhs[i], as, "<other>"))
			default:
				bad = true
			}
		}
		return true
	})
	if table == nil || bad {
		return nil, nil
	}
	// the table literal, and no other write to the table in the package
	var lit *ast.CompositeLit
	for _, file := range pkg.Syntax {
		ast.Inspect(file, func(n ast.Node) bool {
			switch x := n.(type) {
			case *ast.ValueSpec:
				for i, name := range x.Names {
					if info.Defs[name] == types.Object(table) && i < len(x.Values) {
						lit, _ = ast.Unparen(x.Values[i]).(*ast.CompositeLit)
					}
				}
			case *ast.AssignStmt:
				for _, l := range x.Lhs {
					l = ast.Unparen(l)
					if ix, ok := l.(*ast.IndexExpr); ok {
						l = ast.Unparen(ix.X)
					}
					if id, ok := l.(*ast.Ident); ok && info.Uses[id] == types.Object(table) {
						bad = true
					}
				}
			case *ast.UnaryExpr:
				if id, ok := ast.Unparen(x.X).(*ast.Ident); ok && x.Op == token.AND && info.Uses[id] == types.Object(table) {
					bad = true
				}
			case *ast.CallExpr:
				if b, ok := c04Callee(info, x).(*types.Builtin); ok && (b.Name() == "delete" || b.Name() == "clear") && len(x.Args) > 0 {
					if id, ok := ast.Unparen(x.Args[0]).(*ast.Ident); ok && info.Uses[id] == types.Object(table) {
						bad = true
					}
				}
			}
			return true
		})
	}
	if lit == nil || bad {
		return nil, nil
	}
	for _, el := range lit.Elts {
		kv, ok := el.(*ast.KeyValueExpr)
		if !ok {
			return nil, nil
		}
		tv, ok := info.Types[kv.Key]
		if !ok || tv.Value == nil || tv.Value.Kind() != constant.String {
			return nil, nil
		}
		p := constant.StringVal(tv.Value)
		label := p
		if p == "" {
			label = `""`
		}
		pc := funcTypes(kv.Value, kv, label)
		pc.policies = []string{p}
		cases = append(cases, pc)
	}
	return cases, at
}

// c04PolicyIfChain handles the dispatch written as early-return ifs on the policy:
//
//	policy := spec.Policy
//	if policy == A { return newA(..) } ; if policy == B || policy == C { return newB(..) } ; … ; return newDefault(..)
//
// One case per top-level if whose condition is an ||-combination of `P == const` on one
// configuration-only expression P and whose body returns; the returns that follow the chain are
// the "<other>" case (it also serves the policies no if mentions).
func c04PolicyIfChain(c *core.Ctx, t *c04Typer, pkg *packages.Package, fd *ast.FuncDecl) ([]c04PolicyCase, ast.Node) {
	info := pkg.TypesInfo
	env := c04Env{}
	if sig, ok := t.newLB.Type().(*types.Signature); ok {
		for i := 0; i < sig.Params().Len(); i++ {
			if _, isSlice := sig.Params().At(i).Type().Underlying().(*types.Slice); !isSlice {
				env[sig.Params().At(i)] = true
			}
		}
	}
	if fd.Recv != nil && len(fd.Recv.List) == 1 && len(fd.Recv.List[0].Names) == 1 {
		env[info.Defs[fd.Recv.List[0].Names[0]]] = true
	}
	// single-assignment locals computed from configuration only (`policy := spec.Policy`)
	for _, st := range fd.Body.List {
		as, ok := st.(*ast.AssignStmt)
		if !ok || len(as.Lhs) != len(as.Rhs) {
			continue
		}
		for i, l := range as.Lhs {
			id, ok := l.(*ast.Ident)
			if !ok || !t.specOnly(pkg, as.Rhs[i], env) {
				continue
			}
			o := c04ObjOf(info, id)
			n := 0
			ast.Inspect(fd.Body, func(x ast.Node) bool {
				if a2, ok := x.(*ast.AssignStmt); ok {
					for _, l2 := range a2.Lhs {
						if id2, ok := l2.(*ast.Ident); ok && c04ObjOf(info, id2) == o {
							n++
						}
					}
				}
				return true
			})
			if n == 1 {
				env[o] = true
			}
		}
	}
	var subject string
	var consts func(e ast.Expr) ([]string, bool)
	consts = func(e ast.Expr) ([]string, bool) {
		e = ast.Unparen(e)
		b, ok := e.(*ast.BinaryExpr)
		if !ok {
			return nil, false
		}
		if b.Op.String() == "||" {
			l, ok1 := consts(b.X)
			r, ok2 := consts(b.Y)
			return append(l, r...), ok1 && ok2
		}
		if b.Op.String() != "==" {
			return nil, false
		}
		x, k := b.X, b.Y
		if tv := info.Types[x]; tv.Value != nil {
			x, k = k, x
		}
		tv := info.Types[k]
		if tv.Value == nil || tv.Value.Kind() != constant.String || !t.specOnly(pkg, x, env) {
			return nil, false
		}
		r := types.ExprString(x)
		if subject == "" {
			subject = r
		}
		if r != subject {
			return nil, false
		}
		return []string{constant.StringVal(tv.Value)}, true
	}
	returnsIn := func(n ast.Node) bool {
		found := false
		ast.Inspect(n, func(x ast.Node) bool {
			if _, ok := x.(*ast.FuncLit); ok {
				return false
			}
			if _, ok := x.(*ast.ReturnStmt); ok {
				found = true
			}
			return !found
		})
		return found
	}
	var cases []c04PolicyCase
	var first ast.Node
	other := c04PolicyCase{label: "<other>", set: &c04TypeSet{types: map[string]types.Type{}}}
	for _, st := range fd.Body.List {
		switch x := st.(type) {
		case *ast.IfStmt:
			if !returnsIn(x) {
				continue // e.g. a log statement for unknown policies
			}
			ps, ok := consts(x.Cond)
			if !ok || x.Else != nil || x.Init != nil {
				return nil, nil // a returning if of another form: not an if-chain the rule understands
			}
			if first == nil {
				first = x
			}
			pc := c04PolicyCase{at: x, policies: ps, set: &c04TypeSet{types: map[string]types.Type{}}}
			var labels []string
			for _, p := range ps {
				if p == "" {
					p = `""`
				}
				labels = append(labels, p)
			}
			pc.label = strings.Join(labels, ",")
			pc.set.add(t.returnTypes(pkg, fd, x.Body, env, 0))
			cases = append(cases, pc)
		case *ast.ReturnStmt:
			if len(x.Results) == 0 {
				return nil, nil
			}
			other.at = x
			other.set.add(t.exprTypes(pkg, fd, x.Results[0], env, 0))
		default:
			if returnsIn(st) {
				return nil, nil
			}
		}
	}
	if len(cases) < 2 || other.at == nil {
		return nil, nil
	}
	return append(cases, other), first
}

// c04OneType emits the obligations.
func c04OneType(c *core.Ctx, info *c04Info) {
	pkg, fd := c.Prog.FuncDecl(c04pkg, "", "NewLoadBalancer")
	if fd == nil {
		return // c04Resolve reported the anchor
	}
	if info.dispatchDecl != nil {
		fd = info.dispatchDecl
	}
	cons := fname(c04pkg, "", "NewLoadBalancer")
	const hazard = "ServerPool keeps its balancer in an atomic.Value and atomic.Value.Store panics (\"store of inconsistently typed value into Value\") when service discovery replaces the list by one that selects the other type: the watcher goroutine crashes the process and the pool stops following discovery"
	if info.outside != nil {
		c.Undecide("R-C04-3", cons+"|one concrete balancer type per policy", pos(c, fd), "NewLoadBalancer returns outside its policy switch; cannot attribute the returned types to a policy")
		return
	}
	c.RequireCount("R-C04-3", "policy cases of NewLoadBalancer", len(info.cases), 5)
	for _, pc := range info.cases {
		k := cons + "|policy " + pc.label + ": one concrete balancer type"
		switch {
		case len(pc.set.types) > 1 && pc.set.dep != nil:
			c.Violate("R-C04-3", k, pos(c, pc.at), sprintf("for policy %s NewLoadBalancer can return balancers of %d concrete types (%s), chosen by `%s` (%s), which is not a function of the pool's spec alone (it follows the server list): %s", pc.label, len(pc.set.types), pc.set.names(), c04CondString(pc.set.dep), c.Prog.Rel(pc.set.dep.Pos()), hazard))
		case pc.set.unknown != "":
			c.Undecide("R-C04-3", k, pos(c, pc.at), "cannot determine the concrete type returned: "+pc.set.unknown)
		case len(pc.set.types) > 1:
			c.Discharge("R-C04-3", k, pos(c, pc.at), sprintf("%s, chosen by conditions on the pool's spec only (stable for one pool)", pc.set.names()))
		case len(pc.set.types) == 0:
			c.Violate("R-C04-3", k, pos(c, pc.at), "no balancer (or only nil) is returned for policy "+pc.label+": atomic.Value.Store(nil) panics")
		default:
			c.Discharge("R-C04-3", k, pos(c, pc.at), "always "+pc.set.names())
		}
	}
	// every Store into the pool's atomic.Value takes NewLoadBalancer's result
	holder := c04Holder(c)
	if holder == nil {
		return
	}
	newLB, _ := pkg.TypesInfo.Defs[fd.Name].(*types.Func)
	stores := 0
	eachFunc(c, func(p *packages.Package, d *ast.FuncDecl) {
		for _, call := range calls(d.Body, true) {
			sel, ok := ast.Unparen(call.Fun).(*ast.SelectorExpr)
			if !ok || c04SelObj(p.TypesInfo, sel.X) != types.Object(holder) {
				continue
			}
			fo, _ := c04Callee(p.TypesInfo, call).(*types.Func)
			if fo == nil || fo.Pkg() == nil || fo.Pkg().Path() != "sync/atomic" {
				continue
			}
			var vals []ast.Expr
			switch fo.Name() {
			case "Store", "Swap":
				vals = call.Args
			case "CompareAndSwap":
				if len(call.Args) == 2 {
					vals = call.Args[1:]
				}
			}
			for _, v := range vals {
				stores++
				t := &c04Typer{c: c, newLB: newLB, news: info.dispatch, busy: map[*types.Func]bool{}}
				env := c04Env{}
				if d.Recv != nil && len(d.Recv.List) == 1 && len(d.Recv.List[0].Names) == 1 {
					env[p.TypesInfo.Defs[d.Recv.List[0].Names[0]]] = true // the pool itself: its configuration is fixed
				}
				set := t.exprTypes(p, d, v, env, 0)
				k := declName(p, d) + "|stored balancer is NewLoadBalancer's result"
				switch {
				case len(set.types) > 0 && set.dep != nil:
					c.Violate("R-C04-3", k, pos(c, call), sprintf("a balancer of concrete type %s is stored directly, chosen by `%s` (not a function of the pool's configuration alone), besides the policy's own type from NewLoadBalancer: %s", set.names(), c04CondString(set.dep), hazard))
				case len(set.types) > 0 || set.unknown != "" || !set.viaNew:
					c.Undecide("R-C04-3", k, pos(c, call), "cannot relate the stored value to NewLoadBalancer: "+set.unknown+" "+set.names())
				default:
					c.Discharge("R-C04-3", k, pos(c, call), "the stored value is the result of NewLoadBalancer on every path")
				}
			}
		}
	})
	c.RequireCount("R-C04-3", "atomic stores of the balancer (AST)", stores, 1)
}

func c04CondString(e ast.Expr) string {
	if _, bad := e.(*ast.BadExpr); bad {
		return "type switch / select"
	}
	return types.ExprString(e)
}

// c04Holder returns ServerPool's unique atomic.Value field (nil if unresolved; reported elsewhere).
func c04Holder(c *core.Ctx) *types.Var {
	path := c04HolderPath(c)
	if len(path) == 0 {
		return nil
	}
	return path[len(path)-1]
}

// c04HolderPath returns the fields leading from ServerPool to its unique sync/atomic.Value: the
// field itself, or (when the slot was given a type of its own, `balancer balancerSlot{v atomic.Value}`)
// the outer field(s) followed by the inner one. nil if there is none or more than one.
func c04HolderPath(c *core.Ctx) []*types.Var {
	pkg := c.Prog.Pkg(c04pkg)
	if pkg == nil {
		return nil
	}
	tn, _ := pkg.Types.Scope().Lookup("ServerPool").(*types.TypeName)
	if tn == nil {
		return nil
	}
	var found [][]*types.Var
	var walk func(t types.Type, prefix []*types.Var, depth int)
	walk = func(t types.Type, prefix []*types.Var, depth int) {
		st, ok := t.Underlying().(*types.Struct)
		if !ok || depth > 2 {
			return
		}
		for i := 0; i < st.NumFields(); i++ {
			f := st.Field(i)
			path := append(append([]*types.Var{}, prefix...), f)
			if f.Type().String() == "sync/atomic.Value" {
				found = append(found, path)
				continue
			}
			// only slot structs held BY VALUE belong to the pool itself
			if n, ok := f.Type().(*types.Named); ok && n.Obj().Pkg() == pkg.Types {
				walk(n, path, depth+1)
			}
		}
	}
	walk(tn.Type(), nil, 0)
	if len(found) != 1 {
		return nil
	}
	return found[0]
}
