package rules

import (
	"go/ast"
	"go/types"
	"strings"

	"verif/internal/core"
	"verif/internal/flow"
)

// R-C02-5 (and the caller half of R-C02-4/6): every caller of the flow loop.

func c02Callers(c *core.Ctx, a *c02Anchors) {
	if a.loopObj == nil {
		c.Errorf("R-C02-5: anchor: flow loop function object not resolved")
		return
	}
	callers := c02CallsOf(c, a.loopObj)
	total := 0
	for _, cl := range callers {
		total += len(cl.calls)
	}
	// Handle's call and at least one in the before/after handler; the individual before /
	// main / after calls are what the rule demands, so their absence is a violation below
	if !c.RequireCount("R-C02-5", "call sites of the flow loop", total, 2) {
		return
	}
	if n := c02NonCallUses(c, a.loopObj); n > 0 {
		c.Violate("R-C02-6", a.loopCons+"|flow loop only called, never passed around", pos(c, a.loopFn.Node), "the flow loop function is used as a value: it can be invoked with an arbitrary flow from anywhere")
	}
	sig := a.loopObj.Type().(*types.Signature)
	flowIdx, strIdx, boolIdx := -1, -1, -1
	for i := 0; i < sig.Params().Len(); i++ {
		if s, ok := sig.Params().At(i).Type().(*types.Slice); ok && c02IsNamed(s.Elem(), Mod+c02pl, "FlowNode") {
			flowIdx = i
		}
	}
	for i := 0; i < sig.Results().Len(); i++ {
		if b, ok := sig.Results().At(i).Type().Underlying().(*types.Basic); ok {
			if b.Kind() == types.String && strIdx < 0 {
				strIdx = i
			}
			if b.Kind() == types.Bool && boolIdx < 0 {
				boolIdx = i
			}
		}
	}
	if flowIdx < 0 || strIdx < 0 || boolIdx < 0 {
		c.Errorf("R-C02-5: anchor: flow loop signature is not (…, []FlowNode, …) (string, …, bool)")
		return
	}
	with2 := 0
	for _, cl := range callers {
		fd := cl.f.Node.(*ast.FuncDecl)
		inPipeline := relPkg(cl.f.Pkg.PkgPath) == c02pl && fd.Recv != nil
		if !c.Check(inPipeline, "R-C02-6", cl.cons+"|caller of the flow loop is a Pipeline method", pos(c, cl.calls[0]),
			"called from a method of the pipeline package", "the flow loop is called from outside Pipeline's handler methods: flows can be executed without the before/main/after discipline") {
			continue
		}
		if c02Caller1(c, a, cl, flowIdx, strIdx, boolIdx, sig.Results().Len()) == 2 {
			with2++
		}
	}
	c.RequireCount("R-C02-5", "handlers with before and after pipelines", with2, 1)
}

// c02Caller1 analyses one caller; returns the number of *Pipeline parameters it has.
func c02Caller1(c *core.Ctx, a *c02Anchors, cl *c02Caller, flowIdx, strIdx, boolIdx, nres int) int {
	f, cons := cl.f, cl.cons
	fd := f.Node.(*ast.FuncDecl)
	d := c02NewDefs(f)
	var recvObj types.Object
	if len(fd.Recv.List) == 1 && len(fd.Recv.List[0].Names) == 1 {
		recvObj = f.Info.Defs[fd.Recv.List[0].Names[0]]
	}
	var pparams []types.Object
	var pidents []*ast.Ident
	for _, fl := range fd.Type.Params.List {
		for _, id := range fl.Names {
			o := f.Info.Defs[id]
			if o != nil && c02IsNamed(o.Type(), Mod+c02pl, "Pipeline") {
				pparams = append(pparams, o)
				pidents = append(pidents, id)
			}
		}
	}
	// role order
	type role struct {
		name  string
		obj   types.Object // the *Pipeline variable whose flow is run
		ident *ast.Ident   // nil for the receiver (never nil)
		call  *ast.CallExpr
	}
	var order []*role
	switch len(pparams) {
	case 0:
		order = []*role{{name: "main", obj: recvObj}}
	case 2:
		order = []*role{{name: "before", obj: pparams[0], ident: pidents[0]}, {name: "main", obj: recvObj}, {name: "after", obj: pparams[1], ident: pidents[1]}}
	default:
		c.Undecide("R-C02-5", cons+"|flow order", pos(c, fd), sprintf("caller of the flow loop with %d *Pipeline parameters (expected 0 or 2)", len(pparams)))
		return len(pparams)
	}
	var namedRes types.Object // the handler's named string result, if any
	if fd.Type.Results != nil && len(fd.Type.Results.List) == 1 && len(fd.Type.Results.List[0].Names) == 1 {
		namedRes = f.Info.Defs[fd.Type.Results.List[0].Names[0]]
	}
	pm := parentMap(f.Body)
	var sawObj, resObj types.Object
	var sawID *ast.Ident
	ok := true
	for _, call := range cl.calls {
		inLit := false
		ast.Inspect(fd.Body, func(n ast.Node) bool {
			if lit, ok := n.(*ast.FuncLit); ok && contains(lit, call) {
				inLit = true
			}
			return true
		})
		if inLit {
			c.Undecide("R-C02-5", cons+"|flow order", pos(c, call), "the flow loop is called from a function literal; the order in which the closure runs the flows is not analysed")
			return len(pparams)
		}
		if len(call.Args) <= flowIdx {
			c.Errorf("R-C02-5: flow loop call with too few arguments in %s", cons)
			return len(pparams)
		}
		base, isFlow := d.fieldSel(call.Args[flowIdx], a.fFlow)
		var r *role
		if isFlow {
			bo := c02Obj(f, d.alias(base))
			for _, x := range order {
				if x.obj != nil && x.obj == bo {
					r = x
				}
			}
		}
		if r == nil {
			c.Violate("R-C02-5", cons+"|each run uses a pipeline's own flow", pos(c, call), "the flow handed to the flow loop is not the flow field of the receiver or of a before/after pipeline parameter")
			ok = false
			continue
		}
		if r.call != nil {
			c.Violate("R-C02-5", cons+"|"+r.name+" flow runs at most once", pos(c, call), "the "+r.name+" flow is handed to the flow loop at two call sites")
			ok = false
			continue
		}
		r.call = call
		as, isAs := pm[call].(*ast.AssignStmt)
		if !isAs || len(as.Lhs) != nres {
			c.Violate("R-C02-5", cons+"|"+r.name+" flow result used", pos(c, call), "the results of the "+r.name+" flow run are discarded")
			ok = false
			continue
		}
		ro := c02Obj(f, as.Lhs[strIdx])
		if ro == nil || (resObj != nil && ro != resObj) {
			c.Violate("R-C02-4", cons+"|result of the last flow run is returned", pos(c, call), "the string result of the "+r.name+" flow is not assigned to the variable the handler returns")
			ok = false
		}
		if resObj == nil {
			resObj = ro
		}
		so := c02Obj(f, as.Lhs[boolIdx])
		last := r == order[len(order)-1]
		if so == nil {
			if !last {
				c.Violate("R-C02-5", cons+"|END of the "+r.name+" flow is honoured", pos(c, call), "the bool result (END seen) of the "+r.name+" flow is discarded: an END in the "+r.name+" flow does not stop the flows after it")
				ok = false
			}
			continue
		}
		if sawObj != nil && so != sawObj {
			c.Undecide("R-C02-5", cons+"|flow order", pos(c, call), "END flags of the flow runs are kept in different variables")
			return len(pparams)
		}
		sawObj = so
		sawID, _ = ast.Unparen(as.Lhs[boolIdx]).(*ast.Ident)
	}
	for _, r := range order {
		if r.call == nil {
			c.Violate("R-C02-5", cons+"|"+r.name+" flow runs", pos(c, fd), "the "+r.name+" flow is never handed to the flow loop")
			ok = false
		}
	}
	if !ok {
		return len(pparams)
	}

	roleOf := map[*ast.CallExpr]int{}
	for i, r := range order {
		roleOf[r.call] = i
	}
	ev := func(i int) string { return "ev:run:" + order[i].name }
	res := analyze(c, f, flow.Config{
		OnCall: func(st *flow.State, call *ast.CallExpr, callee types.Object, deferred bool) {
			if i, ok := roleOf[call]; ok {
				st.Set(ev(i), flow.True)
			}
		},
	})
	if res == nil {
		return len(pparams)
	}
	sawKey := ""
	if sawID != nil && len(order) > 1 {
		sawKey = f.VarKey(sawID)
	}
	for i, r := range order {
		states := res.At[r.call]
		name := cons + "|" + r.name + " flow"
		if len(states) == 0 {
			c.Violate("R-C02-5", name+" gated correctly", pos(c, r.call), "the "+r.name+" flow run is unreachable")
			continue
		}
		var bad *flow.State
		why := ""
		for _, st := range states {
			switch {
			case st.Is(ev(i), flow.True):
				bad, why = st, "the "+r.name+" flow can run twice for one request"
			case r.ident != nil && !st.Is(f.NilKey(r.ident), flow.False):
				bad, why = st, "the "+r.name+" flow is run without the "+r.name+" pipeline being known non-nil (nil dereference when no global filter supplies it)"
			case sawKey != "" && !st.Is(sawKey, flow.False):
				bad, why = st, "the "+r.name+" flow runs although an earlier flow may have reported END: something runs after END"
			}
			for j := range order {
				if bad != nil {
					break
				}
				if j > i && st.Is(ev(j), flow.True) {
					bad, why = st, "the "+r.name+" flow runs after the "+order[j].name+" flow (order must be before → main → after)"
				}
				if j < i && !st.Is(ev(j), flow.True) && !(order[j].ident != nil && st.Is(f.NilKey(order[j].ident), flow.True)) {
					bad, why = st, "the "+r.name+" flow runs although the "+order[j].name+" flow was neither run nor absent (nil)"
				}
			}
			if bad != nil {
				break
			}
		}
		c.Check(bad == nil, "R-C02-5", name+" gated correctly", pos(c, r.call),
			sprintf("%d states at the call: earlier flows ran or are nil, no END reported, pipeline non-nil, not run before", len(states)), why, witness(bad)...)
	}
	// exits: a flow is skipped only if nil or after END
	var badExit *flow.Exit
	whyExit := ""
	var badRet *flow.Exit
	nexits := 0
	for _, ex := range res.Exits {
		if ex.Kind != flow.ExitReturn {
			continue
		}
		nexits++
		st := ex.State
		for i, r := range order {
			if st.Is(ev(i), flow.True) {
				continue
			}
			if r.ident != nil && st.Is(f.NilKey(r.ident), flow.True) {
				continue
			}
			if sawKey != "" && st.Is(sawKey, flow.True) {
				continue
			}
			laterRan := false
			for j := i + 1; j < len(order); j++ {
				if st.Is(ev(j), flow.True) {
					laterRan = true // judged at that flow's call site
				}
			}
			if laterRan {
				continue
			}
			if badExit == nil {
				badExit, whyExit = ex, "the handler returns without having run the "+r.name+" flow although its pipeline is not nil and no flow reported END"
			}
		}
		switch {
		case ex.Return != nil && len(ex.Return.Results) == 1 && c02Obj(f, ex.Return.Results[0]) == resObj:
		case (ex.Return == nil || len(ex.Return.Results) == 0) && namedRes != nil && namedRes == resObj:
			// named result with a bare return
		default:
			badRet = ex
		}
	}
	exw := func(ex *flow.Exit) []string {
		if ex == nil {
			return nil
		}
		return append([]string{"exit at " + pos(c, ex.At)}, witness(ex.State)...)
	}
	c.RequireCount("R-C02-5", "exits of "+cons, nexits, 1)
	c.Check(badExit == nil, "R-C02-5", cons+"|a flow is skipped only when absent or after END", pos(c, fd),
		sprintf("%d exits: every flow ran, or its pipeline is nil, or END was reported", nexits), whyExit, exw(badExit)...)
	// returned result: variable assigned from the flow runs, no other writer than ""
	writersOK := true
	for _, as := range c02Assigns(f, f.Body, resObj) {
		for i, l := range as.Lhs {
			if c02Obj(f, l) != resObj {
				continue
			}
			good := false
			if len(as.Rhs) == 1 && len(as.Lhs) == nres {
				if call, ok := ast.Unparen(as.Rhs[0]).(*ast.CallExpr); ok {
					if _, isRun := roleOf[call]; isRun && i == strIdx {
						good = true
					}
				}
			} else if len(as.Lhs) == len(as.Rhs) {
				if v, ok := c02ConstString(f, as.Rhs[i]); ok && v == "" {
					good = true
				}
			}
			if !good {
				writersOK = false
			}
		}
	}
	c.Check(badRet == nil && writersOK && !d.taken[resObj], "R-C02-4", cons+"|result of the last flow run is returned", pos(c, fd),
		"the handler returns the variable that every flow run assigns its string result to",
		"the handler does not return the string result of the last flow it ran (other writer, or another value returned)", exw(badRet)...)
	return len(pparams)
}

// c02Origins collects the struct fields that may flow into expression e through local
// assignments (flow-insensitive).
func c02Origins(f *flow.Func, e ast.Expr) map[*types.Var]bool {
	out := map[*types.Var]bool{}
	seen := map[types.Object]bool{}
	var visit func(e ast.Expr)
	visit = func(e ast.Expr) {
		ast.Inspect(e, func(n ast.Node) bool {
			switch x := n.(type) {
			case *ast.SelectorExpr:
				if s := f.Info.Selections[x]; s != nil {
					if v, ok := s.Obj().(*types.Var); ok && v.IsField() {
						out[v] = true
					}
				}
			case *ast.Ident:
				o := f.Info.Uses[x]
				v, ok := o.(*types.Var)
				if !ok || v.IsField() || seen[o] {
					return true
				}
				seen[o] = true
				for _, as := range c02Assigns(f, f.Body, o) {
					if len(as.Lhs) == len(as.Rhs) {
						for i, l := range as.Lhs {
							if c02Obj(f, l) == o {
								visit(as.Rhs[i])
							}
						}
					} else {
						for _, r := range as.Rhs {
							visit(r)
						}
					}
				}
			}
			return true
		})
	}
	visit(e)
	return out
}

// c02GlobalFilterWiring: GlobalFilter hands the pipelines built from the beforePipeline /
// afterPipeline spec keys to the handler in that order.
func c02GlobalFilterWiring(c *core.Ctx, a *c02Anchors) {
	fb := c02FieldByYAML(c, c02gf, "Spec", "beforePipeline")
	fa := c02FieldByYAML(c, c02gf, "Spec", "afterPipeline")
	gfT := namedType(c, c02gf, "GlobalFilter")
	pkg := c.Prog.Pkg(c02gf)
	if fb == nil || fa == nil || gfT == nil || pkg == nil {
		return
	}
	// holder fields: fields of GlobalFilter that receive X.Store(...)
	holderOf := map[*types.Var]map[*types.Var]bool{} // holder field → spec keys referenced by the storing functions
	holderAt := map[*types.Var]ast.Node{}
	gst := gfT.Underlying().(*types.Struct)
	isGFField := func(v *types.Var) bool {
		for i := 0; i < gst.NumFields(); i++ {
			if gst.Field(i) == v {
				return true
			}
		}
		return false
	}
	for _, file := range pkg.Syntax {
		for _, dcl := range file.Decls {
			fd, ok := dcl.(*ast.FuncDecl)
			if !ok || fd.Body == nil {
				continue
			}
			var holders []*types.Var
			var at ast.Node
			keys := map[*types.Var]bool{}
			ast.Inspect(fd.Body, func(n ast.Node) bool {
				switch x := n.(type) {
				case *ast.CallExpr:
					if sel, ok := ast.Unparen(x.Fun).(*ast.SelectorExpr); ok && sel.Sel.Name == "Store" {
						if fo, ok := pkg.TypesInfo.Uses[sel.Sel].(*types.Func); ok && fo.Pkg() != nil && fo.Pkg().Path() == "sync/atomic" {
							if inner, ok := ast.Unparen(sel.X).(*ast.SelectorExpr); ok {
								if s := pkg.TypesInfo.Selections[inner]; s != nil {
									if v, ok := s.Obj().(*types.Var); ok && isGFField(v) {
										holders = append(holders, v)
										at = x
									}
								}
							}
						}
					}
				case *ast.SelectorExpr:
					if s := pkg.TypesInfo.Selections[x]; s != nil && (s.Obj() == fb || s.Obj() == fa) {
						keys[s.Obj().(*types.Var)] = true
					}
				}
				return true
			})
			for _, h := range holders {
				if holderOf[h] == nil {
					holderOf[h] = map[*types.Var]bool{}
				}
				for k := range keys {
					holderOf[h][k] = true
				}
				holderAt[h] = at
			}
		}
	}
	if !c.RequireCount("R-C02-5", "GlobalFilter pipeline holder fields", len(holderOf), 2) {
		return
	}
	var hBefore, hAfter *types.Var
	for h, keys := range holderOf {
		cons := c02gf + ".GlobalFilter." + h.Name() + "|built from one spec key"
		switch {
		case len(keys) == 1 && keys[fb]:
			if hBefore != nil {
				c.Violate("R-C02-5", cons, pos(c, holderAt[h]), "two holder fields are both built from the beforePipeline spec: the afterPipeline spec is never instantiated (its flow never runs) and the before flow runs twice")
				continue
			}
			hBefore = h
			c.Discharge("R-C02-5", cons, pos(c, holderAt[h]), "stored only by functions that read Spec."+fb.Name())
		case len(keys) == 1 && keys[fa]:
			if hAfter != nil {
				c.Violate("R-C02-5", cons, pos(c, holderAt[h]), "two holder fields are both built from the afterPipeline spec: the beforePipeline spec is never instantiated (its flow never runs) and the after flow runs twice")
				continue
			}
			hAfter = h
			c.Discharge("R-C02-5", cons, pos(c, holderAt[h]), "stored only by functions that read Spec."+fa.Name())
		default:
			var ks []string
			for k := range keys {
				ks = append(ks, k.Name())
			}
			c.Undecide("R-C02-5", cons, pos(c, holderAt[h]), "the functions storing this field reference spec keys {"+strings.Join(ks, ",")+"}; cannot tell which pipeline it holds")
		}
	}
	if hBefore == nil || hAfter == nil {
		return
	}
	// the handler with two *Pipeline parameters and its call sites
	var handler *types.Func
	var pidx []int
	for _, cl := range c02CallsOf(c, a.loopObj) {
		fd := cl.f.Node.(*ast.FuncDecl)
		fo, _ := cl.f.Info.Defs[fd.Name].(*types.Func)
		if fo == nil {
			continue
		}
		sig := fo.Type().(*types.Signature)
		var idx []int
		for i := 0; i < sig.Params().Len(); i++ {
			if c02IsNamed(sig.Params().At(i).Type(), Mod+c02pl, "Pipeline") {
				idx = append(idx, i)
			}
		}
		if len(idx) == 2 {
			handler, pidx = fo, idx
		}
	}
	if handler == nil {
		c.Errorf("R-C02-5: anchor: handler with before/after pipelines not found")
		return
	}
	sites := 0
	for _, cl := range c02CallsOf(c, handler) {
		for _, call := range cl.calls {
			sites++
			if len(call.Args) <= pidx[1] {
				continue
			}
			ob := c02Origins(cl.f, call.Args[pidx[0]])
			oa := c02Origins(cl.f, call.Args[pidx[1]])
			good := ob[hBefore] && !ob[hAfter] && oa[hAfter] && !oa[hBefore]
			c.Check(good, "R-C02-5", cl.cons+"|before and after pipelines passed in order", pos(c, call),
				"the first pipeline argument is loaded from the holder of the beforePipeline spec, the second from the holder of the afterPipeline spec",
				"the pipelines handed to the handler are not (before, after) in that order: the flow configured as afterPipeline runs before the main flow or vice versa")
		}
	}
	c.RequireCount("R-C02-5", "call sites of the before/after handler", sites, 1)
}
