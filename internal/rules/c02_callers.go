package rules

import (
	"go/ast"
	"go/token"
	"go/types"
	"strings"

	"golang.org/x/tools/go/cfg"
	"golang.org/x/tools/go/packages"

	"verif/internal/core"
	"verif/internal/flow"
)

// R-C02-5 (and the caller half of R-C02-4/6): every caller of the flow loop.

func c02Callers(c *core.Ctx, a *c02Anchors) {
	if a.loopObj == nil {
		c.Errorf("R-C02-5: anchor: flow loop function object not resolved")
		return
	}
	callers := c02CallsOf(c, a.loopObj)
	total := 0
	for _, cl := range callers {
		total += len(cl.calls)
	}
	// Handle's call and at least one in the before/after handler; the individual before /
	// main / after calls are what the rule demands, so their absence is a violation below
	if !c.RequireCount("R-C02-5", "call sites of the flow loop", total, 2) {
		return
	}
	if n := c02NonCallUses(c, a.loopObj); n > 0 {
		c.Violate("R-C02-6", a.loopCons+"|flow loop only called, never passed around", pos(c, a.loopFn.Node), "the flow loop function is used as a value: it can be invoked with an arbitrary flow from anywhere")
	}
	sig := a.loopObj.Type().(*types.Signature)
	flowIdx, strIdx, boolIdx := -1, -1, -1
	for i := 0; i < sig.Params().Len(); i++ {
		if s, ok := sig.Params().At(i).Type().(*types.Slice); ok && c02IsNamed(s.Elem(), Mod+c02pl, "FlowNode") {
			flowIdx = i
		}
	}
	for i := 0; i < sig.Results().Len(); i++ {
		if b, ok := sig.Results().At(i).Type().Underlying().(*types.Basic); ok {
			if b.Kind() == types.String && strIdx < 0 {
				strIdx = i
			}
			if b.Kind() == types.Bool && boolIdx < 0 {
				boolIdx = i
			}
		}
	}
	if boolIdx < 0 && a.endedExact != "" {
		boolIdx, _ = c02FlagResult(sig)
	}
	fieldForm := sig.Results().Len() == 0 && a.resField != nil && a.sawField != nil
	if flowIdx < 0 || (!fieldForm && (strIdx < 0 || boolIdx < 0)) {
		c.Undecide("R-C02-5", a.loopCons+"|flow order", pos(c, a.loopFn.Node), "the flow loop neither returns (string, …, bool) nor keeps result and END flag in fields of a run-state struct")
		return
	}
	if fieldForm {
		// the END flag and the result field are written by the flow loop (and its helpers) only
		allowed := map[string]bool{}
		for _, g := range reach(a.loopFn, 3) {
			if fd, ok := g.Node.(*ast.FuncDecl); ok {
				allowed[declName(g.Pkg, fd)] = true
			}
		}
		foreign := ""
		eachFunc(c, func(pkg *packages.Package, fd *ast.FuncDecl) {
			if pkg.Types != a.loopObj.Pkg() || allowed[declName(pkg, fd)] {
				return
			}
			ast.Inspect(fd.Body, func(n ast.Node) bool {
				as, ok := n.(*ast.AssignStmt)
				if !ok {
					return true
				}
				for _, l := range as.Lhs {
					if sel, ok := ast.Unparen(l).(*ast.SelectorExpr); ok {
						if sl := pkg.TypesInfo.Selections[sel]; sl != nil && (sl.Obj() == types.Object(a.resField) || sl.Obj() == types.Object(a.sawField)) {
							foreign = declName(pkg, fd)
						}
					}
				}
				return true
			})
		})
		if foreign != "" {
			c.Undecide("R-C02-5", a.loopCons+"|flow order", pos(c, a.loopFn.Node), "the run-state fields holding the result / END flag are also written in "+foreign)
			return
		}
	}
	with2 := 0
	for _, cl := range callers {
		fd := cl.f.Node.(*ast.FuncDecl)
		inPipeline := relPkg(cl.f.Pkg.PkgPath) == c02pl && fd.Recv != nil
		if !c.Check(inPipeline, "R-C02-6", cl.cons+"|caller of the flow loop is a Pipeline method", pos(c, cl.calls[0]),
			"called from a method of the pipeline package", "the flow loop is called from outside Pipeline's handler methods: flows can be executed without the before/main/after discipline") {
			continue
		}
		if fieldForm {
			if c02CallerFields(c, a, cl, flowIdx) == 2 {
				with2++
			}
			continue
		}
		if c02Caller1(c, a, cl, flowIdx, strIdx, boolIdx, sig.Results().Len()) == 2 {
			with2++
		}
	}
	c.RequireCount("R-C02-5", "handlers with before and after pipelines", with2, 1)
}

// c02Caller1 analyses one caller; returns the number of *Pipeline parameters it has.
func c02Caller1(c *core.Ctx, a *c02Anchors, cl *c02Caller, flowIdx, strIdx, boolIdx, nres int) int {
	f, cons := cl.f, cl.cons
	fd := f.Node.(*ast.FuncDecl)
	d := c02NewDefs(f)
	var recvObj types.Object
	if len(fd.Recv.List) == 1 && len(fd.Recv.List[0].Names) == 1 {
		recvObj = f.Info.Defs[fd.Recv.List[0].Names[0]]
	}
	var pparams []types.Object
	var pidents []*ast.Ident
	for _, fl := range fd.Type.Params.List {
		for _, id := range fl.Names {
			o := f.Info.Defs[id]
			if o != nil && c02IsNamed(o.Type(), Mod+c02pl, "Pipeline") {
				pparams = append(pparams, o)
				pidents = append(pidents, id)
			}
		}
	}
	// role order
	type role struct {
		name  string
		obj   types.Object // the *Pipeline variable whose flow is run
		ident *ast.Ident   // nil for the receiver (never nil)
		call  *ast.CallExpr
	}
	var order []*role
	switch len(pparams) {
	case 0:
		order = []*role{{name: "main", obj: recvObj}}
	case 2:
		order = []*role{{name: "before", obj: pparams[0], ident: pidents[0]}, {name: "main", obj: recvObj}, {name: "after", obj: pparams[1], ident: pidents[1]}}
	default:
		c.Undecide("R-C02-5", cons+"|flow order", pos(c, fd), sprintf("caller of the flow loop with %d *Pipeline parameters (expected 0 or 2)", len(pparams)))
		return len(pparams)
	}
	var namedRes types.Object // the handler's named string result, if any
	if fd.Type.Results != nil && len(fd.Type.Results.List) == 1 && len(fd.Type.Results.List[0].Names) == 1 {
		namedRes = f.Info.Defs[fd.Type.Results.List[0].Names[0]]
	}
	// the staged form: one call site inside a loop over a literal list of the pipelines
	if len(cl.calls) == 1 && len(enclosingLoops(f.Body, cl.calls[0])) > 0 {
		var names []string
		var objs []types.Object
		for _, r := range order {
			names = append(names, r.name)
			objs = append(objs, r.obj)
		}
		c02CallerStaged(c, a, cl, d, names, objs, namedRes, flowIdx, strIdx, boolIdx, nres)
		return len(pparams)
	}
	pm := parentMap(f.Body)
	var sawObj, resObj types.Object
	var sawID *ast.Ident
	ok := true
	for _, call := range cl.calls {
		inLit := false
		ast.Inspect(fd.Body, func(n ast.Node) bool {
			if lit, ok := n.(*ast.FuncLit); ok && contains(lit, call) {
				inLit = true
			}
			return true
		})
		if inLit {
			c.Undecide("R-C02-5", cons+"|flow order", pos(c, call), "the flow loop is called from a function literal; the order in which the closure runs the flows is not analysed")
			return len(pparams)
		}
		if len(call.Args) <= flowIdx {
			c.Errorf("R-C02-5: flow loop call with too few arguments in %s", cons)
			return len(pparams)
		}
		base, isFlow := d.fieldSel(call.Args[flowIdx], a.fFlow)
		var r *role
		if isFlow {
			bo := c02Obj(f, d.alias(base))
			for _, x := range order {
				if x.obj != nil && x.obj == bo {
					r = x
				}
			}
		}
		if r == nil {
			c.Violate("R-C02-5", cons+"|each run uses a pipeline's own flow", pos(c, call), "the flow handed to the flow loop is not the flow field of the receiver or of a before/after pipeline parameter")
			ok = false
			continue
		}
		if r.call != nil {
			c.Violate("R-C02-5", cons+"|"+r.name+" flow runs at most once", pos(c, call), "the "+r.name+" flow is handed to the flow loop at two call sites")
			ok = false
			continue
		}
		r.call = call
		as, isAs := pm[call].(*ast.AssignStmt)
		if !isAs || len(as.Lhs) != nres {
			c.Violate("R-C02-5", cons+"|"+r.name+" flow result used", pos(c, call), "the results of the "+r.name+" flow run are discarded")
			ok = false
			continue
		}
		ro := c02Obj(f, as.Lhs[strIdx])
		if ro == nil || (resObj != nil && ro != resObj) {
			c.Violate("R-C02-4", cons+"|result of the last flow run is returned", pos(c, call), "the string result of the "+r.name+" flow is not assigned to the variable the handler returns")
			ok = false
		}
		if resObj == nil {
			resObj = ro
		}
		so := c02Obj(f, as.Lhs[boolIdx])
		last := r == order[len(order)-1]
		if so == nil {
			if !last {
				c.Violate("R-C02-5", cons+"|END of the "+r.name+" flow is honoured", pos(c, call), "the bool result (END seen) of the "+r.name+" flow is discarded: an END in the "+r.name+" flow does not stop the flows after it")
				ok = false
			}
			continue
		}
		if sawObj != nil && so != sawObj {
			c.Undecide("R-C02-5", cons+"|flow order", pos(c, call), "END flags of the flow runs are kept in different variables")
			return len(pparams)
		}
		sawObj = so
		sawID, _ = ast.Unparen(as.Lhs[boolIdx]).(*ast.Ident)
	}
	for _, r := range order {
		if r.call == nil {
			c.Violate("R-C02-5", cons+"|"+r.name+" flow runs", pos(c, fd), "the "+r.name+" flow is never handed to the flow loop")
			ok = false
		}
	}
	if !ok {
		return len(pparams)
	}

	roleOf := map[*ast.CallExpr]int{}
	for i, r := range order {
		roleOf[r.call] = i
	}
	ev := func(i int) string { return "ev:run:" + order[i].name }
	res := analyze(c, f, flow.Config{
		OnCall: func(st *flow.State, call *ast.CallExpr, callee types.Object, deferred bool) {
			if i, ok := roleOf[call]; ok {
				st.Set(ev(i), flow.True)
			}
		},
	})
	if res == nil {
		return len(pparams)
	}
	sawKey := ""
	var saw c02Flag
	if sawID != nil && len(order) > 1 {
		saw = c02FlagOf(f, sawID, a.endedExact)
		sawKey = saw.key
	}
	for i, r := range order {
		states := res.At[r.call]
		name := cons + "|" + r.name + " flow"
		if len(states) == 0 {
			c.Violate("R-C02-5", name+" gated correctly", pos(c, r.call), "the "+r.name+" flow run is unreachable")
			continue
		}
		var bad *flow.State
		why := ""
		for _, st := range states {
			switch {
			case st.Is(ev(i), flow.True):
				bad, why = st, "the "+r.name+" flow can run twice for one request"
			case r.ident != nil && !st.Is(f.NilKey(r.ident), flow.False):
				bad, why = st, "the "+r.name+" flow is run without the "+r.name+" pipeline being known non-nil (nil dereference when no global filter supplies it)"
			case sawKey != "" && !saw.is(st, flow.False):
				bad, why = st, "the "+r.name+" flow runs although an earlier flow may have reported END: something runs after END"
			}
			for j := range order {
				if bad != nil {
					break
				}
				if j > i && st.Is(ev(j), flow.True) {
					bad, why = st, "the "+r.name+" flow runs after the "+order[j].name+" flow (order must be before → main → after)"
				}
				if j < i && !st.Is(ev(j), flow.True) && !(order[j].ident != nil && st.Is(f.NilKey(order[j].ident), flow.True)) {
					bad, why = st, "the "+r.name+" flow runs although the "+order[j].name+" flow was neither run nor absent (nil)"
				}
			}
			if bad != nil {
				break
			}
		}
		c.Check(bad == nil, "R-C02-5", name+" gated correctly", pos(c, r.call),
			sprintf("%d states at the call: earlier flows ran or are nil, no END reported, pipeline non-nil, not run before", len(states)), why, witness(bad)...)
	}
	// exits: a flow is skipped only if nil or after END
	var badExit *flow.Exit
	whyExit := ""
	var badRet *flow.Exit
	nexits := 0
	for _, ex := range res.Exits {
		if ex.Kind != flow.ExitReturn {
			continue
		}
		nexits++
		st := ex.State
		for i, r := range order {
			if st.Is(ev(i), flow.True) {
				continue
			}
			if r.ident != nil && st.Is(f.NilKey(r.ident), flow.True) {
				continue
			}
			if sawKey != "" && saw.is(st, flow.True) {
				continue
			}
			laterRan := false
			for j := i + 1; j < len(order); j++ {
				if st.Is(ev(j), flow.True) {
					laterRan = true // judged at that flow's call site
				}
			}
			if laterRan {
				continue
			}
			if badExit == nil {
				badExit, whyExit = ex, "the handler returns without having run the "+r.name+" flow although its pipeline is not nil and no flow reported END"
			}
		}
		switch {
		case ex.Return != nil && len(ex.Return.Results) == 1 && c02Obj(f, ex.Return.Results[0]) == resObj:
		case (ex.Return == nil || len(ex.Return.Results) == 0) && namedRes != nil && namedRes == resObj:
			// named result with a bare return
		default:
			badRet = ex
		}
	}
	exw := func(ex *flow.Exit) []string {
		if ex == nil {
			return nil
		}
		return append([]string{"exit at " + pos(c, ex.At)}, witness(ex.State)...)
	}
	c.RequireCount("R-C02-5", "exits of "+cons, nexits, 1)
	c.Check(badExit == nil, "R-C02-5", cons+"|a flow is skipped only when absent or after END", pos(c, fd),
		sprintf("%d exits: every flow ran, or its pipeline is nil, or END was reported", nexits), whyExit, exw(badExit)...)
	// returned result: variable assigned from the flow runs, no other writer than ""
	writersOK := true
	for _, as := range c02Assigns(f, f.Body, resObj) {
		for i, l := range as.Lhs {
			if c02Obj(f, l) != resObj {
				continue
			}
			good := false
			if len(as.Rhs) == 1 && len(as.Lhs) == nres {
				if call, ok := ast.Unparen(as.Rhs[0]).(*ast.CallExpr); ok {
					if _, isRun := roleOf[call]; isRun && i == strIdx {
						good = true
					}
				}
			} else if len(as.Lhs) == len(as.Rhs) {
				if v, ok := c02ConstString(f, as.Rhs[i]); ok && v == "" {
					good = true
				}
			}
			if !good {
				writersOK = false
			}
		}
	}
	c.Check(badRet == nil && writersOK && !d.taken[resObj], "R-C02-4", cons+"|result of the last flow run is returned", pos(c, fd),
		"the handler returns the variable that every flow run assigns its string result to",
		"the handler does not return the string result of the last flow it ran (other writer, or another value returned)", exw(badRet)...)
	return len(pparams)
}

// c02Origins collects the struct fields that may flow into expression e through local
// assignments (flow-insensitive).
func c02Origins(f *flow.Func, e ast.Expr) map[*types.Var]bool {
	out := map[*types.Var]bool{}
	seen := map[types.Object]bool{}
	// the body of the same-package function a variable belongs to
	bodyOf := func(o types.Object) ast.Node {
		for _, file := range f.Pkg.Syntax {
			for _, dcl := range file.Decls {
				if fd, ok := dcl.(*ast.FuncDecl); ok && fd.Body != nil && fd.Pos() <= o.Pos() && o.Pos() <= fd.End() {
					return fd
				}
			}
		}
		return f.Node
	}
	// the expressions a same-package callee returns at result index idx
	returned := func(call *ast.CallExpr, idx int) []ast.Expr {
		fo, ok := f.Callee(call).(*types.Func)
		if !ok || fo.Pkg() != f.Pkg.Types {
			return nil
		}
		fd := declOf(f.Pkg, fo)
		if fd == nil {
			return nil
		}
		rets, _ := (&c02Defs{f: f}).returnsOf(flow.NewFunc(f.Pkg, fd), idx)
		return rets
	}
	var visit func(e ast.Expr)
	visit = func(e ast.Expr) {
		ast.Inspect(e, func(n ast.Node) bool {
			switch x := n.(type) {
			case *ast.SelectorExpr:
				if s := f.Info.Selections[x]; s != nil {
					if v, ok := s.Obj().(*types.Var); ok && v.IsField() {
						out[v] = true
					}
				}
			case *ast.CallExpr:
				// a helper's single result: what it returns
				for _, r := range returned(x, 0) {
					if sig, ok := f.Info.Types[x].Type.(*types.Tuple); !ok || sig.Len() == 1 {
						visit(r)
					}
				}
			case *ast.Ident:
				o := f.Info.Uses[x]
				if o == nil {
					o = f.Info.Defs[x]
				}
				v, ok := o.(*types.Var)
				if !ok || v.IsField() || seen[o] {
					return true
				}
				seen[o] = true
				for _, as := range c02Assigns(f, bodyOf(o), o) {
					if len(as.Lhs) == len(as.Rhs) {
						for i, l := range as.Lhs {
							if c02Obj(f, l) == o {
								visit(as.Rhs[i])
							}
						}
						continue
					}
					tuple := false
					if len(as.Rhs) == 1 {
						if call, ok := ast.Unparen(as.Rhs[0]).(*ast.CallExpr); ok {
							for i, l := range as.Lhs {
								if c02Obj(f, l) == o {
									if rets := returned(call, i); len(rets) > 0 {
										tuple = true
										for _, r := range rets {
											visit(r)
										}
										// arguments and receiver may carry the origin too
										for _, arg := range call.Args {
											visit(arg)
										}
									}
								}
							}
						}
					}
					if !tuple {
						for _, r := range as.Rhs {
							visit(r)
						}
					}
				}
			}
			return true
		})
	}
	visit(e)
	return out
}

// c02GlobalFilterWiring: GlobalFilter hands the pipelines built from the beforePipeline /
// afterPipeline spec keys to the handler in that order.
func c02GlobalFilterWiring(c *core.Ctx, a *c02Anchors) {
	fb := c02FieldByYAML(c, c02gf, "Spec", "beforePipeline")
	fa := c02FieldByYAML(c, c02gf, "Spec", "afterPipeline")
	gfT := namedType(c, c02gf, "GlobalFilter")
	pkg := c.Prog.Pkg(c02gf)
	if fb == nil || fa == nil || gfT == nil || pkg == nil {
		return
	}
	// holder fields: fields of GlobalFilter that receive X.Store(...)
	holderOf := map[*types.Var]map[*types.Var]bool{} // holder field → spec keys referenced by the storing functions
	holderAt := map[*types.Var]ast.Node{}
	perSite := map[*types.Var][]map[*types.Var]bool{} // parameterised builders: the keys named at each call site
	gst := gfT.Underlying().(*types.Struct)
	isGFField := func(v *types.Var) bool {
		for i := 0; i < gst.NumFields(); i++ {
			if gst.Field(i) == v {
				return true
			}
		}
		return false
	}
	for _, file := range pkg.Syntax {
		for _, dcl := range file.Decls {
			fd, ok := dcl.(*ast.FuncDecl)
			if !ok || fd.Body == nil {
				continue
			}
			var holders []*types.Var
			var at ast.Node
			keys := map[*types.Var]bool{}
			g := flow.NewFunc(pkg, fd)
			ast.Inspect(fd.Body, func(n ast.Node) bool {
				switch x := n.(type) {
				case *ast.CallExpr:
					// a parameterised builder: the holder is handed over by address (`build(name, spec.X, prev,
					// &gf.holder)`) and the callee stores into that parameter; the spec keys are those named in
					// the same call
					if callee, ok := g.Callee(x).(*types.Func); ok && callee.Pkg() == pkg.Types {
						for _, arg := range x.Args {
							u, ok := ast.Unparen(arg).(*ast.UnaryExpr)
							if !ok || u.Op != token.AND {
								continue
							}
							inner, ok := ast.Unparen(u.X).(*ast.SelectorExpr)
							if !ok {
								continue
							}
							sl := pkg.TypesInfo.Selections[inner]
							if sl == nil {
								continue
							}
							v, ok := sl.Obj().(*types.Var)
							if !ok || !isGFField(v) || !c02StoresIntoParam(pkg, callee) {
								continue
							}
							if holderOf[v] == nil {
								holderOf[v] = map[*types.Var]bool{}
							}
							holderAt[v] = x
							siteKeys := map[*types.Var]bool{}
							defer func() { perSite[v] = append(perSite[v], siteKeys) }()
							for _, a2 := range x.Args {
								ast.Inspect(a2, func(m ast.Node) bool {
									if se, ok := m.(*ast.SelectorExpr); ok {
										if s2 := pkg.TypesInfo.Selections[se]; s2 != nil && (s2.Obj() == types.Object(fb) || s2.Obj() == types.Object(fa)) {
											holderOf[v][s2.Obj().(*types.Var)] = true
											siteKeys[s2.Obj().(*types.Var)] = true
										}
									}
									return true
								})
							}
						}
					}
					if sel, ok := ast.Unparen(x.Fun).(*ast.SelectorExpr); ok && sel.Sel.Name == "Store" {
						if fo, ok := pkg.TypesInfo.Uses[sel.Sel].(*types.Func); ok && fo.Pkg() != nil && fo.Pkg().Path() == "sync/atomic" {
							if inner, ok := ast.Unparen(sel.X).(*ast.SelectorExpr); ok {
								if s := pkg.TypesInfo.Selections[inner]; s != nil {
									if v, ok := s.Obj().(*types.Var); ok && isGFField(v) {
										holders = append(holders, v)
										at = x
									}
								}
							}
						}
					}
				case *ast.SelectorExpr:
					if s := pkg.TypesInfo.Selections[x]; s != nil && (s.Obj() == fb || s.Obj() == fa) {
						keys[s.Obj().(*types.Var)] = true
					}
				}
				return true
			})
			for _, h := range holders {
				if holderOf[h] == nil {
					holderOf[h] = map[*types.Var]bool{}
				}
				for k := range keys {
					holderOf[h][k] = true
				}
				holderAt[h] = at
			}
		}
	}
	if !c.RequireCount("R-C02-5", "GlobalFilter pipeline holder fields", len(holderOf), 2) {
		return
	}
	var hBefore, hAfter *types.Var
	for h, keys := range holderOf {
		cons := c02gf + ".GlobalFilter." + h.Name() + "|built from one spec key"
		switch {
		case len(keys) == 1 && keys[fb]:
			if hBefore != nil {
				c.Violate("R-C02-5", cons, pos(c, holderAt[h]), "two holder fields are both built from the beforePipeline spec: the afterPipeline spec is never instantiated (its flow never runs) and the before flow runs twice")
				continue
			}
			hBefore = h
			c.Discharge("R-C02-5", cons, pos(c, holderAt[h]), "stored only by functions that read Spec."+fb.Name())
		case len(keys) == 1 && keys[fa]:
			if hAfter != nil {
				c.Violate("R-C02-5", cons, pos(c, holderAt[h]), "two holder fields are both built from the afterPipeline spec: the beforePipeline spec is never instantiated (its flow never runs) and the after flow runs twice")
				continue
			}
			hAfter = h
			c.Discharge("R-C02-5", cons, pos(c, holderAt[h]), "stored only by functions that read Spec."+fa.Name())
		default:
			// call sites of a parameterised builder that each name one spec key but disagree
			single, sawB, sawA := len(perSite[h]) > 1, false, false
			for _, sk := range perSite[h] {
				if len(sk) != 1 {
					single = false
				}
				sawB = sawB || sk[fb]
				sawA = sawA || sk[fa]
			}
			if single && sawB && sawA {
				c.Violate("R-C02-5", cons, pos(c, holderAt[h]), "the holder field "+h.Name()+" is built from the beforePipeline spec at one call site and from the afterPipeline spec at another: one of the two configured flows runs in the other's place")
				continue
			}
			var ks []string
			for k := range keys {
				ks = append(ks, k.Name())
			}
			c.Undecide("R-C02-5", cons, pos(c, holderAt[h]), "the functions storing this field reference spec keys {"+strings.Join(ks, ",")+"}; cannot tell which pipeline it holds")
		}
	}
	if hBefore == nil || hAfter == nil {
		return
	}
	c02GlobalFilterBuild(c, fb, fa, hBefore, hAfter)
	// the handler with two *Pipeline parameters and its call sites
	var handler *types.Func
	var pidx []int
	for _, cl := range c02CallsOf(c, a.loopObj) {
		fd := cl.f.Node.(*ast.FuncDecl)
		fo, _ := cl.f.Info.Defs[fd.Name].(*types.Func)
		if fo == nil {
			continue
		}
		sig := fo.Type().(*types.Signature)
		var idx []int
		for i := 0; i < sig.Params().Len(); i++ {
			if c02IsNamed(sig.Params().At(i).Type(), Mod+c02pl, "Pipeline") {
				idx = append(idx, i)
			}
		}
		if len(idx) == 2 {
			handler, pidx = fo, idx
		}
	}
	if handler == nil {
		c.Errorf("R-C02-5: anchor: handler with before/after pipelines not found")
		return
	}
	sites, nilSites := 0, 0
	for _, cl := range c02CallsOf(c, handler) {
		for _, call := range cl.calls {
			sites++
			if len(call.Args) <= pidx[1] {
				continue
			}
			// plain handling without a global filter: (ctx, nil, nil)
			if cl.f.Info.Types[call.Args[pidx[0]]].IsNil() && cl.f.Info.Types[call.Args[pidx[1]]].IsNil() {
				nilSites++
				c.Discharge("R-C02-5", cl.cons+"|handler called without before/after pipelines", pos(c, call), "both pipeline arguments are nil: only the main flow runs")
				continue
			}
			ob := c02Origins(cl.f, call.Args[pidx[0]])
			oa := c02Origins(cl.f, call.Args[pidx[1]])
			good := ob[hBefore] && !ob[hAfter] && oa[hAfter] && !oa[hBefore]
			c.Check(good, "R-C02-5", cl.cons+"|before and after pipelines passed in order", pos(c, call),
				"the first pipeline argument is loaded from the holder of the beforePipeline spec, the second from the holder of the afterPipeline spec",
				"the pipelines handed to the handler are not (before, after) in that order: the flow configured as afterPipeline runs before the main flow or vice versa")
		}
	}
	c.RequireCount("R-C02-5", "call sites of the before/after handler with pipelines", sites-nilSites, 1)
}

// c02CallerStaged decides R-C02-5 for a handler that runs the flows from one call site inside a
// loop over a literal list of the pipelines (`for _, stage := range [...]*Pipeline{before, p, after}`):
// the list is (before, main, after) in that order; a stage is passed over only when it is nil (or END
// was reported), the call is reached only with a non-nil stage and no END reported, at most once per
// stage, and the loop is left early only after END was reported.
func c02CallerStaged(c *core.Ctx, a *c02Anchors, cl *c02Caller, d *c02Defs, names []string, objs []types.Object, namedRes types.Object, flowIdx, strIdx, boolIdx, nres int) {
	f, cons, call := cl.f, cl.cons, cl.calls[0]
	fd := f.Node.(*ast.FuncDecl)
	loops := enclosingLoops(f.Body, call)
	lp := c02LoopOf(f, loops[len(loops)-1])
	if len(loops) != 1 || lp == nil || lp.reverse {
		c.Undecide("R-C02-5", cons+"|flow order", pos(c, call), "the flow loop is called from a loop that is not a forward loop over a list of pipelines")
		return
	}
	lit, ok := d.alias(lp.X).(*ast.CompositeLit)
	if !ok {
		c.Undecide("R-C02-5", cons+"|flow order", pos(c, lp.stmt), "the flow loop is called from a loop over something other than a literal list of pipelines")
		return
	}
	var got []types.Object
	for _, el := range lit.Elts {
		if _, isKV := el.(*ast.KeyValueExpr); isKV {
			c.Undecide("R-C02-5", cons+"|flow order", pos(c, lit), "keyed list of pipelines")
			return
		}
		o := d.rootObj(el)
		if o == nil {
			c.Undecide("R-C02-5", cons+"|flow order", pos(c, el), "an element of the list of pipelines is not a variable")
			return
		}
		got = append(got, o)
	}
	// order and completeness of the stages
	idx := map[types.Object]int{}
	for i, o := range objs {
		idx[o] = i
	}
	okOrder := len(got) == len(objs)
	seen := map[types.Object]bool{}
	last := -1
	why := ""
	for _, o := range got {
		i, known := idx[o]
		switch {
		case !known:
			c.Undecide("R-C02-5", cons+"|flow order", pos(c, lit), "the list of pipelines contains a variable that is neither the receiver nor a before/after parameter")
			return
		case seen[o]:
			okOrder, why = false, "the "+names[i]+" flow is listed twice: it runs twice for one request"
		case i < last:
			okOrder, why = false, "the "+names[i]+" flow is listed after the "+names[last]+" flow (order must be before → main → after)"
		}
		seen[o] = true
		if i > last {
			last = i
		}
	}
	for i, o := range objs {
		if !seen[o] && why == "" {
			okOrder, why = false, "the "+names[i]+" flow is not in the list of stages: it never runs"
		}
	}
	c.Check(okOrder, "R-C02-5", cons+"|stages listed in the order before → main → after", pos(c, lit),
		"the handler loops over the literal list (before, receiver, after)", why)
	if !okOrder {
		return
	}
	// the flow handed over is the stage's own flow
	base, isFlow := d.fieldSel(call.Args[flowIdx], a.fFlow)
	if !isFlow || !lp.elem(d, base) {
		c.Violate("R-C02-5", cons+"|each run uses a pipeline's own flow", pos(c, call), "the flow handed to the flow loop is not the flow field of the stage of this iteration")
		return
	}
	if lp.key != nil && d.n[lp.key] != map[bool]int{true: 2, false: 1}[lp.indexed] || lp.val != nil && d.n[lp.val] != 1 {
		c.Violate("R-C02-5", cons+"|stages listed in the order before → main → after", pos(c, lp.stmt), "the loop variable of the stage loop is assigned in the body: stages can be repeated or passed over")
		return
	}
	as, isAs := d.parent(call).(*ast.AssignStmt)
	if !isAs || len(as.Lhs) != nres {
		c.Violate("R-C02-5", cons+"|flow results used", pos(c, call), "the results of the flow run are discarded")
		return
	}
	resObj := c02Obj(f, as.Lhs[strIdx])
	sawID, _ := ast.Unparen(as.Lhs[boolIdx]).(*ast.Ident)
	if sawID == nil || sawID.Name == "_" {
		c.Violate("R-C02-5", cons+"|END of a flow is honoured", pos(c, call), "the bool result (END seen) of the flow run is discarded: an END in one flow does not stop the flows after it")
		return
	}
	saw := c02FlagOf(f, sawID, a.endedExact)
	// the stage expression whose nil-ness gates the call
	var stageNil []string
	ast.Inspect(lp.body, func(n ast.Node) bool {
		if e, ok := n.(ast.Expr); ok && lp.elem(d, e) {
			stageNil = append(stageNil, f.NilKey(e))
		}
		return true
	})
	isNil := func(st *flow.State, v flow.Val) bool {
		for _, k := range stageNil {
			if st.Is(k, v) {
				return true
			}
		}
		return false
	}
	const (
		evIn  = "ev:stage:in"
		evRan = "ev:stage:ran"
	)
	var badSkip, badLeave *flow.State
	res := analyze(c, f, flow.Config{
		OnBlock: func(st *flow.State, b *cfg.Block) {
			if b.Stmt != lp.stmt {
				return
			}
			switch b.Kind {
			case lp.bodyKind:
				st.Set(evIn, flow.True)
				st.Set(evRan, flow.False)
			case lp.backKind:
				if st.Is(evIn, flow.True) && !st.Is(evRan, flow.True) && !isNil(st, flow.True) && !saw.is(st, flow.True) && badSkip == nil {
					badSkip = st
				}
				st.Set(evIn, flow.False)
			case lp.doneKind:
				if st.Is(evIn, flow.True) && !saw.is(st, flow.True) && badLeave == nil {
					badLeave = st
				}
				st.Set(evIn, flow.False)
			}
		},
		OnCall: func(st *flow.State, cc *ast.CallExpr, callee types.Object, deferred bool) {
			if cc == call {
				st.Set(evRan, flow.True)
			}
		},
	})
	if res == nil {
		return
	}
	states := res.At[call]
	var bad *flow.State
	why = ""
	for _, st := range states {
		switch {
		case st.Is(evRan, flow.True):
			bad, why = st, "a stage's flow can run twice in one iteration"
		case !isNil(st, flow.False):
			bad, why = st, "a stage's flow is run without the stage being known non-nil (nil dereference when no global filter supplies it)"
		case !saw.is(st, flow.False):
			bad, why = st, "a stage's flow runs although an earlier flow may have reported END: something runs after END"
		}
		if bad != nil {
			break
		}
	}
	if len(states) == 0 {
		bad, why = nil, "the flow run is unreachable"
		c.Violate("R-C02-5", cons+"|staged flows gated correctly", pos(c, call), why)
	} else {
		c.Check(bad == nil, "R-C02-5", cons+"|staged flows gated correctly", pos(c, call),
			sprintf("%d states at the call: stage non-nil, no END reported, once per stage", len(states)), why, witness(bad)...)
	}
	c.Check(badSkip == nil, "R-C02-5", cons+"|a flow is skipped only when absent or after END", pos(c, lp.stmt),
		"an iteration that does not run its stage has a nil stage or END reported",
		"the stage loop passes over a stage that is present although no flow reported END: that flow does not run", witness(badSkip)...)
	// early exits of the function from inside the loop count as leaving it
	var badRet *flow.Exit
	for _, ex := range res.Exits {
		if ex.Kind != flow.ExitReturn {
			continue
		}
		if ex.State.Is(evIn, flow.True) && !saw.is(ex.State, flow.True) && badLeave == nil {
			badLeave = ex.State
		}
		switch {
		case ex.Return != nil && len(ex.Return.Results) == 1 && c02Obj(f, ex.Return.Results[0]) == resObj:
		case (ex.Return == nil || len(ex.Return.Results) == 0) && namedRes != nil && namedRes == resObj:
		default:
			badRet = ex
		}
	}
	c.Check(badLeave == nil, "R-C02-5", cons+"|stage loop left early only after END", pos(c, lp.stmt),
		"the loop over the stages is left early only with END reported",
		"the loop over the stages is left before all stages were visited although no flow reported END: the remaining flows do not run", witness(badLeave)...)
	writersOK := resObj != nil && !d.taken[resObj]
	for _, w := range c02Assigns(f, f.Body, resObj) {
		for i, l := range w.Lhs {
			if c02Obj(f, l) != resObj {
				continue
			}
			good := w == as && i == strIdx
			if len(w.Lhs) == len(w.Rhs) {
				if v, ok := c02ConstString(f, w.Rhs[i]); ok && v == "" {
					good = true
				}
			}
			if !good {
				writersOK = false
			}
		}
	}
	var wit []string
	if badRet != nil {
		wit = append([]string{"exit at " + pos(c, badRet.At)}, witness(badRet.State)...)
	}
	c.Check(badRet == nil && writersOK, "R-C02-4", cons+"|result of the last flow run is returned", pos(c, fd),
		"the handler returns the variable that every flow run assigns its string result to",
		"the handler does not return the string result of the last flow it ran (other writer, or another value returned)", wit...)
}

// c02CallerFields is c02Caller1 for the field form: the flow loop is a method of a run-state struct
// that keeps the result and the END flag in fields (`run.exec(flow)`; `run.sawEnd`, `run.result`).
func c02CallerFields(c *core.Ctx, a *c02Anchors, cl *c02Caller, flowIdx int) int {
	f, cons := cl.f, cl.cons
	fd := f.Node.(*ast.FuncDecl)
	d := c02NewDefs(f)
	var recvObj types.Object
	if fd.Recv != nil && len(fd.Recv.List) == 1 && len(fd.Recv.List[0].Names) == 1 {
		recvObj = f.Info.Defs[fd.Recv.List[0].Names[0]]
	}
	type role struct {
		name  string
		obj   types.Object
		ident *ast.Ident
		call  *ast.CallExpr
	}
	var order []*role
	var pparams []*ast.Ident
	for _, fl := range fd.Type.Params.List {
		for _, id := range fl.Names {
			if o := f.Info.Defs[id]; o != nil && c02IsNamed(o.Type(), Mod+c02pl, "Pipeline") {
				pparams = append(pparams, id)
			}
		}
	}
	switch len(pparams) {
	case 0:
		order = []*role{{name: "main", obj: recvObj}}
	case 2:
		order = []*role{{name: "before", obj: f.Info.Defs[pparams[0]], ident: pparams[0]}, {name: "main", obj: recvObj}, {name: "after", obj: f.Info.Defs[pparams[1]], ident: pparams[1]}}
	default:
		c.Undecide("R-C02-5", cons+"|flow order", pos(c, fd), sprintf("caller of the flow loop with %d *Pipeline parameters (expected 0 or 2)", len(pparams)))
		return len(pparams)
	}
	// the run state all stages share
	runN := ""
	var runRoot types.Object
	for _, call := range cl.calls {
		sel, ok := ast.Unparen(call.Fun).(*ast.SelectorExpr)
		if !ok || len(enclosingLoops(f.Body, call)) > 0 {
			c.Undecide("R-C02-5", cons+"|flow order", pos(c, call), "the flow loop is not called as a method of a run-state value outside loops")
			return len(pparams)
		}
		root := d.rootObj(sel.X)
		if root == nil || d.n[root] != 1 {
			c.Undecide("R-C02-5", cons+"|flow order", pos(c, call), "the run state is not a local assigned exactly once")
			return len(pparams)
		}
		if runN != "" && d.norm(sel.X) != runN {
			c.Violate("R-C02-5", cons+"|all flows share one run state", pos(c, call), "the flows are run on different run-state values: END seen by one flow and its result are invisible to the next")
			return len(pparams)
		}
		runN, runRoot = d.norm(sel.X), root
		base, isFlow := d.fieldSel(call.Args[flowIdx], a.fFlow)
		var r *role
		if isFlow {
			bo := c02Obj(f, d.alias(base))
			for _, x := range order {
				if x.obj != nil && x.obj == bo {
					r = x
				}
			}
		}
		if r == nil {
			c.Violate("R-C02-5", cons+"|each run uses a pipeline's own flow", pos(c, call), "the flow handed to the flow loop is not the flow field of the receiver or of a before/after pipeline parameter")
			return len(pparams)
		}
		if r.call != nil {
			c.Violate("R-C02-5", cons+"|"+r.name+" flow runs at most once", pos(c, call), "the "+r.name+" flow is handed to the flow loop at two call sites")
			return len(pparams)
		}
		r.call = call
	}
	for _, r := range order {
		if r.call == nil {
			c.Violate("R-C02-5", cons+"|"+r.name+" flow runs", pos(c, fd), "the "+r.name+" flow is never handed to the flow loop")
			return len(pparams)
		}
	}
	// readers of the END flag and of the result on that run state
	var sawKeys []string
	ast.Inspect(f.Body, func(n ast.Node) bool {
		if sel, ok := n.(*ast.SelectorExpr); ok {
			if sl := f.Info.Selections[sel]; sl != nil && sl.Obj() == types.Object(a.sawField) && d.norm(sel.X) == runN {
				sawKeys = append(sawKeys, f.VarKey(sel))
			}
		}
		return true
	})
	if len(order) > 1 && len(sawKeys) == 0 {
		c.Violate("R-C02-5", cons+"|END of a flow is honoured", pos(c, fd), "the END flag of the run state is never read: an END in one flow does not stop the flows after it")
		return len(pparams)
	}
	sawIs := func(st *flow.State, v flow.Val) bool {
		for _, k := range sawKeys {
			if st.Is(k, v) {
				return true
			}
		}
		return false
	}
	// the END flag starts false: the run state is a fresh value whose literal does not set it
	var freshLit func(e ast.Expr, depth int) bool
	freshLit = func(e ast.Expr, depth int) bool {
		e = ast.Unparen(e)
		if u, ok := e.(*ast.UnaryExpr); ok && u.Op == token.AND {
			e = ast.Unparen(u.X)
		}
		switch x := e.(type) {
		case *ast.CompositeLit:
			for _, el := range x.Elts {
				kv, ok := el.(*ast.KeyValueExpr)
				if !ok {
					return false // positional literal
				}
				if k, ok := kv.Key.(*ast.Ident); ok && f.Info.Uses[k] == types.Object(a.sawField) {
					tv := f.Info.Types[kv.Value]
					if tv.Value == nil || tv.Value.ExactString() != "false" {
						return false
					}
				}
			}
			return true
		case *ast.CallExpr:
			if b, ok := f.Callee(x).(*types.Builtin); ok && b.Name() == "new" {
				return true
			}
			if fo, ok := f.Callee(x).(*types.Func); ok && fo.Pkg() == f.Pkg.Types && depth < 2 {
				if hd := declOf(f.Pkg, fo); hd != nil {
					h := flow.NewFunc(f.Pkg, hd)
					hdefs := c02NewDefs(h)
					rets, ok := hdefs.returnsOf(h, 0)
					if !ok {
						return false
					}
					for _, r := range rets {
						if !freshLit(hdefs.alias(r), depth+1) {
							return false
						}
					}
					return true
				}
			}
		}
		return false
	}
	var runDef ast.Node
	initFalse := false
	ast.Inspect(f.Body, func(n ast.Node) bool {
		switch x := n.(type) {
		case *ast.AssignStmt:
			for i, l := range x.Lhs {
				if c02Obj(f, l) == runRoot && len(x.Lhs) == len(x.Rhs) {
					runDef, initFalse = x, freshLit(x.Rhs[i], 0)
				}
			}
		case *ast.ValueSpec:
			for i, id := range x.Names {
				if f.Info.Defs[id] == runRoot {
					runDef = x
					initFalse = len(x.Values) == 0 || (i < len(x.Values) && freshLit(x.Values[i], 0))
				}
			}
		}
		return true
	})
	if runDef == nil || !initFalse {
		c.Undecide("R-C02-5", cons+"|flow order", pos(c, fd), "cannot establish that the END flag of the run state starts false (the run state is not a fresh literal / new(T) / zero value)")
		return len(pparams)
	}
	roleOf := map[*ast.CallExpr]int{}
	for i, r := range order {
		roleOf[r.call] = i
	}
	ev := func(i int) string { return "ev:run:" + order[i].name }
	const (
		evEnd   = "ev:endSeen"   // the flag was found true since the last run (only the flow loop writes it)
		evFresh = "ev:flagFresh" // no flow has run on the fresh run state yet: the flag is still false
	)
	sawIs0 := sawIs
	sawIs = func(st *flow.State, v flow.Val) bool {
		if st.Is(evFresh, flow.True) {
			return v == flow.False
		}
		return sawIs0(st, v)
	}
	// a path on which the still-fresh flag was assumed true does not exist
	infeasible := func(st *flow.State) bool {
		return st.Is("ev:infeasible", flow.True) || (st.Is(evFresh, flow.True) && sawIs0(st, flow.True))
	}
	res := analyze(c, f, flow.Config{
		OnNode: func(st *flow.State, n ast.Node) {
			if n == runDef {
				st.Set(evFresh, flow.True)
			}
		},
		OnCall: func(st *flow.State, call *ast.CallExpr, callee types.Object, deferred bool) {
			if i, ok := roleOf[call]; ok {
				st.Set(ev(i), flow.True)
				st.Set(evEnd, flow.False)
				st.Set(evFresh, flow.False)
			}
		},
		AfterAssume: func(st *flow.State, cond ast.Expr, outcome bool) {
			if sawIs0(st, flow.True) {
				if st.Is(evFresh, flow.True) {
					st.Set("ev:infeasible", flow.True) // the flag of a fresh run state is false
				} else {
					st.Set(evEnd, flow.True)
				}
			}
		},
	})
	if res == nil {
		return len(pparams)
	}
	anyRan := func(st *flow.State, upto int) bool {
		for j := 0; j < upto; j++ {
			if st.Is(ev(j), flow.True) {
				return true
			}
		}
		return false
	}
	for i, r := range order {
		states := res.At[r.call]
		name := cons + "|" + r.name + " flow"
		if len(states) == 0 {
			c.Violate("R-C02-5", name+" gated correctly", pos(c, r.call), "the "+r.name+" flow run is unreachable")
			continue
		}
		var bad *flow.State
		why := ""
		for _, st := range states {
			if infeasible(st) {
				continue
			}
			switch {
			case st.Is(ev(i), flow.True):
				bad, why = st, "the "+r.name+" flow can run twice for one request"
			case r.ident != nil && !st.Is(f.NilKey(r.ident), flow.False):
				bad, why = st, "the "+r.name+" flow is run without the "+r.name+" pipeline being known non-nil (nil dereference when no global filter supplies it)"
			case anyRan(st, len(order)) && !sawIs(st, flow.False):
				bad, why = st, "the "+r.name+" flow runs although an earlier flow may have reported END: something runs after END"
			case sawIs(st, flow.True):
				bad, why = st, "the "+r.name+" flow runs with the END flag set"
			}
			for j := range order {
				if bad != nil {
					break
				}
				if j > i && st.Is(ev(j), flow.True) {
					bad, why = st, "the "+r.name+" flow runs after the "+order[j].name+" flow (order must be before → main → after)"
				}
				if j < i && !st.Is(ev(j), flow.True) && !(order[j].ident != nil && st.Is(f.NilKey(order[j].ident), flow.True)) {
					bad, why = st, "the "+r.name+" flow runs although the "+order[j].name+" flow was neither run nor absent (nil)"
				}
			}
			if bad != nil {
				break
			}
		}
		c.Check(bad == nil, "R-C02-5", name+" gated correctly", pos(c, r.call),
			sprintf("%d states at the call: earlier flows ran or are nil, no END reported, pipeline non-nil, not run before", len(states)), why, witness(bad)...)
	}
	var badExit, badRet *flow.Exit
	whyExit := ""
	nexits := 0
	for _, ex := range res.Exits {
		if ex.Kind != flow.ExitReturn {
			continue
		}
		st := ex.State
		if infeasible(st) {
			continue
		}
		nexits++
		for i, r := range order {
			if st.Is(ev(i), flow.True) {
				continue
			}
			if r.ident != nil && st.Is(f.NilKey(r.ident), flow.True) {
				continue
			}
			if anyRan(st, i) && (sawIs(st, flow.True) || st.Is(evEnd, flow.True)) {
				continue
			}
			laterRan := false
			for j := i + 1; j < len(order); j++ {
				if st.Is(ev(j), flow.True) {
					laterRan = true
				}
			}
			if laterRan {
				continue
			}
			if badExit == nil {
				badExit, whyExit = ex, "the handler returns without having run the "+r.name+" flow although its pipeline is not nil and no flow reported END"
			}
		}
		okRet := false
		if ex.Return != nil && len(ex.Return.Results) == 1 {
			if sel, ok := ast.Unparen(ex.Return.Results[0]).(*ast.SelectorExpr); ok {
				if sl := f.Info.Selections[sel]; sl != nil && sl.Obj() == types.Object(a.resField) && d.norm(sel.X) == runN {
					okRet = true
				}
			}
		}
		if !okRet {
			badRet = ex
		}
	}
	exw := func(ex *flow.Exit) []string {
		if ex == nil {
			return nil
		}
		return append([]string{"exit at " + pos(c, ex.At)}, witness(ex.State)...)
	}
	c.RequireCount("R-C02-5", "exits of "+cons, nexits, 1)
	c.Check(badExit == nil, "R-C02-5", cons+"|a flow is skipped only when absent or after END", pos(c, fd),
		sprintf("%d exits: every flow ran, or its pipeline is nil, or END was reported", nexits), whyExit, exw(badExit)...)
	c.Check(badRet == nil, "R-C02-4", cons+"|result of the last flow run is returned", pos(c, fd),
		"the handler returns the result field of the run state every flow run writes",
		"the handler does not return the result field of the run state the flows were run on", exw(badRet)...)
	return len(pparams)
}

// c02GlobalFilterBuild: the before and the after pipeline are built independently of each other.
// In the function that (re)builds both holders, every returning exit has stored the after pipeline
// unless the after flow was found empty, and the before pipeline unless the before flow was found
// empty (paths that panic reject the generation and are not exits). A builder parameterised by
// (spec, holder) and called once per pipeline is followed: on entry of an inlined call the
// parameters inherit what their arguments stand for (which spec key, which holder).
func c02GlobalFilterBuild(c *core.Ctx, fb, fa, hBefore, hAfter *types.Var) {
	fFlow := c02FieldByYAML(c, c02pl, "Spec", "flow")
	pkg := c.Prog.Pkg(c02gf)
	if fFlow == nil || pkg == nil {
		return
	}
	tagOf := map[types.Object]string{fb: "specB", fa: "specA", hBefore: "holdB", hAfter: "holdA"}
	allTags := []string{"specB", "specA", "holdB", "holdA"}
	// what an expression stands for: fields named directly, plus what its identifiers were bound to
	tagsOf := func(g *flow.Func, st *flow.State, e ast.Expr) map[string]bool {
		out := map[string]bool{}
		ast.Inspect(e, func(n ast.Node) bool {
			switch x := n.(type) {
			case *ast.SelectorExpr:
				if sl := g.Info.Selections[x]; sl != nil {
					if t := tagOf[sl.Obj()]; t != "" {
						out[t] = true
					}
				}
			case *ast.Ident:
				if st != nil {
					r := g.Render(x)
					for _, t := range allTags {
						if st.Is("ev:tag:"+r+":"+t, flow.True) {
							out[t] = true
						}
					}
				}
			}
			return true
		})
		return out
	}
	isAtomicStore := func(g *flow.Func, call *ast.CallExpr) ast.Expr {
		sel, ok := ast.Unparen(call.Fun).(*ast.SelectorExpr)
		if !ok || sel.Sel.Name != "Store" {
			return nil
		}
		fo, ok := g.Info.Uses[sel.Sel].(*types.Func)
		if !ok || fo.Pkg() == nil || fo.Pkg().Path() != "sync/atomic" {
			return nil
		}
		return sel.X
	}
	// the builders: minimal functions whose reach stores (or hands to a storing callee) both holders
	storesBoth := func(g *flow.Func) bool {
		seen := map[string]bool{}
		for _, x := range reach(g, 3) {
			for _, call := range calls(x.Body, true) {
				if recv := isAtomicStore(x, call); recv != nil {
					for t := range tagsOf(x, nil, recv) {
						seen[t] = true
					}
				}
				if callee, ok := x.Callee(call).(*types.Func); ok && callee.Pkg() == pkg.Types && c02StoresIntoParam(pkg, callee) {
					for _, arg := range call.Args {
						if u, ok := ast.Unparen(arg).(*ast.UnaryExpr); ok && u.Op == token.AND {
							for t := range tagsOf(x, nil, u.X) {
								seen[t] = true
							}
						}
					}
				}
			}
		}
		return seen["holdB"] && seen["holdA"]
	}
	cands := funcsByRole(c, c02gf, func(g *flow.Func, fd *ast.FuncDecl) bool { return storesBoth(g) })
	var builders []*flow.Func
	for _, g := range cands {
		minimal := true
		for _, x := range reach(g, 3)[1:] {
			if storesBoth(x) {
				minimal = false
			}
		}
		if minimal {
			builders = append(builders, g)
		}
	}
	if !c.RequireCount("R-C02-5", "functions building both global-filter pipelines", len(builders), 1) {
		return
	}
	for _, f := range builders {
		fd := f.Node.(*ast.FuncDecl)
		cons := declName(f.Pkg, fd)
		// comparisons that test a flow for emptiness: len(X.Flow) ==/!= 0, len(..) > 0, X.Flow == nil …
		var emps []*ast.BinaryExpr
		for _, g := range reach(f, 3) {
			ast.Inspect(g.Body, func(n ast.Node) bool {
				be, ok := n.(*ast.BinaryExpr)
				if !ok {
					return true
				}
				switch be.Op {
				case token.EQL, token.NEQ, token.LSS, token.LEQ, token.GTR, token.GEQ:
				default:
					return true
				}
				mentionsFlow := false
				ast.Inspect(be, func(m ast.Node) bool {
					if se, ok := m.(*ast.SelectorExpr); ok {
						if sl := f.Info.Selections[se]; sl != nil && sl.Obj() == types.Object(fFlow) {
							mentionsFlow = true
						}
					}
					return true
				})
				if mentionsFlow {
					emps = append(emps, be)
				}
				return true
			})
		}
		// is the flow known empty after the comparison was decided?
		emptyKnown := func(st *flow.State, be *ast.BinaryExpr) bool {
			k, neg := f.Atom(be)
			v := st.Get(k)
			if v == flow.Unknown {
				return false
			}
			holds := (v == flow.True) != neg // truth of the comparison as written
			if f.Info.Types[be.X].IsNil() || f.Info.Types[be.Y].IsNil() {
				return (be.Op == token.EQL) == holds
			}
			lenLeft := false
			if call, ok := ast.Unparen(be.X).(*ast.CallExpr); ok {
				if b, ok := f.Callee(call).(*types.Builtin); ok && b.Name() == "len" {
					lenLeft = true
				}
			}
			cst := be.Y
			if !lenLeft {
				cst = be.X
			}
			tv := f.Info.Types[cst]
			if tv.Value == nil {
				return false
			}
			n := tv.Value.ExactString()
			op := be.Op
			if !lenLeft { // const OP len  →  len OP' const
				op = map[token.Token]token.Token{token.LSS: token.GTR, token.GTR: token.LSS, token.LEQ: token.GEQ, token.GEQ: token.LEQ, token.EQL: token.EQL, token.NEQ: token.NEQ}[op]
			}
			switch {
			case n == "0" && op == token.EQL, n == "0" && op == token.LEQ, n == "1" && op == token.LSS:
				return holds
			case n == "0" && op == token.NEQ, n == "0" && op == token.GTR, n == "1" && op == token.GEQ:
				return !holds
			}
			return false
		}
		ambiguous := false
		res := analyze(c, f, flow.Config{
			Inline: inlineSamePkg(f),
			OnInline: func(st *flow.State, ev *flow.InlineEvent) {
				if !ev.Enter {
					return
				}
				// evaluate all arguments in the caller's bindings first, then bind
				sets := make([]map[string]bool, len(ev.Params))
				for i := range ev.Params {
					if i < len(ev.Args) {
						sets[i] = tagsOf(f, st, ev.Args[i])
					}
				}
				for i, p := range ev.Params {
					r := f.Render(p)
					for _, t := range allTags {
						if sets[i][t] {
							st.Set("ev:tag:"+r+":"+t, flow.True)
						} else {
							st.Set("ev:tag:"+r+":"+t, flow.Unknown)
						}
					}
				}
			},
			OnCall: func(st *flow.State, call *ast.CallExpr, callee types.Object, deferred bool) {
				if recv := isAtomicStore(f, call); recv != nil {
					ts := tagsOf(f, st, recv)
					switch {
					case ts["holdB"] && ts["holdA"]:
						ambiguous = true
					case ts["holdB"]:
						st.Set("ev:stored:before", flow.True)
					case ts["holdA"]:
						st.Set("ev:stored:after", flow.True)
					}
				}
			},
			AfterAssume: func(st *flow.State, cond ast.Expr, outcome bool) {
				for _, be := range emps {
					if !emptyKnown(st, be) {
						continue
					}
					ts := tagsOf(f, st, be)
					switch {
					case ts["specB"] && ts["specA"]:
						ambiguous = true
					case ts["specB"]:
						st.Set("ev:empty:before", flow.True)
					case ts["specA"]:
						st.Set("ev:empty:after", flow.True)
					}
				}
			},
		})
		if res == nil {
			continue
		}
		if ambiguous {
			c.Undecide("R-C02-5", cons+"|after pipeline built whenever its flow is not empty", pos(c, fd), "a store or an emptiness test refers to both pipelines at once; cannot tell them apart")
			continue
		}
		for _, pr := range []struct{ name, other string }{{"before", "after"}, {"after", "before"}} {
			var bad *flow.Exit
			n := 0
			for _, ex := range res.Exits {
				if ex.Kind != flow.ExitReturn {
					continue
				}
				n++
				if !ex.State.Is("ev:stored:"+pr.name, flow.True) && !ex.State.Is("ev:empty:"+pr.name, flow.True) && bad == nil {
					bad = ex
				}
			}
			var w []string
			if bad != nil {
				w = append([]string{"exit at " + pos(c, bad.At)}, witness(bad.State)...)
			}
			c.Check(bad == nil && n > 0, "R-C02-5", cons+"|"+pr.name+" pipeline built whenever its flow is not empty", pos(c, fd),
				sprintf("all %d returning exits have stored the %s pipeline or found its flow empty", n, pr.name),
				"the function that builds the global filter's pipelines can return without having built the "+pr.name+" pipeline although the "+pr.name+
					" flow was not found empty (e.g. an early return taken for the "+pr.other+" pipeline also skips this one): a GlobalFilter configured with a "+pr.name+"Pipeline never runs its "+pr.name+" flow around the main flow", w...)
		}
	}
}

// c02StoresIntoParam reports whether fn (or a same-package function it reaches) calls
// (*atomic.Value).Store on one of its own *atomic.Value parameters.
func c02StoresIntoParam(pkg *packages.Package, fn *types.Func) bool {
	fd := declOf(pkg, fn)
	if fd == nil {
		return false
	}
	found := false
	for _, g := range reach(flow.NewFunc(pkg, fd), 3) {
		for _, call := range calls(g.Body, true) {
			sel, ok := ast.Unparen(call.Fun).(*ast.SelectorExpr)
			if !ok || sel.Sel.Name != "Store" {
				continue
			}
			fo, ok := g.Info.Uses[sel.Sel].(*types.Func)
			if !ok || fo.Pkg() == nil || fo.Pkg().Path() != "sync/atomic" {
				continue
			}
			if id, ok := ast.Unparen(sel.X).(*ast.Ident); ok {
				if v, ok := g.Info.Uses[id].(*types.Var); ok && !v.IsField() && v.Parent() != pkg.Types.Scope() {
					found = true
				}
			}
		}
	}
	return found
}
