package rules

// R-C04-3 (third follow-up): no call on stateful objects held by a balancer.
//
// A balancer is shared by all concurrent selections. Storing a *stateful* object in one of its
// fields (hash.Hash, bytes.Buffer, *rand.Rand, a map …) and using it from ChooseServer mutates
// shared state through method calls that the field-store audit of R-C04-3 cannot see (the field
// itself is written once; the object behind it changes on every request). For the hash policies
// this breaks stickiness under concurrency (two selections interleave Reset/Write/Sum32), for
// the others it is a data race that can corrupt the object or panic.
//
// Decided on SSA: in every implementation's ChooseServer (function literals and module callees
// included, shared values followed into callee parameters) a value of reference type (interface,
// pointer, map, chan) loaded from a field of a non-fresh object or from a package variable is
//   * never the receiver of an interface method call,
//   * never handed to a function outside the module (receiver or argument), except to
//     fmt/log/logger, to a value-receiver method, or to a type documented as safe for concurrent
//     read-only use (regexp.Regexp, url.URL, time.Location, net.IPNet),
//   * never updated/deleted/closed (maps, channels).
// Objects created inside the call (fnv.New32(), a pooled object taken from a sync.Pool) are not
// shared and are not restricted.
//
// Mutants (compile, package tests pass): round-3 seeded a (hasher hoisted into a field);
// random with a per-balancer `rnd *rand.Rand`; ipHash reusing a `buf *bytes.Buffer` field;
// headerHash passing the shared hasher to a package helper. Behaviour-preserving: hasher taken
// from a package-level sync.Pool; a `re *regexp.Regexp` field consulted read-only.

import (
	"go/token"
	"go/types"
	"strings"

	"golang.org/x/tools/go/ssa"

	"verif/internal/load"
)

var c04ConcurrentSafe = map[string]bool{
	"regexp.Regexp": true, "net/url.URL": true, "time.Location": true, "net.IPNet": true,
}

func c04RefLike(t types.Type) bool {
	switch t.Underlying().(type) {
	case *types.Interface, *types.Pointer, *types.Map, *types.Chan:
		return true
	}
	return false
}

func (s *c04Scan) sharedObjects(prog *ssa.Program) {
	c := s.c
	for _, im := range s.info.impls {
		root := prog.FuncValue(im.method)
		if root == nil || root.Blocks == nil {
			continue // reported by elements()
		}
		cons := im.cons + "|no call on stateful objects held by the balancer"
		sharedParam := map[*ssa.Parameter]string{}
		// origin describes where a shared value comes from ("" = not shared)
		var origin func(v ssa.Value, depth int) string
		origin = func(v ssa.Value, depth int) string {
			if depth > 8 || v == nil || !c04RefLike(v.Type()) {
				return ""
			}
			switch x := v.(type) {
			case *ssa.Parameter:
				return sharedParam[x]
			case *ssa.ChangeInterface:
				return origin(x.X, depth+1)
			case *ssa.MakeInterface:
				return origin(x.X, depth+1)
			case *ssa.TypeAssert:
				return origin(x.X, depth+1)
			case *ssa.Extract:
				if ta, ok := x.Tuple.(*ssa.TypeAssert); ok && x.Index == 0 {
					return origin(ta.X, depth+1)
				}
			case *ssa.ChangeType:
				return origin(x.X, depth+1)
			case *ssa.Phi:
				for _, e := range x.Edges {
					if o := origin(e, depth+1); o != "" {
						return o
					}
				}
			case *ssa.Field:
				if !c04FreshVal(x.X) {
					if f := c04FieldOf(x.X.Type(), x.Field); f != nil {
						return "field " + f.Name()
					}
				}
			case *ssa.UnOp:
				if x.Op != token.MUL {
					return ""
				}
				switch a := x.X.(type) {
				case *ssa.FieldAddr:
					if !c04Fresh(a) {
						if f := c04FieldOf(a.X.Type(), a.Field); f != nil {
							return "field " + f.Name()
						}
					}
				case *ssa.Global:
					return "package variable " + a.Name()
				}
			}
			return ""
		}
		work := []*ssa.Function{root}
		seen := map[*ssa.Function]bool{root: true}
		var badWhy string
		var badPos token.Pos
		flag := func(fn *ssa.Function, ins ssa.Instruction, why string) {
			if badWhy != "" {
				return
			}
			badWhy = why
			if fn != root {
				badWhy += " (in " + c04FnName(fn) + ", reached from ChooseServer)"
			}
			badPos = ins.Pos()
			if !badPos.IsValid() {
				badPos = fn.Pos()
			}
		}
		uses := 0
		for len(work) > 0 {
			fn := work[len(work)-1]
			work = work[:len(work)-1]
			for _, af := range fn.AnonFuncs {
				if !seen[af] {
					seen[af] = true
					work = append(work, af)
				}
			}
			for _, b := range fn.Blocks {
				for _, ins := range b.Instrs {
					if mu, ok := ins.(*ssa.MapUpdate); ok {
						if o := origin(mu.Map, 0); o != "" {
							flag(fn, ins, "the selection updates the map held in "+o)
						}
					}
					ci, ok := ins.(ssa.CallInstruction)
					if !ok {
						continue
					}
					cc := ci.Common()
					if cc.IsInvoke() {
						if o := origin(cc.Value, 0); o != "" {
							uses++
							flag(fn, ins, sprintf("the selection calls %s.%s on the object held in %s", types.TypeString(cc.Value.Type(), func(p *types.Package) string { return p.Name() }), cc.Method.Name(), o))
						}
						continue
					}
					pkg, name := c04CalleePkg(cc)
					callee := cc.StaticCallee()
					inModule := callee != nil && callee.Blocks != nil && callee.Pkg != nil && strings.HasPrefix(callee.Pkg.Pkg.Path(), load.ModulePath)
					passed := false
					for i, a := range cc.Args {
						o := origin(a, 0)
						if o == "" {
							continue
						}
						uses++
						switch {
						case pkg == "builtin" && (name == "len" || name == "cap"):
						case pkg == "builtin":
							flag(fn, ins, sprintf("the selection applies %s to the object held in %s", name, o))
						case pkg == "fmt" || pkg == "log" || pkg == Mod+"pkg/logger":
						case inModule:
							passed = true
							if i < len(callee.Params) && sharedParam[callee.Params[i]] == "" {
								sharedParam[callee.Params[i]] = o
								// parameter learnt (possibly late): (re)visit the callee once
								delete(seen, callee)
							}
						case callee == nil:
							// call of a function value with a shared argument: the callee is unknown
							flag(fn, ins, "the selection hands the object held in "+o+" to a function value")
						default:
							if i == 0 && callee.Signature.Recv() != nil {
								rt := callee.Signature.Recv().Type()
								if _, isPtr := rt.(*types.Pointer); !isPtr {
									continue // value receiver: works on a copy
								}
								if n, ok := c04Deref(rt).(*types.Named); ok && n.Obj().Pkg() != nil && c04ConcurrentSafe[n.Obj().Pkg().Path()+"."+n.Obj().Name()] {
									continue
								}
							}
							flag(fn, ins, sprintf("the selection calls %s.%s on/with the object held in %s", pkg, name, o))
						}
					}
					// other packages' code is audited only where a shared object is handed to it
					if inModule && !seen[callee] && (passed || callee.Pkg.Pkg.Path() == Mod+c04pkg) {
						seen[callee] = true
						work = append(work, callee)
					}
				}
			}
		}
		if badWhy != "" {
			extra := "concurrent selections mutate the same object without synchronisation (data race; the object can be corrupted or panic)"
			for _, p := range im.policies {
				if p == "ipHash" || p == "headerHash" {
					extra = "two selections running at the same time interleave their calls on the same object, so equal keys are sent to different servers although the list is unchanged (stickiness lost; also a data race)"
				}
			}
			c.Violate("R-C04-3", cons, c.Prog.Rel(badPos), badWhy+": a balancer is shared by all concurrent selections and "+extra+"; create the object inside the call instead")
		} else {
			c.Discharge("R-C04-3", cons, c.Prog.Rel(root.Pos()), sprintf("%d functions audited, %d uses of shared reference-typed values, none as receiver/argument of a call that may modify it", len(seen), uses))
		}
	}
}

// c04FreshVal: a struct value built in this function (not loaded from shared memory).
func c04FreshVal(v ssa.Value) bool {
	switch x := v.(type) {
	case *ssa.UnOp:
		if x.Op == token.MUL {
			return c04Fresh(x.X)
		}
	case *ssa.Field:
		return c04FreshVal(x.X)
	}
	return false
}
