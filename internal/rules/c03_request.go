package rules

import (
	"go/ast"
	"go/token"
	"go/types"
	"strings"

	"golang.org/x/tools/go/cfg"
	"golang.org/x/tools/go/packages"

	"verif/internal/core"
	"verif/internal/flow"
)

// c03Request decides R-C03-4 and the decision-table half of R-C03-5 on the function that
// builds the outbound request (the function storing the stripped header).
func c03Request(c *core.Ctx, f *flow.Func, stores []*c03hdrStore) {
	sc := newC03scope(f, 3)
	c03with(sc, func() { c03RequestIn(c, f, sc, stores) })
}

func c03RequestIn(c *core.Ctx, f *flow.Func, sc *c03scope, stores []*c03hdrStore) {
	name := c03fnName(f)
	// every syntactic search covers the builder and the same-package helpers it calls
	inspectAll := func(visit func(n ast.Node) bool) {
		for _, g := range sc.fns {
			ast.Inspect(g.Body, visit)
		}
	}
	reqT := namedType(c, c03hp, "Request")
	inField, outField := c03poolCtxFields(c)
	urlField := structField(c, c03px, "Server", "URL")
	aField := c03hostNameFlag(c)
	kField := structField(c, c03px, "Server", "KeepHost")
	hostField := c03stdField(c, "net/http", "Request", "Host")
	rawQuery := c03stdField(c, "net/url", "URL", "RawQuery")
	stdHeader := c03stdField(c, "net/http", "Request", "Header")
	if reqT == nil || inField == nil || outField == nil || urlField == nil || aField == nil || kField == nil || hostField == nil || rawQuery == nil {
		return
	}
	isReqType := func(t types.Type) bool {
		p, ok := t.(*types.Pointer)
		return ok && types.Identical(p.Elem(), reqT)
	}
	// inbound(e): e denotes the client's request
	var inbound func(e ast.Expr, depth int) bool
	inbound = func(e ast.Expr, depth int) bool {
		e = ast.Unparen(e)
		tv, ok := f.Info.Types[e]
		if !ok || !isReqType(tv.Type) || depth > 4 {
			return false
		}
		if c03fieldOf(f, e) == inField {
			return true
		}
		id, ok := e.(*ast.Ident)
		if !ok {
			return false
		}
		o := c03obj(f, id)
		defs := c03defs(f, o)
		if len(defs) == 0 {
			// a helper's parameter stands for the argument it is called with; a parameter of
			// the builder itself of type *httpprot.Request is the client's request
			if arg := sc.bindExpr[o]; arg != nil {
				return inbound(arg, depth+1)
			}
			_, isVar := o.(*types.Var)
			return isVar
		}
		for _, d := range defs {
			if d.rhs == nil || !inbound(d.rhs, depth+1) {
				return false
			}
		}
		return true
	}
	// inCall(e, method): e is a call of (*httpprot.Request).method on the inbound request
	inCall := func(e ast.Expr, methods ...string) bool {
		call, ok := ast.Unparen(e).(*ast.CallExpr)
		if !ok {
			return false
		}
		sel, ok := ast.Unparen(call.Fun).(*ast.SelectorExpr)
		if !ok || !inbound(sel.X, 0) {
			return false
		}
		for _, m := range methods {
			if calleeIs(f, call, "(*"+c03hp+".Request)."+m) {
				return true
			}
		}
		return false
	}
	// viaInbound: a selector chain that passes through a method call on the inbound request
	viaInbound := func(e ast.Expr, methods ...string) bool {
		hops := 0
		for e != nil {
			switch x := ast.Unparen(e).(type) {
			case *ast.SelectorExpr:
				e = x.X
			case *ast.CallExpr:
				if inCall(x, methods...) {
					return true
				}
				e = x.Fun
			case *ast.Ident:
				// a value cached in a local (u := req.Std().URL) or handed to a helper
				o := c03obj(f, x)
				defs := c03defs(f, o)
				switch {
				case len(defs) == 0 && sc.bindExpr[o] != nil:
					e = sc.bindExpr[o]
				case len(defs) == 1 && defs[0].rhs != nil:
					e = defs[0].rhs
				default:
					return false
				}
				if hops++; hops > 6 {
					return false
				}
			default:
				return false
			}
		}
		return false
	}

	// inAttr: e is attribute m of the inbound request, through the accessor or through the
	// equivalent field of the underlying http.Request
	stdEquiv := map[string]*types.Var{
		"Method":     c03stdField(c, "net/http", "Request", "Method"),
		"Host":       hostField,
		"HTTPHeader": stdHeader,
		"Path":       c03stdField(c, "net/url", "URL", "Path"),
	}
	var inAttr func(e ast.Expr, m string) bool
	inAttr = func(e ast.Expr, m string) bool {
		if id, ok := ast.Unparen(e).(*ast.Ident); ok {
			// a value passed through a local or a helper's parameter
			o := c03obj(f, id)
			if arg := sc.bindExpr[o]; arg != nil && len(c03defs(f, o)) == 0 {
				return inAttr(arg, m)
			}
			if defs := c03defs(f, o); len(defs) == 1 && defs[0].rhs != nil {
				return inAttr(defs[0].rhs, m)
			}
			return false
		}
		if inCall(e, m) {
			return true
		}
		if fv := stdEquiv[m]; fv != nil && c03fieldOf(f, e) == fv {
			return viaInbound(ast.Unparen(e).(*ast.SelectorExpr).X, "Std", "URL")
		}
		return false
	}

	// the request constructor
	var ctor []*ast.CallExpr
	for _, g := range sc.fns {
		ctor = append(ctor, callsTo(g, g.Body, false, "net/http.NewRequestWithContext", "net/http.NewRequest")...)
	}
	if len(ctor) != 1 {
		c.Undecide("R-C03-4", name+"|outbound request construction", pos(c, f.Node), sprintf("expected one http.NewRequest[WithContext] call, found %d", len(ctor)))
		return
	}
	newReq := ctor[0]
	off := 0
	if calleeIs(f, newReq, "net/http.NewRequestWithContext") {
		off = 1
	}
	if len(newReq.Args) != off+3 {
		c.Undecide("R-C03-4", name+"|outbound request construction", pos(c, newReq), "unexpected argument count")
		return
	}
	var outVar, errVar types.Object
	var errIdent *ast.Ident
	inspectAll(func(n ast.Node) bool {
		if as, ok := n.(*ast.AssignStmt); ok && len(as.Rhs) == 1 && ast.Unparen(as.Rhs[0]) == ast.Expr(newReq) && len(as.Lhs) == 2 {
			if id, ok := as.Lhs[0].(*ast.Ident); ok {
				outVar = c03obj(f, id)
			}
			if id, ok := as.Lhs[1].(*ast.Ident); ok && id.Name != "_" {
				errVar = c03obj(f, id)
				errIdent = id
			}
		}
		return true
	})
	if outVar == nil {
		// the constructor's results are returned by a helper: the request is what the helper's
		// caller assigns them to
		for _, g := range sc.fns {
			fd, ok := g.Node.(*ast.FuncDecl)
			if !ok {
				continue
			}
			returnsIt := false
			ast.Inspect(fd.Body, func(n ast.Node) bool {
				if r, ok := n.(*ast.ReturnStmt); ok && len(r.Results) == 1 && ast.Unparen(r.Results[0]) == ast.Expr(newReq) {
					returnsIt = true
				}
				return true
			})
			if !returnsIt {
				continue
			}
			helper := g.Info.Defs[fd.Name]
			inspectAll(func(n ast.Node) bool {
				as, ok := n.(*ast.AssignStmt)
				if !ok || len(as.Rhs) != 1 || len(as.Lhs) != 2 {
					return true
				}
				call, ok := ast.Unparen(as.Rhs[0]).(*ast.CallExpr)
				if !ok {
					return true
				}
				if fo, ok := f.Callee(call).(*types.Func); !ok || types.Object(fo.Origin()) != helper {
					return true
				}
				if id, ok := as.Lhs[0].(*ast.Ident); ok {
					outVar = c03obj(f, id)
				}
				if id, ok := as.Lhs[1].(*ast.Ident); ok && id.Name != "_" {
					errVar = c03obj(f, id)
					errIdent = id
				}
				return true
			})
		}
	}
	if outVar == nil {
		c.Undecide("R-C03-4", name+"|outbound request construction", pos(c, newReq), "the constructed request is not assigned to a variable")
		return
	}
	_ = errVar

	// --- method
	c.Check(inAttr(newReq.Args[off], "Method"), "R-C03-4", name+"|method", pos(c, newReq),
		"method argument is Method() of the inbound request",
		"the outbound request's method is not the inbound request's Method(): the backend receives a different method than the client sent")

	// --- URL shape
	type urlInfo struct {
		v        types.Object
		base     ast.Node // defining statement
		appendQ  ast.Node // statement appending "?"+query
		rq       ast.Expr // expression tested for emptiness
		ok       bool
		why      string
		violated bool
	}
	u := &urlInfo{}
	isRawQuery := func(e ast.Expr) bool {
		e = ast.Unparen(e)
		if c03fieldOf(f, e) == rawQuery {
			return viaInbound(e.(*ast.SelectorExpr).X, "Std", "URL")
		}
		if id, ok := e.(*ast.Ident); ok {
			defs := c03defs(f, c03obj(f, id))
			if len(defs) != 1 || defs[0].rhs == nil {
				return false
			}
			r := defs[0].rhs
			return c03fieldOf(f, r) == rawQuery && viaInbound(r.(*ast.SelectorExpr).X, "Std", "URL")
		}
		return false
	}
	isSvrURL := func(e ast.Expr) bool {
		if c03fieldOf(f, e) != urlField {
			return false
		}
		r := c03root(f, e)
		v, ok := r.(*types.Var)
		return ok && len(c03defs(f, v)) == 0 // a parameter (the chosen server)
	}
	// through: follow a value through plain locals and through the returns of helpers of the
	// scope down to the variable / expression that produced it
	through := func(e ast.Expr) ast.Expr {
		for depth := 0; depth < 4; depth++ {
			e = ast.Unparen(e)
			if id, ok := e.(*ast.Ident); ok {
				o := c03obj(f, id)
				if arg := sc.bindExpr[o]; arg != nil && len(c03defs(f, o)) == 0 {
					e = arg
					continue
				}
				defs := c03defs(f, o)
				if len(defs) == 1 && defs[0].rhs != nil {
					if _, exprs := sc.helperReturns(defs[0].rhs, 0); len(exprs) > 0 {
						e = defs[0].rhs
						continue
					}
					if rid, ok := defs[0].rhs.(*ast.Ident); ok && defs[0].tok == token.DEFINE {
						e = rid
						continue
					}
				}
				return e
			}
			_, exprs := sc.helperReturns(e, 0)
			if len(exprs) == 0 {
				return e
			}
			same := true
			for _, x := range exprs[1:] {
				if f.Render(x) != f.Render(exprs[0]) {
					same = false
				}
			}
			if !same {
				return e
			}
			e = exprs[0]
		}
		return e
	}
	classifyURL := func() {
		id, ok := through(newReq.Args[off+1]).(*ast.Ident)
		if !ok {
			u.why = "URL argument is not a local variable"
			return
		}
		u.v = c03obj(f, id)
		defs := c03defs(f, u.v)
		for i, d := range defs {
			as, _ := d.at.(*ast.AssignStmt)
			if as == nil || d.rhs == nil {
				u.why = "unrecognised assignment to the URL variable"
				return
			}
			leaves := c03leaves(d.rhs)
			if i == 0 {
				if as.Tok != token.DEFINE && as.Tok != token.ASSIGN {
					u.why = "first assignment to the URL variable is not a definition"
					return
				}
				if len(leaves) != 2 || !isSvrURL(leaves[0]) || !inAttr(leaves[1], "Path") {
					u.why = "URL is not <server URL> + <inbound Path()>"
					u.violated = len(leaves) == 2 // same shape, other operands: a different URL
					return
				}
				u.base = as
				continue
			}
			if u.appendQ != nil {
				u.why = "more than one append to the URL variable"
				return
			}
			if as.Tok == token.ASSIGN {
				if len(leaves) < 1 {
					return
				}
				if lid, ok := leaves[0].(*ast.Ident); !ok || c03obj(f, lid) != u.v {
					u.why = "URL variable overwritten"
					u.violated = true
					return
				}
				leaves = leaves[1:]
			} else if as.Tok != token.ADD_ASSIGN {
				u.why = "unrecognised operator on the URL variable"
				return
			}
			if len(leaves) != 2 {
				u.why = "appended text is not \"?\" + RawQuery"
				return
			}
			if tv, ok := f.Info.Types[leaves[0]]; !ok || tv.Value == nil || tv.Value.ExactString() != `"?"` {
				u.why = "appended separator is not \"?\""
				u.violated = true
				return
			}
			if !isRawQuery(leaves[1]) {
				u.why = "appended text is not the inbound RawQuery"
				u.violated = true
				return
			}
			u.appendQ = as
			u.rq = leaves[1]
		}
		if u.base == nil {
			u.why = "no definition of the URL variable"
			return
		}
		u.ok = true
	}
	classifyURL()
	if !u.ok {
		if u.violated {
			c.Violate("R-C03-4", name+"|URL", pos(c, newReq), u.why+": the backend is sent a different path/query than the client's")
		} else {
			c.Undecide("R-C03-4", name+"|URL", pos(c, newReq), u.why)
		}
	}

	// --- body variable
	var payVar types.Object
	payDirect := false
	// paySites: the statements that decide what the body is (assignments to the body variable,
	// or the return statements of a helper producing it) with the expression they yield
	paySites := map[ast.Node]ast.Expr{}
	var addPaySite func(at ast.Node, e ast.Expr, depth int)
	addPaySite = func(at ast.Node, e ast.Expr, depth int) {
		if rets, exprs := sc.helperReturns(e, 0); len(rets) > 0 && depth < 3 {
			for i, r := range rets {
				addPaySite(r, exprs[i], depth+1)
			}
			return
		}
		if id, ok := ast.Unparen(e).(*ast.Ident); ok && depth < 3 {
			// a local of the helper (named result, or a variable assigned on several paths)
			if defs := c03defs(f, c03obj(f, id)); len(defs) > 0 {
				zero := func(d c03def) bool {
					vs, ok := d.at.(*ast.ValueSpec)
					return ok && len(vs.Values) == 0
				}
				all := true
				for _, d := range defs {
					if d.rhs == nil && !zero(d) {
						all = false
					}
				}
				if all {
					for _, d := range defs {
						if zero(d) {
							paySites[d.at] = nil // declared without a value: no body yet
						} else {
							addPaySite(d.at, d.rhs, depth+1)
						}
					}
					return
				}
			}
		}
		paySites[at] = e
	}
	bodyArg := ast.Unparen(newReq.Args[off+2])
	if id, ok := bodyArg.(*ast.Ident); ok {
		payVar = c03obj(f, id)
		if arg := sc.bindExpr[payVar]; arg != nil && len(c03defs(f, payVar)) == 0 {
			addPaySite(newReq, arg, 0)
		} else {
			for _, d := range c03defs(f, payVar) {
				if d.rhs != nil {
					addPaySite(d.at, d.rhs, 0)
				} else {
					paySites[d.at] = nil
				}
			}
		}
	} else if inCall(bodyArg, "GetPayload") {
		payDirect = true
	} else if rets, _ := sc.helperReturns(bodyArg, 0); len(rets) > 0 {
		payVar = types.NewVar(token.NoPos, nil, "body", types.Typ[types.Invalid]) // marker: decided by paySites
		addPaySite(newReq, bodyArg, 0)
	}
	// mirror / stream atoms
	var mirrorKeys []string
	// modeParams: parameters of a named integer type (an enum-like mode replacing the mirror
	// flag): a comparison mode == <constant> known true plays the role of `mirror`
	var modeParams []string
	for _, g := range sc.fns {
		if fd, ok := g.Node.(*ast.FuncDecl); ok {
			for _, fl := range fd.Type.Params.List {
				for _, id := range fl.Names {
					pt := f.Info.Defs[id].Type()
					if b, ok := pt.Underlying().(*types.Basic); ok && b.Info()&types.IsInteger != 0 {
						if _, named := pt.(*types.Named); named {
							modeParams = append(modeParams, "eq:"+f.Render(id)+"==")
						}
					}
					if b, ok := f.Info.Defs[id].Type().Underlying().(*types.Basic); ok && b.Kind() == types.Bool {
						mirrorKeys = append(mirrorKeys, f.VarKey(id))
					}
				}
			}
		}
	}
	var streamCalls []*ast.CallExpr
	for _, g := range sc.fns {
		for _, call := range calls(g.Body, false) {
			if inCall(call, "IsStream") {
				streamCalls = append(streamCalls, call)
			}
		}
	}
	streamKnown := func(st *flow.State) bool {
		for _, sc := range streamCalls {
			if st.Is(f.CallKey(sc), flow.True) {
				return true
			}
		}
		return false
	}
	excused := func(st *flow.State) bool {
		mirror := false
		for _, k := range mirrorKeys {
			if st.Is(k, flow.True) {
				mirror = true
			}
		}
		if !mirror && len(modeParams) > 0 {
			for _, fa := range st.Facts() {
				for _, pre := range modeParams {
					if strings.HasPrefix(fa, pre) && strings.HasSuffix(fa, "=T") {
						mirror = true
					}
				}
			}
		}
		if !mirror {
			return false
		}
		for _, sc := range streamCalls {
			if st.Is(f.CallKey(sc), flow.True) {
				return true
			}
		}
		return false
	}

	// --- Host atoms
	var aKeys, kKeys []string
	inspectAll(func(n ast.Node) bool {
		if e, ok := n.(ast.Expr); ok {
			switch c03fieldOf(f, e) {
			case aField:
				k, _ := f.Atom(e)
				aKeys = append(aKeys, k)
			case kField:
				k, _ := f.Atom(e)
				kKeys = append(kKeys, k)
			}
		}
		return true
	})

	const (
		evQ       = "ev:query"
		evPayOrig = "ev:payload:orig"
		evPayBad  = "ev:payload:bad"
		evHdr     = "ev:header"
		evHost    = "ev:host"
		evStored  = "ev:stored"
		evBuilt   = "ev:built"
	)
	isStoreTo := func(l ast.Expr, field *types.Var) bool {
		return c03fieldOf(f, l) == field && c03rootOf(f, l) == outVar
	}
	hostRHSok := true
	var hostStores []*ast.AssignStmt
	var storeBad ast.Node
	hdrArgOK := true
	for _, s := range stores {
		if s.src != nil { // header function inlined: the clone's source
			if !inAttr(s.src, "HTTPHeader") {
				hdrArgOK = false
			}
			continue
		}
		if s.call == nil || len(s.call.Args) != 1 {
			continue
		}
		arg := s.call.Args[0]
		if !inAttr(arg, "HTTPHeader") {
			hdrArgOK = false
		}
	}
	paySite := func(st *flow.State, n ast.Node) {
		e, ok := paySites[n]
		if !ok {
			return
		}
		if e != nil && inCall(e, "GetPayload") {
			st.Set(evPayOrig, flow.True)
			st.Set(evPayBad, flow.Unknown)
			return
		}
		st.Set(evPayOrig, flow.Unknown)
		st.Set("ev:payload:mirror?", flow.Unknown)
		switch {
		case excused(st):
			st.Set(evPayBad, flow.Unknown)
		case len(mirrorKeys) == 0 && len(modeParams) == 0 && streamKnown(st):
			// no boolean parameter in sight: the mirror case may have been split off into a
			// function of its own — a replaced stream body there cannot be told from a wrong body
			st.Set(evPayBad, flow.Unknown)
			st.Set("ev:payload:mirror?", flow.True)
		default:
			st.Set(evPayBad, flow.True)
		}
	}
	res := analyze(c, f, flow.Config{
		NoHavoc: true,
		Inline:  sc.inline(),
		OnCall: func(st *flow.State, call *ast.CallExpr, callee types.Object, deferred bool) {
			if call == newReq {
				paySite(st, call)
				st.Set(evBuilt, flow.True)
			}
		},
		OnNode: func(st *flow.State, n ast.Node) {
			if _, isCall := n.(*ast.CallExpr); !isCall {
				paySite(st, n)
			}
			as, ok := n.(*ast.AssignStmt)
			if !ok {
				return
			}
			if as == u.appendQ {
				st.Set(evQ, flow.True)
			}
			for i, l := range as.Lhs {
				if c03fieldOf(f, l) == hostField && c03root(f, l) != nil && isStoreTo(l, hostField) {
					st.Set(evHost, flow.True)
				}
				if isStoreTo(l, stdHeader) {
					st.Set(evHdr, flow.True)
				}
				if c03fieldOf(f, l) == outField && len(as.Lhs) == len(as.Rhs) {
					if id, ok := ast.Unparen(as.Rhs[i]).(*ast.Ident); ok && c03obj(f, id) == outVar {
						st.Set(evStored, flow.True)
					} else {
						st.Set(evStored, flow.False)
					}
				}
			}
		},
	})
	if res == nil {
		return
	}
	// static facts about the stores
	inspectAll(func(n ast.Node) bool {
		as, ok := n.(*ast.AssignStmt)
		if !ok || len(as.Lhs) != len(as.Rhs) {
			return true
		}
		for i, l := range as.Lhs {
			if isStoreTo(l, hostField) {
				hostStores = append(hostStores, as)
				if !inAttr(as.Rhs[i], "Host") {
					hostRHSok = false
				}
			}
			if c03fieldOf(f, l) == outField {
				if id, ok := ast.Unparen(as.Rhs[i]).(*ast.Ident); !ok || c03obj(f, id) != outVar {
					storeBad = as
				}
			}
		}
		return true
	})

	// --- query decision table
	if u.ok {
		var bad *flow.State
		why := ""
		if u.appendQ == nil {
			why = "the inbound RawQuery is never appended to the outbound URL: the backend receives no query string"
			c.Violate("R-C03-4", name+"|query", pos(c, newReq), why)
		} else {
			for _, st := range res.At[newReq] {
				e := c03empty(f, st, u.rq)
				q := st.Is(evQ, flow.True)
				switch {
				case q && e != flow.False:
					bad, why = st, "\"?\" is appended although the RawQuery may be empty: a request without query is forwarded as \"path?\""
				case !q && e != flow.True:
					bad, why = st, "the outbound URL is built without the inbound RawQuery although it may be non-empty: the backend receives no query string"
				}
				if bad != nil {
					break
				}
			}
			c.Check(bad == nil, "R-C03-4", name+"|query", pos(c, u.appendQ),
				sprintf("%d states reach the constructor; \"?\"+RawQuery appended exactly when RawQuery is non-empty", len(res.At[newReq])), why, witness(bad)...)
		}
	}
	// --- body
	if payDirect {
		c.Discharge("R-C03-4", name+"|body", pos(c, newReq), "body argument is GetPayload() of the inbound request")
	} else if payVar == nil {
		c.Violate("R-C03-4", name+"|body", pos(c, newReq), "the outbound body is not the inbound request's GetPayload(): the backend receives other body bytes than the client sent")
	} else {
		var bad, maybeMirror *flow.State
		direct, atCall := paySites[newReq]
		for _, st := range res.At[newReq] {
			if st.Is("ev:payload:mirror?", flow.True) {
				maybeMirror = st
				continue
			}
			if atCall {
				// the argument expression itself decides (states at a call are recorded before it)
				if !(direct != nil && inCall(direct, "GetPayload")) && !excused(st) {
					bad = st
					break
				}
				continue
			}
			if !st.Is(evPayOrig, flow.True) && (st.Is(evPayBad, flow.True) || !excused(st)) {
				bad = st
				break
			}
		}
		if bad == nil && maybeMirror != nil {
			c.Undecide("R-C03-4", name+"|body", pos(c, newReq), "a stream body is replaced in a builder without a mirror flag: cannot tell a mirror-only builder from a wrong body")
		} else {
			c.Check(bad == nil, "R-C03-4", name+"|body", pos(c, newReq),
				"the body is GetPayload() of the inbound request on every path except mirror+stream",
				"on some path other than mirror+stream the outbound body is not the inbound request's GetPayload(): the backend receives other body bytes than the client sent", witness(bad)...)
		}
	}
	// --- header argument
	c.Check(hdrArgOK, "R-C03-4", name+"|header source", pos(c, stores[0].assign),
		"the header function is applied to the inbound request's header",
		"the header function is not applied to the inbound request's header: end-to-end headers of the client are not what the backend receives")

	// --- exits
	success := func(ex *flow.Exit) bool {
		if ex.Kind != flow.ExitReturn || !ex.State.Is(evBuilt, flow.True) {
			return false
		}
		if errIdent != nil && ex.State.Is(f.NilKey(errIdent), flow.False) {
			return false
		}
		return true
	}
	var badHdr, badStored, badHostSet, badHostUnset *flow.State
	nSucc := 0
	val := func(st *flow.State, keys []string) flow.Val {
		for _, k := range keys {
			if v := st.Get(k); v != flow.Unknown {
				return v
			}
		}
		return flow.Unknown
	}
	for _, ex := range res.Exits {
		if !success(ex) {
			continue
		}
		nSucc++
		st := ex.State
		if !st.Is(evHdr, flow.True) && badHdr == nil {
			badHdr = st
		}
		if !st.Is(evStored, flow.True) && badStored == nil {
			badStored = st
		}
		if !st.Is(evHost, flow.True) && !(val(st, aKeys) == flow.True && val(st, kKeys) == flow.False) && badHostUnset == nil {
			badHostUnset = st
		}
	}
	for _, as := range hostStores {
		for _, st := range res.At[as] {
			if !(val(st, aKeys) == flow.False || val(st, kKeys) == flow.True) && badHostSet == nil {
				badHostSet = st
			}
		}
	}
	c.RequireCount("R-C03-4", "successful exits of the request builder", nSucc, 1)
	c.Check(badHdr == nil, "R-C03-4", name+"|header stored on every successful exit", pos(c, stores[0].assign),
		sprintf("%d successful exits, all after the Header store", nSucc),
		"a successful exit is reachable without the stripped header having been stored: the outbound request carries no client headers", witness(badHdr)...)
	storedHow := "the constructed request is stored to the context's outbound-request field on every successful exit"
	if badStored != nil && storeBad == nil {
		// other style: the builder hands the request back and its callers store it
		returned := nSucc > 0
		for _, ex := range res.Exits {
			if !success(ex) {
				continue
			}
			r := ex.Return
			if r == nil || len(r.Results) < 1 {
				returned = false
				continue
			}
			if id, ok := ast.Unparen(r.Results[0]).(*ast.Ident); !ok || c03canon(f, c03obj(f, id)) != outVar {
				returned = false
			}
		}
		if returned {
			if n, ok := c03callersStore(c, f, outField); ok {
				badStored = nil
				storedHow = sprintf("the constructed request is returned on every successful exit and each of the %d caller(s) stores it to the context's outbound-request field before going on", n)
			}
		}
	}
	c.Check(badStored == nil && storeBad == nil, "R-C03-4", name+"|built request is the one sent", pos(c, newReq),
		storedHow,
		"the request stored for sending is not the one that was constructed from the inbound request", witness(badStored)...)

	// --- R-C03-5 decision table
	c.Check(hostRHSok, "R-C03-5", name+"|Host value", pos(c, f.Node),
		"the outbound Host is assigned Host() of the inbound request",
		"the outbound Host is assigned something other than the inbound request's Host()")
	c.Check(badHostSet == nil, "R-C03-5", name+"|Host kept only for IP-addressed or keepHost servers", pos(c, f.Node),
		sprintf("%d Host store(s), each reached only with addrIsHostName=false or KeepHost=true", len(hostStores)),
		"the client's Host is sent to a host-named server without keepHost: virtual-host backends receive the gateway's public name instead of their own", witness(badHostSet)...)
	c.Check(badHostUnset == nil, "R-C03-5", name+"|Host kept for every IP-addressed or keepHost server", pos(c, f.Node),
		"every successful exit without the Host store has addrIsHostName=true and KeepHost=false",
		"a successful exit leaves the outbound Host at the server address although the server is IP-addressed or keepHost: the backend does not receive the client's Host", witness(badHostUnset)...)
}

// c03AddrClassifier decides the second half of R-C03-5: who writes addrIsHostName, with what,
// and that it runs for every server before every NewLoadBalancer.
func c03AddrClassifier(c *core.Ctx) {
	aField := c03hostNameFlag(c)
	if aField == nil {
		return
	}
	writers := map[*types.Func]bool{}
	nWrites := 0
	eachFunc(c, func(pkg *packages.Package, fd *ast.FuncDecl) {
		f := flow.NewFunc(pkg, fd)
		ast.Inspect(fd.Body, func(n ast.Node) bool {
			switch x := n.(type) {
			case *ast.AssignStmt:
				for _, l := range x.Lhs {
					if c03fieldOf(f, l) != aField {
						continue
					}
					nWrites++
					cons := declName(pkg, fd) + "|write of addrIsHostName"
					fo, _ := pkg.TypesInfo.Defs[fd.Name].(*types.Func)
					// the server classified is the one handed to the function (receiver or parameter)
					recvOK := false
					if fd.Recv != nil && len(fd.Recv.List) == 1 && len(fd.Recv.List[0].Names) == 1 {
						recvOK = c03rootOf(f, l) == pkg.TypesInfo.Defs[fd.Recv.List[0].Names[0]]
					}
					for _, fl := range fd.Type.Params.List {
						for _, id := range fl.Names {
							if c03rootOf(f, l) == pkg.TypesInfo.Defs[id] {
								recvOK = true
							}
						}
					}
					if !recvOK || fo == nil {
						c.Violate("R-C03-5", cons, pos(c, x), "addrIsHostName is written for a server other than the one handed to the classifier: the Host rule no longer follows the server address")
						continue
					}
					writers[fo] = true
					c03classifierValue(c, f, x, l, cons)
				}
			case *ast.KeyValueExpr:
				if id, ok := x.Key.(*ast.Ident); ok && pkg.TypesInfo.Uses[id] == aField {
					nWrites++
					c.Violate("R-C03-5", declName(pkg, fd)+"|write of addrIsHostName", pos(c, x), "addrIsHostName is set in a literal instead of being derived from the server address")
				}
			}
			return true
		})
	})
	if !c.RequireCount("R-C03-5", "writes of Server.addrIsHostName", nWrites, 1) {
		return
	}
	// every NewLoadBalancer call receives servers that have all been classified: by a covering
	// loop before the call (here, in a helper, or in every caller that hands the servers in), or
	// — for a field of the pool's spec — by a covering loop where the pool is constructed
	k := &c03cls{c: c, writers: writers}
	sites := 0
	// the load-balancer constructors, by role: functions/methods of the package that take a
	// []*Server and return a LoadBalancer (the interface or an implementation of it). A call
	// site is a call to one of them from a function that is not itself such a constructor
	// (NewLoadBalancer → newRoundRobinLoadBalancer …, or a thin wrapper over a spec method).
	lbIface, _ := func() (*types.Interface, bool) {
		nt := namedType(c, c03px, "LoadBalancer")
		if nt == nil {
			return nil, false
		}
		it, ok := nt.Underlying().(*types.Interface)
		return it, ok
	}()
	serverT := namedType(c, c03px, "Server")
	isServers := func(t types.Type) bool {
		sl, ok := t.(*types.Slice)
		if !ok || serverT == nil {
			return false
		}
		p, ok := sl.Elem().(*types.Pointer)
		return ok && types.Identical(p.Elem(), serverT)
	}
	ctorArg := map[types.Object]int{} // constructor → index of its []*Server parameter
	if lbIface != nil {
		for _, g := range funcsByRole(c, c03px, func(g *flow.Func, fd *ast.FuncDecl) bool { return true }) {
			fo, ok := g.Info.Defs[g.Node.(*ast.FuncDecl).Name].(*types.Func)
			if !ok {
				continue
			}
			sig := fo.Type().(*types.Signature)
			if sig.Results().Len() != 1 {
				continue
			}
			rt := sig.Results().At(0).Type()
			if !types.Implements(rt, lbIface) && !types.Identical(rt.Underlying(), lbIface) {
				continue
			}
			for i := 0; i < sig.Params().Len(); i++ {
				if isServers(sig.Params().At(i).Type()) {
					ctorArg[fo] = i
				}
			}
		}
	}
	eachFunc(c, func(pkg *packages.Package, fd *ast.FuncDecl) {
		if relPkg(pkg.PkgPath) != c03px {
			return
		}
		if _, isCtor := ctorArg[pkg.TypesInfo.Defs[fd.Name]]; isCtor {
			return
		}
		f := funcOf(pkg, fd)
		type lbSite struct {
			call *ast.CallExpr
			arg  ast.Expr
		}
		var lbCalls []lbSite
		for _, call := range calls(fd.Body, true) {
			fo, ok := f.Callee(call).(*types.Func)
			if !ok {
				continue
			}
			if i, isCtor := ctorArg[fo.Origin()]; isCtor && i < len(call.Args) {
				lbCalls = append(lbCalls, lbSite{call, call.Args[i]})
			}
		}
		if len(lbCalls) == 0 {
			return
		}
		name := declName(pkg, fd)
		c.Count("functions_analysed", 1)
		for _, lb := range lbCalls {
			sites++
			cons := name + "|servers classified before NewLoadBalancer"
			// a call inside a function literal is analysed in its literal
			unit := f
			for _, u := range c03units(f) {
				if u != f && contains(u.Node, lb.call) {
					unit = u
				}
			}
			r := k.at(unit, lb.call, lb.arg, 0)
			switch r.verdict {
			case "ok":
				c.Discharge("R-C03-5", cons, pos(c, lb.call), r.why)
			case "bad":
				c.Violate("R-C03-5", cons, pos(c, r.at), r.why, witness(r.st)...)
			default:
				c.Undecide("R-C03-5", cons, pos(c, r.at), r.why)
			}
		}
	})
	c.RequireCount("R-C03-5", "load-balancer constructor call sites in "+c03px, sites, 1)
}

// c03classifierValue decides that the value stored to addrIsHostName by `store` is
// "net.ParseIP(host) == nil", however it is spelled (through a local, a named boolean, an
// if/else with constants, a negation of the opposite test): on every exit after the store the
// stored boolean and the nil-ness of the ParseIP result are both known and agree.
func c03classifierValue(c *core.Ctx, f *flow.Func, store *ast.AssignStmt, lhs ast.Expr, cons string) {
	sc := newC03scope(f, 2)
	var nilKeys []string
	for _, g := range sc.fns {
		for _, call := range callsTo(g, g.Body, true, "net.ParseIP") {
			nilKeys = append(nilKeys, f.NilKey(call))
		}
		ast.Inspect(g.Body, func(n ast.Node) bool {
			if as, ok := n.(*ast.AssignStmt); ok && len(as.Lhs) == len(as.Rhs) {
				for i, r := range as.Rhs {
					if call, ok := ast.Unparen(r).(*ast.CallExpr); ok && calleeIs(f, call, "net.ParseIP") {
						if id, ok := ast.Unparen(as.Lhs[i]).(*ast.Ident); ok {
							nilKeys = append(nilKeys, f.NilKey(id))
						}
					}
				}
			}
			return true
		})
	}
	if len(nilKeys) == 0 {
		c.Violate("R-C03-5", cons, pos(c, store), "addrIsHostName is not derived from net.ParseIP of the server's host: host-named and IP-addressed servers are no longer told apart for the Host rule")
		return
	}
	valKey := f.VarKey(lhs)
	var res *flow.Result
	c03with(sc, func() {
		res = analyze(c, f, flow.Config{
			NoHavoc: true,
			Inline:  sc.inline(),
			OnNode: func(st *flow.State, n ast.Node) {
				if n == ast.Node(store) {
					st.Set("ev:stored", flow.True)
				}
			},
		})
	})
	if res == nil {
		return
	}
	var inverted, unknown *flow.State
	n := 0
	for _, ex := range res.Exits {
		st := ex.State
		if ex.Kind != flow.ExitReturn || !st.Is("ev:stored", flow.True) {
			continue
		}
		n++
		v := st.Get(valKey)
		isNil := flow.Unknown
		for _, k := range nilKeys {
			if x := st.Get(k); x != flow.Unknown {
				isNil = x
			}
		}
		switch {
		case v == flow.Unknown || isNil == flow.Unknown:
			if unknown == nil {
				unknown = st
			}
		case v != isNil:
			if inverted == nil {
				inverted = st
			}
		}
	}
	switch {
	case inverted != nil:
		c.Violate("R-C03-5", cons, pos(c, store), "addrIsHostName is true exactly for IP addresses (inverted test): host-named servers get the client's Host, IP-addressed servers do not", witness(inverted)...)
	case unknown != nil || n == 0:
		c.Undecide("R-C03-5", cons, pos(c, store), "cannot relate the stored value to net.ParseIP(host) == nil")
	default:
		c.Discharge("R-C03-5", cons, pos(c, store), sprintf("on all %d exits after the store addrIsHostName = (net.ParseIP(host) == nil)", n))
	}
}

// c03callersStore: every same-package call site of builder assigns its first result to a
// variable that is stored to field out on every exit of the caller that is reached with a
// nil error (or, when the error is not tested, on every exit after the call).
func c03callersStore(c *core.Ctx, builder *flow.Func, out *types.Var) (int, bool) {
	fd, ok := builder.Node.(*ast.FuncDecl)
	if !ok {
		return 0, false
	}
	callee := builder.Info.Defs[fd.Name]
	sites, okAll := 0, true
	for _, file := range builder.Pkg.Syntax {
		for _, d := range file.Decls {
			cfd, ok := d.(*ast.FuncDecl)
			if !ok || cfd.Body == nil || cfd == fd {
				continue
			}
			ctop := flow.NewFunc(builder.Pkg, cfd)
			for _, g := range c03units(ctop) {
				ast.Inspect(g.Body, func(n ast.Node) bool {
					if lit, isLit := n.(*ast.FuncLit); isLit && ast.Node(lit) != g.Node {
						return false
					}
					as, ok := n.(*ast.AssignStmt)
					if !ok || len(as.Rhs) != 1 {
						return true
					}
					call, ok := ast.Unparen(as.Rhs[0]).(*ast.CallExpr)
					if !ok {
						return true
					}
					if fo, ok := g.Callee(call).(*types.Func); !ok || types.Object(fo.Origin()) != callee {
						return true
					}
					sites++
					if len(as.Lhs) < 1 {
						okAll = false
						return true
					}
					rid, ok := ast.Unparen(as.Lhs[0]).(*ast.Ident)
					if !ok || rid.Name == "_" {
						// assigned straight into the field?
						if c03fieldOf(g, as.Lhs[0]) != out {
							okAll = false
						}
						return true
					}
					rv := c03obj(g, rid)
					var errID *ast.Ident
					if len(as.Lhs) == 2 {
						if id, ok := ast.Unparen(as.Lhs[1]).(*ast.Ident); ok && id.Name != "_" {
							errID = id
						}
					}
					res := analyze(c, g, flow.Config{
						NoHavoc: true,
						OnNode: func(st *flow.State, m ast.Node) {
							if m == ast.Node(as) {
								st.Set("ev:built", flow.True)
								st.Set("ev:kept", flow.Unknown)
							}
							if s2, ok := m.(*ast.AssignStmt); ok && len(s2.Lhs) == len(s2.Rhs) {
								for i, l := range s2.Lhs {
									if c03fieldOf(g, l) == out {
										if id, ok := ast.Unparen(s2.Rhs[i]).(*ast.Ident); ok && c03canon(g, c03obj(g, id)) == rv {
											st.Set("ev:kept", flow.True)
										}
									}
								}
							}
						},
					})
					if res == nil {
						okAll = false
						return true
					}
					for _, ex := range res.Exits {
						st := ex.State
						if ex.Kind != flow.ExitReturn || !st.Is("ev:built", flow.True) || st.Is("ev:kept", flow.True) {
							continue
						}
						if errID != nil && st.Is(g.NilKey(errID), flow.False) {
							continue
						}
						okAll = false
					}
					return true
				})
			}
		}
	}
	return sites, sites > 0 && okAll
}

// c03cls decides "the servers handed to a call have all been classified".
type c03cls struct {
	c       *core.Ctx
	writers map[*types.Func]bool
	fieldOK map[*types.Var]string
}

type c03clsResult struct {
	verdict string // ok | bad | undecided
	st      *flow.State
	at      ast.Node
	why     string
}

// writerOnElem: call hands the loop's current element to a writer of the flag.
func (k *c03cls) writerOnElem(f *flow.Func, lp *c03loop, call *ast.CallExpr) bool {
	fo, ok := f.Callee(call).(*types.Func)
	if !ok || !k.writers[fo.Origin()] && !k.writers[fo] {
		return false
	}
	if sel, ok := ast.Unparen(call.Fun).(*ast.SelectorExpr); ok && lp.isElem(f, sel.X) {
		return true
	}
	for _, a := range call.Args {
		if lp.isElem(f, a) {
			return true
		}
	}
	return false
}

// at: when `call` is reached in f, every element of the collection `arg` has been classified.
func (k *c03cls) at(f *flow.Func, call *ast.CallExpr, arg ast.Expr, depth int) c03clsResult {
	c := k.c
	sc := newC03scope(f, 2)
	type cand struct {
		rs   ast.Stmt
		coll ast.Expr
		call *ast.CallExpr
		it   *c03iter
		// the loop lives in a callback iterator (eachServer(list, func(s) bool {…})): its early
		// exits depend on the callback's result
		viaCallback, callbackAlwaysTrue bool
	}
	var cands []*cand
	var res *flow.Result
	var sv types.Object
	var field *types.Var
	anyWriter := false
	c03with(sc, func() {
		resolved, _ := c03resolveLocal(f, arg)
		if fv := c03fieldOf(f, resolved); fv != nil {
			field = fv
		} else {
			sv = c03rootOf(f, arg)
		}
		same := func(coll ast.Expr) bool {
			rc, _ := c03resolveLocal(f, coll)
			if field != nil {
				return c03fieldOf(f, rc) == field
			}
			_, isIdent := ast.Unparen(coll).(*ast.Ident)
			return isIdent && sv != nil && c03rootOf(f, coll) == sv
		}
		for _, g := range sc.fns {
			for _, cl := range calls(g.Body, true) {
				if fo, ok := f.Callee(cl).(*types.Func); ok && (k.writers[fo] || k.writers[fo.Origin()]) {
					anyWriter = true
				}
			}
			for _, lp := range c03loops(f, g.Body) {
				if !same(lp.coll) {
					continue
				}
				found := false
				for _, cl := range calls(lp.body, false) {
					if k.writerOnElem(f, lp, cl) {
						cands = append(cands, &cand{rs: lp.stmt, coll: lp.coll, call: cl, it: newC03iter(f, lp.stmt, nil)})
						found = true
						break
					}
				}
				if found {
					continue
				}
				// callback iterator: the loop body hands the element to a func parameter that is
				// bound, at the iterator's call site, to a literal classifying its parameter
				for _, cl := range calls(lp.body, false) {
					id, ok := ast.Unparen(cl.Fun).(*ast.Ident)
					if !ok {
						continue
					}
					bound, _ := ast.Unparen(sc.bindExpr[c03obj(f, id)]).(*ast.FuncLit)
					if bound == nil {
						if be := sc.bindExpr[c03obj(f, id)]; be != nil {
							r, _ := c03resolveLocal(f, be)
							bound, _ = r.(*ast.FuncLit)
						}
					}
					if bound == nil || bound.Type.Params == nil {
						continue
					}
					var litParams []types.Object
					for _, fl := range bound.Type.Params.List {
						for _, pid := range fl.Names {
							litParams = append(litParams, f.Info.Defs[pid])
						}
					}
					var p types.Object
					for j, a := range cl.Args {
						if lp.isElem(f, a) && j < len(litParams) {
							p = litParams[j]
						}
					}
					if p == nil {
						continue
					}
					var wcall *ast.CallExpr
					for _, stmt := range bound.Body.List {
						es, ok := stmt.(*ast.ExprStmt)
						if !ok {
							// a statement that can leave the callback before the classifier is reached
							jumps := false
							ast.Inspect(stmt, func(n ast.Node) bool {
								switch n.(type) {
								case *ast.BranchStmt, *ast.ReturnStmt:
									jumps = true
								}
								return true
							})
							if jumps {
								break
							}
							continue
						}
						wc, ok := es.X.(*ast.CallExpr)
						if !ok {
							continue
						}
						fo, ok := f.Callee(wc).(*types.Func)
						if !ok || !(k.writers[fo] || k.writers[fo.Origin()]) {
							continue
						}
						isP := func(e ast.Expr) bool {
							pid, ok := ast.Unparen(e).(*ast.Ident)
							return ok && c03obj(f, pid) == p
						}
						if sel, ok := ast.Unparen(wc.Fun).(*ast.SelectorExpr); ok && isP(sel.X) {
							wcall = wc
						}
						for _, a := range wc.Args {
							if isP(a) {
								wcall = wc
							}
						}
					}
					if wcall == nil {
						continue
					}
					alwaysTrue := true
					ast.Inspect(bound.Body, func(n ast.Node) bool {
						switch r := n.(type) {
						case *ast.FuncLit:
							return false
						case *ast.ReturnStmt:
							for _, e := range r.Results {
								if tv, ok := f.Info.Types[e]; !ok || tv.Value == nil || tv.Value.ExactString() != "true" {
									alwaysTrue = false
								}
							}
						}
						return true
					})
					// the callback is invoked unconditionally in every iteration: its call sits in the
					// first statement of the loop body that can branch (expression statement,
					// assignment, or the condition of an if)
					uncond := false
					for _, stmt := range lp.body.List {
						holds := contains(stmt, cl)
						if holds {
							switch x := stmt.(type) {
							case *ast.ExprStmt, *ast.AssignStmt:
								uncond = true
							case *ast.IfStmt:
								uncond = contains(x.Cond, cl) || (x.Init != nil && contains(x.Init, cl))
							}
							break
						}
						jumps := false
						ast.Inspect(stmt, func(n ast.Node) bool {
							switch n.(type) {
							case *ast.BranchStmt, *ast.ReturnStmt:
								jumps = true
							}
							return true
						})
						if jumps {
							break
						}
					}
					cands = append(cands, &cand{rs: lp.stmt, coll: lp.coll, call: wcall, it: newC03iter(f, lp.stmt, nil), viaCallback: true, callbackAlwaysTrue: alwaysTrue && uncond})
					break
				}
			}
		}
		res = analyze(c, f, flow.Config{
			NoHavoc: true,
			Inline:  sc.inline(),
			Track:   c03trackEmptiness,
			AfterAssume: func(st *flow.State, cond ast.Expr, outcome bool) {
				// a guard hoisted out of the loop: no servers, nothing to classify
				if c03emptyColl(f, st, arg) {
					st.Set("ev:classified", flow.True)
				}
				for _, cd := range cands {
					if c03emptyColl(f, st, cd.coll) {
						st.Set("ev:classified", flow.True)
					}
				}
			},
			OnBlock: func(st *flow.State, b *cfg.Block) {
				for _, cd := range cands {
					cd.it.block(st, b)
					if c03atHead(b, cd.rs) {
						st.Set("ev:classified", flow.True)
					}
				}
			},
			OnCall: func(st *flow.State, cl *ast.CallExpr, callee types.Object, deferred bool) {
				for _, cd := range cands {
					if cl == cd.call {
						cd.it.mark(st)
					}
				}
			},
			OnNode: func(st *flow.State, n ast.Node) {
				if as, ok := n.(*ast.AssignStmt); ok && sv != nil {
					for _, l := range as.Lhs {
						if id, ok := ast.Unparen(l).(*ast.Ident); ok && c03obj(f, id) == sv {
							st.Set("ev:classified", flow.Unknown)
						}
					}
				}
			},
		})
	})
	if res == nil {
		return c03clsResult{verdict: "undecided", at: call, why: "analysis failed"}
	}
	states := res.At[call]
	if len(states) == 0 {
		return c03clsResult{verdict: "undecided", at: call, why: "the call is not reached by the analysis"}
	}
	var unclassified *flow.State
	for _, st := range states {
		if !st.Is("ev:classified", flow.True) {
			unclassified = st
			break
		}
	}
	if unclassified == nil {
		for _, cd := range cands {
			if cd.viaCallback {
				// the iterator's early exits depend on the callback's result: harmless iff the
				// callback always asks to continue
				if !cd.callbackAlwaysTrue {
					return c03clsResult{"undecided", states[0], cd.rs, "the servers are classified by a callback handed to an iterator that may stop early depending on the callback's result: not followed"}
				}
				// (per-iteration coverage was established structurally: the callback is invoked
				// unconditionally and classifies its parameter as a top-level statement)
				continue
			}
			if early := breaksOut(f, cd.rs, ""); len(early) > 0 {
				return c03clsResult{"bad", states[0], early[0], "the classification loop can be left early: later servers keep addrIsHostName=false and receive the client's Host although they are host-named"}
			}
			if cd.it.bad != nil {
				return c03clsResult{"bad", cd.it.bad, cd.rs, "an iteration of the classification loop skips the address classifier: that server keeps addrIsHostName=false and receives the client's Host although it is host-named"}
			}
		}
		return c03clsResult{verdict: "ok", at: call, why: sprintf("%d state(s) reach the call in %s, all after an exhaustive classification loop over the servers", len(states), c03fnName(f))}
	}
	notClassified := "NewLoadBalancer is reachable with servers whose address has not been classified (addrIsHostName keeps its zero value false): host-named servers are treated as IP-addressed and receive the client's Host instead of their own"
	// (a) a field classified where its owner is constructed
	if field != nil {
		if how := k.fieldClassified(f, field); how != "" {
			return c03clsResult{verdict: "ok", at: call, why: how}
		}
		return c03clsResult{"bad", unclassified, call, notClassified + " (the servers come from field " + field.Name() + ", which no constructor classifies)"}
	}
	// (b) a parameter: the callers hand the servers in
	fd, isDecl := f.Node.(*ast.FuncDecl)
	idx := -1
	if isDecl && sv != nil {
		i := 0
		for _, fl := range fd.Type.Params.List {
			for _, id := range fl.Names {
				if f.Info.Defs[id] == sv {
					idx = i
				}
				i++
			}
		}
	}
	if idx >= 0 && depth < 2 {
		callee := f.Info.Defs[fd.Name]
		n := 0
		worst := c03clsResult{verdict: "ok", at: call}
		for _, file := range f.Pkg.Syntax {
			for _, d := range file.Decls {
				cfd, ok := d.(*ast.FuncDecl)
				if !ok || cfd.Body == nil || cfd == fd {
					continue
				}
				g := funcOf(f.Pkg, cfd)
				for _, cl := range calls(cfd.Body, true) {
					fo, ok := g.Callee(cl).(*types.Func)
					if !ok || types.Object(fo.Origin()) != callee || idx >= len(cl.Args) {
						continue
					}
					n++
					// calls inside function literals (goroutines) are analysed in their literal
					unit := g
					for _, u := range c03units(g) {
						if u != g && contains(u.Node, cl) {
							unit = u
						}
					}
					r := k.at(unit, cl, cl.Args[idx], depth+1)
					if r.verdict == "bad" && worst.verdict != "bad" {
						r.why = "servers handed in by " + c03fnName(g) + " are not classified: " + r.why
						worst = r
					} else if r.verdict == "undecided" && worst.verdict == "ok" {
						worst = r
					}
				}
			}
		}
		if n > 0 {
			if worst.verdict == "ok" {
				worst.why = sprintf("%s does not classify its servers parameter itself; each of its %d call site(s) hands in servers that are classified before the call or at construction", c03fnName(f), n)
			}
			return worst
		}
	}
	// (c) a local collection built element by element: every value it is assigned is empty, a
	// field classified at construction, or append(itself, e…) with each e classified before
	if sv != nil && anyWriter {
		how, bad, at := k.builtFromClassified(f, sc, sv)
		if how != "" {
			return c03clsResult{verdict: "ok", at: call, why: how}
		}
		if bad != nil {
			return c03clsResult{"bad", bad, at, "a server is appended to the collection handed to the load balancer without having been classified on this path (addrIsHostName keeps its zero value false): a host-named server is treated as IP-addressed and receives the client's Host instead of its own"}
		}
	}
	// (d) a local the analysis cannot follow
	if anyWriter {
		return c03clsResult{"undecided", unclassified, call, "the servers are classified in a way the analysis does not follow (no covering loop over the collection handed to the load balancer)"}
	}
	return c03clsResult{"bad", unclassified, call, notClassified}
}

// fieldClassified: some function of the package runs, as a top-level statement, a covering
// loop over the given struct field that classifies every element (the constructor of the
// pool classifying the servers of its spec).
func (k *c03cls) fieldClassified(f *flow.Func, field *types.Var) string {
	if k.fieldOK == nil {
		k.fieldOK = map[*types.Var]string{}
	}
	if how, ok := k.fieldOK[field]; ok {
		return how
	}
	how := ""
	for _, file := range f.Pkg.Syntax {
		for _, d := range file.Decls {
			fd, ok := d.(*ast.FuncDecl)
			if !ok || fd.Body == nil || how != "" {
				continue
			}
			g := funcOf(f.Pkg, fd)
			for _, stmt := range fd.Body.List {
				lp := c03loopOf(g, stmt)
				if lp == nil {
					continue
				}
				rc, _ := c03resolveLocal(g, lp.coll)
				if c03fieldOf(g, rc) != field {
					continue
				}
				var wcall *ast.CallExpr
				for _, cl := range calls(lp.body, false) {
					if k.writerOnElem(g, lp, cl) {
						wcall = cl
					}
				}
				if wcall == nil || len(breaksOut(g, lp.stmt, "")) > 0 {
					continue
				}
				it := newC03iter(g, lp.stmt, nil)
				res := analyze(k.c, g, flow.Config{
					NoHavoc: true,
					Track:   func(string) bool { return false },
					OnBlock: func(st *flow.State, b *cfg.Block) { it.block(st, b) },
					OnCall: func(st *flow.State, cl *ast.CallExpr, _ types.Object, _ bool) {
						if cl == wcall {
							it.mark(st)
						}
					},
				})
				if res != nil && it.bad == nil {
					how = "the servers come from field " + field.Name() + ", every element of which is classified by a covering loop in " + c03fnName(g)
				}
			}
		}
	}
	k.fieldOK[field] = how
	return how
}

// builtFromClassified: every assignment to the local collection sv yields only classified
// servers: an empty value, a field classified where its owner is constructed, or
// append(sv, e…) where a writer of the flag has been called on each e on every path since e
// was last assigned.
func (k *c03cls) builtFromClassified(f *flow.Func, sc *c03scope, sv types.Object) (string, *flow.State, ast.Node) {
	ok := true
	var appends []*ast.AssignStmt
	elems := map[*ast.AssignStmt][]types.Object{}
	c03with(sc, func() {
		defs := c03defs(f, sv)
		if len(defs) == 0 {
			ok = false
		}
		for _, d := range defs {
			if vs, isVS := d.at.(*ast.ValueSpec); isVS && len(vs.Values) == 0 {
				continue
			}
			if d.rhs == nil {
				ok = false
				continue
			}
			r := ast.Unparen(d.rhs)
			if tv, has := f.Info.Types[r]; has && tv.IsNil() {
				continue
			}
			switch x := r.(type) {
			case *ast.CompositeLit:
				if len(x.Elts) != 0 {
					ok = false
				}
			case *ast.CallExpr:
				b, isB := f.Callee(x).(*types.Builtin)
				switch {
				case isB && b.Name() == "make":
					// make([]*Server, 0[, n]) only: a non-zero length holds nil/unclassified slots
					if len(x.Args) < 2 {
						ok = false
					} else if tv := f.Info.Types[x.Args[1]]; tv.Value == nil || tv.Value.ExactString() != "0" {
						ok = false
					}
				case isB && b.Name() == "append" && len(x.Args) >= 2 && x.Ellipsis == 0:
					if id, isID := ast.Unparen(x.Args[0]).(*ast.Ident); !isID || c03obj(f, id) != sv {
						ok = false
						break
					}
					as, isAs := d.at.(*ast.AssignStmt)
					if !isAs {
						ok = false
						break
					}
					for _, e := range x.Args[1:] {
						id, isID := ast.Unparen(e).(*ast.Ident)
						if !isID {
							ok = false
							break
						}
						elems[as] = append(elems[as], c03obj(f, id))
					}
					appends = append(appends, as)
				default:
					ok = false
				}
			case *ast.SelectorExpr:
				if fv := c03fieldOf(f, x); fv == nil || k.fieldClassified(f, fv) == "" {
					ok = false
				}
			default:
				ok = false
			}
		}
	})
	if !ok || len(appends) == 0 {
		return "", nil, nil
	}
	tracked := map[types.Object]bool{}
	for _, os := range elems {
		for _, o := range os {
			tracked[o] = true
		}
	}
	ev := func(o types.Object) string { return "ev:cls:" + c03varID(f, o) }
	var res *flow.Result
	c03with(sc, func() {
		res = analyze(k.c, f, flow.Config{
			NoHavoc: true,
			Inline:  sc.inline(),
			Track:   func(string) bool { return false },
			OnNode: func(st *flow.State, n ast.Node) {
				if as, isAs := n.(*ast.AssignStmt); isAs {
					for _, l := range as.Lhs {
						if id, isID := ast.Unparen(l).(*ast.Ident); isID && tracked[c03obj(f, id)] {
							st.Set(ev(c03obj(f, id)), flow.Unknown)
						}
					}
				}
			},
			OnCall: func(st *flow.State, cl *ast.CallExpr, callee types.Object, _ bool) {
				fo, isF := callee.(*types.Func)
				if !isF || !(k.writers[fo] || k.writers[fo.Origin()]) {
					return
				}
				mark := func(e ast.Expr) {
					if id, isID := ast.Unparen(e).(*ast.Ident); isID && tracked[c03obj(f, id)] {
						st.Set(ev(c03obj(f, id)), flow.True)
					}
				}
				if sel, isSel := ast.Unparen(cl.Fun).(*ast.SelectorExpr); isSel {
					mark(sel.X)
				}
				for _, a := range cl.Args {
					mark(a)
				}
			},
		})
	})
	if res == nil {
		return "", nil, nil
	}
	for _, as := range appends {
		if len(res.At[as]) == 0 {
			return "", nil, nil
		}
		for _, st := range res.At[as] {
			for _, o := range elems[as] {
				if !st.Is(ev(o), flow.True) {
					return "", st, as
				}
			}
		}
	}
	return sprintf("the collection is built in %s by %d append(s) of servers that have each been classified before they are appended (other assignments yield empty or construction-classified collections)", c03fnName(f), len(appends)), nil, nil
}
