package rules

import (
	"go/ast"
	"go/token"
	"go/types"

	"golang.org/x/tools/go/cfg"
	"golang.org/x/tools/go/packages"

	"verif/internal/core"
	"verif/internal/flow"
)

// c03Request decides R-C03-4 and the decision-table half of R-C03-5 on the function that
// builds the outbound request (the function storing the stripped header).
func c03Request(c *core.Ctx, f *flow.Func, stores []*c03hdrStore) {
	name := c03fnName(f)
	reqT := namedType(c, c03hp, "Request")
	inField := structField(c, c03px, "serverPoolContext", "req")
	outField := structField(c, c03px, "serverPoolContext", "stdReq")
	urlField := structField(c, c03px, "Server", "URL")
	aField := structField(c, c03px, "Server", "addrIsHostName")
	kField := structField(c, c03px, "Server", "KeepHost")
	hostField := c03stdField(c, "net/http", "Request", "Host")
	rawQuery := c03stdField(c, "net/url", "URL", "RawQuery")
	stdHeader := c03stdField(c, "net/http", "Request", "Header")
	if reqT == nil || inField == nil || outField == nil || urlField == nil || aField == nil || kField == nil || hostField == nil || rawQuery == nil {
		return
	}
	isReqType := func(t types.Type) bool {
		p, ok := t.(*types.Pointer)
		return ok && types.Identical(p.Elem(), reqT)
	}
	// inbound(e): e denotes the client's request
	var inbound func(e ast.Expr, depth int) bool
	inbound = func(e ast.Expr, depth int) bool {
		e = ast.Unparen(e)
		tv, ok := f.Info.Types[e]
		if !ok || !isReqType(tv.Type) || depth > 4 {
			return false
		}
		if c03fieldOf(f, e) == inField {
			return true
		}
		id, ok := e.(*ast.Ident)
		if !ok {
			return false
		}
		o := c03obj(f, id)
		defs := c03defs(f, o)
		if len(defs) == 0 {
			// parameter of type *httpprot.Request
			_, isVar := o.(*types.Var)
			return isVar
		}
		for _, d := range defs {
			if d.rhs == nil || !inbound(d.rhs, depth+1) {
				return false
			}
		}
		return true
	}
	// inCall(e, method): e is a call of (*httpprot.Request).method on the inbound request
	inCall := func(e ast.Expr, methods ...string) bool {
		call, ok := ast.Unparen(e).(*ast.CallExpr)
		if !ok {
			return false
		}
		sel, ok := ast.Unparen(call.Fun).(*ast.SelectorExpr)
		if !ok || !inbound(sel.X, 0) {
			return false
		}
		for _, m := range methods {
			if calleeIs(f, call, "(*"+c03hp+".Request)."+m) {
				return true
			}
		}
		return false
	}
	// viaInbound: a selector chain that passes through a method call on the inbound request
	viaInbound := func(e ast.Expr, methods ...string) bool {
		for e != nil {
			switch x := ast.Unparen(e).(type) {
			case *ast.SelectorExpr:
				e = x.X
			case *ast.CallExpr:
				if inCall(x, methods...) {
					return true
				}
				e = x.Fun
			default:
				return false
			}
		}
		return false
	}

	// inAttr: e is attribute m of the inbound request, through the accessor or through the
	// equivalent field of the underlying http.Request
	stdEquiv := map[string]*types.Var{
		"Method":     c03stdField(c, "net/http", "Request", "Method"),
		"Host":       hostField,
		"HTTPHeader": stdHeader,
		"Path":       c03stdField(c, "net/url", "URL", "Path"),
	}
	inAttr := func(e ast.Expr, m string) bool {
		if inCall(e, m) {
			return true
		}
		if fv := stdEquiv[m]; fv != nil && c03fieldOf(f, e) == fv {
			return viaInbound(ast.Unparen(e).(*ast.SelectorExpr).X, "Std", "URL")
		}
		return false
	}

	// the request constructor
	ctor := callsTo(f, f.Body, false, "net/http.NewRequestWithContext", "net/http.NewRequest")
	if len(ctor) != 1 {
		c.Undecide("R-C03-4", name+"|outbound request construction", pos(c, f.Node), sprintf("expected one http.NewRequest[WithContext] call, found %d", len(ctor)))
		return
	}
	newReq := ctor[0]
	off := 0
	if calleeIs(f, newReq, "net/http.NewRequestWithContext") {
		off = 1
	}
	if len(newReq.Args) != off+3 {
		c.Undecide("R-C03-4", name+"|outbound request construction", pos(c, newReq), "unexpected argument count")
		return
	}
	var outVar, errVar types.Object
	var errIdent *ast.Ident
	ast.Inspect(f.Body, func(n ast.Node) bool {
		if as, ok := n.(*ast.AssignStmt); ok && len(as.Rhs) == 1 && ast.Unparen(as.Rhs[0]) == ast.Expr(newReq) && len(as.Lhs) == 2 {
			if id, ok := as.Lhs[0].(*ast.Ident); ok {
				outVar = c03obj(f, id)
			}
			if id, ok := as.Lhs[1].(*ast.Ident); ok && id.Name != "_" {
				errVar = c03obj(f, id)
				errIdent = id
			}
		}
		return true
	})
	if outVar == nil {
		c.Undecide("R-C03-4", name+"|outbound request construction", pos(c, newReq), "the constructed request is not assigned to a variable")
		return
	}
	_ = errVar

	// --- method
	c.Check(inAttr(newReq.Args[off], "Method"), "R-C03-4", name+"|method", pos(c, newReq),
		"method argument is Method() of the inbound request",
		"the outbound request's method is not the inbound request's Method(): the backend receives a different method than the client sent")

	// --- URL shape
	type urlInfo struct {
		v        types.Object
		base     ast.Node // defining statement
		appendQ  ast.Node // statement appending "?"+query
		rq       ast.Expr // expression tested for emptiness
		ok       bool
		why      string
		violated bool
	}
	u := &urlInfo{}
	isRawQuery := func(e ast.Expr) bool {
		e = ast.Unparen(e)
		if c03fieldOf(f, e) == rawQuery {
			return viaInbound(e.(*ast.SelectorExpr).X, "Std", "URL")
		}
		if id, ok := e.(*ast.Ident); ok {
			defs := c03defs(f, c03obj(f, id))
			if len(defs) != 1 || defs[0].rhs == nil {
				return false
			}
			r := defs[0].rhs
			return c03fieldOf(f, r) == rawQuery && viaInbound(r.(*ast.SelectorExpr).X, "Std", "URL")
		}
		return false
	}
	isSvrURL := func(e ast.Expr) bool {
		if c03fieldOf(f, e) != urlField {
			return false
		}
		r := c03root(f, e)
		v, ok := r.(*types.Var)
		return ok && len(c03defs(f, v)) == 0 // a parameter (the chosen server)
	}
	classifyURL := func() {
		id, ok := ast.Unparen(newReq.Args[off+1]).(*ast.Ident)
		if !ok {
			u.why = "URL argument is not a local variable"
			return
		}
		u.v = c03obj(f, id)
		defs := c03defs(f, u.v)
		for i, d := range defs {
			as, _ := d.at.(*ast.AssignStmt)
			if as == nil || d.rhs == nil {
				u.why = "unrecognised assignment to the URL variable"
				return
			}
			leaves := c03leaves(d.rhs)
			if i == 0 {
				if as.Tok != token.DEFINE && as.Tok != token.ASSIGN {
					u.why = "first assignment to the URL variable is not a definition"
					return
				}
				if len(leaves) != 2 || !isSvrURL(leaves[0]) || !inAttr(leaves[1], "Path") {
					u.why = "URL is not <server URL> + <inbound Path()>"
					u.violated = len(leaves) == 2 // same shape, other operands: a different URL
					return
				}
				u.base = as
				continue
			}
			if u.appendQ != nil {
				u.why = "more than one append to the URL variable"
				return
			}
			if as.Tok == token.ASSIGN {
				if len(leaves) < 1 {
					return
				}
				if lid, ok := leaves[0].(*ast.Ident); !ok || c03obj(f, lid) != u.v {
					u.why = "URL variable overwritten"
					u.violated = true
					return
				}
				leaves = leaves[1:]
			} else if as.Tok != token.ADD_ASSIGN {
				u.why = "unrecognised operator on the URL variable"
				return
			}
			if len(leaves) != 2 {
				u.why = "appended text is not \"?\" + RawQuery"
				return
			}
			if tv, ok := f.Info.Types[leaves[0]]; !ok || tv.Value == nil || tv.Value.ExactString() != `"?"` {
				u.why = "appended separator is not \"?\""
				u.violated = true
				return
			}
			if !isRawQuery(leaves[1]) {
				u.why = "appended text is not the inbound RawQuery"
				u.violated = true
				return
			}
			u.appendQ = as
			u.rq = leaves[1]
		}
		if u.base == nil {
			u.why = "no definition of the URL variable"
			return
		}
		u.ok = true
	}
	classifyURL()
	if !u.ok {
		if u.violated {
			c.Violate("R-C03-4", name+"|URL", pos(c, newReq), u.why+": the backend is sent a different path/query than the client's")
		} else {
			c.Undecide("R-C03-4", name+"|URL", pos(c, newReq), u.why)
		}
	}

	// --- body variable
	var payVar types.Object
	payDirect := false
	if id, ok := ast.Unparen(newReq.Args[off+2]).(*ast.Ident); ok {
		payVar = c03obj(f, id)
	} else if inCall(newReq.Args[off+2], "GetPayload") {
		payDirect = true
	}
	// mirror / stream atoms
	var mirrorKey string
	if fd, ok := f.Node.(*ast.FuncDecl); ok {
		for _, fl := range fd.Type.Params.List {
			for _, id := range fl.Names {
				if b, ok := f.Info.Defs[id].Type().Underlying().(*types.Basic); ok && b.Kind() == types.Bool {
					mirrorKey = f.VarKey(id)
				}
			}
		}
	}
	var streamCalls []*ast.CallExpr
	for _, call := range calls(f.Body, false) {
		if inCall(call, "IsStream") {
			streamCalls = append(streamCalls, call)
		}
	}
	excused := func(st *flow.State) bool {
		if mirrorKey == "" || !st.Is(mirrorKey, flow.True) {
			return false
		}
		for _, sc := range streamCalls {
			if st.Is(f.CallKey(sc), flow.True) {
				return true
			}
		}
		return false
	}

	// --- Host atoms
	var aKey, kKey string
	ast.Inspect(f.Body, func(n ast.Node) bool {
		if e, ok := n.(ast.Expr); ok {
			switch c03fieldOf(f, e) {
			case aField:
				aKey, _ = f.Atom(e)
			case kField:
				kKey, _ = f.Atom(e)
			}
		}
		return true
	})

	const (
		evQ       = "ev:query"
		evPayOrig = "ev:payload:orig"
		evPayBad  = "ev:payload:bad"
		evHdr     = "ev:header"
		evHost    = "ev:host"
		evStored  = "ev:stored"
		evBuilt   = "ev:built"
	)
	isStoreTo := func(l ast.Expr, field *types.Var) bool {
		return c03fieldOf(f, l) == field && c03rootOf(f, l) == outVar
	}
	hostRHSok := true
	var hostStores []*ast.AssignStmt
	var storeBad ast.Node
	hdrArgOK := true
	for _, s := range stores {
		if s.call == nil || len(s.call.Args) != 1 {
			continue
		}
		arg := s.call.Args[0]
		if !inAttr(arg, "HTTPHeader") {
			hdrArgOK = false
		}
	}
	res := analyze(c, f, flow.Config{
		NoHavoc: true,
		OnCall: func(st *flow.State, call *ast.CallExpr, callee types.Object, deferred bool) {
			if call == newReq {
				st.Set(evBuilt, flow.True)
			}
		},
		OnNode: func(st *flow.State, n ast.Node) {
			as, ok := n.(*ast.AssignStmt)
			if !ok {
				return
			}
			if as == u.appendQ {
				st.Set(evQ, flow.True)
			}
			for i, l := range as.Lhs {
				if id, ok := ast.Unparen(l).(*ast.Ident); ok && payVar != nil && c03obj(f, id) == payVar && len(as.Lhs) == len(as.Rhs) {
					if inCall(as.Rhs[i], "GetPayload") {
						st.Set(evPayOrig, flow.True)
						st.Set(evPayBad, flow.Unknown)
					} else {
						st.Set(evPayOrig, flow.Unknown)
						if excused(st) {
							st.Set(evPayBad, flow.Unknown)
						} else {
							st.Set(evPayBad, flow.True)
						}
					}
				}
				if c03fieldOf(f, l) == hostField && c03root(f, l) != nil && isStoreTo(l, hostField) {
					st.Set(evHost, flow.True)
				}
				if isStoreTo(l, stdHeader) {
					st.Set(evHdr, flow.True)
				}
				if c03fieldOf(f, l) == outField && len(as.Lhs) == len(as.Rhs) {
					if id, ok := ast.Unparen(as.Rhs[i]).(*ast.Ident); ok && c03obj(f, id) == outVar {
						st.Set(evStored, flow.True)
					} else {
						st.Set(evStored, flow.False)
					}
				}
			}
		},
	})
	if res == nil {
		return
	}
	// static facts about the stores
	ast.Inspect(f.Body, func(n ast.Node) bool {
		as, ok := n.(*ast.AssignStmt)
		if !ok || len(as.Lhs) != len(as.Rhs) {
			return true
		}
		for i, l := range as.Lhs {
			if isStoreTo(l, hostField) {
				hostStores = append(hostStores, as)
				if !inAttr(as.Rhs[i], "Host") {
					hostRHSok = false
				}
			}
			if c03fieldOf(f, l) == outField {
				if id, ok := ast.Unparen(as.Rhs[i]).(*ast.Ident); !ok || c03obj(f, id) != outVar {
					storeBad = as
				}
			}
		}
		return true
	})

	// --- query decision table
	if u.ok {
		var bad *flow.State
		why := ""
		if u.appendQ == nil {
			why = "the inbound RawQuery is never appended to the outbound URL: the backend receives no query string"
			c.Violate("R-C03-4", name+"|query", pos(c, newReq), why)
		} else {
			for _, st := range res.At[newReq] {
				e := c03empty(f, st, u.rq)
				q := st.Is(evQ, flow.True)
				switch {
				case q && e != flow.False:
					bad, why = st, "\"?\" is appended although the RawQuery may be empty: a request without query is forwarded as \"path?\""
				case !q && e != flow.True:
					bad, why = st, "the outbound URL is built without the inbound RawQuery although it may be non-empty: the backend receives no query string"
				}
				if bad != nil {
					break
				}
			}
			c.Check(bad == nil, "R-C03-4", name+"|query", pos(c, u.appendQ),
				sprintf("%d states reach the constructor; \"?\"+RawQuery appended exactly when RawQuery is non-empty", len(res.At[newReq])), why, witness(bad)...)
		}
	}
	// --- body
	if payDirect {
		c.Discharge("R-C03-4", name+"|body", pos(c, newReq), "body argument is GetPayload() of the inbound request")
	} else if payVar == nil {
		c.Violate("R-C03-4", name+"|body", pos(c, newReq), "the outbound body is not the inbound request's GetPayload(): the backend receives other body bytes than the client sent")
	} else {
		var bad *flow.State
		for _, st := range res.At[newReq] {
			if !st.Is(evPayOrig, flow.True) && (st.Is(evPayBad, flow.True) || !excused(st)) {
				bad = st
				break
			}
		}
		c.Check(bad == nil, "R-C03-4", name+"|body", pos(c, newReq),
			"the body is GetPayload() of the inbound request on every path except mirror+stream",
			"on some path other than mirror+stream the outbound body is not the inbound request's GetPayload(): the backend receives other body bytes than the client sent", witness(bad)...)
	}
	// --- header argument
	c.Check(hdrArgOK, "R-C03-4", name+"|header source", pos(c, stores[0].assign),
		"the header function is applied to the inbound request's header",
		"the header function is not applied to the inbound request's header: end-to-end headers of the client are not what the backend receives")

	// --- exits
	success := func(ex *flow.Exit) bool {
		if ex.Kind != flow.ExitReturn || !ex.State.Is(evBuilt, flow.True) {
			return false
		}
		if errIdent != nil && ex.State.Is(f.NilKey(errIdent), flow.False) {
			return false
		}
		return true
	}
	var badHdr, badStored, badHostSet, badHostUnset *flow.State
	nSucc := 0
	val := func(st *flow.State, k string) flow.Val {
		if k == "" {
			return flow.Unknown
		}
		return st.Get(k)
	}
	for _, ex := range res.Exits {
		if !success(ex) {
			continue
		}
		nSucc++
		st := ex.State
		if !st.Is(evHdr, flow.True) && badHdr == nil {
			badHdr = st
		}
		if !st.Is(evStored, flow.True) && badStored == nil {
			badStored = st
		}
		if !st.Is(evHost, flow.True) && !(val(st, aKey) == flow.True && val(st, kKey) == flow.False) && badHostUnset == nil {
			badHostUnset = st
		}
	}
	for _, as := range hostStores {
		for _, st := range res.At[as] {
			if !(val(st, aKey) == flow.False || val(st, kKey) == flow.True) && badHostSet == nil {
				badHostSet = st
			}
		}
	}
	c.RequireCount("R-C03-4", "successful exits of the request builder", nSucc, 1)
	c.Check(badHdr == nil, "R-C03-4", name+"|header stored on every successful exit", pos(c, stores[0].assign),
		sprintf("%d successful exits, all after the Header store", nSucc),
		"a successful exit is reachable without the stripped header having been stored: the outbound request carries no client headers", witness(badHdr)...)
	c.Check(badStored == nil && storeBad == nil, "R-C03-4", name+"|built request is the one sent", pos(c, newReq),
		"the constructed request is stored to serverPoolContext.stdReq on every successful exit",
		"the request stored for sending is not the one that was constructed from the inbound request", witness(badStored)...)

	// --- R-C03-5 decision table
	c.Check(hostRHSok, "R-C03-5", name+"|Host value", pos(c, f.Node),
		"the outbound Host is assigned Host() of the inbound request",
		"the outbound Host is assigned something other than the inbound request's Host()")
	c.Check(badHostSet == nil, "R-C03-5", name+"|Host kept only for IP-addressed or keepHost servers", pos(c, f.Node),
		sprintf("%d Host store(s), each reached only with addrIsHostName=false or KeepHost=true", len(hostStores)),
		"the client's Host is sent to a host-named server without keepHost: virtual-host backends receive the gateway's public name instead of their own", witness(badHostSet)...)
	c.Check(badHostUnset == nil, "R-C03-5", name+"|Host kept for every IP-addressed or keepHost server", pos(c, f.Node),
		"every successful exit without the Host store has addrIsHostName=true and KeepHost=false",
		"a successful exit leaves the outbound Host at the server address although the server is IP-addressed or keepHost: the backend does not receive the client's Host", witness(badHostUnset)...)
}

// c03AddrClassifier decides the second half of R-C03-5: who writes addrIsHostName, with what,
// and that it runs for every server before every NewLoadBalancer.
func c03AddrClassifier(c *core.Ctx) {
	aField := structField(c, c03px, "Server", "addrIsHostName")
	if aField == nil {
		return
	}
	writers := map[*types.Func]bool{}
	nWrites := 0
	eachFunc(c, func(pkg *packages.Package, fd *ast.FuncDecl) {
		f := flow.NewFunc(pkg, fd)
		ast.Inspect(fd.Body, func(n ast.Node) bool {
			switch x := n.(type) {
			case *ast.AssignStmt:
				for i, l := range x.Lhs {
					if c03fieldOf(f, l) != aField {
						continue
					}
					nWrites++
					cons := declName(pkg, fd) + "|write of addrIsHostName"
					fo, _ := pkg.TypesInfo.Defs[fd.Name].(*types.Func)
					recvOK := false
					if fd.Recv != nil && len(fd.Recv.List) == 1 && len(fd.Recv.List[0].Names) == 1 {
						recvOK = c03root(f, l) == pkg.TypesInfo.Defs[fd.Recv.List[0].Names[0]]
					}
					if !recvOK || fo == nil {
						c.Violate("R-C03-5", cons, pos(c, x), "addrIsHostName is written outside a method classifying its own receiver: the Host rule no longer follows the server address")
						continue
					}
					writers[fo] = true
					if len(x.Lhs) != len(x.Rhs) {
						c.Undecide("R-C03-5", cons, pos(c, x), "unrecognised assignment form")
						continue
					}
					be, ok := ast.Unparen(x.Rhs[i]).(*ast.BinaryExpr)
					isParse := func(e ast.Expr) bool {
						call, ok := ast.Unparen(e).(*ast.CallExpr)
						return ok && calleeIs(f, call, "net.ParseIP")
					}
					isNil := func(e ast.Expr) bool { return f.Info.Types[e].IsNil() }
					switch {
					case ok && be.Op == token.EQL && ((isParse(be.X) && isNil(be.Y)) || (isNil(be.X) && isParse(be.Y))):
						c.Discharge("R-C03-5", cons, pos(c, x), "addrIsHostName = (net.ParseIP(host) == nil)")
					case ok && be.Op == token.NEQ && ((isParse(be.X) && isNil(be.Y)) || (isNil(be.X) && isParse(be.Y))):
						c.Violate("R-C03-5", cons, pos(c, x), "addrIsHostName is true exactly for IP addresses (inverted test): host-named servers get the client's Host, IP-addressed servers do not")
					default:
						c.Undecide("R-C03-5", cons, pos(c, x), "cannot relate the stored value to net.ParseIP(host) == nil")
					}
				}
			case *ast.KeyValueExpr:
				if id, ok := x.Key.(*ast.Ident); ok && pkg.TypesInfo.Uses[id] == aField {
					nWrites++
					c.Violate("R-C03-5", declName(pkg, fd)+"|write of addrIsHostName", pos(c, x), "addrIsHostName is set in a literal instead of being derived from the server address")
				}
			}
			return true
		})
	})
	if !c.RequireCount("R-C03-5", "writes of Server.addrIsHostName", nWrites, 1) {
		return
	}
	// every NewLoadBalancer call is preceded by a loop classifying every server handed to it
	sites := 0
	eachFunc(c, func(pkg *packages.Package, fd *ast.FuncDecl) {
		if relPkg(pkg.PkgPath) != c03px {
			return
		}
		f := flow.NewFunc(pkg, fd)
		lbCalls := callsTo(f, fd.Body, false, c03px+".NewLoadBalancer")
		if len(lbCalls) == 0 {
			return
		}
		name := declName(pkg, fd)
		c.Count("functions_analysed", 1)
		for _, lb := range lbCalls {
			sites++
			cons := name + "|servers classified before NewLoadBalancer"
			if len(lb.Args) != 2 {
				c.Undecide("R-C03-5", cons, pos(c, lb), "unexpected argument count")
				continue
			}
			sv := c03root(f, lb.Args[1])
			if _, isIdent := ast.Unparen(lb.Args[1]).(*ast.Ident); !isIdent || sv == nil {
				c.Undecide("R-C03-5", cons, pos(c, lb), "servers argument is not a variable")
				continue
			}
			// candidate loops: range over sv whose body calls a writer on the element
			type cand struct {
				rs   *ast.RangeStmt
				call *ast.CallExpr
				it   *c03iter
			}
			var cands []*cand
			ast.Inspect(fd.Body, func(n ast.Node) bool {
				rs, ok := n.(*ast.RangeStmt)
				if !ok {
					return true
				}
				if id, ok := ast.Unparen(rs.X).(*ast.Ident); !ok || c03obj(f, id) != sv {
					return true
				}
				for _, call := range calls(rs.Body, false) {
					fo, ok := f.Callee(call).(*types.Func)
					if !ok || !writers[fo] {
						continue
					}
					sel, ok := ast.Unparen(call.Fun).(*ast.SelectorExpr)
					if !ok {
						continue
					}
					elem := false
					switch r := ast.Unparen(sel.X).(type) {
					case *ast.Ident:
						if vid, ok := rs.Value.(*ast.Ident); ok && c03obj(f, r) == c03obj(f, vid) {
							elem = true
						}
					case *ast.IndexExpr:
						kid, ok1 := rs.Key.(*ast.Ident)
						iid, ok2 := ast.Unparen(r.Index).(*ast.Ident)
						xid, ok3 := ast.Unparen(r.X).(*ast.Ident)
						if ok1 && ok2 && ok3 && c03obj(f, kid) == c03obj(f, iid) && c03obj(f, xid) == sv {
							elem = true
						}
					}
					if elem {
						cands = append(cands, &cand{rs: rs, call: call, it: newC03iter(f, rs, nil)})
						break
					}
				}
				return true
			})
			res := analyze(c, f, flow.Config{
				NoHavoc: true,
				Track:   func(string) bool { return false },
				OnBlock: func(st *flow.State, b *cfg.Block) {
					for _, cd := range cands {
						cd.it.block(st, b)
						if b.Stmt == cd.rs && b.Kind == cfg.KindRangeLoop {
							st.Set("ev:classified", flow.True)
						}
					}
				},
				OnCall: func(st *flow.State, call *ast.CallExpr, callee types.Object, deferred bool) {
					for _, cd := range cands {
						if call == cd.call {
							cd.it.mark(st)
						}
					}
				},
				OnNode: func(st *flow.State, n ast.Node) {
					if as, ok := n.(*ast.AssignStmt); ok {
						for _, l := range as.Lhs {
							if id, ok := ast.Unparen(l).(*ast.Ident); ok && c03obj(f, id) == sv {
								st.Set("ev:classified", flow.Unknown)
							}
						}
					}
				},
			})
			if res == nil {
				continue
			}
			var bad *flow.State
			why := "NewLoadBalancer is reachable with servers whose address has not been classified (addrIsHostName keeps its zero value false): host-named servers are treated as IP-addressed and receive the client's Host instead of their own"
			for _, st := range res.At[lb] {
				if !st.Is("ev:classified", flow.True) {
					bad = st
					break
				}
			}
			var at ast.Node = lb
			if bad == nil {
				for _, cd := range cands {
					if early := breaksOut(f, cd.rs, labelOf(fd.Body, cd.rs)); len(early) > 0 {
						bad, at = res.At[lb][0], early[0]
						why = "the classification loop can be left early: later servers keep addrIsHostName=false and receive the client's Host although they are host-named"
					} else if cd.it.bad != nil {
						bad, at = cd.it.bad, cd.rs
						why = "an iteration of the classification loop skips the address classifier: that server keeps addrIsHostName=false and receives the client's Host although it is host-named"
					}
				}
			}
			c.Check(bad == nil && len(res.At[lb]) > 0, "R-C03-5", cons, pos(c, at),
				sprintf("%d state(s) reach NewLoadBalancer, all after an exhaustive classification loop over its servers argument", len(res.At[lb])), why, witness(bad)...)
		}
	})
	c.RequireCount("R-C03-5", "NewLoadBalancer call sites in "+c03px, sites, 1)
}
