package rules

import (
	"go/ast"
	"go/token"
	"go/types"
	"strings"

	"golang.org/x/tools/go/cfg"

	"verif/internal/core"
	"verif/internal/flow"
)

func init() { Registry["C07"] = c07 }

const hp = "pkg/protocols/httpprot"

// c07 — body limits: 413 unforwarded, oversized responses withheld.
//
// Mutants tried while writing (scratch worktree, each compiles):
//
//	dispatch before FetchPayload                                        → R-C07-1
//	ignore the non-413 error of FetchPayload (fall through to dispatch) → R-C07-1
//	413 and 400 swapped                                                 → R-C07-1
//	server-level limit first, path-level only when it is 0             → R-C07-2
//	pool/proxy ServerMaxBodySize inverted                               → R-C07-2
//	`0 → default` replacement dropped                                   → R-C07-3
//	ContentLength test after the allocation                             → R-C07-3
//	EOF→ErrUnexpectedEOF mapping dropped / `return nil` after ReadFull  → R-C07-3
//	io.ReadAll(body) without LimitReader                                → R-C07-4
//	probe with io.CopyN(…, 1) (EOF at exactly the limit)                → R-C07-4
//	extra-byte test dropped                                             → R-C07-4
//	SetOutputResponse before the fetch / error swallowed                → R-C07-5
//
// Not caught (numeric, stated): `>`→`>=` on the declared-length test.
//
// Robustness pass: the limit selection (R-C07-2) is decided by a path-sensitive source tracker
// (c07Src) that follows the value through locals, parameters and results of helpers interpreted in
// place, in either order of the selection (specific first / general first), as an if, a switch or
// a function of its own (`FetchPayload(sp.serverMaxBodySize())`, `path.bodySizeLimit(serverLimit)`);
// fetch, 413/400 mapping and dispatch may live in helpers of serveHTTP / buildResponse
// (muxResultHolders follows the error through `return resp.FetchPayload(..)`); the declared length,
// the payload length and the probe count may sit in locals. Mutants re-tried on refactored forms:
// selection helper that never falls back → R-C07-2; helper that drops the fetch error → R-C07-5.
//
// Second iteration: both FetchPayload rules run over the reach with helpers interpreted in place
// (bodies shared between Request and Response, values carried in a struct literal, the sentinel as
// a parameter or field), the effective limit may be a copy of the parameter or come out of a
// helper, every spelling of the limit / the declared length is recognised by value flow; the
// 413/400 mapping may sit in a helper, use errors.Is or a predicate, and choose the status into a
// local; buildResponse and its caller are resolved by role. Mutants re-tried: statuses swapped in
// the helper → R-C07-1; default replacement dropped / helper never defaults → R-C07-3; declared
// test dropped in the shared body → R-C07-3; probe result ignored → R-C07-4.
//
// Third set of refactorings: when the limit handed to FetchPayload is a parameter the function only
// passes on (buildResponse(spCtx, stdResp, maxBodySize)) R-C07-2 is decided in its same-package
// callers with the function interpreted in place; the stream of a message is resolved by type (a
// *ByteCountReader field of the message or of a same-package struct it holds) and the functions
// storing a payload of any type into it (SetPayload, content.set) are sinks.
//
// Round-4 seeded change C07/g (unknown-length tails extracted, read by make + io.ReadFull, short
// body recognised by err == io.EOF || err == io.ErrUnexpectedEOF): the reads are classified by role
// (declared-length read = ReadFull into ContentLength bytes; unknown-length read = ReadAll through
// LimitReader or ReadFull into limit bytes) and R-C07-4 gained "only a clean end of input completes
// a body of unknown length". Same kind, also reported: ReadAll form swallowing ErrUnexpectedEOF; the
// short test before the error test. The same extraction with ReadAll kept stays silent.
func c07(c *core.Ctx) string {
	c.Rule("R-C07-1", "fetch before dispatch: every path of serveHTTP to a handler passes req.FetchPayload with a nil error; ErrRequestEntityTooLarge ⇒ 413 response and return; any other error ⇒ 400 and return")
	c.Rule("R-C07-2", "effective limit: the limit handed to FetchPayload is the specific (path / pool) value, replaced by the general (server / proxy) value exactly when the specific one is 0")
	c.Rule("R-C07-3", "declared length (both FetchPayload): 0 is replaced by the default limit first; only a negative limit creates a stream; the buffer allocation and ReadFull are reachable only with ContentLength ≤ limit; a short read is reported (io.EOF mapped to ErrUnexpectedEOF, the read error returned)")
	c.Rule("R-C07-4", "unknown length (both FetchPayload): the body is read through io.LimitReader(body, limit); when the limit was reached an extra-byte probe with io.Copy decides: extra bytes ⇒ too-large error, otherwise the probe's error (nil at exactly the limit); success is returned only with the read's error found nil — an error the source also reports for a body cut mid-stream (io.ErrUnexpectedEOF) never counts as 'body complete'")
	c.Rule("R-C07-5", "oversized response withheld: in ServerPool.buildResponse a failed resp.FetchPayload returns the error without SetOutputResponse; doHandle turns it into a 5xx serverPoolError (408 only when the request context's deadline is known to have expired)")
	c.NotDecided = []string{"the off-by-one comparison exactly at the limit (numeric)", "what net/http does with unread request bodies", "stream mode contents"}

	c07Serve(c)
	c07Limit(c)
	for _, recv := range []string{"Request", "Response"} {
		c07Fetch(c, recv)
	}
	c07Resp(c)
	c07GzipPull(c)
	// limits travel with the generation and with the one-shot stream: rules shared with C12 and C10
	c.Rule("R-C07-7", "the path-level limit applied is the current generation's: a new router generation gets a fresh route cache (shared with R-C12-5)")
	muxCacheFresh(c, "R-C07-7")
	c.Alias("R-C10-3", "R-C07-8")
	c.Alias("R-C10-2", "-")
	c.Alias("R-C10-5", "-")
	c.Rule("R-C10-3", "a streamed body is sent once: the retry wrapper is applied only when the request is not a stream, and never around the circuit breaker (shared with R-C10-3)")
	c10Handle(c)
	c.Alias("R-C10-3", "")
	c.Alias("R-C10-2", "")
	c.Alias("R-C10-5", "")
	c.Drop("-")
	return "Path-sensitive typestate over serveHTTP (fetch dominates dispatch, 413/400 mapping), value-source events for the effective limit selection at both levels, and an all-paths audit of the two FetchPayload implementations (default replacement, stream only for negative limits, allocation bounded by the limit, short reads reported, LimitReader + io.Copy probe on the chunked path) and of buildResponse/doHandle (failed fetch ⇒ no output response, 5xx). Not decided: the numeric comparison exactly at the limit."
}

func c07Serve(c *core.Ctx) {
	s := analyzeServe(c, "R-C07-1")
	if s == nil {
		return
	}
	f := s.f
	for _, d := range s.dispatch {
		var bad *flow.State
		for _, st := range s.res.At[d] {
			if s.errNil(st) != flow.True {
				bad = st
			}
		}
		c.Check(bad == nil && len(s.res.At[d]) > 0, "R-C07-1", s.cons+"|dispatch "+recvType(f, d)+" after a successful fetch", pos(c, d),
			sprintf("%d states, all with FetchPayload's error nil", len(s.res.At[d])), "a handler is invoked without the request body having been fetched within the limit (an oversized or unreadable body reaches the backend)", witness(bad)...)
	}
	var bad *flow.State
	why := ""
	n413, n400 := 0, 0
	for _, ex := range s.res.Exits {
		if ex.Kind != flow.ExitReturn {
			continue
		}
		st := ex.State
		tooLarge := s.errTooLarge(st)
		if s.errNil(st) != flow.False && !tooLarge {
			continue
		}
		if st.Is("ev:dispatched", flow.True) {
			bad, why = st, "the pipeline ran although FetchPayload failed"
		}
		if tooLarge {
			n413++
			if !st.Is("ev:fail:413", flow.True) {
				bad, why = st, "ErrRequestEntityTooLarge is not answered with 413 Request Entity Too Large"
			}
		} else {
			n400++
			if !st.Is("ev:fail:400", flow.True) {
				bad, why = st, "a body read error is not answered with 400 Bad Request"
			}
		}
	}
	if bad == nil && (n413 == 0 || n400 == 0) {
		c.Violate("R-C07-1", s.cons+"|413 / 400 mapping", pos(c, s.fetch), sprintf("the error of FetchPayload is not distinguished into too-large (413) and other (400): exits 413=%d 400=%d", n413, n400))
	} else {
		c.Check(bad == nil, "R-C07-1", s.cons+"|413 / 400 mapping", pos(c, s.fetch), sprintf("%d too-large exits → 413, %d other-error exits → 400, none dispatched", n413, n400), why, witness(bad)...)
	}
}

// muxSrc tracks, path-sensitively and through calls interpreted in place, whether the value of an
// integer variable comes from the specific setting (fact value True), the general setting (False)
// or something else (unknown), and what the code has learned about "the specific setting is 0"
// (event ev:Szero). Events: ev:src:<var>, ev:ret:<func> (source of the value a function returned),
// ev:pend:<var>\x00<func> (the variable is being assigned the result of that call).
type muxSrc struct {
	f                 *flow.Func
	specific, general *types.Var
	inl               func(*ast.CallExpr, *types.Func) *flow.Func
	retOwner          map[*ast.ReturnStmt]*types.Func
	vf                *muxFlow
	sRenders          map[string]bool
	seed              map[string]flow.Val // initial sources of the root function's parameters

	p             string                                     // prefix of the event keys ("ev:" + namespace)
	classify      func(e ast.Expr) flow.Val                  // source class of an expression (overrides the two fields)
	classifyTuple func(call *ast.CallExpr, idx int) flow.Val // source class of result idx of a call that is not interpreted in place
}

// newMuxSrc creates a tracker with its own event namespace and classification.
func newMuxSrc(f *flow.Func, fns []*flow.Func, ns string, classify func(e ast.Expr) flow.Val, inl func(*ast.CallExpr, *types.Func) *flow.Func) *muxSrc {
	t := &muxSrc{f: f, inl: inl, retOwner: map[*ast.ReturnStmt]*types.Func{}, vf: newMuxFlow(fns), sRenders: map[string]bool{}, seed: map[string]flow.Val{}, p: "ev:" + ns, classify: classify}
	for fo, rets := range t.vf.rets {
		for _, r := range rets {
			t.retOwner[r] = fo
		}
	}
	return t
}

func newC07Src(f *flow.Func, fns []*flow.Func, specific, general *types.Var, inl func(*ast.CallExpr, *types.Func) *flow.Func) *muxSrc {
	t := &muxSrc{f: f, specific: specific, general: general, inl: inl, retOwner: map[*ast.ReturnStmt]*types.Func{}, vf: newMuxFlow(fns), sRenders: map[string]bool{}, seed: map[string]flow.Val{}, p: "ev:"}
	for fo, rets := range t.vf.rets {
		for _, r := range rets {
			t.retOwner[r] = fo
		}
	}
	for _, g := range fns {
		ast.Inspect(g.Body, func(n ast.Node) bool {
			if sel, ok := n.(*ast.SelectorExpr); ok && t.class(sel) == flow.True {
				t.sRenders[f.Render(sel)] = true
			}
			return true
		})
	}
	return t
}

// class: True for a selection of the specific field, False for the general field.
func (t *muxSrc) class(e ast.Expr) flow.Val {
	if t.classify != nil {
		return t.classify(ast.Unparen(e))
	}
	sel, ok := ast.Unparen(e).(*ast.SelectorExpr)
	if !ok {
		return flow.Unknown
	}
	if s := t.f.Info.Selections[sel]; s != nil {
		switch s.Obj() {
		case types.Object(t.specific):
			return flow.True
		case types.Object(t.general):
			return flow.False
		}
	}
	return flow.Unknown
}

func (t *muxSrc) inlined(call *ast.CallExpr) *types.Func {
	if call == nil || call.Ellipsis.IsValid() {
		return nil
	}
	fo, ok := t.f.Callee(call).(*types.Func)
	if !ok || t.inl == nil || t.inl(call, fo) == nil {
		return nil
	}
	return fo.Origin()
}

// get returns the source of the value of e in st.
func (t *muxSrc) get(st *flow.State, e ast.Expr) flow.Val {
	e = ast.Unparen(e)
	if v := t.class(e); v != flow.Unknown {
		return v
	}
	if call, ok := e.(*ast.CallExpr); ok {
		if tv, ok := t.f.Info.Types[call.Fun]; ok && tv.IsType() && len(call.Args) == 1 {
			return t.get(st, call.Args[0]) // conversion
		}
		return flow.Unknown
	}
	id, ok := e.(*ast.Ident)
	if !ok {
		return flow.Unknown
	}
	r := t.f.Render(id)
	for _, fact := range st.Facts() {
		if strings.HasPrefix(fact, t.p+"pend:"+r+"\x00") {
			return st.Get(t.p + "ret:" + fact[len(t.p+"pend:"+r+"\x00"):len(fact)-2])
		}
	}
	return st.Get(t.p + "src:" + r)
}

// settle resolves the variables (and return slots) waiting for a call that has returned.
func (t *muxSrc) settle(st *flow.State) {
	for changed, n := true, 0; changed && n < 4; n++ {
		changed = false
		for _, fact := range st.Facts() {
			if !strings.HasPrefix(fact, t.p+"pend:") {
				continue
			}
			key := fact[:len(fact)-2]
			parts := strings.SplitN(key[len(t.p+"pend:"):], "\x00", 2)
			if len(parts) != 2 {
				continue
			}
			retKey := t.p + "ret:" + parts[1]
			if st.Get(t.p+"returned:"+parts[1]) != flow.True {
				continue
			}
			v := st.Get(retKey)
			st.Set(key, flow.Unknown)
			if strings.HasPrefix(parts[0], "ret:") {
				st.Set(t.p+parts[0], v)
				st.Set(t.p+"returned:"+parts[0][len("ret:"):], flow.True)
			} else {
				st.Set(t.p+"src:"+parts[0], v)
			}
			changed = true
		}
	}
}

func (t *muxSrc) setVar(st *flow.State, l ast.Expr, v flow.Val) {
	id := muxIdentOf(l)
	if id == nil || id.Name == "_" {
		return
	}
	r := t.f.Render(id)
	for _, fact := range st.Facts() {
		if strings.HasPrefix(fact, t.p+"pend:"+r+"\x00") {
			st.Set(fact[:len(fact)-2], flow.Unknown)
		}
	}
	st.Set(t.p+"src:"+r, v)
}

// muxRetSlot names result i of a function in the event keys.
func muxRetSlot(fo *types.Func, i int) string { return sprintf("%s#%d", fo.FullName(), i) }

func (t *muxSrc) await(st *flow.State, slot string, fo *types.Func, i int) {
	st.Set(t.p+"ret:"+muxRetSlot(fo, i), flow.Unknown)
	st.Set(t.p+"returned:"+muxRetSlot(fo, i), flow.Unknown)
	st.Set(t.p+"pend:"+slot+"\x00"+muxRetSlot(fo, i), flow.True)
}

func (t *muxSrc) onNode(st *flow.State, n ast.Node) {
	t.settle(st)
	switch x := n.(type) {
	case *ast.AssignStmt:
		switch {
		case x.Tok != token.ASSIGN && x.Tok != token.DEFINE:
			for _, l := range x.Lhs {
				t.setVar(st, l, flow.Unknown)
			}
		case len(x.Rhs) == 1 && t.inlined(c07CallOf(x.Rhs[0])) != nil:
			for _, l := range x.Lhs {
				t.setVar(st, l, flow.Unknown)
			}
			for i, l := range x.Lhs {
				if id := muxIdentOf(l); id != nil && id.Name != "_" {
					t.await(st, t.f.Render(id), t.inlined(c07CallOf(x.Rhs[0])), i)
				}
			}
		case len(x.Lhs) == len(x.Rhs):
			vals := make([]flow.Val, len(x.Rhs))
			for i, r := range x.Rhs {
				vals[i] = t.get(st, r)
			}
			for i, l := range x.Lhs {
				t.setVar(st, l, vals[i])
			}
		default:
			for i, l := range x.Lhs {
				v := flow.Unknown
				if call := c07CallOf(x.Rhs[0]); call != nil && len(x.Rhs) == 1 && t.classifyTuple != nil {
					v = t.classifyTuple(call, i)
				}
				t.setVar(st, l, v)
			}
		}
	case *ast.ValueSpec:
		for i, nm := range x.Names {
			v := flow.Unknown
			if len(x.Values) == len(x.Names) {
				v = t.get(st, x.Values[i])
			}
			t.setVar(st, nm, v)
		}
	case *ast.IncDecStmt:
		t.setVar(st, x.X, flow.Unknown)
	case *ast.ReturnStmt:
		fo := t.retOwner[x]
		if fo == nil {
			return
		}
		nres := fo.Type().(*types.Signature).Results().Len()
		switch {
		case len(x.Results) == 1 && t.inlined(c07CallOf(x.Results[0])) != nil:
			// return h(..): every result slot waits for the callee's
			callee := t.inlined(c07CallOf(x.Results[0]))
			for i := 0; i < nres; i++ {
				st.Set(t.p+"ret:"+muxRetSlot(fo, i), flow.Unknown)
				st.Set(t.p+"returned:"+muxRetSlot(fo, i), flow.Unknown)
				t.await(st, "ret:"+muxRetSlot(fo, i), callee, i)
			}
		case len(x.Results) >= 1:
			for i, r := range x.Results {
				if len(x.Results) != nres {
					break
				}
				st.Set(t.p+"ret:"+muxRetSlot(fo, i), t.get(st, r))
				st.Set(t.p+"returned:"+muxRetSlot(fo, i), flow.True)
			}
		default:
			for i, id := range t.vf.results[fo] {
				st.Set(t.p+"ret:"+muxRetSlot(fo, i), t.get(st, id))
				st.Set(t.p+"returned:"+muxRetSlot(fo, i), flow.True)
			}
		}
	}
}

func c07CallOf(e ast.Expr) *ast.CallExpr {
	c, _ := ast.Unparen(e).(*ast.CallExpr)
	return c
}

// onCall binds the parameters of a callee interpreted in place to the sources of the operands.
func (t *muxSrc) onCall(st *flow.State, call *ast.CallExpr, callee types.Object, deferred bool) {
	if deferred {
		return
	}
	fo := t.inlined(call)
	if fo == nil {
		return
	}
	g := t.vf.fnOf[fo]
	if g == nil {
		return
	}
	fd := g.Node.(*ast.FuncDecl)
	if fd.Recv != nil && len(fd.Recv.List) == 1 && len(fd.Recv.List[0].Names) == 1 {
		if sel, ok := ast.Unparen(call.Fun).(*ast.SelectorExpr); ok {
			t.setVar(st, fd.Recv.List[0].Names[0], t.get(st, sel.X))
		}
	}
	i := 0
	for _, fld := range fd.Type.Params.List {
		if len(fld.Names) == 0 {
			i++
		}
		for _, nm := range fld.Names {
			if i < len(call.Args) {
				t.setVar(st, nm, t.get(st, call.Args[i]))
			}
			i++
		}
	}
}

// afterAssume records what a zero test of a value of the specific setting has found.
func (t *muxSrc) afterAssume(st *flow.State) {
	t.settle(st)
	for _, fact := range st.Facts() {
		if !strings.HasPrefix(fact, "eq:") || !(strings.HasSuffix(fact, "==0=T") || strings.HasSuffix(fact, "==0=F")) {
			continue
		}
		x := fact[len("eq:") : len(fact)-len("==0=T")]
		if t.sRenders[x] || st.Is(t.p+"src:"+x, flow.True) {
			if strings.HasSuffix(fact, "=T") {
				st.Set(t.p+"Szero", flow.True)
			} else {
				st.Set(t.p+"Szero", flow.False)
			}
		}
	}
}

func (t *muxSrc) config(extra flow.Config) flow.Config {
	onNode, onCall, after, onBlock := extra.OnNode, extra.OnCall, extra.AfterAssume, extra.OnBlock
	extra.NoHavoc = true
	extra.OnNode = func(st *flow.State, n ast.Node) {
		t.onNode(st, n)
		if onNode != nil {
			onNode(st, n)
		}
	}
	extra.OnCall = func(st *flow.State, call *ast.CallExpr, callee types.Object, deferred bool) {
		t.onCall(st, call, callee, deferred)
		if onCall != nil {
			onCall(st, call, callee, deferred)
		}
	}
	extra.AfterAssume = func(st *flow.State, cond ast.Expr, outcome bool) {
		t.afterAssume(st)
		if after != nil {
			after(st, cond, outcome)
		}
	}
	extra.OnBlock = func(st *flow.State, b *cfg.Block) {
		if b.Index == 0 && b.Stmt == ast.Node(t.f.Body) {
			for k, v := range t.seed {
				st.Set(k, v)
			}
		}
		if onBlock != nil {
			onBlock(st, b)
		}
	}
	return extra
}

// c07LimitIn checks the "specific, else general when 0" selection of the limit passed to fetch.
// entry is the function to analyse (the fetch call is in it or in a same-package helper it calls,
// interpreted in place); opaque lists callees that stay uninterpreted.
func c07LimitIn(c *core.Ctx, entry *flow.Func, cons string, fetch *ast.CallExpr, specific, general *types.Var, what string, opaque ...types.Object) {
	if fetch == nil || len(fetch.Args) != 1 {
		c.Undecide("R-C07-2", cons+"|effective "+what, pos(c, entry.Body), "FetchPayload call not found")
		return
	}
	if specific == nil || general == nil {
		c.Undecide("R-C07-2", cons+"|effective "+what, pos(c, fetch), "cannot resolve the specific / general limit settings")
		return
	}
	type use struct {
		st  *flow.State
		src flow.Val
	}
	var uses []use
	omap := map[types.Object]bool{}
	for _, o := range opaque {
		omap[o] = true
	}
	arg := ast.Unparen(fetch.Args[0])
	switch x := arg.(type) {
	case *ast.Ident:
		fns := muxReach(entry, 4, omap)
		t := newC07Src(entry, fns, specific, general, inlineSamePkg(entry, opaque...))
		res := muxAnalyzeInl(c, entry, t.config(flow.Config{}), opaque...)
		if res == nil {
			return
		}
		for _, st := range res.At[fetch] {
			uses = append(uses, use{st, t.get(st, x)})
		}
		// the limit is a parameter the function only passes on (buildResponse(spCtx, stdResp,
		// maxBodySize)): the selection is made by its callers, each is analysed with the function
		// interpreted in place
		if callers := c07ParamCallers(entry, fns, x); len(callers) > 0 {
			known := false
			for _, u := range uses {
				known = known || u.src != flow.Unknown
			}
			if !known {
				uses = nil
				for _, caller := range callers {
					keep := map[types.Object]bool{}
					for _, g := range fns {
						keep[muxFuncObj(g)] = true
					}
					var opq []types.Object
					for _, g := range muxReach(caller, 4, omap)[1:] {
						o := muxFuncObj(g)
						if o == nil || keep[o] {
							continue
						}
						if sig, ok := o.Type().(*types.Signature); ok && sig.Results().Len() == 1 && types.Identical(sig.Results().At(0).Type(), types.Typ[types.Int64]) {
							continue // a helper that selects the limit
						}
						opq = append(opq, o)
					}
					opq = append(opq, opaque...)
					om2 := map[types.Object]bool{}
					for _, o := range opq {
						om2[o] = true
					}
					t2 := newC07Src(caller, muxReach(caller, 4, om2), specific, general, inlineSamePkg(caller, opq...))
					res2 := muxAnalyzeInl(c, caller, t2.config(flow.Config{}), opq...)
					if res2 == nil {
						return
					}
					if len(res2.At[fetch]) == 0 {
						c.Undecide("R-C07-2", cons+"|effective "+what, pos(c, fetch), "the limit is a parameter and the FetchPayload call is not reached from "+caller.Name)
						return
					}
					for _, st := range res2.At[fetch] {
						uses = append(uses, use{st, t2.get(st, x)})
					}
				}
			}
		}
	case *ast.CallExpr:
		// the selection is a function of its own: FetchPayload(h(..))
		fo, _ := entry.Callee(x).(*types.Func)
		var h *flow.Func
		if fo != nil && fo.Pkg() == entry.Pkg.Types {
			if fd := declOf(entry.Pkg, fo); fd != nil {
				h = flow.NewFunc(entry.Pkg, fd)
			}
		}
		if h == nil {
			c.Undecide("R-C07-2", cons+"|effective "+what, pos(c, fetch), "the limit handed to FetchPayload is computed by a call that cannot be followed")
			return
		}
		fns := muxReach(h, 3, omap)
		t := newC07Src(h, fns, specific, general, inlineSamePkg(h, opaque...))
		// the operands of the call seed the parameters
		hd := h.Node.(*ast.FuncDecl)
		i := 0
		for _, fld := range hd.Type.Params.List {
			if len(fld.Names) == 0 {
				i++
			}
			for _, nm := range fld.Names {
				if i < len(x.Args) {
					if v := t.class(x.Args[i]); v != flow.Unknown {
						t.seed[t.p+"src:"+h.Render(nm)] = v
					}
				}
				i++
			}
		}
		res := muxAnalyzeInl(c, h, t.config(flow.Config{}), opaque...)
		if res == nil {
			return
		}
		for _, ex := range res.Exits {
			if ex.Kind == flow.ExitReturn {
				uses = append(uses, use{ex.State, ex.State.Get("ev:ret:" + muxRetSlot(fo.Origin(), 0))})
			}
		}
	case *ast.SelectorExpr:
		// the specific setting read as it is. When the package also stores into that field outside
		// its constructor literal (a fallback resolved at load time: `if mp.limit == 0 { mp.limit =
		// serverLimit }`), what the field holds per request is not followed here
		if sl := entry.Info.Selections[x]; sl != nil && sl.Obj() == types.Object(specific) {
			if at := c07FieldStoredOutsideLiteral(entry, specific); at != nil {
				c.Undecide("R-C07-2", cons+"|effective "+what, pos(c, fetch), "the specific limit is handed to FetchPayload as it is and the package assigns to that field after construction ("+pos(c, at)+"): a fallback resolved at load time is not followed")
				return
			}
		}
		c.Violate("R-C07-2", cons+"|effective "+what, pos(c, fetch), "the limit handed to FetchPayload is not a selected value (specific value, else general value)")
		return
	default:
		if tv, ok := entry.Info.Types[arg]; ok && tv.Value != nil {
			c.Violate("R-C07-2", cons+"|effective "+what, pos(c, fetch), "the limit handed to FetchPayload is not a selected value (specific value, else general value)")
			return
		}
		c.Undecide("R-C07-2", cons+"|effective "+what, pos(c, fetch), "the expression handed to FetchPayload cannot be followed")
		return
	}
	var bad *flow.State
	why := ""
	sawS, sawG := false, false
	for _, u := range uses {
		switch u.src {
		case flow.True:
			sawS = true
			if !u.st.Is("ev:Szero", flow.False) {
				bad, why = u.st, "the specific limit is used without having been tested for 0 (an unset specific limit must fall back to the general one)"
			}
		case flow.False:
			sawG = true
			if !u.st.Is("ev:Szero", flow.True) {
				bad, why = u.st, "the general limit replaces the specific one although the specific one is not known to be 0"
			}
		default:
			bad, why = u.st, "the limit does not come from the specific or the general setting"
		}
	}
	if bad == nil && !(sawS && sawG) {
		c.Violate("R-C07-2", cons+"|effective "+what, pos(c, fetch), sprintf("the limit selection does not offer both the specific and the general value (specific seen %v, general seen %v)", sawS, sawG))
		return
	}
	c.Check(bad == nil, "R-C07-2", cons+"|effective "+what, pos(c, fetch), "specific value when non-zero, general value exactly when the specific one is 0", why, witness(bad)...)
}

// c07FieldStoredOutsideLiteral returns an assignment statement of the package that stores into
// field fv (nil if the field is only ever set by composite literals).
func c07FieldStoredOutsideLiteral(entry *flow.Func, fv *types.Var) ast.Node {
	var at ast.Node
	for _, file := range entry.Pkg.Syntax {
		ast.Inspect(file, func(n ast.Node) bool {
			if as, ok := n.(*ast.AssignStmt); ok && at == nil {
				for _, l := range as.Lhs {
					if sel, ok := ast.Unparen(l).(*ast.SelectorExpr); ok {
						if sl := entry.Pkg.TypesInfo.Selections[sel]; sl != nil && sl.Obj() == types.Object(fv) {
							at = as
						}
					}
				}
			}
			return at == nil
		})
	}
	return at
}

// c07ParamCallers returns the same-package callers of entry when x (an operand inside entry or one
// of the helpers fns) is, through plain copies, nothing but a parameter of entry.
func c07ParamCallers(entry *flow.Func, fns []*flow.Func, x *ast.Ident) []*flow.Func {
	fd, ok := entry.Node.(*ast.FuncDecl)
	if !ok || fd.Type.Params == nil {
		return nil
	}
	params := map[types.Object]bool{}
	for _, fld := range fd.Type.Params.List {
		for _, nm := range fld.Names {
			params[entry.Info.Defs[nm]] = true
		}
	}
	vf := newMuxFlow(fns)
	vals := vf.flat(x)
	if len(vals) == 0 {
		return nil
	}
	for _, v := range vals {
		if v.root == nil || len(v.fields) != 0 || !params[v.root] {
			return nil
		}
	}
	eo := muxFuncObj(entry)
	if eo == nil {
		return nil
	}
	var out []*flow.Func
	for _, file := range entry.Pkg.Syntax {
		for _, d := range file.Decls {
			cd, ok := d.(*ast.FuncDecl)
			if !ok || cd.Body == nil || cd == fd {
				continue
			}
			calls := false
			ast.Inspect(cd.Body, func(n ast.Node) bool {
				if call, ok := n.(*ast.CallExpr); ok {
					if id := muxCalleeIdent(call); id != nil {
						if fo, ok := entry.Info.Uses[id].(*types.Func); ok && fo.Origin() == eo {
							calls = true
						}
					}
				}
				return !calls
			})
			if calls {
				out = append(out, funcOf(entry.Pkg, cd))
			}
		}
	}
	return out
}

func muxCalleeIdent(call *ast.CallExpr) *ast.Ident {
	switch f := ast.Unparen(call.Fun).(type) {
	case *ast.Ident:
		return f
	case *ast.SelectorExpr:
		return f.Sel
	}
	return nil
}

// c07StreamFields resolves, by type, the fields in which a message (Request / Response) keeps its
// stream: *readers.ByteCountReader fields of the message struct and of the same-package structs it
// holds (by value or by pointer) in a field.
func c07StreamFields(c *core.Ctx, recv string) map[*types.Var]bool {
	out := map[*types.Var]bool{}
	n := namedType(c, hp, recv)
	if n == nil {
		return out
	}
	var visit func(t types.Type, depth int)
	visit = func(t types.Type, depth int) {
		st, ok := t.Underlying().(*types.Struct)
		if !ok || depth > 2 {
			return
		}
		for i := 0; i < st.NumFields(); i++ {
			fv := st.Field(i)
			if strings.HasSuffix(fv.Type().String(), "pkg/util/readers.ByteCountReader") {
				out[fv] = true
				continue
			}
			if h := muxDerefNamed(fv.Type()); h != nil && h.Obj().Pkg() == n.Obj().Pkg() {
				visit(h, depth+1)
			}
		}
	}
	visit(n, 0)
	return out
}

// c07PayloadSetters returns the functions of httpprot that take one operand of interface type,
// return nothing and store into a stream field (directly or through one such function).
func c07PayloadSetters(c *core.Ctx, streamFs map[*types.Var]bool) map[types.Object]bool {
	out := map[types.Object]bool{}
	pkg := c.Prog.Pkg(hp)
	if pkg == nil {
		return out
	}
	for round := 0; round < 2; round++ {
		for _, file := range pkg.Syntax {
			for _, d := range file.Decls {
				fd, ok := d.(*ast.FuncDecl)
				if !ok || fd.Body == nil {
					continue
				}
				fo, _ := pkg.TypesInfo.Defs[fd.Name].(*types.Func)
				if fo == nil || out[fo] {
					continue
				}
				sig := fo.Type().(*types.Signature)
				if sig.Params().Len() != 1 || sig.Results().Len() != 0 {
					continue
				}
				if _, isIface := sig.Params().At(0).Type().Underlying().(*types.Interface); !isIface {
					continue
				}
				stores := false
				ast.Inspect(fd.Body, func(x ast.Node) bool {
					switch y := x.(type) {
					case *ast.AssignStmt:
						for _, l := range y.Lhs {
							if sel, ok := ast.Unparen(l).(*ast.SelectorExpr); ok {
								if sl := pkg.TypesInfo.Selections[sel]; sl != nil {
									if fv, ok := sl.Obj().(*types.Var); ok && streamFs[fv] {
										stores = true
									}
								}
							}
						}
					case *ast.CallExpr:
						if id := muxCalleeIdent(y); id != nil {
							if io, ok := pkg.TypesInfo.Uses[id].(*types.Func); ok && out[io.Origin()] {
								stores = true
							}
						}
					}
					return !stores
				})
				if stores {
					out[fo] = true
				}
			}
		}
	}
	return out
}

func c07IsSetter(g *flow.Func, call *ast.CallExpr, setters map[types.Object]bool) bool {
	fo, ok := g.Callee(call).(*types.Func)
	return ok && setters[fo.Origin()]
}

// c07RespFetch locates resp.FetchPayload in ServerPool.buildResponse or a same-package helper.
func c07RespFetch(f *flow.Func) (*ast.CallExpr, *flow.Func) {
	for _, g := range reach(f, 3) {
		for _, call := range calls(g.Body, true) {
			if calleeIs(g, call, "(*"+hp+".Response).FetchPayload") {
				return call, g
			}
		}
	}
	return nil, nil
}

func c07Limit(c *core.Ctx) {
	if s := analyzeServe(c, "R-C07-2"); s != nil {
		var general *types.Var
		if s.ro.specT != nil {
			general = muxOneField(s.ro.specT, "ClientMaxBodySize", func(v *types.Var) bool { return v.Name() == "ClientMaxBodySize" })
		}
		// the helpers the serve analysis keeps uninterpreted stay so, except integer-valued ones:
		// a helper such as (*MuxPath).bodySizeLimit(serverLimit) is where the selection happens
		var opaque []types.Object
		for _, o := range s.opaque {
			fo, ok := o.(*types.Func)
			if !ok {
				continue
			}
			sig := fo.Type().(*types.Signature)
			if sig.Results().Len() == 1 && types.Identical(sig.Results().At(0).Type(), types.Typ[types.Int64]) {
				continue
			}
			opaque = append(opaque, o)
		}
		c07LimitIn(c, s.f, s.cons, s.fetch, s.ro.limitF, general, "clientMaxBodySize", opaque...)
	}
	px := "pkg/filters/proxy"
	if f := c07BuildResponseFn(c, "R-C07-2"); f != nil {
		fetch, _ := c07RespFetch(f)
		var specific, general *types.Var
		if n := namedType(c, px, "ServerPoolSpec"); n != nil {
			specific = muxOneField(n, "ServerMaxBodySize", func(v *types.Var) bool { return v.Name() == "ServerMaxBodySize" })
		}
		if n := namedType(c, px, "Spec"); n != nil {
			general = muxOneField(n, "ServerMaxBodySize", func(v *types.Var) bool { return v.Name() == "ServerMaxBodySize" })
		}
		c07LimitIn(c, f, muxFuncConstruct(f), fetch, specific, general, "serverMaxBodySize")
	}
}

func c07Fetch(c *core.Ctx, recv string) {
	f := fn(c, hp, recv, "FetchPayload")
	if f == nil {
		return
	}
	cons := fname(hp, recv, "FetchPayload")
	if f.Type.Params == nil || len(f.Type.Params.List) != 1 || len(f.Type.Params.List[0].Names) != 1 {
		c.Undecide("R-C07-3", cons+"|signature", pos(c, f.Body), "unexpected signature")
		return
	}
	max := f.Type.Params.List[0].Names[0]
	maxObj := f.Info.Defs[max]
	// the body may be split into same-package helpers (also shared between Request and Response);
	// SetPayload (the sink of the payload) stays uninterpreted
	opaque := map[types.Object]bool{}
	for _, r := range []string{"Request", "Response"} {
		if g := fnOpt(c, hp, r, "SetPayload"); g != nil {
			opaque[muxFuncObj(g)] = true
		}
	}
	// the stream of the message by role: the *ByteCountReader field of the message, or of a
	// same-package struct the message holds its payload in (`content payloadHolder`); the
	// functions that take a payload of any type and store it (SetPayload, content.set) are sinks
	streamFs := c07StreamFields(c, recv)
	setters := c07PayloadSetters(c, streamFs)
	for o := range setters {
		opaque[o] = true
	}
	fns := muxReach(f, 3, opaque)
	vf := newMuxFlow(fns)
	info := f.Info
	isDefaultConst := func(e ast.Expr) bool {
		id := muxIdentOf(e)
		if id == nil {
			if sel, ok := ast.Unparen(e).(*ast.SelectorExpr); ok {
				id = sel.Sel
			}
		}
		if id == nil {
			return false
		}
		cst, ok := info.Uses[id].(*types.Const)
		return ok && cst.Name() == "DefaultMaxPayloadSize"
	}
	// the effective limit: the parameter, or the local it is copied into before 0 is replaced
	lim := max
	ast.Inspect(f.Body, func(n ast.Node) bool {
		if as, ok := n.(*ast.AssignStmt); ok && len(as.Lhs) == 1 && len(as.Rhs) == 1 && isDefaultConst(as.Rhs[0]) {
			if id := muxIdentOf(as.Lhs[0]); id != nil && vf.obj(id) != maxObj {
				if def := vf.ident[vf.obj(id)]; def != nil {
					lim = def
				}
			}
		}
		return true
	})
	limObj := vf.obj(lim)
	limR := f.Render(lim)
	zeroKey := "eq:" + limR + "==0"
	// isLim: the expression denotes the effective limit (the limit variable, the parameter it was
	// copied from, the default constant), also through fields of a struct literal and parameters
	isLim := func(e ast.Expr) bool {
		vs := vf.flat(e)
		for _, v := range vs {
			switch {
			case v.root != nil && len(v.fields) == 0 && (v.root == limObj || v.root == maxObj):
			case v.root == nil && v.expr != nil && isDefaultConst(v.expr):
			default:
				return false
			}
		}
		return len(vs) > 0
	}
	// isCL: the expression denotes the declared length (ContentLength of the net/http message)
	isCL := func(e ast.Expr) bool {
		vs := vf.flat(e)
		for _, v := range vs {
			l := v.last()
			if l == nil || l.Name() != "ContentLength" || l.Pkg() == nil || l.Pkg().Path() != "net/http" {
				return false
			}
		}
		return len(vs) > 0
	}
	limRenders, clRenders := map[string]bool{}, map[string]bool{}
	for _, g := range fns {
		ast.Inspect(g.Body, func(n ast.Node) bool {
			var e ast.Expr
			switch x := n.(type) {
			case *ast.SelectorExpr:
				if sl := info.Selections[x]; sl != nil && sl.Kind() == types.FieldVal {
					e = x
				}
			case *ast.Ident:
				if _, isVar := vf.obj(x).(*types.Var); isVar {
					e = x
				}
			}
			if e == nil {
				return true
			}
			if tv, ok := info.Types[e]; ok && tv.Type != nil {
				if b, isB := tv.Type.Underlying().(*types.Basic); !isB || b.Info()&types.IsInteger == 0 {
					return true
				}
			}
			r := f.Render(e)
			if isLim(e) {
				limRenders[r] = true
			} else if isCL(e) {
				clRenders[r] = true
			}
			return true
		})
	}
	var mk, readFull, readAll, probe *ast.CallExpr
	var makes, fulls []*ast.CallExpr
	var streamSets []ast.Node
	if len(streamFs) == 0 {
		c.Undecide("R-C07-3", cons+"|stream iff negative limit", pos(c, f.Body), "cannot resolve where the "+recv+" keeps its stream (no *ByteCountReader field in it or in a struct it holds)")
		return
	}
	for _, g := range fns {
		for _, call := range calls(g.Body, false) {
			full := calleeFull(g, call)
			switch {
			case full == "builtin.make":
				if tv, ok := info.Types[call]; ok && tv.Type != nil && tv.Type.String() == "[]byte" {
					makes = append(makes, call)
				}
			case full == "io.ReadFull":
				fulls = append(fulls, call)
			case full == "io.ReadAll" || full == "io/ioutil.ReadAll":
				readAll = call
			case (full == "io.Copy" || full == "io.CopyN" || full == "io.CopyBuffer") && len(call.Args) >= 2:
				if strings.HasSuffix(f.Render(call.Args[0]), "io.Discard") {
					probe = call
				}
			case (methodName(call) == "SetPayload" || c07IsSetter(g, call, setters)) && len(call.Args) == 1:
				// SetPayload(<Body>) makes a stream (Response side)
				if tv, ok := info.Types[call.Args[0]]; ok && tv.Type != nil && tv.Type.String() == "io.ReadCloser" {
					streamSets = append(streamSets, call)
				}
			}
		}
		ast.Inspect(g.Body, func(n ast.Node) bool {
			if as, ok := n.(*ast.AssignStmt); ok {
				for _, l := range as.Lhs {
					if sel, ok := ast.Unparen(l).(*ast.SelectorExpr); ok {
						if s := info.Selections[sel]; s != nil {
							if fv, ok := s.Obj().(*types.Var); ok && streamFs[fv] {
								streamSets = append(streamSets, as)
							}
						}
					}
				}
			}
			return true
		})
	}
	// the reads by role: the declared-length read fills a buffer of ContentLength bytes with
	// io.ReadFull; the unknown-length read is io.ReadAll(io.LimitReader(body, limit)) or io.ReadFull
	// into a buffer of limit bytes
	bufferOf := func(rf *ast.CallExpr) *ast.CallExpr {
		if len(rf.Args) != 2 {
			return nil
		}
		for _, v := range vf.flat(rf.Args[1]) {
			if mc, ok := v.expr.(*ast.CallExpr); ok && v.root == nil {
				for _, m := range makes {
					if m == mc {
						return m
					}
				}
			}
		}
		return nil
	}
	var mkU, readFullU *ast.CallExpr // unknown-length read in the ReadFull form
	for _, rf := range fulls {
		m := bufferOf(rf)
		switch {
		case m != nil && len(m.Args) >= 2 && isLim(m.Args[1]) && !isCL(m.Args[1]):
			mkU, readFullU = m, rf
		case m != nil && (mk == nil || (len(m.Args) >= 2 && isCL(m.Args[1]))):
			mk, readFull = m, rf
		case mk == nil:
			readFull = rf
		}
	}
	if mk == nil && len(makes) > 0 && mkU == nil {
		mk = makes[len(makes)-1]
	}
	if readFull == nil && readFullU == nil && len(fulls) > 0 {
		readFull = fulls[len(fulls)-1]
	}
	unknownRead, fullForm := readAll, false
	if unknownRead == nil && readFullU != nil {
		unknownRead, fullForm = readFullU, true
	}
	if mk == nil || readFull == nil || unknownRead == nil {
		c.Errorf("R-C07-3: anchor: %s (helpers included) lacks the declared-length read (make + io.ReadFull) or the unknown-length read (io.ReadAll / io.ReadFull into a limit-sized buffer) (make=%v ReadFull=%v unknown-length read=%v)", cons, mk != nil, readFull != nil, unknownRead != nil)
		return
	}
	_ = mkU
	// result variables
	fullErrs := muxResultHolders(vf, readFull, 1)
	var payloadVar, probeN, uErr *ast.Ident
	for _, g := range fns {
		ast.Inspect(g.Body, func(n ast.Node) bool {
			as, ok := n.(*ast.AssignStmt)
			if !ok || len(as.Rhs) != 1 || len(as.Lhs) != 2 {
				return true
			}
			switch ast.Unparen(as.Rhs[0]) {
			case ast.Expr(unknownRead):
				if !fullForm {
					payloadVar = muxIdentOf(as.Lhs[0])
				}
				uErr = muxIdentOf(as.Lhs[1])
			case ast.Expr(probe):
				if probe != nil {
					probeN = muxIdentOf(as.Lhs[0])
				}
			}
			return true
		})
	}
	var probeErrs map[types.Object]*ast.Ident
	if probe != nil {
		probeErrs = muxResultHolders(vf, probe, 1)
	}
	defaulted := "ev:defaulted"
	// which error variables hold the too-large sentinel (handed to helpers as a parameter, returned
	// among several results)
	sentinelName := "ErrRequestEntityTooLarge"
	if recv == "Response" {
		sentinelName = "ErrResponseEntityTooLarge"
	}
	sent := newMuxSrc(f, fns, "sn:", func(e ast.Expr) flow.Val {
		id := muxIdentOf(e)
		if id == nil {
			if sel, ok := e.(*ast.SelectorExpr); ok {
				id = sel.Sel
			}
		}
		if id != nil && id.Name == sentinelName {
			if v, ok := info.Uses[id].(*types.Var); ok && v.Parent() == f.Pkg.Types.Scope() {
				return flow.True
			}
		}
		return flow.Unknown
	}, inlineSamePkg(f, muxObjList(opaque)...))
	res := muxAnalyzeInl(c, f, muxEnumSwitches(c, f, fns).config(sent.config(flow.Config{NoHavoc: true,
		OnNode: func(st *flow.State, n ast.Node) {
			as, ok := n.(*ast.AssignStmt)
			if !ok || len(as.Lhs) != 1 || len(as.Rhs) != 1 {
				return
			}
			if id := muxIdentOf(as.Lhs[0]); id != nil && vf.obj(id) == limObj {
				if isDefaultConst(as.Rhs[0]) {
					st.Set(defaulted, flow.True)
				} else {
					st.Set(defaulted, flow.Unknown)
				}
			}
		},
		OnCall: func(st *flow.State, call *ast.CallExpr, callee types.Object, deferred bool) {
			switch call {
			case readFull:
				st.Set("ev:readfull", flow.True)
			case unknownRead:
				st.Set("ev:readall", flow.True)
			case probe:
				st.Set("ev:probed", flow.True)
			}
		},
	})), muxObjList(opaque)...)
	if res == nil {
		return
	}
	// (a) zero → default before anything else looks at the limit: at every use the limit is the
	// default constant, or known to be non-zero
	// what is known about the limit is asked about every spelling of it (the limit variable, a
	// copy, a field of a struct carrying it)
	limFact := func(st *flow.State, prefix, suffix string) flow.Val {
		for r := range limRenders {
			if v := st.Get(prefix + r + suffix); v != flow.Unknown {
				return v
			}
		}
		return flow.Unknown
	}
	nonZero := func(st *flow.State) bool {
		if st.Is(defaulted, flow.True) || limFact(st, "eq:", "==0") == flow.False {
			return true
		}
		for _, fact := range st.Facts() {
			if !strings.HasPrefix(fact, "eq:") || !strings.HasSuffix(fact, "=T") {
				continue
			}
			i := strings.LastIndex(fact, "==")
			if i < 0 || !limRenders[fact[len("eq:"):i]] {
				continue
			}
			if v := fact[i+2 : len(fact)-2]; v != "" && v[0] >= '1' && v[0] <= '9' {
				return true
			}
		}
		return false
	}
	limRenders[limR] = true
	_ = zeroKey
	var bad *flow.State
	why := ""
	check := func(at ast.Node) {
		for _, st := range res.At[at] {
			switch {
			case nonZero(st):
			case limFact(st, "eq:", "==0") == flow.True:
				bad, why = st, "a limit of 0 is used as is instead of the default limit"
			default:
				bad, why = st, "the limit is used without the `0 means default` replacement having been applied"
			}
		}
	}
	check(mk)
	check(unknownRead)
	for _, s := range streamSets {
		check(s)
	}
	c.Check(bad == nil, "R-C07-3", cons+"|0 replaced by the default limit", pos(c, f.Body), "every use of the limit follows `if max == 0 { max = DefaultMaxPayloadSize }`", why, witness(bad)...)

	// (b) stream only for negative limits; buffering only for non-negative
	bad, why = nil, ""
	for _, s := range streamSets {
		for _, st := range res.At[s] {
			if limFact(st, "lt:", "<0") != flow.True {
				bad, why = st, "a stream is created although the limit is not negative (the body would bypass the size limit)"
			}
		}
	}
	if len(streamSets) == 0 {
		c.Violate("R-C07-3", cons+"|stream iff negative limit", pos(c, f.Body), "no stream mode: -1 no longer streams a body of any size")
	} else {
		for _, at := range []ast.Node{mk, unknownRead} {
			for _, st := range res.At[at] {
				if limFact(st, "lt:", "<0") != flow.False {
					bad, why = st, "the body is buffered although the limit may be negative (stream mode)"
				}
			}
		}
		c.Check(bad == nil, "R-C07-3", cons+"|stream iff negative limit", pos(c, f.Body), sprintf("%d stream site(s) only under max<0; buffering only under max>=0", len(streamSets)), why, witness(bad)...)
	}

	// (c) allocation bounded: ContentLength > limit is false at make/ReadFull. Both sides may be
	// spelled through locals, parameters of helpers and fields of a struct carrying them.
	clFact := func(st *flow.State) flow.Val {
		for _, fact := range st.Facts() {
			if !strings.HasPrefix(fact, "lt:") {
				continue
			}
			body := fact[len("lt:") : len(fact)-2]
			i := strings.Index(body, "<")
			if i <= 0 {
				continue
			}
			if limRenders[body[:i]] && clRenders[body[i+1:]] {
				if strings.HasSuffix(fact, "=T") {
					return flow.True
				}
				return flow.False
			}
		}
		return flow.Unknown
	}
	bad, why = nil, ""
	for _, at := range []ast.Node{mk, readFull} {
		for _, st := range res.At[at] {
			if clFact(st) != flow.False {
				bad, why = st, "the buffer for a declared-length body is allocated/read without ContentLength having been found ≤ the limit (a client can make the gateway allocate any amount of memory, and the oversized body is not refused)"
			}
		}
	}
	c.Check(bad == nil, "R-C07-3", cons+"|allocation only with ContentLength <= limit", pos(c, mk), "make and ReadFull are dominated by the failed test ContentLength > max", why, witness(bad)...)
	// the too-large exit on the declared path returns the sentinel
	sentinel := "ErrRequestEntityTooLarge"
	if recv == "Response" {
		sentinel = "ErrResponseEntityTooLarge"
	}
	retSentinel := func(ex *flow.Exit) bool {
		r := muxRetExpr(f, vf, ex)
		if r == nil {
			return false
		}
		vs := vf.flat(r)
		all := len(vs) > 0
		for _, v := range vs {
			if v.root == nil || len(v.fields) != 0 || v.root.Name() != sentinel || v.root.Parent() != f.Pkg.Types.Scope() {
				all = false
			}
		}
		if all || sent.get(ex.State, r) == flow.True {
			return true
		}
		// a (named) result variable known to hold the sentinel
		if rid := muxIdentOf(r); rid != nil {
			return ex.State.Is("eq:"+f.Render(rid)+"==@"+f.Pkg.Types.Path()+"."+sentinel, flow.True)
		}
		return false
	}
	bad, why = nil, ""
	tooLargeDeclared := 0
	for _, ex := range res.Exits {
		if ex.Kind == flow.ExitReturn && clFact(ex.State) == flow.True && limFact(ex.State, "lt:", "<0") != flow.True {
			tooLargeDeclared++
			if !retSentinel(ex) {
				bad, why = ex.State, "a declared length above the limit does not end in the too-large error"
			}
		}
	}
	c.Check(bad == nil && tooLargeDeclared > 0, "R-C07-3", cons+"|declared length above the limit ⇒ too-large error", pos(c, f.Body), sprintf("%d exits", tooLargeDeclared), why+map[bool]string{true: "no exit for ContentLength > max", false: ""}[tooLargeDeclared == 0], witness(bad)...)

	// (d) short read reported
	holderIs := func(st *flow.State, hs map[types.Object]*ast.Ident, global string) bool {
		for _, id := range hs {
			if st.Is("eq:"+f.Render(id)+"==@"+global, flow.True) {
				return true
			}
		}
		return false
	}
	bad, why = nil, ""
	mapped := false
	nfull := 0
	for _, ex := range res.Exits {
		rexp := muxRetExpr(f, vf, ex)
		if ex.Kind != flow.ExitReturn || !ex.State.Is("ev:readfull", flow.True) || rexp == nil {
			continue
		}
		nfull++
		st := ex.State
		// `return io.ErrUnexpectedEOF` on the io.EOF branch
		if vs := vf.flat(rexp); len(vs) == 1 && vs[0].root != nil && vs[0].root.Pkg() != nil && vs[0].root.Pkg().Path() == "io" && vs[0].root.Name() == "ErrUnexpectedEOF" && holderIs(st, fullErrs, "io.EOF") {
			mapped = true
			continue
		}
		r := muxIdentOf(rexp)
		if r == nil || fullErrs[vf.obj(r)] == nil {
			bad, why = st, "after io.ReadFull the function does not return the read error (a body shorter than its declared length would be a truncated success)"
			continue
		}
		if holderIs(st, fullErrs, "io.EOF") && !holderIs(st, fullErrs, "io.ErrUnexpectedEOF") {
			bad, why = st, "io.EOF from a short read is returned unmapped"
		}
		if holderIs(st, fullErrs, "io.ErrUnexpectedEOF") {
			mapped = true
		}
	}
	if bad == nil && !mapped {
		bad, why = nil, "io.EOF of an empty short read is not mapped to io.ErrUnexpectedEOF"
		c.Violate("R-C07-3", cons+"|short read is an error", pos(c, readFull), why)
	} else {
		c.Check(bad == nil && nfull > 0, "R-C07-3", cons+"|short read is an error", pos(c, readFull), sprintf("%d exits after ReadFull return its error, EOF mapped to ErrUnexpectedEOF", nfull), why, witness(bad)...)
	}

	// ---- R-C07-4 chunked path
	readAll = unknownRead
	limOK := fullForm // io.ReadFull into make([]byte, limit) is bounded by construction
	if !fullForm && len(readAll.Args) == 1 {
		if lr, ok := vf.through(readAll.Args[0]).(*ast.CallExpr); ok && calleeFull(f, lr) == "io.LimitReader" && len(lr.Args) == 2 && isLim(lr.Args[1]) {
			limOK = true
		}
	}
	c.Check(limOK, "R-C07-4", cons+"|unknown length read through LimitReader(limit)", pos(c, readAll), "the unknown-length read is bounded by the limit (io.ReadAll(io.LimitReader(body, max)) or io.ReadFull into max bytes)",
		"a body of unknown length is read without io.LimitReader(body, max): a chunked body of any size is buffered in memory")
	// what counts as "the body is complete": only the bounded reader's own end of input. An error
	// the SOURCE also produces for a body cut mid-stream (io.ErrUnexpectedEOF from the chunked
	// reader) must stay an error, and a failed read must not end in success.
	if uErr != nil {
		var badC *flow.State
		whyC := ""
		nnil := 0
		for _, ex := range res.Exits {
			rexp := muxRetExpr(f, vf, ex)
			if ex.Kind != flow.ExitReturn || !ex.State.Is("ev:readall", flow.True) || rexp == nil {
				continue
			}
			st := ex.State
			isNilRet := info.Types[rexp].IsNil()
			if id := muxIdentOf(rexp); id != nil && !isNilRet && st.Is(f.NilKey(id), flow.True) {
				isNilRet = true
			}
			if !isNilRet {
				continue
			}
			nnil++
			ur := f.Render(uErr)
			switch {
			case st.Is("nil:"+ur, flow.True):
			case fullForm && st.Is("eq:"+ur+"==@io.EOF", flow.True):
				// io.ReadFull read nothing: the body is empty and complete
			case st.Is("eq:"+ur+"==@io.ErrUnexpectedEOF", flow.True):
				badC, whyC = st, "io.ErrUnexpectedEOF from the read of a body of unknown length is treated as 'the body is complete': the source (the chunked reader) reports the same error for a body cut mid-stream, so a truncated body is accepted as a success instead of an error status"
			default:
				badC, whyC = st, "success is returned without the error of the read of a body of unknown length having been found nil: a failed or truncated read ends as a complete body"
			}
		}
		c.Check(badC == nil && nnil > 0, "R-C07-4", cons+"|only a clean end of input completes a body of unknown length", pos(c, readAll),
			sprintf("%d successful exits after the read, all with its error nil (or io.EOF of an empty io.ReadFull)", nnil), whyC+map[bool]string{true: "no successful exit after the unknown-length read", false: ""}[nnil == 0], witness(badC)...)
	}
	if probe == nil || probeN == nil || len(probeErrs) == 0 || (payloadVar == nil && !fullForm) {
		c.Violate("R-C07-4", cons+"|extra-byte probe", pos(c, readAll), "after the limited read there is no extra-byte probe into io.Discard: a chunked body larger than the limit is silently truncated to the limit and forwarded")
		return
	}
	if calleeFull(f, probe) != "io.Copy" {
		c.Violate("R-C07-4", cons+"|extra-byte probe", pos(c, probe), "the extra-byte probe uses "+calleeFull(f, probe)+", which reports io.EOF when there is no extra byte: a body of exactly the limit is rejected instead of passing intact")
		return
	}
	// facts
	// "fewer bytes than the limit were read": len(payload) < limit, the length possibly in a local
	lenRenders := map[string]bool{}
	if payloadVar != nil {
		lenRenders["len("+f.Render(payloadVar)+")"] = true
	}
	for _, g := range fns {
		if payloadVar == nil {
			break
		}
		ast.Inspect(g.Body, func(n ast.Node) bool {
			if id, ok := n.(*ast.Ident); ok {
				if _, isVar := vf.obj(id).(*types.Var); isVar {
					if x := vf.lenOf(id); x != nil && muxIdentOf(x) != nil && vf.obj(muxIdentOf(x)) == vf.obj(payloadVar) {
						lenRenders[f.Render(id)] = true
					}
				}
			}
			return true
		})
	}
	short := func(st *flow.State) bool {
		if fullForm && uErr != nil {
			// io.ReadFull: fewer bytes than the buffer ⇔ it reported the end of input
			ur := f.Render(uErr)
			return st.Is("eq:"+ur+"==@io.EOF", flow.True) || st.Is("eq:"+ur+"==@io.ErrUnexpectedEOF", flow.True)
		}
		for _, fact := range st.Facts() {
			if !strings.HasPrefix(fact, "lt:") || !strings.HasSuffix(fact, "=T") {
				continue
			}
			if i := strings.Index(fact, "<"); i > 0 && lenRenders[fact[len("lt:"):i]] {
				return true
			}
		}
		return false
	}
	nPosKey, nZeroKey := "lt:0<"+f.Render(probeN), "eq:"+f.Render(probeN)+"==0"
	bad, why = nil, ""
	nall := 0
	sawTooLarge := false
	for _, ex := range res.Exits {
		rexp := muxRetExpr(f, vf, ex)
		if ex.Kind != flow.ExitReturn || !ex.State.Is("ev:readall", flow.True) || rexp == nil {
			continue
		}
		nall++
		st := ex.State
		isNilRet := info.Types[rexp].IsNil()
		if id := muxIdentOf(rexp); id != nil && !isNilRet && st.Is(f.NilKey(id), flow.True) {
			isNilRet = true
		}
		switch {
		case short(st):
			// fewer bytes than the limit: fine, nil or the read error
		case st.Is("ev:probed", flow.True):
			if st.Is(nPosKey, flow.True) || st.Is(nZeroKey, flow.False) {
				sawTooLarge = true
				if !retSentinel(ex) {
					bad, why = st, "extra bytes beyond the limit do not yield the too-large error"
				}
			} else if st.Is(nPosKey, flow.False) || st.Is(nZeroKey, flow.True) {
				if r := muxIdentOf(rexp); r == nil || probeErrs[vf.obj(r)] == nil {
					if !isNilRet {
						bad, why = st, "a body of exactly the limit is not accepted (the probe found no extra byte)"
					}
				}
			} else {
				bad, why = st, "the probe's byte count is not tested: an oversized chunked body is accepted truncated"
			}
		default:
			// read error exits are fine; a nil return without the probe is not
			if isNilRet {
				bad, why = st, "success is returned after the limited read filled the limit, without probing for extra bytes"
			}
		}
	}
	if bad == nil && !sawTooLarge {
		c.Violate("R-C07-4", cons+"|extra-byte probe", pos(c, probe), "no exit returns the too-large error after the probe")
		return
	}
	c.Check(bad == nil && nall > 0, "R-C07-4", cons+"|extra-byte probe", pos(c, probe), sprintf("%d exits after the limited read: short ⇒ ok, full ⇒ probe; extra bytes ⇒ too large", nall), why, witness(bad)...)
}

// muxResultHolders returns the variables that receive result idx of call, directly or through
// same-package helpers that pass it on (`return call(..)`, `x, err = call(..); return y, err`).
func muxResultHolders(vf *muxFlow, call *ast.CallExpr, idx int) map[types.Object]*ast.Ident {
	out := map[types.Object]*ast.Ident{}
	type slot struct {
		fo  *types.Func
		idx int
	}
	// the (function, result position) pairs that return variable o
	returnedBy := func(o types.Object) []slot {
		var fs []slot
		for fo, rets := range vf.rets {
			for _, r := range rets {
				for j, e := range r.Results {
					if id := muxIdentOf(e); id != nil && vf.obj(id) == o {
						fs = append(fs, slot{fo, j})
					}
				}
				if len(r.Results) == 0 {
					for j, id := range vf.results[fo] {
						if vf.obj(id) == o {
							fs = append(fs, slot{fo, j})
						}
					}
				}
			}
		}
		return fs
	}
	type key struct {
		call *ast.CallExpr
		idx  int
	}
	seen := map[key]bool{}
	var visit func(call *ast.CallExpr, idx, depth int)
	visit = func(call *ast.CallExpr, idx, depth int) {
		if depth > 4 || seen[key{call, idx}] {
			return
		}
		seen[key{call, idx}] = true
		for _, g := range vf.fns {
			ast.Inspect(g.Body, func(n ast.Node) bool {
				switch x := n.(type) {
				case *ast.AssignStmt:
					if len(x.Rhs) == 1 && ast.Unparen(x.Rhs[0]) == ast.Expr(call) && idx < len(x.Lhs) {
						if id := muxIdentOf(x.Lhs[idx]); id != nil && id.Name != "_" {
							o := vf.obj(id)
							if _, done := out[o]; !done {
								out[o] = id
								for _, sl := range returnedBy(o) {
									for _, site := range vf.sites[sl.fo] {
										visit(site.Call, sl.idx, depth+1)
									}
								}
							}
						}
					}
				case *ast.ValueSpec:
					if len(x.Values) == 1 && ast.Unparen(x.Values[0]) == ast.Expr(call) && idx < len(x.Names) {
						out[vf.obj(x.Names[idx])] = x.Names[idx]
					}
				case *ast.ReturnStmt:
					if len(x.Results) == 1 && ast.Unparen(x.Results[0]) == ast.Expr(call) {
						for fo, rets := range vf.rets {
							for _, r := range rets {
								if r == x {
									for _, site := range vf.sites[fo] {
										visit(site.Call, idx, depth+1)
									}
								}
							}
						}
					}
				}
				return true
			})
		}
	}
	visit(call, idx, 0)
	return out
}

// muxHolderNil reports what st knows about "the held error is nil" (any holder).
func muxHolderNil(f *flow.Func, st *flow.State, hs map[types.Object]*ast.Ident) flow.Val {
	for _, id := range hs {
		if v := st.Get(f.NilKey(id)); v != flow.Unknown {
			return v
		}
	}
	return flow.Unknown
}

// c07BuildResponseFn resolves ServerPool.buildResponse by role: the function of the proxy package
// whose reach fetches the backend response's payload and hands the response to the pipeline
// (SetOutputResponse), and which does not merely call another such function. rule == "" suppresses
// the anchor error.
func c07BuildResponseFn(c *core.Ctx, rule string) *flow.Func {
	px := "pkg/filters/proxy"
	does := func(g *flow.Func) bool {
		fetch, out := false, false
		inspectReach(g, 2, func(h *flow.Func, n ast.Node) bool {
			if call, ok := n.(*ast.CallExpr); ok {
				if calleeIs(h, call, "(*"+hp+".Response).FetchPayload") {
					fetch = true
				}
				if methodName(call) == "SetOutputResponse" {
					out = true
				}
			}
			return true
		})
		return fetch && out
	}
	cands := funcsByRole(c, px, func(g *flow.Func, fd *ast.FuncDecl) bool { return does(g) })
	isCand := map[types.Object]bool{}
	for _, g := range cands {
		isCand[muxFuncObj(g)] = true
	}
	var minimal []*flow.Func
	for _, g := range cands {
		callsCand := muxOwnCalls(g, func(call *ast.CallExpr) bool {
			fo, ok := g.Callee(call).(*types.Func)
			return ok && isCand[fo.Origin()] && fo.Origin() != muxFuncObj(g)
		})
		if !callsCand {
			minimal = append(minimal, g)
		}
	}
	if len(minimal) == 1 {
		c.Count("functions_analysed", 1)
		return minimal[0]
	}
	for _, g := range minimal {
		if fd, ok := g.Node.(*ast.FuncDecl); ok && fd.Name.Name == "buildResponse" {
			return g
		}
	}
	if rule != "" {
		c.Errorf("%s: anchor: cannot resolve the function that builds the proxy's response (fetches the backend response's payload and sets the output response; %d candidates)", rule, len(minimal))
	}
	return nil
}

func c07Resp(c *core.Ctx) {
	px := "pkg/filters/proxy"
	// buildResponse may report failure as a bool instead of an error: the constant it returns where
	// the error of FetchPayload is known non-nil is the failing value ("" = error form)
	failConst := ""
	if f := c07BuildResponseFn(c, "R-C07-5"); f != nil {
		cons := muxFuncConstruct(f)
		fns := reach(f, 3)
		vf := newMuxFlow(fns)
		fetch, _ := c07RespFetch(f)
		var outs []*ast.CallExpr
		for _, g := range fns {
			for _, call := range calls(g.Body, true) {
				if methodName(call) == "SetOutputResponse" {
					outs = append(outs, call)
				}
			}
		}
		var holders map[types.Object]*ast.Ident
		if fetch != nil {
			holders = muxResultHolders(vf, fetch, 0)
		}
		// the rule reads "failure" as a non-nil error result; a buildResponse that reports it in
		// another way (a bool, several results) is a form it does not follow
		singleError := func(g *flow.Func) bool {
			fo := muxFuncObj(g)
			if fo == nil {
				return false
			}
			rs := fo.Type().(*types.Signature).Results()
			return rs.Len() == 1 && types.Identical(rs.At(0).Type(), types.Universe.Lookup("error").Type())
		}
		singleBool := func(g *flow.Func) bool {
			fo := muxFuncObj(g)
			if fo == nil {
				return false
			}
			rs := fo.Type().(*types.Signature).Results()
			return rs.Len() == 1 && types.Identical(rs.At(0).Type().Underlying(), types.Typ[types.Bool])
		}
		boolForm := singleBool(f)
		if !singleError(f) && !boolForm {
			c.Undecide("R-C07-5", cons+"|failed fetch ⇒ error, no output response", pos(c, f.Body), "buildResponse does not report failure as a single error result: this form is not followed")
			c.Undecide("R-C07-5", cons+"|failed buildResponse ⇒ 5xx", pos(c, f.Body), "buildResponse does not report failure as a single error result: this form is not followed")
			return
		}
		if fetch != nil && len(holders) == 0 && len(outs) > 0 {
			c.Violate("R-C07-5", cons+"|failed fetch ⇒ error, no output response", pos(c, fetch), "the error of resp.FetchPayload is discarded (the proxy reports success for a response it could not read within serverMaxBodySize)")
		} else if fetch == nil || len(outs) == 0 {
			c.Errorf("R-C07-5: anchor: buildResponse (helpers included) lacks resp.FetchPayload / SetOutputResponse")
		} else {
			res := muxAnalyzeInl(c, f, flow.Config{NoHavoc: true, OnCall: func(st *flow.State, call *ast.CallExpr, callee types.Object, d bool) {
				if call == fetch {
					st.Set("ev:fetched", flow.True)
				}
				for _, o := range outs {
					if call == o {
						st.Set("ev:output", flow.True)
					}
				}
			}})
			if res != nil {
				var bad *flow.State
				why := ""
				for _, o := range outs {
					for _, st := range res.At[o] {
						if !st.Is("ev:fetched", flow.True) || muxHolderNil(f, st, holders) != flow.True {
							bad, why = st, "the response is handed to the pipeline (SetOutputResponse) before/without its body having been fetched within serverMaxBodySize"
						}
					}
				}
				nfail := 0
				for _, ex := range res.Exits {
					if ex.Kind != flow.ExitReturn || !ex.State.Is("ev:fetched", flow.True) || muxHolderNil(f, ex.State, holders) != flow.False {
						continue
					}
					nfail++
					if ex.State.Is("ev:output", flow.True) {
						bad, why = ex.State, "an oversized/unreadable response is delivered although FetchPayload failed"
					}
					retErr := false
					if r := muxRetExpr(f, vf, ex); r != nil {
						if id := muxIdentOf(r); id != nil && holders[vf.obj(id)] != nil {
							retErr = true
						}
						if boolForm {
							// the failing value: the same constant on every failing exit
							k := ""
							if tv, ok := f.Info.Types[r]; ok && tv.Value != nil {
								k = tv.Value.ExactString()
							}
							if k == "" || (failConst != "" && failConst != k) {
								c.Undecide("R-C07-5", cons+"|failed fetch ⇒ error, no output response", pos(c, ex.Ret()), "buildResponse reports failure as a bool and does not return one and the same constant where FetchPayload failed")
								return
							}
							failConst, retErr = k, true
						}
					}
					if !retErr {
						bad, why = ex.State, "the error of resp.FetchPayload is swallowed (the proxy reports success for a response it could not read)"
					}
				}
				if boolForm && bad == nil {
					// the success exits (response handed over) must return the other value, or the
					// caller cannot tell them from the failing ones
					for _, ex := range res.Exits {
						if ex.Kind != flow.ExitReturn || !ex.State.Is("ev:output", flow.True) {
							continue
						}
						r := muxRetExpr(f, vf, ex)
						tv, ok := f.Info.Types[r]
						if r == nil || !ok || tv.Value == nil {
							c.Undecide("R-C07-5", cons+"|failed fetch ⇒ error, no output response", pos(c, ex.Ret()), "buildResponse reports failure as a bool and a success exit does not return a constant")
							return
						}
						if tv.Value.ExactString() == failConst {
							bad, why = ex.State, "buildResponse returns its failing value although the response was handed to the pipeline"
						}
					}
				}
				c.Check(bad == nil && nfail > 0, "R-C07-5", cons+"|failed fetch ⇒ error, no output response", pos(c, fetch), sprintf("%d failing exits return the error without SetOutputResponse", nfail), why+map[bool]string{true: "no failing exit", false: ""}[nfail == 0], witness(bad)...)
				if boolForm && (bad != nil || nfail == 0) {
					return
				}
			}
		}
	}
	// the caller of buildResponse (doHandle, or the part of it the call was moved into)
	var callers []*flow.Func
	var brObj types.Object
	if b := c07BuildResponseFn(c, ""); b != nil {
		brObj = muxFuncObj(b)
		callers = funcsByRole(c, px, func(g *flow.Func, fd *ast.FuncDecl) bool {
			return muxOwnCalls(g, func(call *ast.CallExpr) bool {
				fo, ok := g.Callee(call).(*types.Func)
				return ok && fo.Origin() == brObj
			})
		})
	}
	if brObj != nil && len(callers) == 0 {
		c.Errorf("R-C07-5: anchor: no function of the proxy calls buildResponse")
	}
	for _, f := range callers {
		cons := muxFuncConstruct(f)
		if fo := muxFuncObj(f); fo != nil && fo.Type().(*types.Signature).Results().Len() != 1 {
			// (serverPoolError, bool) and the like: which result carries the failure is not followed
			c.Undecide("R-C07-5", cons+"|failed buildResponse ⇒ 5xx", pos(c, f.Body), "the caller of buildResponse returns several results: how it reports the failure is not followed")
			continue
		}
		opaque := map[types.Object]bool{brObj: true}
		fns := muxReach(f, 3, opaque)
		vf := newMuxFlow(fns)
		var br *ast.CallExpr
		for _, g := range fns {
			for _, call := range calls(g.Body, true) {
				if fo, ok := g.Callee(call).(*types.Func); ok && brObj != nil && fo.Origin() == brObj {
					br = call
				}
			}
		}
		var holders map[types.Object]*ast.Ident
		if br != nil {
			holders = muxResultHolders(vf, br, 0)
		}
		if br == nil || len(holders) == 0 {
			c.Errorf("R-C07-5: anchor: %s does not bind buildResponse's error", cons)
			return
		}
		// the pool's deadline is known to have expired: err == context.DeadlineExceeded assumed, or
		// a bool local defined once as that comparison known true (`timedOut := ..Err() == DeadlineExceeded`)
		deadlineKnown := func(st *flow.State) bool {
			for _, fact := range st.Facts() {
				if strings.HasSuffix(fact, "==@context.DeadlineExceeded=T") {
					return true
				}
				if strings.HasPrefix(fact, "v:") && strings.HasSuffix(fact, "=T") {
					name := fact[len("v:") : len(fact)-2]
					for o, id := range vf.ident {
						if f.Render(id) != name {
							continue
						}
						if be, ok := ast.Unparen(vf.singleDef(o)).(*ast.BinaryExpr); ok && be.Op == token.EQL {
							if strings.HasSuffix(f.Render(be.X), "context.DeadlineExceeded") || strings.HasSuffix(f.Render(be.Y), "context.DeadlineExceeded") {
								return true
							}
						}
					}
				}
			}
			return false
		}
		// the code of a serverPoolError literal, "" if e is none
		speCode := func(e ast.Expr) string {
			lit, ok := ast.Unparen(e).(*ast.CompositeLit)
			if !ok || len(lit.Elts) < 1 {
				return ""
			}
			var codeExpr ast.Expr = lit.Elts[0]
			if kv, isKV := codeExpr.(*ast.KeyValueExpr); isKV {
				codeExpr = kv.Value
			}
			if tv, has := f.Info.Types[codeExpr]; has && tv.Value != nil {
				return tv.Value.ExactString()
			}
			return ""
		}
		res := muxAnalyzeInl(c, f, flow.Config{NoHavoc: true, OnCall: func(st *flow.State, call *ast.CallExpr, callee types.Object, d bool) {
			if call == br {
				st.Set("ev:built", flow.True)
			}
		}, OnNode: func(st *flow.State, n ast.Node) {
			// a failure kept in a local, a default overridden later (`failure := serverPoolError{500, ..};
			// if timedOut { failure = serverPoolError{408, ..} }; return failure`): the literal the
			// variable holds is followed per path
			as, ok := n.(*ast.AssignStmt)
			if !ok || len(as.Lhs) != len(as.Rhs) {
				return
			}
			for i, l := range as.Lhs {
				id, isID := ast.Unparen(l).(*ast.Ident)
				if !isID {
					continue
				}
				pre := "ev:spe:" + f.Render(id) + "="
				for _, fact := range st.Facts() {
					if strings.HasPrefix(fact, pre) {
						st.Set(fact[:len(fact)-2], flow.Unknown)
					}
				}
				st.Set("ev:spe408ok:"+f.Render(id), flow.Unknown)
				if code := speCode(as.Rhs[i]); code != "" {
					st.Set(pre+code, flow.True)
					if code == "408" && deadlineKnown(st) {
						st.Set("ev:spe408ok:"+f.Render(id), flow.True)
					}
				}
			}
		}}, muxObjList(opaque)...)
		if res == nil {
			return
		}
		var bad *flow.State
		n := 0
		for _, ex := range res.Exits {
			failedBuild := muxHolderNil(f, ex.State, holders) == flow.False
			if failConst != "" {
				failedBuild = false
				for _, id := range holders {
					if v := ex.State.Get(f.VarKey(id)); v != flow.Unknown && (v == flow.True) == (failConst == "true") {
						failedBuild = true
					}
				}
			}
			if ex.Kind != flow.ExitReturn || !ex.State.Is("ev:built", flow.True) || !failedBuild {
				continue
			}
			n++
			ok := false
			if r := muxRetExpr(f, vf, ex); r != nil {
				if lit, ok2 := vf.through(r).(*ast.CompositeLit); ok2 && len(lit.Elts) >= 1 {
					var codeExpr ast.Expr = lit.Elts[0]
					if kv, isKV := codeExpr.(*ast.KeyValueExpr); isKV {
						codeExpr = kv.Value
					}
					if tv, has := f.Info.Types[codeExpr]; has && tv.Value != nil {
						if v := tv.Value.ExactString(); len(v) == 3 && v[0] == '5' {
							ok = true
						} else if v == "408" {
							// the pool timeout expired while the body was read: a timeout, and the
							// response is withheld all the same
							if deadlineKnown(ex.State) {
								ok = true
							}
						}
					}
				} else if id := muxIdentOf(r); id != nil {
					pre := "ev:spe:" + f.Render(id) + "="
					for _, fact := range ex.State.Facts() {
						if !strings.HasPrefix(fact, pre) || !strings.HasSuffix(fact, "=T") {
							continue
						}
						v := fact[len(pre) : len(fact)-2]
						if len(v) == 3 && v[0] == '5' {
							ok = true
						} else if v == "408" && ex.State.Is("ev:spe408ok:"+f.Render(id), flow.True) {
							ok = true
						}
					}
				}
			}
			if !ok {
				bad = ex.State
			}
		}
		c.Check(bad == nil && n > 0, "R-C07-5", cons+"|failed buildResponse ⇒ 5xx", pos(c, br), sprintf("%d exits return a serverPoolError with a 5xx code (408 only under an expired deadline)", n), "a failed buildResponse does not end in a 5xx serverPoolError (or 408 under an expired deadline): the oversized/unreadable response is not reported as a failure", witness(bad)...)
	}
}
