package rules

import (
	"go/ast"
	"go/types"
	"strings"

	"verif/internal/core"
	"verif/internal/flow"
)

func init() { Registry["C07"] = c07 }

const hp = "pkg/protocols/httpprot"

// c07 — body limits: 413 unforwarded, oversized responses withheld.
//
// Mutants tried while writing (scratch worktree, each compiles):
//
//	dispatch before FetchPayload                                        → R-C07-1
//	ignore the non-413 error of FetchPayload (fall through to dispatch) → R-C07-1
//	413 and 400 swapped                                                 → R-C07-1
//	server-level limit first, path-level only when it is 0             → R-C07-2
//	pool/proxy ServerMaxBodySize inverted                               → R-C07-2
//	`0 → default` replacement dropped                                   → R-C07-3
//	ContentLength test after the allocation                             → R-C07-3
//	EOF→ErrUnexpectedEOF mapping dropped / `return nil` after ReadFull  → R-C07-3
//	io.ReadAll(body) without LimitReader                                → R-C07-4
//	probe with io.CopyN(…, 1) (EOF at exactly the limit)                → R-C07-4
//	extra-byte test dropped                                             → R-C07-4
//	SetOutputResponse before the fetch / error swallowed                → R-C07-5
//
// Not caught (numeric, stated): `>`→`>=` on the declared-length test.
func c07(c *core.Ctx) string {
	c.Rule("R-C07-1", "fetch before dispatch: every path of serveHTTP to a handler passes req.FetchPayload with a nil error; ErrRequestEntityTooLarge ⇒ 413 response and return; any other error ⇒ 400 and return")
	c.Rule("R-C07-2", "effective limit: the limit handed to FetchPayload is the specific (path / pool) value, replaced by the general (server / proxy) value exactly when the specific one is 0")
	c.Rule("R-C07-3", "declared length (both FetchPayload): 0 is replaced by the default limit first; only a negative limit creates a stream; the buffer allocation and ReadFull are reachable only with ContentLength ≤ limit; a short read is reported (io.EOF mapped to ErrUnexpectedEOF, the read error returned)")
	c.Rule("R-C07-4", "unknown length (both FetchPayload): the body is read through io.LimitReader(body, limit); when the limit was reached an extra-byte probe with io.Copy decides: extra bytes ⇒ too-large error, otherwise the probe's error (nil at exactly the limit)")
	c.Rule("R-C07-5", "oversized response withheld: in ServerPool.buildResponse a failed resp.FetchPayload returns the error without SetOutputResponse; doHandle turns it into a 5xx serverPoolError (408 only when the request context's deadline is known to have expired)")
	c.NotDecided = []string{"the off-by-one comparison exactly at the limit (numeric)", "what net/http does with unread request bodies", "stream mode contents"}

	c07Serve(c)
	c07Limit(c)
	for _, recv := range []string{"Request", "Response"} {
		c07Fetch(c, recv)
	}
	c07Resp(c)
	c07GzipPull(c)
	// limits travel with the generation and with the one-shot stream: rules shared with C12 and C10
	c.Rule("R-C07-7", "the path-level limit applied is the current generation's: a new router generation gets a fresh route cache (shared with R-C12-5)")
	muxCacheFresh(c, "R-C07-7")
	c.Alias("R-C10-3", "R-C07-8")
	c.Alias("R-C10-2", "-")
	c.Alias("R-C10-5", "-")
	c.Rule("R-C10-3", "a streamed body is sent once: the retry wrapper is applied only when the request is not a stream, and never around the circuit breaker (shared with R-C10-3)")
	c10Handle(c)
	c.Alias("R-C10-3", "")
	c.Alias("R-C10-2", "")
	c.Alias("R-C10-5", "")
	c.Drop("-")
	return "Path-sensitive typestate over serveHTTP (fetch dominates dispatch, 413/400 mapping), value-source events for the effective limit selection at both levels, and an all-paths audit of the two FetchPayload implementations (default replacement, stream only for negative limits, allocation bounded by the limit, short reads reported, LimitReader + io.Copy probe on the chunked path) and of buildResponse/doHandle (failed fetch ⇒ no output response, 5xx). Not decided: the numeric comparison exactly at the limit."
}

func c07Serve(c *core.Ctx) {
	s := analyzeServe(c, "R-C07-1")
	if s == nil {
		return
	}
	f := s.f
	errNil := f.NilKey(s.errVar)
	tooLarge := "eq:" + f.Render(s.errVar) + "==@" + Mod + hp + ".ErrRequestEntityTooLarge"
	for _, d := range s.dispatch {
		var bad *flow.State
		for _, st := range s.res.At[d] {
			if !st.Is(errNil, flow.True) {
				bad = st
			}
		}
		c.Check(bad == nil && len(s.res.At[d]) > 0, "R-C07-1", s.cons+"|dispatch "+recvType(f, d)+" after a successful fetch", pos(c, d),
			sprintf("%d states, all with FetchPayload's error nil", len(s.res.At[d])), "a handler is invoked without the request body having been fetched within the limit (an oversized or unreadable body reaches the backend)", witness(bad)...)
	}
	var bad *flow.State
	why := ""
	n413, n400 := 0, 0
	for _, ex := range s.res.Exits {
		if ex.Kind != flow.ExitReturn {
			continue
		}
		st := ex.State
		if !st.Is(errNil, flow.False) && !st.Is(tooLarge, flow.True) {
			continue
		}
		if st.Is("ev:dispatched", flow.True) {
			bad, why = st, "the pipeline ran although FetchPayload failed"
		}
		if st.Is(tooLarge, flow.True) {
			n413++
			if !st.Is("ev:fail:413", flow.True) {
				bad, why = st, "ErrRequestEntityTooLarge is not answered with 413 Request Entity Too Large"
			}
		} else {
			n400++
			if !st.Is("ev:fail:400", flow.True) {
				bad, why = st, "a body read error is not answered with 400 Bad Request"
			}
		}
	}
	if bad == nil && (n413 == 0 || n400 == 0) {
		c.Violate("R-C07-1", s.cons+"|413 / 400 mapping", pos(c, s.fetch), sprintf("the error of FetchPayload is not distinguished into too-large (413) and other (400): exits 413=%d 400=%d", n413, n400))
	} else {
		c.Check(bad == nil, "R-C07-1", s.cons+"|413 / 400 mapping", pos(c, s.fetch), sprintf("%d too-large exits → 413, %d other-error exits → 400, none dispatched", n413, n400), why, witness(bad)...)
	}
}

// c07LimitIn checks the "specific, else general when 0" selection of the limit passed to fetch.
func c07LimitIn(c *core.Ctx, f *flow.Func, cons string, fetch *ast.CallExpr, specific, general *types.Var, what string) {
	if fetch == nil || len(fetch.Args) != 1 {
		c.Undecide("R-C07-2", cons+"|effective "+what, pos(c, f.Body), "FetchPayload call not found")
		return
	}
	lim, ok := ast.Unparen(fetch.Args[0]).(*ast.Ident)
	if !ok {
		c.Violate("R-C07-2", cons+"|effective "+what, pos(c, fetch), "the limit handed to FetchPayload is not a selected variable (specific value, else general value)")
		return
	}
	limObj := f.Info.Uses[lim]
	zeroKey := "eq:" + f.Render(lim) + "==0"
	fieldOf := func(e ast.Expr) *types.Var {
		if sel, ok := ast.Unparen(e).(*ast.SelectorExpr); ok {
			if s := f.Info.Selections[sel]; s != nil {
				if v, ok := s.Obj().(*types.Var); ok {
					return v
				}
			}
		}
		return nil
	}
	var badAssign *flow.State
	whyAssign := ""
	res := analyze(c, f, flow.Config{NoHavoc: true, OnNode: func(st *flow.State, n ast.Node) {
		as, ok := n.(*ast.AssignStmt)
		if !ok {
			return
		}
		for i, l := range as.Lhs {
			id, ok := l.(*ast.Ident)
			if !ok || i >= len(as.Rhs) {
				continue
			}
			obj := f.Info.Defs[id]
			if obj == nil {
				obj = f.Info.Uses[id]
			}
			if obj != limObj {
				continue
			}
			switch fieldOf(as.Rhs[i]) {
			case specific:
				st.Set("ev:lim", flow.True) // specific
			case general:
				if !st.Is("ev:lim", flow.True) || !st.Is(zeroKey, flow.True) {
					badAssign, whyAssign = st, "the general limit replaces the specific one although the specific one is not known to be 0"
				}
				st.Set("ev:lim", flow.False) // general
			default:
				st.Set("ev:lim", flow.Unknown)
			}
		}
	}})
	if res == nil {
		return
	}
	var bad *flow.State
	why := ""
	sawS, sawG := false, false
	for _, st := range res.At[fetch] {
		switch st.Get("ev:lim") {
		case flow.True:
			sawS = true
			if !st.Is(zeroKey, flow.False) {
				bad, why = st, "the specific limit is used without having been tested for 0 (an unset specific limit must fall back to the general one)"
			}
		case flow.False:
			sawG = true
		default:
			bad, why = st, "the limit does not come from the specific or the general setting"
		}
	}
	if badAssign != nil {
		bad, why = badAssign, whyAssign
	}
	if bad == nil && !(sawS && sawG) {
		c.Violate("R-C07-2", cons+"|effective "+what, pos(c, fetch), sprintf("the limit selection does not offer both the specific and the general value (specific seen %v, general seen %v)", sawS, sawG))
		return
	}
	c.Check(bad == nil, "R-C07-2", cons+"|effective "+what, pos(c, fetch), "specific value when non-zero, general value exactly when the specific one is 0", why, witness(bad)...)
}

func c07Limit(c *core.Ctx) {
	if s := analyzeServe(c, "R-C07-2"); s != nil {
		c07LimitIn(c, s.f, s.cons, s.fetch, structField(c, hs, "MuxPath", "clientMaxBodySize"), structField(c, hs, "Spec", "ClientMaxBodySize"), "clientMaxBodySize")
	}
	if f := fn(c, "pkg/filters/proxy", "ServerPool", "buildResponse"); f != nil {
		var fetch *ast.CallExpr
		for _, call := range calls(f.Body, false) {
			if calleeIs(f, call, "(*"+hp+".Response).FetchPayload") {
				fetch = call
			}
		}
		c07LimitIn(c, f, fname("pkg/filters/proxy", "ServerPool", "buildResponse"), fetch,
			structField(c, "pkg/filters/proxy", "ServerPoolSpec", "ServerMaxBodySize"), structField(c, "pkg/filters/proxy", "Spec", "ServerMaxBodySize"), "serverMaxBodySize")
	}
}

func c07Fetch(c *core.Ctx, recv string) {
	f := fn(c, hp, recv, "FetchPayload")
	if f == nil {
		return
	}
	cons := fname(hp, recv, "FetchPayload")
	if f.Type.Params == nil || len(f.Type.Params.List) != 1 || len(f.Type.Params.List[0].Names) != 1 {
		c.Undecide("R-C07-3", cons+"|signature", pos(c, f.Body), "unexpected signature")
		return
	}
	max := f.Type.Params.List[0].Names[0]
	maxR := f.Render(max)
	zeroKey := "eq:" + maxR + "==0"
	negKey := "lt:" + maxR + "<0"
	var mk, readFull, readAll, probe *ast.CallExpr
	var streamSets []ast.Node
	streamF := structField(c, hp, recv, "stream")
	for _, call := range calls(f.Body, false) {
		full := calleeFull(f, call)
		switch {
		case full == "builtin.make":
			mk = call
		case full == "io.ReadFull":
			readFull = call
		case full == "io.ReadAll" || full == "io/ioutil.ReadAll":
			readAll = call
		case (full == "io.Copy" || full == "io.CopyN" || full == "io.CopyBuffer") && len(call.Args) >= 2:
			if strings.HasSuffix(f.Render(call.Args[0]), "io.Discard") {
				probe = call
			}
		case calleeIs(f, call, "(*"+hp+"."+recv+").SetPayload") && len(call.Args) == 1:
			// SetPayload(<Body>) makes a stream (Response side)
			if tv, ok := f.Info.Types[call.Args[0]]; ok && tv.Type != nil && tv.Type.String() == "io.ReadCloser" {
				streamSets = append(streamSets, call)
			}
		}
	}
	ast.Inspect(f.Body, func(n ast.Node) bool {
		if as, ok := n.(*ast.AssignStmt); ok {
			for _, l := range as.Lhs {
				if sel, ok := ast.Unparen(l).(*ast.SelectorExpr); ok {
					if s := f.Info.Selections[sel]; s != nil && s.Obj() == streamF {
						streamSets = append(streamSets, as)
					}
				}
			}
		}
		return true
	})
	if mk == nil || readFull == nil || readAll == nil {
		c.Errorf("R-C07-3: anchor: %s lacks make/ReadFull/ReadAll (make=%v ReadFull=%v ReadAll=%v)", cons, mk != nil, readFull != nil, readAll != nil)
		return
	}
	// error variables
	var fullErr, probeErr, probeN *ast.Ident
	var payloadVar *ast.Ident
	ast.Inspect(f.Body, func(n ast.Node) bool {
		as, ok := n.(*ast.AssignStmt)
		if !ok || len(as.Rhs) != 1 {
			return true
		}
		switch as.Rhs[0] {
		case ast.Expr(readFull):
			if len(as.Lhs) == 2 {
				fullErr, _ = as.Lhs[1].(*ast.Ident)
			}
		case ast.Expr(readAll):
			if len(as.Lhs) == 2 {
				payloadVar, _ = as.Lhs[0].(*ast.Ident)
			}
		}
		if probe != nil && as.Rhs[0] == ast.Expr(probe) && len(as.Lhs) == 2 {
			probeN, _ = as.Lhs[0].(*ast.Ident)
			probeErr, _ = as.Lhs[1].(*ast.Ident)
		}
		return true
	})
	defaulted := "ev:defaulted"
	res := analyze(c, f, flow.Config{NoHavoc: true,
		OnNode: func(st *flow.State, n ast.Node) {
			as, ok := n.(*ast.AssignStmt)
			if !ok || len(as.Lhs) != 1 || len(as.Rhs) != 1 {
				return
			}
			if id, ok := as.Lhs[0].(*ast.Ident); ok && f.Info.Uses[id] == f.Info.Defs[max] {
				if rid, ok := ast.Unparen(as.Rhs[0]).(*ast.Ident); ok {
					if cst, ok := f.Info.Uses[rid].(*types.Const); ok && cst.Name() == "DefaultMaxPayloadSize" {
						st.Set(defaulted, flow.True)
						return
					}
				}
				st.Set(defaulted, flow.False)
			}
		},
		OnCall: func(st *flow.State, call *ast.CallExpr, callee types.Object, deferred bool) {
			switch call {
			case readFull:
				st.Set("ev:readfull", flow.True)
			case readAll:
				st.Set("ev:readall", flow.True)
			case probe:
				st.Set("ev:probed", flow.True)
			}
		},
	})
	if res == nil {
		return
	}
	// (a) zero → default before anything else looks at the limit
	var bad *flow.State
	why := ""
	check := func(at ast.Node) {
		for _, st := range res.At[at] {
			if st.Is(zeroKey, flow.True) && !st.Is(defaulted, flow.True) {
				bad, why = st, "a limit of 0 is used as is instead of the default limit"
			}
			if st.Get(zeroKey) == flow.Unknown && !st.Is(defaulted, flow.True) {
				bad, why = st, "the limit is used without the `0 means default` replacement having been applied"
			}
		}
	}
	check(mk)
	check(readAll)
	for _, s := range streamSets {
		check(s)
	}
	c.Check(bad == nil, "R-C07-3", cons+"|0 replaced by the default limit", pos(c, f.Body), "every use of the limit follows `if max == 0 { max = DefaultMaxPayloadSize }`", why, witness(bad)...)

	// (b) stream only for negative limits; buffering only for non-negative
	bad, why = nil, ""
	for _, s := range streamSets {
		for _, st := range res.At[s] {
			if !st.Is(negKey, flow.True) {
				bad, why = st, "a stream is created although the limit is not negative (the body would bypass the size limit)"
			}
		}
	}
	if len(streamSets) == 0 {
		c.Violate("R-C07-3", cons+"|stream iff negative limit", pos(c, f.Body), "no stream mode: -1 no longer streams a body of any size")
	} else {
		for _, at := range []ast.Node{mk, readAll} {
			for _, st := range res.At[at] {
				if !st.Is(negKey, flow.False) {
					bad, why = st, "the body is buffered although the limit may be negative (stream mode)"
				}
			}
		}
		c.Check(bad == nil, "R-C07-3", cons+"|stream iff negative limit", pos(c, f.Body), sprintf("%d stream site(s) only under max<0; buffering only under max>=0", len(streamSets)), why, witness(bad)...)
	}

	// (c) allocation bounded: ContentLength > max is false at make/ReadFull
	var clKey string
	for _, k := range []ast.Node{mk} {
		for _, st := range res.At[k] {
			for _, fact := range st.Facts() {
				if strings.HasPrefix(fact, "lt:"+maxR+"<") && strings.HasSuffix(fact, ".ContentLength=F") {
					clKey = fact[:len(fact)-2]
				}
			}
		}
	}
	bad, why = nil, ""
	for _, at := range []ast.Node{mk, readFull} {
		for _, st := range res.At[at] {
			if clKey == "" || !st.Is(clKey, flow.False) {
				bad, why = st, "the buffer for a declared-length body is allocated/read without ContentLength having been found ≤ the limit (a client can make the gateway allocate any amount of memory, and the oversized body is not refused)"
			}
		}
	}
	c.Check(bad == nil, "R-C07-3", cons+"|allocation only with ContentLength <= limit", pos(c, mk), "make and ReadFull are dominated by the failed test ContentLength > max", why, witness(bad)...)
	// the too-large exit on the declared path returns the sentinel
	sentinel := "ErrRequestEntityTooLarge"
	if recv == "Response" {
		sentinel = "ErrResponseEntityTooLarge"
	}
	retSentinel := func(ex *flow.Exit) bool {
		if ex.Return == nil || len(ex.Return.Results) != 1 {
			return false
		}
		id, ok := ast.Unparen(ex.Return.Results[0]).(*ast.Ident)
		return ok && id.Name == sentinel && f.Info.Uses[id] != nil && f.Info.Uses[id].Parent() == f.Pkg.Types.Scope()
	}
	bad, why = nil, ""
	tooLargeDeclared := 0
	for _, ex := range res.Exits {
		if ex.Kind == flow.ExitReturn && clKey != "" && ex.State.Is(clKey, flow.True) && !ex.State.Is(negKey, flow.True) {
			tooLargeDeclared++
			if !retSentinel(ex) {
				bad, why = ex.State, "a declared length above the limit does not end in the too-large error"
			}
		}
	}
	c.Check(bad == nil && tooLargeDeclared > 0, "R-C07-3", cons+"|declared length above the limit ⇒ too-large error", pos(c, f.Body), sprintf("%d exits", tooLargeDeclared), why+map[bool]string{true: "no exit for ContentLength > max", false: ""}[tooLargeDeclared == 0], witness(bad)...)

	// (d) short read reported
	bad, why = nil, ""
	mapped := false
	nfull := 0
	for _, ex := range res.Exits {
		if ex.Kind != flow.ExitReturn || !ex.State.Is("ev:readfull", flow.True) || ex.Return == nil || len(ex.Return.Results) != 1 {
			continue
		}
		nfull++
		r, _ := ast.Unparen(ex.Return.Results[0]).(*ast.Ident)
		if fullErr == nil || r == nil || f.Info.Uses[r] != f.Info.Defs[fullErr] && f.Info.Uses[r] != f.Info.Uses[fullErr] {
			bad, why = ex.State, "after io.ReadFull the function does not return the read error (a body shorter than its declared length would be a truncated success)"
			continue
		}
		if ex.State.Is("eq:"+f.Render(r)+"==@io.EOF", flow.True) {
			bad, why = ex.State, "io.EOF from a short read is returned unmapped"
		}
		if ex.State.Is("eq:"+f.Render(r)+"==@io.ErrUnexpectedEOF", flow.True) {
			mapped = true
		}
	}
	if bad == nil && !mapped {
		bad, why = nil, "io.EOF of an empty short read is not mapped to io.ErrUnexpectedEOF"
		c.Violate("R-C07-3", cons+"|short read is an error", pos(c, readFull), why)
	} else {
		c.Check(bad == nil && nfull > 0, "R-C07-3", cons+"|short read is an error", pos(c, readFull), sprintf("%d exits after ReadFull return its error, EOF mapped to ErrUnexpectedEOF", nfull), why, witness(bad)...)
	}

	// ---- R-C07-4 chunked path
	limOK := false
	if len(readAll.Args) == 1 {
		if lr, ok := ast.Unparen(readAll.Args[0]).(*ast.CallExpr); ok && calleeFull(f, lr) == "io.LimitReader" && len(lr.Args) == 2 {
			if id, ok := ast.Unparen(lr.Args[1]).(*ast.Ident); ok && f.Info.Uses[id] == f.Info.Defs[max] {
				limOK = true
			}
		}
	}
	c.Check(limOK, "R-C07-4", cons+"|unknown length read through LimitReader(limit)", pos(c, readAll), "io.ReadAll(io.LimitReader(body, max))",
		"a body of unknown length is read without io.LimitReader(body, max): a chunked body of any size is buffered in memory")
	if probe == nil || probeN == nil || probeErr == nil || payloadVar == nil {
		c.Violate("R-C07-4", cons+"|extra-byte probe", pos(c, readAll), "after the limited read there is no extra-byte probe into io.Discard: a chunked body larger than the limit is silently truncated to the limit and forwarded")
		return
	}
	if calleeFull(f, probe) != "io.Copy" {
		c.Violate("R-C07-4", cons+"|extra-byte probe", pos(c, probe), "the extra-byte probe uses "+calleeFull(f, probe)+", which reports io.EOF when there is no extra byte: a body of exactly the limit is rejected instead of passing intact")
		return
	}
	// facts
	var shortKey string
	for _, st := range res.At[probe] {
		for _, fact := range st.Facts() {
			if strings.HasPrefix(fact, "lt:len("+f.Render(payloadVar)+")<") {
				shortKey = fact[:len(fact)-2]
			}
		}
	}
	nPos := "lt:0<" + f.Render(probeN)
	bad, why = nil, ""
	nall := 0
	sawTooLarge := false
	for _, ex := range res.Exits {
		if ex.Kind != flow.ExitReturn || !ex.State.Is("ev:readall", flow.True) || ex.Return == nil || len(ex.Return.Results) != 1 {
			continue
		}
		nall++
		st := ex.State
		isNilRet := f.Info.Types[ex.Return.Results[0]].IsNil()
		switch {
		case shortKey != "" && st.Is(shortKey, flow.True):
			// fewer bytes than the limit: fine, nil or the read error
		case st.Is("ev:probed", flow.True):
			if st.Is(nPos, flow.True) {
				sawTooLarge = true
				if !retSentinel(ex) {
					bad, why = st, "extra bytes beyond the limit do not yield the too-large error"
				}
			} else if st.Is(nPos, flow.False) {
				if r, ok := ast.Unparen(ex.Return.Results[0]).(*ast.Ident); !ok || (f.Info.Uses[r] != f.Info.Defs[probeErr] && f.Info.Uses[r] != f.Info.Uses[probeErr]) {
					if !isNilRet {
						bad, why = st, "a body of exactly the limit is not accepted (the probe found no extra byte)"
					}
				}
			} else {
				bad, why = st, "the probe's byte count is not tested: an oversized chunked body is accepted truncated"
			}
		default:
			// read error exits are fine; a nil return without the probe is not
			if isNilRet {
				bad, why = st, "success is returned after the limited read filled the limit, without probing for extra bytes"
			}
		}
	}
	if bad == nil && !sawTooLarge {
		c.Violate("R-C07-4", cons+"|extra-byte probe", pos(c, probe), "no exit returns the too-large error after the probe")
		return
	}
	c.Check(bad == nil && nall > 0, "R-C07-4", cons+"|extra-byte probe", pos(c, probe), sprintf("%d exits after the limited read: short ⇒ ok, full ⇒ probe; extra bytes ⇒ too large", nall), why, witness(bad)...)
}

func c07Resp(c *core.Ctx) {
	px := "pkg/filters/proxy"
	if f := fn(c, px, "ServerPool", "buildResponse"); f != nil {
		cons := fname(px, "ServerPool", "buildResponse")
		var fetch *ast.CallExpr
		var outs []*ast.CallExpr
		for _, call := range calls(f.Body, false) {
			if calleeIs(f, call, "(*"+hp+".Response).FetchPayload") {
				fetch = call
			}
			if methodName(call) == "SetOutputResponse" {
				outs = append(outs, call)
			}
		}
		var errID *ast.Ident
		ast.Inspect(f.Body, func(n ast.Node) bool {
			if as, ok := n.(*ast.AssignStmt); ok && len(as.Rhs) == 1 && as.Rhs[0] == ast.Expr(fetch) && len(as.Lhs) == 1 {
				errID, _ = as.Lhs[0].(*ast.Ident)
			}
			return true
		})
		if fetch == nil || errID == nil || len(outs) == 0 {
			c.Errorf("R-C07-5: anchor: buildResponse lacks resp.FetchPayload / SetOutputResponse")
		} else {
			errNil := f.NilKey(errID)
			res := analyze(c, f, flow.Config{NoHavoc: true, OnCall: func(st *flow.State, call *ast.CallExpr, callee types.Object, d bool) {
				if call == fetch {
					st.Set("ev:fetched", flow.True)
				}
				for _, o := range outs {
					if call == o {
						st.Set("ev:output", flow.True)
					}
				}
			}})
			if res != nil {
				var bad *flow.State
				why := ""
				for _, o := range outs {
					for _, st := range res.At[o] {
						if !st.Is("ev:fetched", flow.True) || !st.Is(errNil, flow.True) {
							bad, why = st, "the response is handed to the pipeline (SetOutputResponse) before/without its body having been fetched within serverMaxBodySize"
						}
					}
				}
				nfail := 0
				for _, ex := range res.Exits {
					if ex.Kind != flow.ExitReturn || !ex.State.Is("ev:fetched", flow.True) || !ex.State.Is(errNil, flow.False) {
						continue
					}
					nfail++
					if ex.State.Is("ev:output", flow.True) {
						bad, why = ex.State, "an oversized/unreadable response is delivered although FetchPayload failed"
					}
					retErr := false
					if ex.Return != nil && len(ex.Return.Results) == 1 {
						if id, ok := ast.Unparen(ex.Return.Results[0]).(*ast.Ident); ok && (f.Info.Uses[id] == f.Info.Uses[errID] || f.Info.Uses[id] == f.Info.Defs[errID]) {
							retErr = true
						}
					}
					if !retErr {
						bad, why = ex.State, "the error of resp.FetchPayload is swallowed (the proxy reports success for a response it could not read)"
					}
				}
				c.Check(bad == nil && nfail > 0, "R-C07-5", cons+"|failed fetch ⇒ error, no output response", pos(c, fetch), sprintf("%d failing exits return the error without SetOutputResponse", nfail), why+map[bool]string{true: "no failing exit", false: ""}[nfail == 0], witness(bad)...)
			}
		}
	}
	if f := fn(c, px, "ServerPool", "doHandle"); f != nil {
		cons := fname(px, "ServerPool", "doHandle")
		var br *ast.CallExpr
		for _, call := range calls(f.Body, false) {
			if calleeIs(f, call, "(*"+px+".ServerPool).buildResponse") {
				br = call
			}
		}
		var errID *ast.Ident
		ast.Inspect(f.Body, func(n ast.Node) bool {
			if as, ok := n.(*ast.AssignStmt); ok && len(as.Rhs) == 1 && as.Rhs[0] == ast.Expr(br) && len(as.Lhs) == 1 {
				errID, _ = as.Lhs[0].(*ast.Ident)
			}
			return true
		})
		if br == nil || errID == nil {
			c.Errorf("R-C07-5: anchor: doHandle does not bind buildResponse's error")
			return
		}
		errNil := f.NilKey(errID)
		res := analyze(c, f, flow.Config{NoHavoc: true, OnCall: func(st *flow.State, call *ast.CallExpr, callee types.Object, d bool) {
			if call == br {
				st.Set("ev:built", flow.True)
			}
		}})
		if res == nil {
			return
		}
		var bad *flow.State
		n := 0
		for _, ex := range res.Exits {
			if ex.Kind != flow.ExitReturn || !ex.State.Is("ev:built", flow.True) || !ex.State.Is(errNil, flow.False) {
				continue
			}
			n++
			ok := false
			if ex.Return != nil && len(ex.Return.Results) == 1 {
				if lit, ok2 := ast.Unparen(ex.Return.Results[0]).(*ast.CompositeLit); ok2 && len(lit.Elts) >= 1 {
					var codeExpr ast.Expr = lit.Elts[0]
					if kv, isKV := codeExpr.(*ast.KeyValueExpr); isKV {
						codeExpr = kv.Value
					}
					if tv, has := f.Info.Types[codeExpr]; has && tv.Value != nil {
						if v := tv.Value.ExactString(); len(v) == 3 && v[0] == '5' {
							ok = true
						} else if v == "408" {
							// the pool timeout expired while the body was read: a timeout, and the
							// response is withheld all the same
							for _, fact := range ex.State.Facts() {
								if strings.HasSuffix(fact, "==@context.DeadlineExceeded=T") {
									ok = true
								}
							}
						}
					}
				}
			}
			if !ok {
				bad = ex.State
			}
		}
		c.Check(bad == nil && n > 0, "R-C07-5", cons+"|failed buildResponse ⇒ 5xx", pos(c, br), sprintf("%d exits return a serverPoolError with a 5xx code (408 only under an expired deadline)", n), "a failed buildResponse does not end in a 5xx serverPoolError (or 408 under an expired deadline): the oversized/unreadable response is not reported as a failure", witness(bad)...)
	}
}
