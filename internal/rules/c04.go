package rules

// C04 — load balancers pick only live pool members, fairly or stickily, never failing.
//
// Resolution by role (no Go type or variable names are frozen except the anchors named in
// properties.jsonl: package pkg/filters/proxy, interface LoadBalancer, NewLoadBalancer,
// ServerPool, NewServerPool, useService):
//   * implementations  = every named module type whose pointer implements proxy.LoadBalancer;
//   * list field       = the unique field of type []*Server reachable in an implementation;
//   * policy -> impl   = the constructor returned by the case of NewLoadBalancer's switch whose
//                        constant is "roundRobin" / "ipHash" / "headerHash" / "weightedRandom";
//   * counter          = the unique integer / sync/atomic field declared by the round-robin impl;
//   * published field  = the unique sync/atomic.Value field of ServerPool;
//   * call sites       = every call whose callee is LoadBalancer.ChooseServer or an
//                        implementation's ChooseServer method.
//
// Files: c04.go (resolution, flow-engine rules R-C04-1/2/6/7 and the publish-before-use part of
// R-C04-3), c04_ssa.go (SSA rules: element-of-list half of R-C04-2, R-C04-3, R-C04-4, R-C04-5),
// c04_weighted.go (R-C04-8, added in the second pass for seeded change a: weighted selection =
// cumulative subtraction over exactly the summed weights; its mutants are listed there),
// c04_types.go (extra obligations of R-C04-3, added for round-2 seeded change b: one concrete
// balancer type per policy, chosen by the pool's spec only; only NewLoadBalancer's result is stored
// into the pool's atomic.Value; also the policy -> implementation resolution used by the others),
// c04_shared.go (R-C04-3, round-3 seeded a: no call on stateful objects held in balancer fields or
// package variables), c04_watch.go (R-C04-7, round-3 seeded b: watchServers always starts the watch
// goroutine; the watch loop applies every received report until the pool is closed),
// c04_roles.go (robustness pass: publish / watch / apply functions of ServerPool resolved by role),
// c04_discovery.go (R-C04-7 discovery fallback restated over the reach of the apply function:
// builder helper, bool tag helper / membership flag, extracted fallback helper, self-publishing).
// Robustness pass: the rules see through named locals, index/3-clause loops, named results with
// bare return, method values, closures and wrappers around ChooseServer ((*Server, bool) included),
// bounds passed as parameters of unexported helpers, bool helpers such as empty(), functions moved
// to other files and renamed unexported functions/fields. Second iteration: the common part held
// in a named field (`base BaseLoadBalancer`), the policy switch replaced by an immutable table of
// constructors, constructors inlined into NewLoadBalancer, helpers that receive the list
// (pickUniform(lb.Servers), pickByWeight(lb.Servers, draw), a method pick(draw)) followed for the
// element-of, immutability, bound and weighted-selection rules, watchServers split into helpers,
// the watch goroutine as a method/function started with `go`, nil predicates such as noServer(svr).
// Fourth seeded round: c04_attempt.go (R-C04-9: the balancer is loaded and the server selected
// inside the attempt function the resilience wrappers invoke, before every send of that attempt);
// R-C04-4 follows the ticket into an index helper (`lb.pick(ticket)`) and demands that the counter
// and every value up to the modulo stay 64 bits wide; R-C04-6 decides len(<receiver>.<list>) in a
// method of the common part at the call sites of that method.
// Third robustness iteration: named results with bare return and nil returns inside inlined helpers
// (chooseByHash) in the nil-only-for-empty check; the pool's atomic.Value inside a slot struct of
// its own (balancerSlot{load, store}); NewLoadBalancer delegating the dispatch ((*LoadBalanceSpec)
// .newBalancer); publishing helpers summarised (setServers(list) / useStaticServers()); a stored
// balancer that is a setter's parameter judged at the setter's call sites; the registry behind an
// unexported interface; loaders that get the balancer from another loader.
// Fourth iteration: the policy dispatch written as early-return ifs on the policy with a final
// default return (c04PolicyIfChain); the weighted walk written with a callback iterator
// (eachServer(list, visit): c04WeightedVisitor judges the visitor literal as the loop body, the
// element-of rule binds the visitor's parameter to the elements the plain iterator passes); an
// iterator the rule does not recognise as plain is undecided, not violated.
//
// Tested on the tree this was developed against (scratch worktree @ ce8b88e): exit 1 with
// exactly one violation,
//   R-C04-6|pkg/filters/proxy.(WeightedRandomLoadBalancer).ChooseServer|math/rand.Intn bound #1
// (genuine defect, triaged: rand.Intn(0) panics on the first request to a validated pool with
// policy weightedRandom whose servers carry no weight; demo /tmp/vw/C04/out/zz_triage_test.go,
// fix /tmp/vw/C04/out/fix-1.diff). Silent (exit 0, 44/44) on the fixed tree — and on /repo HEAD,
// where the same defect was fixed meanwhile by b16d273 (`if lb.totalWeight <= 0 { uniform }`).
//
// Mutants tried in the scratch worktree (each compiles and vets; all but M8/M17/M20 also pass the
// package's tests; rule that fired, always naming the mutated construct):
//   M1  handleMirror: nil test of svr removed                         -> R-C04-1 (use not known non-nil)
//   M2  doHandle: return on the nil edge removed (log only)           -> R-C04-1 (use with svr known nil)
//   M3  doHandle: nil edge returns nil (success)                      -> R-C04-1 (nil error on nil edge)
//   M21 doHandle: nil test moved after prepareRequest(svr)            -> R-C04-1
//   M4  roundRobin: `lb.counter++` instead of atomic.AddUint64        -> R-C04-4 (non-atomic access, no fetch-add)
//   M5  roundRobin: Add, then separate atomic.LoadUint64 for the index-> R-C04-4 (not a single fetch-add)
//   M20 roundRobin: counter advanced by 2                             -> R-C04-4 (delta != 1)
//   M17 roundRobin: `% (len(lb.Servers)-1)`                           -> R-C04-6 + R-C04-4 (index shape)
//   M19 roundRobin: returns the address of a copy of the server       -> R-C04-2 (not an element load)
//   M6  random: rand.Shuffle of lb.Servers in place                   -> R-C04-3 (element overwritten)
//   M9  random: `if len(lb.Servers) <= 1 { return nil }`              -> R-C04-2 (nil for non-empty list; index/Intn unguarded)
//   M7  ipHash: empty client IP falls back to rand.Intn               -> R-C04-5 (math/rand reached)
//   M18 headerHash: lb.key defaulted lazily inside ChooseServer       -> R-C04-3 (field stored after construction) + R-C04-5
//   M8  headerHash: len(...)==0 guard removed                         -> R-C04-2 (index into empty list) + R-C04-6 (modulo by zero)
//   M10 useService: fallback `servers = spec.Servers` dropped         -> R-C04-7 (possibly empty filtered list published)
//   M11 useService: fallback made unconditional                       -> R-C04-7 (static list replaces qualifying instances)
//   M22 useService: fallback condition inverted (len != 0)            -> R-C04-7
//   M12 useService: tag test negated (`!StrInSlice`)                  -> R-C04-7 (append without a matching tag)
//   M13 useService: `break` after append removed                      -> R-C04-7 (instance listed once per matching tag)
//   M14 NewServerPool: `else` -> `else if spec.ServiceName != "x"`    -> R-C04-3 (path returning without publish)
//   M15 createLoadBalancer: `sp.loadBalancer = atomic.Value{}`        -> R-C04-3 (atomic.Value assigned directly)
//   M16 (fixed tree) weighted guard `totalWeight < 0` instead of <= 0 -> R-C04-6
// Not caught (by design, listed under Not decided): an in-range but wrong index expression in
// random/ipHash/headerHash (e.g. `hash.Sum32() % uint32(len)/2`) — still an element of the list;
// distribution is not decided.
//
// Behaviour-preserving edits tried (verdict unchanged: only the R-C04-6 finding, exit 0 on the
// fixed tree):
//   E1  rename svr -> target, `nil == target`; E3 nil test through a local bool plus a debug log
//   of svr before the test; E11 `if svr == nil || prepareRequest(svr,..) != nil { return }`;
//   E4  random: `n := len(lb.Servers); if n < 1 { return nil }; return lb.Servers[rand.Intn(n)]`;
//   E5  ipHash: `servers := lb.Servers` alias, `0 == len(servers)`, index in a local;
//   E6  roundRobin: `idx := (atomic.AddUint64(&lb.counter, 1) - 1) % uint64(len(lb.Servers))`;
//   E9  roundRobin: `ticket := Add(..); lb.Servers[int(ticket-1)%len(lb.BaseLoadBalancer.Servers)]`;
//   E7  useService: `if len(servers) > 0 { create(servers); return }; create(spec.Servers)`;
//   E10 useService: `var servers []*Server`, ServerTags hoisted into a local;
//   E8  fix written as `lb.totalWeight < 1`; headerHash guard as a tagless switch;
//   E12 constructor / ChooseServer capturing lb in (deferred) closures;
//   E14 types and counter field renamed (rrBalancer, ipBalancer, next).

import (
	"go/ast"
	"go/constant"
	"go/token"
	"go/types"
	"strings"

	"golang.org/x/tools/go/packages"

	"verif/internal/core"
	"verif/internal/flow"
	"verif/internal/load"
)

const c04pkg = "pkg/filters/proxy"

func init() { Registry["C04"] = c04 }

// c04Impl is one implementation of proxy.LoadBalancer.
type c04Impl struct {
	named    *types.Named
	method   *types.Func // its ChooseServer
	pkg      *packages.Package
	decl     *ast.FuncDecl
	cons     string
	list     *types.Var   // the []*Server field
	fields   []*types.Var // every field reachable through embedding (incl. embedded struct fields)
	policies []string
}

type c04Info struct {
	iface        *types.Named
	ifaceT       *types.Interface
	choose       *types.Func // interface method
	server       *types.Named
	listType     types.Type
	impls        []*c04Impl
	byPolicy     map[string]*c04Impl
	byMethod     map[*types.Func]*c04Impl
	owner        map[*types.Var]string // field -> "pkg/rel.Struct"
	roles        *c04Roles
	newLB        *types.Func           // NewLoadBalancer
	dispatch     map[*types.Func]bool  // NewLoadBalancer and the function(s) it delegates the dispatch to
	dispatchDecl *ast.FuncDecl         // the function that holds the policy switch / table
	pool         *types.Struct         // ServerPool
	policyImpls  map[string][]*c04Impl // every implementation a policy can yield
	cases        []c04PolicyCase       // case clauses of NewLoadBalancer's policy switch
	outside      *c04TypeSet           // returns of NewLoadBalancer outside the switch (nil = none)
}

func c04(c *core.Ctx) string {
	c.Rule("R-C04-1", "nil server => no send: at every call site of LoadBalancer.ChooseServer the result is tested for nil before any use (dereference, argument, alias); with the result nil no request is sent and a function returning error returns a non-nil error")
	c.Rule("R-C04-2", "choose only from the list: in every LoadBalancer implementation each returned value is nil or an element load of the receiver's server list; nil is returned only in states where the list is known empty; the list is indexed only in states where it is known non-empty")
	c.Rule("R-C04-3", "immutability + atomic publish: fields of balancer implementations (list, key, weights) are stored only into freshly allocated objects, list elements are never overwritten and the list is only measured/indexed/ranged; ServerPool's atomic.Value is touched only through sync/atomic methods, only LoadBalancer values are stored, and NewServerPool publishes a balancer on every path before returning")
	c.Rule("R-C04-4", "round robin = one atomic fetch-add: every access to the round-robin counter is a sync/atomic operation; ChooseServer performs exactly one atomic add of constant 1 and indexes the list with (that result +/- const) % len(list)")
	c.Rule("R-C04-5", "stickiness = purity: the ipHash/headerHash ChooseServer (and same-package callees) reach no math/rand, time, crypto/rand, sync/atomic, maphash, no goroutine/channel operation, write no non-local memory and read no mutable field or package variable")
	c.Rule("R-C04-6", "random-bound / divisor guard: every rand.Intn-style bound and every non-constant integer divisor (% and /) in pkg/filters/proxy is known positive in every abstract state reaching it")
	c.Rule("R-C04-7", "discovery fallback: in useService the list handed to createLoadBalancer is the filtered list when it is non-empty and spec.Servers exactly when the filtered list is empty; an instance is appended only after a tag-membership test succeeded, at most once; every exit has replaced the balancer")
	c.NotDecided = []string{
		"statistical fairness of random / weightedRandom and the numeric floor(k/n)/ceil(k/n) counts (only the single-fetch-add shape is decided; counter wrap-around at 2^64 and int(counter) going negative after 2^63 selections are ignored)",
		"that the hash policies' index is a function of the key only (decided: no other input is reachable; not decided: the value flow through hash.Hash)",
		"weightedRandom: that a positive-weight server is chosen with probability weight/total (decided: the cumulative-subtraction shape that excludes zero-weight servers, R-C04-8; the statement after the selection loop is unreachable by arithmetic given that shape and is not judged)",
		"aliasing of the static spec.Servers slice with the published list (writers of ServerPoolSpec.Servers outside the proxy package are not audited)",
		"interleavings of list replacement with selection (the atomic-publish discipline is decided, schedules are not explored)",
	}
	c.Assumptions = append(c.Assumptions,
		"C04: facts about fields of a balancer are kept across calls (NoHavoc) because R-C04-3 proves those fields immutable after construction",
		"C04: integer conversions of a positive length stay positive (no list has 2^32 elements)",
		"C04: interface method calls inside the hash policies (hash.Hash.Write/Sum32) are deterministic; request accessors in other packages define the key and are not traversed")

	info := c04Resolve(c)
	if info == nil {
		return "anchors unresolved"
	}
	info.roles = c04ResolveRoles(c)
	c04NilGuard(c, info)
	c04Choose(c, info)
	c04Bounds(c, info)
	c04Discovery(c, info)
	c04Watch(c, info)
	c04Published(c, info)
	c04OneType(c, info)
	c04SSA(c, info)
	c04Weighted(c, info)
	c04Attempt(c, info)
	return "Shape rules for the proxy load balancers: nil result never dereferenced or sent (path-sensitive, all ChooseServer call sites); every implementation returns nil only for a list known empty and otherwise an element load of its immutable list (flow engine + SSA value flow); list/keys/weights immutable after construction and the balancer published only through atomic.Value on every path of NewServerPool; the round-robin index comes from a single atomic fetch-add; hash policies reach no source of nondeterminism or mutable state; every random bound / divisor is proven positive on all paths; discovery publishes the filtered list or, exactly when it is empty, the static list. Not decided: distributions and counts, arithmetic reachability of the weightedRandom BUG panic, schedules."
}

// ----------------------------------------------------------------------------------------
// resolution

func c04Resolve(c *core.Ctx) *c04Info {
	info := &c04Info{byPolicy: map[string]*c04Impl{}, byMethod: map[*types.Func]*c04Impl{}, owner: map[*types.Var]string{}, policyImpls: map[string][]*c04Impl{}}
	info.iface = namedType(c, c04pkg, "LoadBalancer")
	info.server = namedType(c, c04pkg, "Server")
	if info.iface == nil || info.server == nil {
		return nil
	}
	it, ok := info.iface.Underlying().(*types.Interface)
	if !ok || it.NumMethods() == 0 {
		c.Errorf("anchor: %s.LoadBalancer is not an interface with methods", c04pkg)
		return nil
	}
	info.ifaceT = it
	for i := 0; i < it.NumMethods(); i++ {
		m := it.Method(i)
		sig := m.Type().(*types.Signature)
		if sig.Results().Len() == 1 && types.Identical(sig.Results().At(0).Type(), types.NewPointer(info.server)) {
			info.choose = m
		}
	}
	if info.choose == nil {
		c.Errorf("anchor: LoadBalancer has no method returning *Server")
		return nil
	}
	info.listType = types.NewSlice(types.NewPointer(info.server))
	if sp := namedType(c, c04pkg, "ServerPool"); sp != nil {
		info.pool, _ = sp.Underlying().(*types.Struct)
	}

	for _, pkg := range c.Prog.Module {
		sc := pkg.Types.Scope()
		for _, name := range sc.Names() {
			tn, ok := sc.Lookup(name).(*types.TypeName)
			if !ok || tn.IsAlias() {
				continue
			}
			named, ok := tn.Type().(*types.Named)
			if !ok || types.IsInterface(named) || named.TypeParams().Len() > 0 {
				continue
			}
			if !types.Implements(types.NewPointer(named), it) {
				continue
			}
			sel := types.NewMethodSet(types.NewPointer(named)).Lookup(info.choose.Pkg(), info.choose.Name())
			if sel == nil {
				continue
			}
			m, _ := sel.Obj().(*types.Func)
			if m == nil {
				continue
			}
			impl := &c04Impl{named: named, method: m}
			impl.pkg, impl.decl = c04DeclOf(c, m)
			if impl.decl == nil {
				c.Errorf("anchor: declaration of %s not found", m.FullName())
				continue
			}
			impl.cons = declName(impl.pkg, impl.decl)
			var lists []*types.Var
			var walk func(t types.Type, depth int)
			walk = func(t types.Type, depth int) {
				st, ok := t.Underlying().(*types.Struct)
				if !ok || depth > 4 {
					return
				}
				for i := 0; i < st.NumFields(); i++ {
					fld := st.Field(i)
					impl.fields = append(impl.fields, fld)
					if n, ok := t.(*types.Named); ok && n.Obj().Pkg() != nil {
						info.owner[fld] = relPkg(n.Obj().Pkg().Path()) + "." + n.Obj().Name()
					}
					if types.Identical(fld.Type(), info.listType) {
						lists = append(lists, fld)
					}
					// the common part may be embedded or held in a named field (`base BaseLoadBalancer`)
					ft := fld.Type()
					if p, ok := ft.(*types.Pointer); ok {
						ft = p.Elem()
					}
					if n, ok := ft.(*types.Named); ok && n.Obj().Pkg() != nil && strings.HasPrefix(n.Obj().Pkg().Path(), load.ModulePath) {
						if _, isStruct := n.Underlying().(*types.Struct); isStruct && (fld.Embedded() || c04HasList(n, info.listType, 0)) {
							walk(ft, depth+1)
						}
					}
				}
			}
			walk(named, 0)
			if len(lists) != 1 {
				c.Errorf("anchor: implementation %s has %d fields of type []*Server, expected exactly 1", named.Obj().Name(), len(lists))
				continue
			}
			impl.list = lists[0]
			info.impls = append(info.impls, impl)
			info.byMethod[m] = impl
		}
	}
	if !c.RequireCount("R-C04-2", "LoadBalancer implementations", len(info.impls), 5) {
		return nil
	}

	// policy constant -> implementation, from the switch of NewLoadBalancer
	nf := fn(c, c04pkg, "", "NewLoadBalancer")
	if nf == nil {
		return nil
	}
	npkg, nfd := c.Prog.FuncDecl(c04pkg, "", "NewLoadBalancer")
	info.newLB, _ = npkg.TypesInfo.Defs[nfd.Name].(*types.Func)
	info.dispatch = map[*types.Func]bool{info.newLB: true}
	cases, outside, disp := c04PolicyCases(c, npkg, nfd)
	// NewLoadBalancer may merely delegate: `return spec.newBalancer(servers)`
	for hop := 0; disp == nil && hop < 2; hop++ {
		var next *ast.FuncDecl
		if len(nfd.Body.List) == 1 {
			if rs, ok := nfd.Body.List[0].(*ast.ReturnStmt); ok && len(rs.Results) == 1 {
				if call, ok := ast.Unparen(rs.Results[0]).(*ast.CallExpr); ok {
					if fo, _ := c04Callee(npkg.TypesInfo, call).(*types.Func); fo != nil && fo.Pkg() == npkg.Types {
						if d := declOf(npkg, fo); d != nil {
							next = d
							info.dispatch[fo] = true
						}
					}
				}
			}
		}
		if next == nil {
			break
		}
		nfd = next
		cases, outside, disp = c04PolicyCases(c, npkg, nfd)
	}
	info.dispatchDecl = nfd
	if disp == nil {
		c.Errorf("anchor: NewLoadBalancer has neither a switch over the policy nor a lookup in an immutable table of constructors")
		return nil
	}
	info.cases, info.outside = cases, outside
	ambiguous := map[string]bool{}
	for _, pc := range cases {
		var impl *c04Impl
		if len(pc.set.types) == 1 {
			for _, t := range pc.set.types {
				if p, ok := t.(*types.Pointer); ok {
					t = p.Elem()
				}
				for _, im := range info.impls {
					if types.Identical(t, im.named) {
						impl = im
					}
				}
			}
		}
		for _, p := range pc.policies {
			for _, t := range pc.set.types {
				if pt, ok := t.(*types.Pointer); ok {
					t = pt.Elem()
				}
				for _, im := range info.impls {
					if types.Identical(t, im.named) {
						info.policyImpls[p] = append(info.policyImpls[p], im)
						if len(pc.set.types) > 1 {
							im.policies = append(im.policies, p)
						}
					}
				}
			}
			if len(pc.set.types) != 1 {
				ambiguous[p] = true // several / no / unknown types: judged by c04OneType; policy-specific rules are skipped
			}
			if impl != nil {
				info.byPolicy[p] = impl
				impl.policies = append(impl.policies, p)
			}
		}
	}
	// an if-chain / table names only some policies; the others are served by the "<other>" case
	for _, pc := range cases {
		if pc.label != "<other>" || len(pc.set.types) != 1 {
			continue
		}
		for _, t := range pc.set.types {
			if pt, ok := t.(*types.Pointer); ok {
				t = pt.Elem()
			}
			for _, im := range info.impls {
				if !types.Identical(t, im.named) {
					continue
				}
				for _, p := range []string{"roundRobin", "random", "weightedRandom", "ipHash", "headerHash"} {
					if info.byPolicy[p] == nil && !ambiguous[p] && len(info.policyImpls[p]) == 0 {
						info.byPolicy[p] = im
						info.policyImpls[p] = append(info.policyImpls[p], im)
						im.policies = append(im.policies, p)
					}
				}
			}
		}
	}
	for _, p := range []string{"roundRobin", "random", "weightedRandom", "ipHash", "headerHash"} {
		if info.byPolicy[p] == nil && !ambiguous[p] {
			c.Errorf("anchor: NewLoadBalancer has no switch case for policy %q returning a LoadBalancer implementation", p)
		}
	}
	if len(c.Errors) > 0 {
		return nil
	}
	return info
}

// c04HasList: struct type t contains (at any depth) a field of the list type.
func c04HasList(t types.Type, list types.Type, depth int) bool {
	st, ok := t.Underlying().(*types.Struct)
	if !ok || depth > 3 {
		return false
	}
	for i := 0; i < st.NumFields(); i++ {
		ft := st.Field(i).Type()
		if types.Identical(ft, list) {
			return true
		}
		if p, ok := ft.(*types.Pointer); ok {
			ft = p.Elem()
		}
		if _, isNamed := ft.(*types.Named); isNamed && c04HasList(ft, list, depth+1) {
			return true
		}
	}
	return false
}

// c04DeclOf finds the declaration of a function object.
func c04DeclOf(c *core.Ctx, m *types.Func) (*packages.Package, *ast.FuncDecl) {
	if m.Pkg() == nil {
		return nil, nil
	}
	pkg := c.Prog.All[m.Pkg().Path()]
	if pkg == nil {
		return nil, nil
	}
	for _, file := range pkg.Syntax {
		for _, d := range file.Decls {
			if fd, ok := d.(*ast.FuncDecl); ok && fd.Body != nil && pkg.TypesInfo.Defs[fd.Name] == m {
				return pkg, fd
			}
		}
	}
	return pkg, nil
}

func c04ObjOf(info *types.Info, id *ast.Ident) types.Object {
	if o := info.Uses[id]; o != nil {
		return o
	}
	return info.Defs[id]
}

// c04IsChoose reports whether call invokes ChooseServer (interface or implementation method).
func c04IsChoose(info *c04Info, f *flow.Func, call *ast.CallExpr) bool {
	m, ok := f.Callee(call).(*types.Func)
	if !ok {
		return false
	}
	return m == info.choose || info.byMethod[m] != nil
}

// c04ReadOnlyCallee: calls that only format/log their arguments.
func c04ReadOnlyCallee(o types.Object) bool {
	fo, ok := o.(*types.Func)
	if !ok || fo.Pkg() == nil {
		return false
	}
	p := fo.Pkg().Path()
	return p == "fmt" || p == "log" || p == Mod+"pkg/logger"
}

// ----------------------------------------------------------------------------------------
// a small positivity domain over the engine's facts

// c04Facts answers "is expression e known positive / known zero in state st" modulo aliases:
// single-definition locals are replaced by their defining expression and integer conversions
// are stripped before expressions are compared.
type c04Facts struct {
	f       *flow.Func
	list    *types.Var   // rendered as §list when selected (may be nil)
	listVar types.Object // a variable (helper parameter) that denotes the list
	defs    map[types.Object]ast.Expr
	unsafe  map[types.Object]bool // assigned more than once / address taken
	byCanon map[string][]ast.Expr
	// extra renderings per canonical form (facts that arrive from inlined helpers speak about
	// expressions that need not occur in the function itself, e.g. len(lb.Servers))
	extra map[string][]string
}

// withRecvList registers the rendering of len(<recv>.<list>) for the canonical len(§list(recv)).
func (q *c04Facts) withRecvList(fd *ast.FuncDecl) *c04Facts {
	if q.list == nil || fd == nil || fd.Recv == nil || len(fd.Recv.List) != 1 || len(fd.Recv.List[0].Names) != 1 {
		return q
	}
	r := q.f.Render(fd.Recv.List[0].Names[0])
	if q.extra == nil {
		q.extra = map[string][]string{}
	}
	k := "len(§list(" + r + "))"
	q.extra[k] = append(q.extra[k], "len("+r+"."+q.list.Name()+")")
	// every spelling of the receiver's list in this function (`lb.base.Servers`, an alias …)
	for _, x := range q.byCanon["§list("+r+")"] {
		q.extra[k] = append(q.extra[k], "len("+q.f.Render(x)+")")
	}
	// Facts learnt inside an inlined same-package helper (`if lb.empty()`, `if none(lb.Servers)`)
	// are phrased in the helper's vocabulary. Where every call of a helper in this function is
	// given the receiver (resp. the receiver's list), the helper's receiver/parameter denotes the
	// same (immutable) list, so its rendering is registered as well.
	recv := q.f.Info.Defs[fd.Recv.List[0].Names[0]]
	type bindInfo struct {
		render string
		ok     bool
	}
	binds := map[string]*bindInfo{} // helper parameter position -> rendering
	for _, call := range calls(fd.Body, true) {
		fo, _ := q.f.Callee(call).(*types.Func)
		if fo == nil || fo.Pkg() != q.f.Pkg.Types {
			continue
		}
		hd := declOf(q.f.Pkg, fo)
		if hd == nil {
			continue
		}
		note := func(key, render string, same bool) {
			b := binds[key]
			if b == nil {
				b = &bindInfo{render: render, ok: true}
				binds[key] = b
			}
			if !same {
				b.ok = false
			}
		}
		if hd.Recv != nil && len(hd.Recv.List) == 1 && len(hd.Recv.List[0].Names) == 1 {
			if sel, ok := ast.Unparen(call.Fun).(*ast.SelectorExpr); ok {
				id, isID := ast.Unparen(sel.X).(*ast.Ident)
				note(fo.FullName()+"#recv", "len("+q.f.Render(hd.Recv.List[0].Names[0])+"."+q.list.Name()+")", isID && c04ObjOf(q.f.Info, id) == recv)
			}
		}
		i := 0
		for _, fld := range hd.Type.Params.List {
			for _, name := range fld.Names {
				if i < len(call.Args) {
					if tv, ok := q.f.Info.Types[call.Args[i]]; ok && tv.Type != nil && types.Identical(tv.Type, q.list.Type()) {
						note(sprintf("%s#%d", fo.FullName(), i), "len("+q.f.Render(name)+")", q.canon(call.Args[i], 0) == "§list("+r+")")
					}
				}
				i++
			}
			if len(fld.Names) == 0 {
				i++
			}
		}
	}
	for _, b := range binds {
		if b.ok {
			q.extra[k] = append(q.extra[k], b.render)
		}
	}
	return q
}

func c04NewFacts(f *flow.Func, list *types.Var) *c04Facts { return c04NewFactsVar(f, list, nil) }

// c04NewFactsVar: listVar (a parameter of a helper) denotes the list as well.
func c04NewFactsVar(f *flow.Func, list *types.Var, listVar types.Object) *c04Facts {
	q := &c04Facts{f: f, list: list, listVar: listVar, defs: map[types.Object]ast.Expr{}, unsafe: map[types.Object]bool{}, byCanon: map[string][]ast.Expr{}}
	assigned := map[types.Object]int{}
	note := func(e ast.Expr, rhs ast.Expr) {
		id, ok := ast.Unparen(e).(*ast.Ident)
		if !ok || id.Name == "_" {
			return
		}
		o := c04ObjOf(f.Info, id)
		if o == nil {
			return
		}
		assigned[o]++
		if rhs != nil {
			q.defs[o] = rhs
		} else {
			q.unsafe[o] = true
		}
	}
	ast.Inspect(f.Node, func(n ast.Node) bool {
		switch s := n.(type) {
		case *ast.AssignStmt:
			for i, l := range s.Lhs {
				if len(s.Lhs) == len(s.Rhs) && (s.Tok == token.DEFINE || s.Tok == token.ASSIGN) {
					note(l, s.Rhs[i])
				} else {
					note(l, nil)
				}
			}
		case *ast.ValueSpec:
			for i, id := range s.Names {
				if len(s.Values) == len(s.Names) {
					note(id, s.Values[i])
				} else {
					note(id, nil)
				}
			}
		case *ast.IncDecStmt:
			note(s.X, nil)
		case *ast.RangeStmt:
			if s.Key != nil {
				note(s.Key, nil)
			}
			if s.Value != nil {
				note(s.Value, nil)
			}
		case *ast.UnaryExpr:
			if s.Op == token.AND {
				note(s.X, nil)
			}
		}
		return true
	})
	for o, n := range assigned {
		if n > 1 {
			q.unsafe[o] = true
		}
	}
	ast.Inspect(f.Body, func(n ast.Node) bool {
		if e, ok := n.(ast.Expr); ok {
			if tv, ok := f.Info.Types[e]; ok && !tv.IsType() && tv.Type != nil {
				k := q.canon(e, 0)
				q.byCanon[k] = append(q.byCanon[k], e)
			}
		}
		return true
	})
	return q
}

func (q *c04Facts) isIntConv(call *ast.CallExpr) bool {
	if len(call.Args) != 1 {
		return false
	}
	tv, ok := q.f.Info.Types[call.Fun]
	if !ok || !tv.IsType() {
		return false
	}
	b, ok := tv.Type.Underlying().(*types.Basic)
	return ok && b.Info()&types.IsInteger != 0
}

// stable: the expression denotes the same value wherever it is evaluated after its definition
// (receiver/parameters/single-definition locals, field selections, len, integer conversions,
// constants).
func (q *c04Facts) stable(e ast.Expr, depth int) bool {
	if depth > 6 {
		return false
	}
	switch x := ast.Unparen(e).(type) {
	case *ast.BasicLit:
		return true
	case *ast.Ident:
		o := c04ObjOf(q.f.Info, x)
		switch o.(type) {
		case *types.Const, *types.Nil:
			return true
		case *types.Var:
			if q.unsafe[o] {
				return false
			}
			if d, ok := q.defs[o]; ok {
				return q.stable(d, depth+1)
			}
			return true // parameter / receiver never assigned
		}
		return false
	case *ast.SelectorExpr:
		if s := q.f.Info.Selections[x]; s != nil && s.Kind() == types.FieldVal {
			return q.stable(x.X, depth+1)
		}
		return false
	case *ast.CallExpr:
		if q.isIntConv(x) {
			return q.stable(x.Args[0], depth+1)
		}
		if b, ok := q.f.Callee(x).(*types.Builtin); ok && (b.Name() == "len" || b.Name() == "cap") && len(x.Args) == 1 {
			return q.stable(x.Args[0], depth+1)
		}
	case *ast.BinaryExpr:
		switch x.Op {
		case token.ADD, token.SUB, token.MUL:
			return q.stable(x.X, depth+1) && q.stable(x.Y, depth+1)
		}
	}
	return false
}

func (q *c04Facts) canon(e ast.Expr, depth int) string {
	if depth > 8 {
		return q.f.Render(e)
	}
	switch x := ast.Unparen(e).(type) {
	case *ast.Ident:
		o := c04ObjOf(q.f.Info, x)
		if q.listVar != nil && o == q.listVar && !q.unsafe[o] {
			return "§list(" + q.f.Render(x) + ")"
		}
		if v, ok := o.(*types.Var); ok && !q.unsafe[v] {
			if d, ok := q.defs[v]; ok && q.stable(d, 0) {
				return q.canon(d, depth+1)
			}
		}
	case *ast.SelectorExpr:
		if s := q.f.Info.Selections[x]; s != nil && s.Kind() == types.FieldVal {
			if q.list != nil && s.Obj() == q.list {
				return "§list(" + q.canonRoot(x.X, depth+1) + ")"
			}
			return q.canon(x.X, depth+1) + "." + x.Sel.Name
		}
	case *ast.CallExpr:
		if q.isIntConv(x) {
			return q.canon(x.Args[0], depth+1)
		}
		if b, ok := q.f.Callee(x).(*types.Builtin); ok && b.Name() == "len" && len(x.Args) == 1 {
			return "len(" + q.canon(x.Args[0], depth+1) + ")"
		}
	}
	return q.f.Render(ast.Unparen(e))
}

// canonRoot strips explicit embedded-field hops (lb.BaseLoadBalancer.Servers == lb.Servers).
func (q *c04Facts) canonRoot(e ast.Expr, depth int) string {
	if sel, ok := ast.Unparen(e).(*ast.SelectorExpr); ok {
		if s := q.f.Info.Selections[sel]; s != nil && s.Kind() == types.FieldVal {
			// embedded hops and named struct fields on the way to the list (`lb.base.Servers`) alike:
			// the list is identified by the object it belongs to
			if v, ok := s.Obj().(*types.Var); ok {
				if _, isStruct := c04Deref(v.Type()).Underlying().(*types.Struct); isStruct || v.Embedded() {
					return q.canonRoot(sel.X, depth+1)
				}
			}
		}
	}
	return q.canon(e, depth)
}

func (q *c04Facts) nonneg(e ast.Expr, k string) bool {
	if strings.HasPrefix(k, "len(") {
		return true
	}
	if tv, ok := q.f.Info.Types[e]; ok && tv.Type != nil {
		if b, ok := tv.Type.Underlying().(*types.Basic); ok && b.Info()&types.IsUnsigned != 0 {
			return true
		}
	}
	return false
}

// positiveK / zeroK decide by canonical form.
func (q *c04Facts) positiveK(st *flow.State, k string) bool {
	for _, x := range q.byCanon[k] {
		if tv, ok := q.f.Info.Types[x]; ok && tv.Value != nil {
			if constant.Sign(tv.Value) > 0 {
				return true
			}
			continue
		}
		r := q.f.Render(x)
		if st.Is("lt:0<"+r, flow.True) || st.Is("lt:"+r+"<1", flow.False) {
			return true
		}
		if q.nonneg(x, k) && st.Is("eq:"+r+"==0", flow.False) {
			return true
		}
	}
	for _, r := range q.extra[k] {
		if st.Is("lt:0<"+r, flow.True) || st.Is("lt:"+r+"<1", flow.False) || st.Is("eq:"+r+"==0", flow.False) {
			return true
		}
	}
	return false
}

func (q *c04Facts) zeroK(st *flow.State, k string) bool {
	for _, x := range q.byCanon[k] {
		r := q.f.Render(x)
		if st.Is("eq:"+r+"==0", flow.True) {
			return true
		}
		if q.nonneg(x, k) && (st.Is("lt:0<"+r, flow.False) || st.Is("lt:"+r+"<1", flow.True)) {
			return true
		}
	}
	for _, r := range q.extra[k] {
		if st.Is("eq:"+r+"==0", flow.True) || st.Is("lt:0<"+r, flow.False) || st.Is("lt:"+r+"<1", flow.True) {
			return true
		}
	}
	return false
}

func (q *c04Facts) positive(st *flow.State, e ast.Expr) bool {
	if tv, ok := q.f.Info.Types[e]; ok && tv.Value != nil {
		return constant.Sign(tv.Value) > 0
	}
	// positive + non-negative constant (either order), positive * positive; stable aliases and
	// integer conversions are looked through
	if b, ok := q.resolve(e).(*ast.BinaryExpr); ok {
		nonnegConst := func(x ast.Expr) bool {
			tv, ok := q.f.Info.Types[x]
			return ok && tv.Value != nil && constant.Sign(tv.Value) >= 0
		}
		switch b.Op {
		case token.ADD:
			if (nonnegConst(b.Y) && q.positive(st, b.X)) || (nonnegConst(b.X) && q.positive(st, b.Y)) {
				return true
			}
		case token.MUL:
			if q.positive(st, b.X) && q.positive(st, b.Y) {
				return true
			}
		}
	}
	return q.positiveK(st, q.canon(e, 0))
}

// isList reports whether e denotes the receiver's list field (directly or through a stable alias).
func (q *c04Facts) isList(e ast.Expr) bool {
	return strings.HasPrefix(q.canon(e, 0), "§list(")
}

// c04Guarded reports whether node x (inside the condition/expression containing it) sits in the
// right operand of a short-circuit operator, i.e. is evaluated only conditionally.
func c04Conditional(pm map[ast.Node]ast.Node, top ast.Node, x ast.Node) bool {
	for ch, p := x, pm[x]; p != nil && ch != top; ch, p = p, pm[p] {
		if b, ok := p.(*ast.BinaryExpr); ok && (b.Op == token.LAND || b.Op == token.LOR) && b.Y == ch {
			return true
		}
	}
	return false
}

// c04VisitSites runs the engine on f and calls visit for every (site, state) pair: the state is
// the one in which the CFG node containing the site is reached (visit runs inside the node hook,
// before the node's own transfer mutates the state). Sites inside nested function literals are
// not matched.
func c04VisitSites(c *core.Ctx, f *flow.Func, sites []ast.Node, cfgc flow.Config, visit func(site, top ast.Node, st *flow.State)) *flow.Result {
	prev := cfgc.OnNode
	cfgc.OnNode = func(st *flow.State, n ast.Node) {
		if prev != nil {
			prev(st, n)
		}
		for _, s := range sites {
			if !contains(n, s) {
				continue
			}
			inLit := false
			ast.Inspect(n, func(x ast.Node) bool {
				if l, ok := x.(*ast.FuncLit); ok && contains(l, s) {
					inLit = true
				}
				return !inLit
			})
			if inLit {
				continue
			}
			visit(s, n, st)
		}
	}
	return analyze(c, f, cfgc)
}

func c04IsError(t types.Type) bool {
	return t != nil && types.Identical(t, types.Universe.Lookup("error").Type())
}

// ----------------------------------------------------------------------------------------
// R-C04-1

type c04Site struct {
	pkg  *packages.Package
	fd   *ast.FuncDecl
	lit  *ast.FuncLit // innermost literal containing the call (nil = the declaration)
	call *ast.CallExpr
	// lifted sites: the call is to a same-module wrapper that returns the chosen server as its
	// k-th result; alias are the nil-fact keys of the wrapper's returned variables
	k       int
	alias   []string
	wrapper *types.Func
	via     string
	depth   int
}

// c04ChooseCall: call invokes ChooseServer directly or through a method value held in a local
// (`choose := lb.ChooseServer; choose(req)`).
func c04ChooseCall(info *c04Info, f *flow.Func, body ast.Node, call *ast.CallExpr) bool {
	if c04IsChoose(info, f, call) {
		return true
	}
	id, ok := ast.Unparen(call.Fun).(*ast.Ident)
	if !ok {
		return false
	}
	v, ok := c04ObjOf(f.Info, id).(*types.Var)
	if !ok || v.IsField() || v.Pkg() == nil || v.Parent() == v.Pkg().Scope() {
		return false
	}
	n, isMV := 0, false
	ast.Inspect(body, func(x ast.Node) bool {
		as, ok := x.(*ast.AssignStmt)
		if !ok {
			return true
		}
		for i, l := range as.Lhs {
			lid, ok := l.(*ast.Ident)
			if !ok || c04ObjOf(f.Info, lid) != types.Object(v) {
				continue
			}
			n++
			if len(as.Lhs) == len(as.Rhs) {
				if sel, ok := ast.Unparen(as.Rhs[i]).(*ast.SelectorExpr); ok {
					if sl := f.Info.Selections[sel]; sl != nil && sl.Kind() == types.MethodVal {
						if m, _ := sl.Obj().(*types.Func); m != nil && (m == info.choose || info.byMethod[m] != nil) {
							isMV = true
						}
					}
				}
			}
		}
		return true
	})
	return n == 1 && isMV
}

func c04NilGuard(c *core.Ctx, info *c04Info) {
	// collect call sites of pred over the module
	collect := func(pred func(f *flow.Func, fd *ast.FuncDecl, call *ast.CallExpr) bool) []c04Site {
		var sites []c04Site
		eachFunc(c, func(pkg *packages.Package, fd *ast.FuncDecl) {
			f := flow.NewFunc(pkg, fd)
			var lits []*ast.FuncLit
			var walk func(n ast.Node)
			walk = func(n ast.Node) {
				ast.Inspect(n, func(x ast.Node) bool {
					switch t := x.(type) {
					case *ast.FuncLit:
						if x != n {
							lits = append(lits, t)
							walk(t.Body)
							lits = lits[:len(lits)-1]
							return false
						}
					case *ast.CallExpr:
						if pred(f, fd, t) {
							s := c04Site{pkg: pkg, fd: fd, call: t}
							if len(lits) > 0 {
								s.lit = lits[len(lits)-1]
							}
							sites = append(sites, s)
						}
					}
					return true
				})
			}
			walk(fd.Body)
		})
		return sites
	}
	work := collect(func(f *flow.Func, fd *ast.FuncDecl, call *ast.CallExpr) bool {
		return c04ChooseCall(info, f, fd.Body, call)
	})
	judged := 0
	perDecl := map[string]int{}
	lifted := map[*types.Func]bool{}
	for len(work) > 0 {
		s := work[0]
		work = work[1:]
		name := declName(s.pkg, s.fd)
		perDecl[name]++
		cons := name + "|ChooseServer result"
		if s.via != "" {
			cons += " (via " + s.via + ")"
		}
		if perDecl[name] > 1 {
			cons += sprintf(" #%d", perDecl[name])
		}
		escapes, isWrapper := c04NilGuardSite(c, info, s, cons)
		if !isWrapper {
			judged++
			continue
		}
		// a closure held in a local (`choose := func() *Server {…}; svr := choose()`): judge its calls
		if s.lit != nil && s.depth < 2 {
			if v := c04LitVar(s.pkg, s.fd, s.lit); v != nil {
				for k := range escapes {
					callers := collect(func(f *flow.Func, fd *ast.FuncDecl, call *ast.CallExpr) bool {
						id, ok := ast.Unparen(call.Fun).(*ast.Ident)
						return ok && fd == s.fd && f.Info.Uses[id] == types.Object(v)
					})
					for _, cs := range callers {
						cs.k, cs.via, cs.depth = k, "closure "+v.Name(), s.depth+1
						work = append(work, cs)
					}
				}
				continue
			}
		}
		// the function hands the chosen server to its callers: judge the callers
		wobj := c04FuncObj(s.pkg, s.fd)
		if wobj == nil || s.lit != nil || s.depth >= 2 {
			c.Undecide("R-C04-1", cons, pos(c, s.call), "the chosen server is returned to the caller through a function literal or a chain of wrappers; the nil test would have to be checked further up")
			continue
		}
		if lifted[wobj] {
			continue
		}
		lifted[wobj] = true
		wf := flow.NewFunc(s.pkg, s.fd)
		for k, keys := range escapes {
			callers := collect(func(f *flow.Func, fd *ast.FuncDecl, call *ast.CallExpr) bool {
				return f.Callee(call) == types.Object(wobj)
			})
			for _, cs := range callers {
				cs.k, cs.alias, cs.wrapper, cs.via, cs.depth = k, keys, wobj, wobj.Name(), s.depth+1
				work = append(work, cs)
			}
			_ = wf
		}
	}
	c.RequireCount("R-C04-1", "ChooseServer results judged at their point of use", judged, 2)
}

// c04LitVar returns the local variable a function literal is assigned to (exactly once), or nil.
func c04LitVar(pkg *packages.Package, fd *ast.FuncDecl, lit *ast.FuncLit) *types.Var {
	var v *types.Var
	ast.Inspect(fd.Body, func(n ast.Node) bool {
		as, ok := n.(*ast.AssignStmt)
		if !ok || len(as.Lhs) != len(as.Rhs) {
			return true
		}
		for i, r := range as.Rhs {
			if ast.Unparen(r) == ast.Expr(lit) {
				if id, ok := as.Lhs[i].(*ast.Ident); ok {
					v, _ = c04ObjOf(pkg.TypesInfo, id).(*types.Var)
				}
			}
		}
		return true
	})
	if v == nil {
		return nil
	}
	n := 0
	ast.Inspect(fd.Body, func(x ast.Node) bool {
		if as, ok := x.(*ast.AssignStmt); ok {
			for _, l := range as.Lhs {
				if id, ok := l.(*ast.Ident); ok && c04ObjOf(pkg.TypesInfo, id) == types.Object(v) {
					n++
				}
			}
		}
		return true
	})
	if n != 1 {
		return nil
	}
	return v
}

// c04NilGuardSite judges one site. It returns isWrapper=true (and, per result index, the nil-fact
// keys of the returned variables) when the enclosing function returns the chosen server to its
// callers instead of using it.
func c04NilGuardSite(c *core.Ctx, info *c04Info, s c04Site, cons string) (escapes map[int][]string, isWrapper bool) {
	f := flow.NewFunc(s.pkg, s.fd)
	if s.lit != nil {
		f = f.Lit(s.lit)
	}
	pm := parentMap(s.fd.Body)
	var v types.Object
	var vid *ast.Ident
	var top ast.Node = s.call
	p0 := pm[top]
	for {
		if pe, ok := p0.(*ast.ParenExpr); ok {
			top, p0 = pe, pm[pe]
			continue
		}
		break
	}
	switch p := p0.(type) {
	case *ast.AssignStmt:
		if len(p.Rhs) == 1 && s.k < len(p.Lhs) {
			if id, ok := p.Lhs[s.k].(*ast.Ident); ok && id.Name != "_" {
				vid, v = id, c04ObjOf(f.Info, id)
			} else if ok {
				c.Discharge("R-C04-1", cons, pos(c, s.call), "result discarded")
				return nil, false
			}
		}
	case *ast.ValueSpec:
		if len(p.Values) == 1 && s.k < len(p.Names) {
			vid, v = p.Names[s.k], c04ObjOf(f.Info, p.Names[s.k])
		}
	case *ast.ExprStmt:
		c.Discharge("R-C04-1", cons, pos(c, s.call), "result discarded")
		return nil, false
	case *ast.ReturnStmt:
		// `return lb.ChooseServer(req)` / `return sp.pick(req)`: a pure wrapper
		if s.wrapper == nil {
			for i, r := range p.Results {
				if ast.Unparen(r) == ast.Expr(s.call) {
					return map[int][]string{i: nil}, true
				}
			}
		}
		if s.lit == nil && s.wrapper != nil && len(p.Results) == 1 {
			// return of a multi-value wrapper call: same result positions
			return map[int][]string{s.k: s.alias}, true
		}
		c.Undecide("R-C04-1", cons, pos(c, s.call), "the chosen server is returned to the caller in a form the rule cannot follow")
		return nil, false
	case *ast.BinaryExpr:
		// compared in place (e.g. `lb.ChooseServer(r) == nil`): no use of the value
		if (p.Op == token.EQL || p.Op == token.NEQ) && (f.Info.Types[p.X].IsNil() || f.Info.Types[p.Y].IsNil()) {
			c.Discharge("R-C04-1", cons, pos(c, s.call), "result only compared with nil")
			return nil, false
		}
	}
	if v == nil {
		c.Violate("R-C04-1", cons, pos(c, s.call), "the result of ChooseServer is used in place without a nil test: for an empty server list the balancer returns nil and the proxy dereferences it (panic) instead of answering 503")
		return nil, false
	}
	nilKey := f.NilKey(vid)
	// facts about the wrapper's returned variable speak about v as long as v is assigned once
	keys := []string{nilKey}
	if len(s.alias) > 0 {
		n := 0
		ast.Inspect(f.Body, func(x ast.Node) bool {
			switch t := x.(type) {
			case *ast.AssignStmt:
				for _, l := range t.Lhs {
					if id, ok := l.(*ast.Ident); ok && c04ObjOf(f.Info, id) == v {
						n++
					}
				}
			case *ast.UnaryExpr:
				if id, ok := ast.Unparen(t.X).(*ast.Ident); ok && t.Op == token.AND && c04ObjOf(f.Info, id) == v {
					n += 2
				}
			}
			return true
		})
		if n == 1 {
			keys = append(keys, s.alias...)
		}
	}
	nonNil := func(st *flow.State) bool {
		for _, k := range keys {
			if st.Is(k, flow.False) {
				return true
			}
		}
		return false
	}
	isNil := func(st *flow.State) bool {
		for _, k := range keys {
			if st.Is(k, flow.True) {
				return true
			}
		}
		return false
	}
	// bare returns of v hand the server on to the callers
	returned := map[int]bool{}
	isReturned := func(id *ast.Ident) bool {
		var ch ast.Node = id
		p := pm[ch]
		for {
			if pe, ok := p.(*ast.ParenExpr); ok {
				ch, p = pe, pm[pe]
				continue
			}
			break
		}
		rs, ok := p.(*ast.ReturnStmt)
		if !ok {
			return false
		}
		for i, r := range rs.Results {
			if ast.Node(r) == ch {
				returned[i] = true
			}
		}
		return true
	}

	isNilCmp := func(id *ast.Ident) bool {
		var ch ast.Node = id
		p := pm[ch]
		for {
			if pe, ok := p.(*ast.ParenExpr); ok {
				ch, p = pe, pm[pe]
				continue
			}
			break
		}
		b, ok := p.(*ast.BinaryExpr)
		if !ok || (b.Op != token.EQL && b.Op != token.NEQ) {
			return false
		}
		other := b.Y
		if b.Y == ch {
			other = b.X
		}
		return f.Info.Types[other].IsNil()
	}
	// short-circuit guard inside one expression: `v != nil && use(v)`, `v == nil || use(v)`
	var flatten func(e ast.Expr, op token.Token, out *[]ast.Expr)
	flatten = func(e ast.Expr, op token.Token, out *[]ast.Expr) {
		e = ast.Unparen(e)
		if b, ok := e.(*ast.BinaryExpr); ok && b.Op == op {
			flatten(b.X, op, out)
			flatten(b.Y, op, out)
			return
		}
		*out = append(*out, e)
	}
	hasTest := func(e ast.Expr, op token.Token, cmp token.Token) bool {
		var parts []ast.Expr
		flatten(e, op, &parts)
		for _, p := range parts {
			if b, ok := p.(*ast.BinaryExpr); ok && b.Op == cmp {
				for _, side := range [][2]ast.Expr{{b.X, b.Y}, {b.Y, b.X}} {
					if id, ok := ast.Unparen(side[0]).(*ast.Ident); ok && c04ObjOf(f.Info, id) == v && f.Info.Types[side[1]].IsNil() {
						return true
					}
				}
			}
		}
		return false
	}
	shortGuarded := func(id *ast.Ident, top ast.Node) bool {
		for ch, p := ast.Node(id), pm[id]; p != nil && ch != top; ch, p = p, pm[p] {
			if b, ok := p.(*ast.BinaryExpr); ok && b.Y == ch {
				if b.Op == token.LAND && hasTest(b.X, token.LAND, token.NEQ) {
					return true
				}
				if b.Op == token.LOR && hasTest(b.X, token.LOR, token.EQL) {
					return true
				}
			}
		}
		return false
	}
	readOnlyArg := func(id *ast.Ident, top ast.Node) bool {
		for ch, p := ast.Node(id), pm[id]; p != nil && ch != top; ch, p = p, pm[p] {
			if call, ok := p.(*ast.CallExpr); ok && call.Fun != ch {
				return c04ReadOnlyCallee(f.Callee(call))
			}
			if _, ok := p.(*ast.ParenExpr); !ok {
				return false
			}
		}
		return false
	}
	// `if noServer(svr)` with `func noServer(s *Server) bool { return s == nil }`: the argument of a
	// same-package predicate that only compares its parameter with nil is not a use; the predicate is
	// interpreted in place so that its verdict is understood
	nilPredicates := map[*types.Func]bool{}
	isNilPredicateArg := func(id *ast.Ident) bool {
		call, ok := pm[id].(*ast.CallExpr)
		if !ok {
			return false
		}
		fo, _ := f.Callee(call).(*types.Func)
		if fo == nil || fo.Pkg() != f.Pkg.Types {
			return false
		}
		hd := declOf(f.Pkg, fo)
		sig := fo.Type().(*types.Signature)
		if hd == nil || sig.Results().Len() != 1 || !types.Identical(sig.Results().At(0).Type(), types.Typ[types.Bool]) {
			return false
		}
		idx := -1
		for i, a := range call.Args {
			if a == ast.Expr(id) {
				idx = i
			}
		}
		if idx < 0 || idx >= sig.Params().Len() {
			return false
		}
		param := sig.Params().At(idx)
		onlyNilTests := true
		hpm := parentMap(hd.Body)
		ast.Inspect(hd.Body, func(n ast.Node) bool {
			x, ok := n.(*ast.Ident)
			if !ok || f.Info.Uses[x] != types.Object(param) {
				return true
			}
			b, isBin := hpm[x].(*ast.BinaryExpr)
			if !isBin || (b.Op != token.EQL && b.Op != token.NEQ) || !(f.Info.Types[b.X].IsNil() || f.Info.Types[b.Y].IsNil()) {
				onlyNilTests = false
			}
			return true
		})
		if onlyNilTests {
			nilPredicates[fo] = true
		}
		return onlyNilTests
	}
	// uses of v inside node top that need v != nil (an assignment *to* v is not a use)
	var collect func(n, top ast.Node, out *[]*ast.Ident)
	collect = func(n, top ast.Node, out *[]*ast.Ident) {
		ast.Inspect(n, func(x ast.Node) bool {
			if as, ok := x.(*ast.AssignStmt); ok {
				for _, r := range as.Rhs {
					collect(r, top, out)
				}
				for _, l := range as.Lhs {
					if _, isID := ast.Unparen(l).(*ast.Ident); !isID {
						collect(l, top, out)
					}
				}
				return false
			}
			if id, ok := x.(*ast.Ident); ok && f.Info.Uses[id] == v && !isNilCmp(id) && !shortGuarded(id, top) && !readOnlyArg(id, top) && !isReturned(id) && !isNilPredicateArg(id) {
				*out = append(*out, id)
			}
			return true
		})
	}
	usesIn := func(n ast.Node) []*ast.Ident {
		var out []*ast.Ident
		collect(n, n, &out)
		return out
	}

	type badUse struct {
		id *ast.Ident
		st *flow.State
	}
	var bad *badUse
	uses := 0
	sends := 0
	// interpret in place: the wrapper (so that `svr, ok := sp.pick(req); if !ok {…}` is understood)
	// and nil predicates applied to the server
	ast.Inspect(f.Body, func(n ast.Node) bool {
		if id, ok := n.(*ast.Ident); ok && f.Info.Uses[id] == v {
			isNilPredicateArg(id)
		}
		return true
	})
	all := inlineSamePkg(f)
	inline := func(call *ast.CallExpr, callee *types.Func) *flow.Func {
		if callee != s.wrapper && !nilPredicates[callee] {
			return nil
		}
		if callee == nil {
			return nil
		}
		return all(call, callee)
	}
	res := analyze(c, f, flow.Config{
		Inline: inline,
		OnNode: func(st *flow.State, n ast.Node) {
			if !contains(f.Body, n) {
				return // a node of the inlined wrapper
			}
			for _, id := range usesIn(n) {
				uses++
				if !nonNil(st) && bad == nil {
					bad = &badUse{id, st}
				}
			}
		},
		OnCall: func(st *flow.State, call *ast.CallExpr, callee types.Object, deferred bool) {
			send := false
			switch o := callee.(type) {
			case *types.Var:
				// a package-level function variable taking an *http.Client (fnSendRequest)
				if sig, ok := o.Type().Underlying().(*types.Signature); ok && o.Pkg() != nil && o.Parent() == o.Pkg().Scope() {
					for i := 0; i < sig.Params().Len(); i++ {
						if sig.Params().At(i).Type().String() == "*net/http.Client" {
							send = true
						}
					}
				}
			case *types.Func:
				switch o.FullName() {
				case "(*net/http.Client).Do", "(*net/http.Transport).RoundTrip", "(net/http.RoundTripper).RoundTrip":
					send = true
				}
			}
			if send {
				sends++
				st.Set("ev:sent", flow.True)
			}
		},
	})
	if res == nil {
		return nil, false
	}
	c.Count("R-C04-1:uses of the chosen server checked", uses)
	c.Count("R-C04-1:send calls seen", sends)
	if bad != nil {
		why := "the chosen server is used here in a state where it is not known to be non-nil"
		if isNil(bad.st) {
			why = "the chosen server is used here on the path where it is known to be nil"
		}
		c.Violate("R-C04-1", cons, pos(c, bad.id), why+": with an empty server list ChooseServer returns nil and the proxy panics (or sends to a nil target) instead of failing the request with 503", witness(bad.st)...)
		return nil, false
	}
	// exits with the result known nil
	wantErr := false
	if f.Type.Results != nil && len(f.Type.Results.List) > 0 {
		last := f.Type.Results.List[len(f.Type.Results.List)-1]
		if tv, ok := f.Info.Types[last.Type]; ok && c04IsError(tv.Type) {
			wantErr = true
		}
	}
	nilExits := 0
	codes := map[string]bool{}
	for _, ex := range res.Exits {
		if !isNil(ex.State) {
			continue
		}
		nilExits++
		if ex.State.Is("ev:sent", flow.True) {
			c.Violate("R-C04-1", cons, pos(c, ex.At), "a request is sent although no server was chosen (ChooseServer returned nil)", witness(ex.State)...)
			return nil, false
		}
		if ex.Kind != flow.ExitReturn || !wantErr {
			continue
		}
		if ex.Return == nil || len(ex.Return.Results) == 0 {
			c.Undecide("R-C04-1", cons, pos(c, ex.At), "bare return on the nil edge: cannot read the returned error")
			return nil, false
		}
		r := ast.Unparen(ex.Return.Results[len(ex.Return.Results)-1])
		tv := f.Info.Types[r]
		switch {
		case tv.IsNil():
			c.Violate("R-C04-1", cons, pos(c, ex.Return), "with no server available (ChooseServer returned nil) the function returns a nil error: the request is reported as handled although nothing was sent and no 503 is built", witness(ex.State)...)
			return nil, false
		case tv.Type != nil && !types.IsInterface(tv.Type):
			if _, isPtr := tv.Type.Underlying().(*types.Pointer); isPtr && !ex.State.Is(f.NilKey(r), flow.False) {
				if _, isAddr := r.(*ast.UnaryExpr); !isAddr {
					c.Undecide("R-C04-1", cons, pos(c, ex.Return), "cannot decide that the error returned on the nil edge is non-nil")
					return nil, false
				}
			}
			if cl, ok := r.(*ast.CompositeLit); ok && len(cl.Elts) > 0 {
				e0 := cl.Elts[0]
				if kv, ok := e0.(*ast.KeyValueExpr); ok {
					e0 = kv.Value
				}
				if v, ok := f.Info.Types[e0]; ok && v.Value != nil {
					codes[v.Value.ExactString()] = true
				}
			}
		default:
			if !ex.State.Is(f.NilKey(r), flow.False) {
				c.Undecide("R-C04-1", cons, pos(c, ex.Return), "cannot decide that the error returned on the nil edge is non-nil")
				return nil, false
			}
		}
	}
	detail := sprintf("%d uses of the result all reached with it known non-nil; %d exits with it nil, none after a send", uses, nilExits)
	if wantErr {
		detail += sprintf(", all returning a non-nil error (status %s)", strings.Join(sortedKeys(codes), ","))
	}
	if len(returned) > 0 {
		escapes = map[int][]string{}
		for i := range returned {
			escapes[i] = keys
		}
		if uses > 0 {
			c.Discharge("R-C04-1", cons, pos(c, s.call), detail+"; the server is also returned to the callers (judged there)")
		}
		return escapes, true
	}
	c.Discharge("R-C04-1", cons, pos(c, s.call), detail)
	return nil, false
}

// ----------------------------------------------------------------------------------------
// R-C04-2 (path-sensitive half): nil only for an empty list, index only into a non-empty list

func c04Choose(c *core.Ctx, info *c04Info) {
	for _, im := range info.impls {
		f := flow.NewFunc(im.pkg, im.decl)
		c.Count("functions_analysed", 1)
		q := c04NewFacts(f, im.list).withRecvList(im.decl)
		var sites []ast.Node
		ast.Inspect(f.Body, func(n ast.Node) bool {
			if _, ok := n.(*ast.FuncLit); ok {
				return false
			}
			if ix, ok := n.(*ast.IndexExpr); ok && q.isList(ix.X) {
				sites = append(sites, ix)
			}
			return true
		})
		recvK := ""
		if im.decl.Recv != nil && len(im.decl.Recv.List) == 1 && len(im.decl.Recv.List[0].Names) == 1 {
			recvK = f.Render(im.decl.Recv.List[0].Names[0])
		}
		listK := "§list(" + recvK + ")"
		lenList := "len(" + listK + ")"
		pm := parentMap(f.Body)
		// index sites
		okIdx := true
		nStates := 0
		res := c04VisitSites(c, f, sites, flow.Config{NoHavoc: true, Inline: inlineSamePkg(f)}, func(s, top ast.Node, st *flow.State) {
			nStates++
			if !okIdx {
				return
			}
			ix := s.(*ast.IndexExpr)
			if q.positiveK(st, "len("+q.canon(ix.X, 0)+")") {
				return
			}
			okIdx = false
			if c04Conditional(pm, top, s) {
				c.Undecide("R-C04-2", im.cons+"|list indexed only when non-empty", pos(c, s), "index sits in a short-circuit operand; cannot evaluate its guard")
				return
			}
			c.Violate("R-C04-2", im.cons+"|list indexed only when non-empty", pos(c, s),
				"the server list is indexed in a state where it is not known to be non-empty: with an empty list (no static servers and no qualifying instance) the selection panics (index out of range) instead of returning nil", witness(st)...)
		})
		if res == nil {
			continue
		}
		if okIdx {
			c.Discharge("R-C04-2", im.cons+"|list indexed only when non-empty", pos(c, im.decl), sprintf("%d index sites, %d states, all with len(list) known positive", len(sites), nStates))
		}
		// nil returns
		nilRet, elemRet, panics := 0, 0, 0
		okNil := true
		for _, ex := range res.Exits {
			if ex.Kind == flow.ExitPanic {
				panics++
				continue
			}
			var r ast.Expr
			if in := ex.Ret(); in != nil && in != ex.Return && len(in.Results) == 1 {
				// `return lb.chooseByHash(key)`: the value comes from the helper's own return
				r = ast.Unparen(in.Results[0])
			} else if ex.Return != nil && len(ex.Return.Results) == 1 {
				r = ast.Unparen(ex.Return.Results[0])
			} else if id := c04NamedResult(im.decl); id != nil && (ex.Return == nil || len(ex.Return.Results) == 0) {
				r = id // bare return: the named result
			}
			if r == nil {
				c.Undecide("R-C04-2", im.cons+"|nil only for an empty list", pos(c, ex.At), "bare return without a named result: cannot read the returned server")
				okNil = false
				break
			}
			isNilRet := f.Info.Types[r].IsNil()
			if id, isID := r.(*ast.Ident); isID && !isNilRet {
				// a variable (named result, local): nil exactly where the engine knows it to be nil
				// (zero value never assigned, or assigned nil)
				if _, isVar := c04ObjOf(f.Info, id).(*types.Var); isVar && ex.State.Is(f.NilKey(id), flow.True) {
					isNilRet = true
				}
			}
			if !isNilRet {
				elemRet++
				continue
			}
			nilRet++
			if !q.zeroK(ex.State, lenList) {
				okNil = false
				c.Violate("R-C04-2", im.cons+"|nil only for an empty list", pos(c, ex.Return),
					"nil is returned in a state where the server list is not known to be empty: a request is failed with 503 'no available server' although the pool has servers", witness(ex.State)...)
				break
			}
		}
		c.Count("R-C04-2:explicit panic exits (not decided)", panics)
		if okNil {
			c.Discharge("R-C04-2", im.cons+"|nil only for an empty list", pos(c, im.decl), sprintf("%d exits return nil, all with len(list) known zero; %d exits return a server", nilRet, elemRet))
		}
	}
}

// ----------------------------------------------------------------------------------------
// R-C04-6

type c04Bound struct {
	site  ast.Node // the call / binary expression / assignment
	bound ast.Expr
	role  string
}

func c04RandBound(f *flow.Func, call *ast.CallExpr) bool {
	fo, ok := f.Callee(call).(*types.Func)
	if !ok || fo.Pkg() == nil || len(call.Args) != 1 {
		return false
	}
	switch fo.Pkg().Path() {
	case "math/rand":
		switch fo.Name() {
		case "Intn", "Int31n", "Int63n", "Perm":
			return fo.Name() != "Perm"
		}
	case "math/rand/v2":
		switch fo.Name() {
		case "IntN", "Int32N", "Int64N", "UintN", "Uint32N", "Uint64N", "N":
			return true
		}
	}
	return false
}

func c04IsInt(f *flow.Func, e ast.Expr) bool {
	tv, ok := f.Info.Types[e]
	if !ok || tv.Type == nil {
		return false
	}
	b, ok := tv.Type.Underlying().(*types.Basic)
	return ok && b.Info()&types.IsInteger != 0
}

func c04Bounds(c *core.Ctx, info *c04Info) {
	pkg := c.Prog.Pkg(c04pkg)
	if pkg == nil {
		c.Errorf("anchor: package %s not loaded", c04pkg)
		return
	}
	randSites, divSites, constDiv := 0, 0, 0
	for _, file := range pkg.Syntax {
		for _, d := range file.Decls {
			fd, ok := d.(*ast.FuncDecl)
			if !ok || fd.Body == nil {
				continue
			}
			base := flow.NewFunc(pkg, fd)
			// the declaration and every function literal inside it are analysed separately
			units := []*flow.Func{base}
			ast.Inspect(fd.Body, func(n ast.Node) bool {
				if l, ok := n.(*ast.FuncLit); ok {
					units = append(units, base.Lit(l))
				}
				return true
			})
			for ui, f := range units {
				var bounds []c04Bound
				ast.Inspect(f.Body, func(n ast.Node) bool {
					switch x := n.(type) {
					case *ast.FuncLit:
						return false
					case *ast.CallExpr:
						if c04RandBound(f, x) {
							fo := f.Callee(x).(*types.Func)
							bounds = append(bounds, c04Bound{x, x.Args[0], fo.Pkg().Path() + "." + fo.Name() + " bound"})
						}
					case *ast.BinaryExpr:
						if (x.Op == token.REM || x.Op == token.QUO) && c04IsInt(f, x) {
							if tv := f.Info.Types[x.Y]; tv.Value != nil {
								constDiv++
							} else {
								bounds = append(bounds, c04Bound{x, x.Y, "divisor of " + x.Op.String()})
							}
						}
					case *ast.AssignStmt:
						if (x.Tok == token.REM_ASSIGN || x.Tok == token.QUO_ASSIGN) && len(x.Rhs) == 1 && c04IsInt(f, x.Lhs[0]) {
							if tv := f.Info.Types[x.Rhs[0]]; tv.Value != nil {
								constDiv++
							} else {
								bounds = append(bounds, c04Bound{x, x.Rhs[0], "divisor of " + x.Tok.String()})
							}
						}
					}
					return true
				})
				if len(bounds) == 0 {
					continue
				}
				c.Count("functions_analysed", 1)
				list := c04CommonList(info)
				if im := info.byMethod[c04FuncObj(pkg, fd)]; im != nil {
					list = im.list
				}
				q := c04NewFacts(f, list)
				if ui == 0 {
					q.withRecvList(fd)
				}
				var sites []ast.Node
				for _, b := range bounds {
					sites = append(sites, b.site)
				}
				pm := parentMap(f.Body)
				type acc struct {
					n       int
					bad     *flow.State
					condBad bool
				}
				accs := map[ast.Node]*acc{}
				byNode := map[ast.Node]c04Bound{}
				for _, b := range bounds {
					accs[b.site] = &acc{}
					byNode[b.site] = b
				}
				res := c04VisitSites(c, f, sites, flow.Config{NoHavoc: true, Inline: inlineSamePkg(f)}, func(s, top ast.Node, st *flow.State) {
					a := accs[s]
					a.n++
					if a.bad == nil && !q.positive(st, byNode[s].bound) {
						a.bad = st
						a.condBad = c04Conditional(pm, top, s)
					}
				})
				if res == nil {
					continue
				}
				name := declName(pkg, fd)
				if ui > 0 {
					name += sprintf("$lit%d", ui)
				}
				ord := map[string]int{}
				for _, b := range bounds {
					ord[b.role]++
					cons := sprintf("%s|%s #%d", name, b.role, ord[b.role])
					if strings.Contains(b.role, "bound") {
						randSites++
					} else {
						divSites++
					}
					a := accs[b.site]
					if a.n == 0 {
						c.Discharge("R-C04-6", cons, pos(c, b.site), "unreachable")
						continue
					}
					if a.bad == nil {
						c.Discharge("R-C04-6", cons, pos(c, b.site), sprintf("%d states, %s known positive in all", a.n, types.ExprString(b.bound)))
						continue
					}
					if a.condBad {
						c.Undecide("R-C04-6", cons, pos(c, b.site), "site is in a short-circuit operand; cannot evaluate its guard")
						continue
					}
					// the bound is a parameter of an unexported function: decide at its call sites
					if ui == 0 {
						if idx, lenOf := c04ParamIndex(f, fd, q, b.bound); (idx >= 0 || idx == c04RecvArg) && !fd.Name.IsExported() {
							n, badCall, badSt := c04ArgPositiveAtCalls(c, info, pkg, c04FuncObj(pkg, fd), idx, lenOf)
							if n > 0 && badCall == nil {
								c.Discharge("R-C04-6", cons, pos(c, b.site), sprintf("%s is a parameter of %s; the argument is known positive at all %d call sites", types.ExprString(b.bound), fd.Name.Name, n))
								continue
							}
							if badCall != nil {
								c.Violate("R-C04-6", cons, pos(c, badCall),
									sprintf("%s depends on a parameter of %s and the argument `%s` passed here is not known to be positive / non-empty: %s", types.ExprString(b.bound), fd.Name.Name, c04ArgString(badCall, idx), map[bool]string{true: "rand.Intn panics for an argument <= 0", false: "integer division by zero"}[strings.Contains(b.role, "bound")]), witness(badSt)...)
								continue
							}
						}
					}
					what := "integer division by zero"
					if strings.Contains(b.role, "bound") {
						what = "rand.Intn panics for an argument <= 0"
					}
					extra := ""
					if im := info.byMethod[c04FuncObj(pkg, fd)]; im != nil {
						extra = sprintf(" (policy %s)", c04PolicyNames(im))
						for _, p := range im.policies {
							if p == "weightedRandom" {
								extra += ": ServerPoolSpec.Validate accepts pools whose weights are all zero (the default) and discovery supplies unvalidated weights, so every request to such a pool panics in the balancer"
							}
						}
					}
					c.Violate("R-C04-6", cons, pos(c, b.site),
						sprintf("%s is not known to be positive on this path: %s%s", types.ExprString(b.bound), what, extra), witness(a.bad)...)
				}
			}
		}
	}
	c.Count("R-C04-6:constant divisors skipped", constDiv)
	c.Count("R-C04-6:rand.Intn-style bounds", randSites)
	c.Count("R-C04-6:non-constant integer divisors", divSites)
	c.RequireCount("R-C04-6", "random bounds + non-constant divisors in pkg/filters/proxy", randSites+divSites, 4)
}

// c04ParamIndex: e (through conversions and stable aliases) is a parameter of fd that is never
// assigned; returns its position in the call's argument list, or -1.
func c04ParamIndex(f *flow.Func, fd *ast.FuncDecl, q *c04Facts, e ast.Expr) (index int, lenOf bool) {
	r := q.resolve(e)
	// len(p) with p a slice parameter
	if call, ok := r.(*ast.CallExpr); ok && len(call.Args) == 1 {
		if b, isB := f.Callee(call).(*types.Builtin); isB && b.Name() == "len" {
			r, lenOf = q.resolve(call.Args[0]), true
		}
	}
	i := c04ParamIndexOf(f, fd, q, r)
	// len(<receiver>.<list>) in a method (e.g. of the embedded base): decided at the call sites
	// for the object the method is called on
	if i < 0 && lenOf && fd.Recv != nil && len(fd.Recv.List) == 1 && len(fd.Recv.List[0].Names) == 1 {
		if q.canon(r, 0) == "§list("+f.Render(fd.Recv.List[0].Names[0])+")" {
			return c04RecvArg, true
		}
	}
	return i, lenOf
}

func c04ArgString(call *ast.CallExpr, idx int) string {
	if idx == c04RecvArg {
		if sel, ok := ast.Unparen(call.Fun).(*ast.SelectorExpr); ok {
			return types.ExprString(sel.X)
		}
		return "receiver"
	}
	return types.ExprString(call.Args[idx])
}

// c04RecvArg stands for "the receiver" in the argument position of c04ArgPositiveAtCalls.
const c04RecvArg = -2

// c04CommonList returns the list field shared by all implementations (nil if they differ).
func c04CommonList(info *c04Info) *types.Var {
	var l *types.Var
	for _, im := range info.impls {
		if l != nil && im.list != l {
			return nil
		}
		l = im.list
	}
	return l
}

func c04ParamIndexOf(f *flow.Func, fd *ast.FuncDecl, q *c04Facts, r ast.Expr) int {
	id, ok := r.(*ast.Ident)
	if !ok {
		return -1
	}
	o := c04ObjOf(f.Info, id)
	if o == nil || q.unsafe[o] {
		return -1
	}
	if _, assigned := q.defs[o]; assigned {
		return -1
	}
	i := 0
	for _, fld := range fd.Type.Params.List {
		if len(fld.Names) == 0 {
			i++
			continue
		}
		for _, n := range fld.Names {
			if f.Info.Defs[n] == o {
				return i
			}
			i++
		}
	}
	return -1
}

// c04ArgPositiveAtCalls checks argument idx at every call of fo in its package.
func c04ArgPositiveAtCalls(c *core.Ctx, info *c04Info, pkg *packages.Package, fo *types.Func, idx int, lenOf bool) (n int, badCall *ast.CallExpr, badSt *flow.State) {
	if fo == nil {
		return 0, nil, nil
	}
	for _, file := range pkg.Syntax {
		for _, d := range file.Decls {
			gd, ok := d.(*ast.FuncDecl)
			if !ok || gd.Body == nil {
				continue
			}
			g := flow.NewFunc(pkg, gd)
			var sites []ast.Node
			for _, call := range calls(gd.Body, true) {
				if g.Callee(call) == types.Object(fo) && idx < len(call.Args) {
					sites = append(sites, call)
				}
			}
			if len(sites) == 0 {
				continue
			}
			list := c04CommonList(info)
			if im := info.byMethod[c04FuncObj(pkg, gd)]; im != nil {
				list = im.list
			}
			q := c04NewFacts(g, list).withRecvList(gd)
			visited := map[ast.Node]int{}
			res := c04VisitSites(c, g, sites, flow.Config{NoHavoc: true, Inline: inlineSamePkg(g, fo)}, func(s, top ast.Node, st *flow.State) {
				visited[s]++
				call := s.(*ast.CallExpr)
				ok := false
				if idx == c04RecvArg {
					if sel, isSel := ast.Unparen(call.Fun).(*ast.SelectorExpr); isSel {
						ok = q.positiveK(st, "len(§list("+q.canonRoot(sel.X, 0)+"))")
					}
				} else if lenOf {
					ok = q.positiveK(st, "len("+q.canon(call.Args[idx], 0)+")")
				} else {
					ok = q.positive(st, call.Args[idx])
				}
				if badCall == nil && !ok {
					badCall, badSt = call, st
				}
			})
			if res == nil {
				return 0, nil, nil
			}
			for _, s := range sites {
				n++
				if visited[s] == 0 && badCall == nil {
					// inside a function literal or unreachable: not judged here
					badCall = s.(*ast.CallExpr)
				}
			}
		}
	}
	return n, badCall, badSt
}

func c04PolicyNames(im *c04Impl) string {
	var out []string
	for _, p := range im.policies {
		if p == "" {
			p = "<default>"
		}
		out = append(out, p)
	}
	return strings.Join(out, "/")
}

func c04FuncObj(pkg *packages.Package, fd *ast.FuncDecl) *types.Func {
	fo, _ := pkg.TypesInfo.Defs[fd.Name].(*types.Func)
	return fo
}

// ----------------------------------------------------------------------------------------
// R-C04-3 (publish before use): NewServerPool stores a balancer on every path

func c04Published(c *core.Ctx, info *c04Info) {
	holder := c04Holder(c)
	if holder == nil {
		c.Errorf("anchor: ServerPool does not hold exactly one sync/atomic.Value (the published balancer), directly or in a slot struct of its own")
		return
	}
	pkg := c.Prog.Pkg(c04pkg)
	memo := map[*types.Func]int{} // 0 unknown, 1 in progress, 2 always publishes, 3 not
	var always func(fo *types.Func, report bool) bool
	always = func(fo *types.Func, report bool) bool {
		if !report {
			switch memo[fo] {
			case 1, 3:
				return false
			case 2:
				return true
			}
		}
		memo[fo] = 1
		p, fd := c04DeclOf(c, fo)
		if fd == nil || p != pkg {
			memo[fo] = 3
			return false
		}
		f := flow.NewFunc(p, fd)
		c.Count("functions_analysed", 1)
		res := analyze(c, f, flow.Config{
			OnCall: func(s *flow.State, call *ast.CallExpr, callee types.Object, deferred bool) {
				co, ok := callee.(*types.Func)
				if !ok || co.Pkg() == nil {
					return
				}
				if co.Pkg().Path() == "sync/atomic" && (co.Name() == "Store" || co.Name() == "Swap") {
					if sel, ok := ast.Unparen(call.Fun).(*ast.SelectorExpr); ok {
						if inner, ok := ast.Unparen(sel.X).(*ast.SelectorExpr); ok {
							if sl := f.Info.Selections[inner]; sl != nil && sl.Obj() == holder {
								s.Set("ev:published", flow.True)
							}
						}
					}
					return
				}
				if co.Pkg() == pkg.Types && co != fo && always(co, false) {
					s.Set("ev:published", flow.True)
				}
			},
		})
		if res == nil {
			memo[fo] = 3
			return false
		}
		var bad *flow.Exit
		for _, ex := range res.Exits {
			if ex.Kind == flow.ExitReturn && !ex.State.Is("ev:published", flow.True) {
				bad = ex
			}
		}
		if report {
			cons := declName(p, fd) + "|balancer published on every path"
			if bad != nil {
				c.Violate("R-C04-3", cons, pos(c, bad.At), "the constructor can return a ServerPool whose atomic.Value was never stored: the first request panics in LoadBalancer() (nil interface conversion)", witness(bad.State)...)
			} else {
				c.Discharge("R-C04-3", cons, pos(c, fd), sprintf("%d exits, all after an atomic Store of the balancer (directly or through same-package callees that always store)", len(res.Exits)))
			}
		}
		if bad != nil {
			memo[fo] = 3
			return false
		}
		memo[fo] = 2
		return true
	}
	_, nfd := c.Prog.FuncDecl(c04pkg, "", "NewServerPool")
	if nfd == nil {
		c.Errorf("anchor: function %s.NewServerPool not found", c04pkg)
		return
	}
	always(c04FuncObj(pkg, nfd), true)
}
