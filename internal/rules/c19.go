package rules

// C19 — Syncer snapshots are real store states and converge to the final state.
//
// Anchors resolved by declared name: package pkg/cluster, type syncer, method run. Everything
// else is resolved by role starting from run: the delivery callback is run's func-typed
// parameter; a "unit" is a closure of run that calls it; the pull is the call in the unit that
// returns (snapshot map, error); "last" is the snapshot-typed variable of run that outlives the
// unit; the comparison is the bool call over (last, new) and its callee is analysed for
// R-C19-4; the store reads are the (transitive) calls of clientv3.KV methods below the pull;
// the adapters are the syncer methods that call run.
//
// Robustness (c19_units.go): the delivery callback is followed into struct fields and helper
// parameters; a unit is whatever run's body invokes (closure or declared function/method) below
// which the callback is called; the pull is searched breadth-first in the unit's helpers; the unit
// is interpreted with same-package helpers inlined and the "holds the new / the previous
// snapshot" status of variables and fields is carried through parameter binding and returns.
// Silent on /verif/preserving/C19/r1..r4 (renames, if-chains, pull+compare extracted into a
// method, key-only range loops, named results, state bundled in a struct with a method, functions
// moved to another file), detection re-checked on top of r2 and r4.
//
// Second robustness set (/verif/preserving/C19/r5..r8, all silent): adapter conversion code in
// same-package converters (valueOf / valuesOf / copyData: the copy and nil checks are made inside
// the converter), options of a read in a helper of the read, the comparison's loop split in two,
// the done channel hoisted into a local, (key, prefix) as a parameter object, run split into setup
// and a loop function that receives the closure as a parameter, adapters that start run through a
// launcher method with a struct literal. Detection re-checked on top of r6, r7 and r8.
//
// Fourth seeded round: (h) getClient+Get extracted into a helper whose inner `err` shadows the named
// result → R-C19-2 "a failed store request is reported as an error" (every exit on which a request
// site's error variable is non-nil returns a non-nil error; also GetRaw/GetRawPrefix/pull returning
// nil for a failed read); (g) run split into run + runWatcher with the last snapshot inside
// runWatcher → R-C19-1 "last snapshot outlives the whole sync loop" (declared / built once per run,
// threaded through helper parameters and back, never reset outside the pull-compare-send code);
// the same split with the snapshot kept in run and handed through is silent. R-C19-3 "loop ends
// only on done" is now decided on run's return paths (last select case taken = done case), so a
// loop function that returns to have its watcher re-created and is entered again is not an end.
//
// Third robustness set (r9..r12 of C19 and C18, all silent): tagless switch in the watch arm,
// labelled break/continue with the loop as the last statement, ticker.C hoisted into a local, the
// prefix flag of pull replaced by two pull functions chosen by the caller (alternative pulls into
// the same variables are one pull; "prefix read iff flag" is then decided at the call sites with
// run's own flag), an unexported interface in front of the cluster (calls resolved to the single
// implementing type), result structs ({snapshot, error} from pull is followed; the watcher pair
// is not looked at), the done channel found in structs nested in the syncer.
//
// Fourth robustness set (C19/r13..r16, all silent): a stored value passed through a local of the
// copy loop; the comparison's per-key loop behind a callback iterator (`every(a, func(k, v) bool)`:
// the iterator's loop, the callback's result and the caller's use of the verdict are each checked);
// the prefix bool replaced by an enum-like integer with a predicate method (the comparison that
// separates prefix reads from single-key reads is learnt in pull — predicates on the enum are
// interpreted in place — and gives the adapters' constants their meaning); adapters in another file.
//
// Files: c19.go (helpers, R-C19-3), c19_units.go (run, units, R-C19-1), c19_timer.go (periodic source of R-C19-3), c19_reads.go (R-C19-2), c19_eq.go (R-C19-4),
// c19_adapters.go (R-C19-5).
//
// Tried on the scratch worktree (/tmp/vw/C19/mut/all.sh, bp.sh; diffs in /tmp/vw/C19/out):
//
// mutants (each compiles, each → exit 1 naming the construct):
//   m01 ticker case removed                         → R-C19-3 run|periodic pull
//   m02 send(newData) before the comparison         → R-C19-1 send only when differs; last updated with every delivery
//   m03 isKeyValueEqual compares Key only           → R-C19-4 isKeyValueEqual|true only with equal Value bytes
//   m04 `return` dropped after failed pull          → R-C19-1 send only after a successful pull
//   m05 `data = newData` dropped                    → R-C19-1 last is updated with every delivery
//   m06 `return` on cancelled watch                 → R-C19-3 loop ends only on done
//   m07 length check dropped in isDataEqual         → R-C19-4 equal only with equal lengths
//   m08 `if !exists { continue }`                   → R-C19-4 values compared for every key
//   m09 SyncPrefix runs with prefix=false           → R-C19-5 prefix flag matches the channel type
//   m10 SyncPrefix skips empty values               → R-C19-5 every key of the snapshot is copied
//   m11 pull: `if !prefix`                          → R-C19-2 prefix read iff prefix flag
//   m12 GetRawPrefix issues a second Get (paging)   → R-C19-2 single KV request (GetRawPrefix, pull)
//   m13 Sync callback with two independent ifs      → R-C19-5 exactly one send per snapshot
//   m14 `data = newData` before the comparison      → R-C19-1 send only when differs; a detected difference is delivered
//   m15 ticker case `continue`s when data is empty  → R-C19-3 periodic pull (path witness)
//   m16 initial pullCompareSend removed             → R-C19-3 initial pull before the loop
//   m17 `||` instead of `&&` in isKeyValueEqual     → R-C19-4 true only with equal Value bytes
//   m18 watch event assembled into a map and sent   → R-C19-1 direct delivery only after a successful pull
//   m19 comparison inverted                         → R-C19-1 send only when differs; a detected difference is delivered
//   m20 Sync sends nil for present-but-empty value  → R-C19-5 value sent is the entry under the key
//   m21 `return true` inside the per-key loop       → R-C19-4 equal only after all keys were compared
//   m22 WithPrefix dropped in GetRawPrefix          → R-C19-2 prefix read iff prefix flag
//   m23 SyncRaw looks up another key                → R-C19-5 looks up the adapter's key
//   m24 SyncRawPrefix breaks out of the copy loop   → R-C19-5 every key copied; send after the copy is complete
//   m25 GetRaw with clientv3.WithSerializable()     → R-C19-2 linearizable read
//   m26 adapter send made non-blocking (`select { case ch <- m: default: }`), m27 send with a
//       time.After alternative, m28 `if len(ch) < cap(ch) { ch <- m }`
//                                                   → R-C19-5 exactly one send per snapshot (a send that is a
//                                                     select communication counts only when its case is taken)
//   m29-m33 periodic source: time.Timer never reset / reset only under a condition / reset only
//       after a delivery / reset at the end of the closure but skipped by the failed-pull return;
//       `after := time.After(d)` outside the loop never re-assigned; ticker.Stop() inside the loop
//                                                   → R-C19-3 run|periodic source keeps firing
// behaviour-preserving edits (all exit 0):
//   b12-b17 Timer reset at the top of the timer case / by a defer in the closure / on both paths
//   of the closure; inline `case <-time.After(d)`; `after` variable re-assigned in its case;
//   `tick := time.Tick(d)`;
//   b10 `select { case ch <- m: case <-s.done: }` (snapshot abandoned only on Close); b11 select
//   with the send as its only case;
//   b01 locals renamed; b02 comparison extracted into a bool + early return + send before
//   `data = newData`; b03 `!(len(b)==len(a))`, value-only entry comparison with swapped
//   arguments, `isKeyValueEqual(data2[k1], kv1)` without the exists test; b04 `old := data;
//   data = newData; if !isDataEqual(data, old)`; b05 select cases reordered; b06 SyncRawPrefix
//   sends `data` without copying (run never writes into a snapshot map); b07 pull restructured
//   (`prefix == true`, success return first); b08 isKeyValueEqual as if-chain with string()
//   comparisons and bool locals; b09 Sync callback with early return instead of else.

import (
	"go/ast"
	"go/token"
	"go/types"

	"golang.org/x/tools/go/cfg"

	"verif/internal/core"
	"verif/internal/flow"
)

const c19pkg = "pkg/cluster"

func init() { Registry["C19"] = c19 }

// c19unit is one closure of run that delivers snapshots.
type c19unit struct {
	lit   *ast.FuncLit  // the closure (nil for a declared unit)
	decl  *ast.FuncDecl // the declared function / method (nil for a closure)
	body  ast.Node      // lit, or decl.Body
	encl  *flow.Func    // the function a closure unit is written in
	f     *flow.Func
	v     types.Object // variable holding the closure, or the function object of a declared unit
	name  string       // construct prefix
	sends []*ast.CallExpr
}

// c19run is what the rules share about (*syncer).run.
type c19run struct {
	f        *flow.Func
	cons     string
	sendObj  *types.Var // the delivery callback parameter
	keyObj   *types.Var // string parameter (key / prefix)
	prefObj  *types.Var // bool parameter (prefix flag)
	snapT    types.Type // map[string]*mvccpb.KeyValue
	pm       map[ast.Node]ast.Node
	prefEnum bool // the key/prefix choice is an enum-like integer, not a bool
	// what "prefix" means for an enum flag, learnt from pull: prefix ⇔ ((flag == prefVal) == prefIs)
	prefVal   string
	prefIs    bool
	prefKnown bool
	runObj    *types.Func
	targetObj *types.Var                           // run's parameter object carrying (key, prefix), if any
	unitAlias map[types.Object]*c19unit            // helper parameters bound to a unit closure
	funcs     []*flow.Func                         // run and the same-package functions below it
	pms       map[*flow.Func]map[ast.Node]ast.Node // parent maps of funcs
	cb        map[types.Object]bool                // the callback parameter and the cells it is stored in
	units     []*c19unit
	last      []*types.Var // snapshot-typed variables of run that outlive a unit

	pulls []c19pullSite // filled by R-C19-1
	eqFns []*types.Func // comparison callees found by R-C19-1
}

type c19pullSite struct {
	u      *c19unit
	call   *ast.CallExpr
	f      *flow.Func    // the function the pull sits in (the unit or one of its helpers)
	states []*flow.State // the states in which the pull call is reached in the unit's analysis
}

func c19(c *core.Ctx) string {
	c.Rule("R-C19-1", "send only changed, pulled data: in every closure of run that calls the delivery callback, the callback is reachable only after a pull whose error is nil and after the comparison of the last delivered snapshot with the new one reported a difference; the comparison sees the previous snapshot; `last` is set to the new snapshot on exactly the paths that deliver it; a detected difference is always delivered, once")
	c.Rule("R-C19-2", "one read per snapshot: every successful path of pull (and of each cluster read below it) issues exactly one etcd KV request, so a snapshot is one range response = a state the store really had; the request is not made serializable (successive pulls see non-decreasing store states); the prefix read is used iff the prefix flag is set; pull is called with run's own key and flag")
	c.Rule("R-C19-3", "liveness skeleton of run: a pull-compare-send precedes the loop on every path; the loop's select has a case on a timer channel and every path through it runs pull-compare-send before the next iteration (convergence without further writes, also after a missed event / etcd restart / cancelled watch); the timer channel keeps firing: a time.Ticker not stopped while the loop runs, an inline time.After/Tick, or a one-shot Timer / After variable that is re-armed on every path from its firing to the next iteration; the loop is left only in the case receiving from the syncer's done channel")
	c.Rule("R-C19-4", "equality covers keys and values: the snapshot comparison returns non-false only with equal lengths, only after its per-key loop is exhausted, the loop is left early only with false, every completed iteration established the equality of the entry's value with the other map's entry under the same key; the per-entry comparison returns true for two non-nil entries only if their Value bytes are equal")
	c.Rule("R-C19-5", "adapters forward every snapshot faithfully: each Sync* method runs the syncer on its own key with prefix = (channel element is a map), its callback sends exactly once per snapshot on the returned channel; single-key adapters look the snapshot up under that key and send nil only when the key is absent; map adapters copy every key (no skipped entry, value taken from the snapshot) and send after the copy is complete; a delivered map is never mutated afterwards (fresh copy, or run never writes into a snapshot map)")
	c.NotDecided = []string{
		"etcd semantics: that one range request is linearizable and that revisions are monotonic across server restarts (ordering of snapshots across restarts)",
		"timing: the pull period, how fast a watch event leads to a pull, consumer speed / channel back-pressure",
		"watch handling (re-creation of a cancelled watcher, progress notifications): not necessary for the property because the timer case alone guarantees convergence; a broken watch path costs latency/CPU, not correctness",
		"an empty store at start: the first pull equals the initial empty `last`, so no initial snapshot is delivered until the content becomes non-empty (consumers start from 'empty')",
		"membership test in the map comparison (`exists`): subsumed by the value comparison because pull never stores nil entries",
		"that ticker.Stop/watcher.Close are not called while the loop runs; third-party clientv3 behaviour",
	}
	expl := "Static shape rules on pkg/cluster/syncer.go: path-sensitive analysis (flow engine) of the pull-compare-send closure (send only after err==nil and isDataEqual==false, last updated with the delivery), of pull and the cluster reads below it (exactly one KV request per successful path, prefix read iff flag), of run's loop (initial pull, timer case pulls on every path, exits only on done), decision-table style implication checks on the two equality functions, and forwarding checks on the four Sync* adapters. Not decided: etcd linearizability/revision order across restarts, timing, watch re-creation (not needed for convergence), empty-store initial snapshot."

	r := c19Run(c)
	if r == nil || len(r.units) == 0 {
		return expl
	}
	c19Units(c, r)
	c19Pull(c, r)
	c19Skeleton(c, r)
	c19Equality(c, r)
	c19Adapters(c, r)
	return expl
}

// ---------------------------------------------------------------------------------------
// helpers

// c19obj resolves an identifier expression to its object (nil for blank / non-identifiers).
func c19obj(f *flow.Func, e ast.Expr) types.Object {
	if e == nil {
		return nil
	}
	id, ok := ast.Unparen(e).(*ast.Ident)
	if !ok || id.Name == "_" {
		return nil
	}
	if o := f.Info.Uses[id]; o != nil {
		return o
	}
	return f.Info.Defs[id]
}

func c19isErr(t types.Type) bool {
	return t != nil && types.Identical(t, types.Universe.Lookup("error").Type())
}

// c19phantom: the engine reports the dead end of a select without default (the final
// SelectAfterCase block has no successor) as a fall-off-the-end exit; it is not an exit.
func c19phantom(ex *flow.Exit) bool {
	if ex.Return != nil {
		return false
	}
	_, ok := ex.At.(*ast.CommClause)
	return ok
}

// c19inspect walks n without descending into function literals other than n itself.
func c19inspect(n ast.Node, visit func(ast.Node) bool) {
	ast.Inspect(n, func(x ast.Node) bool {
		if x == nil {
			return false
		}
		if _, ok := x.(*ast.FuncLit); ok && x != n {
			return false
		}
		return visit(x)
	})
}

// c19defIdent finds the identifier declaring obj inside root (for rendering fact keys).
func c19defIdent(f *flow.Func, root ast.Node, obj types.Object) *ast.Ident {
	var out *ast.Ident
	ast.Inspect(root, func(n ast.Node) bool {
		if id, ok := n.(*ast.Ident); ok && out == nil && f.Info.Defs[id] == obj {
			out = id
		}
		return out == nil
	})
	return out
}

// c19params lists the parameter objects of a function type.
func c19params(f *flow.Func, ft *ast.FuncType) []*types.Var {
	var out []*types.Var
	if ft == nil || ft.Params == nil {
		return nil
	}
	for _, fld := range ft.Params.List {
		for _, n := range fld.Names {
			if v, ok := f.Info.Defs[n].(*types.Var); ok {
				out = append(out, v)
			}
		}
	}
	return out
}

func c19isBool(t types.Type) bool {
	if t == nil {
		return false
	}
	b, ok := t.Underlying().(*types.Basic)
	return ok && b.Info()&types.IsBoolean != 0
}

func c19isString(t types.Type) bool {
	if t == nil {
		return false
	}
	b, ok := t.Underlying().(*types.Basic)
	return ok && b.Info()&types.IsString != 0
}

// c19constFalse / c19constTrue classify constant boolean expressions.
func c19constBool(f *flow.Func, e ast.Expr) (val, isConst bool) {
	tv, ok := f.Info.Types[e]
	if !ok || tv.Value == nil || !c19isBool(tv.Type) {
		return false, false
	}
	return tv.Value.ExactString() == "true", true
}

// c19implies decides whether, in state st, "R is true" implies that one of the facts `want`
// is true, for every valuation of R's atoms that is consistent with st; the facts in
// assumeFalse are fixed to false (st contradicting one of them exempts the state).
func c19implies(f *flow.Func, st *flow.State, R ast.Expr, want, assumeFalse []string) (holds, decided bool) {
	for _, w := range want {
		if st.Is(w, flow.True) {
			return true, true
		}
	}
	for _, a := range assumeFalse {
		if st.Is(a, flow.True) {
			return true, true
		}
	}
	keys := map[string]bool{}
	ok := true
	var build func(e ast.Expr) func(env map[string]bool) bool
	build = func(e ast.Expr) func(env map[string]bool) bool {
		e = ast.Unparen(e)
		if v, isC := c19constBool(f, e); isC {
			return func(map[string]bool) bool { return v }
		}
		switch x := e.(type) {
		case *ast.UnaryExpr:
			if x.Op == token.NOT {
				g := build(x.X)
				return func(env map[string]bool) bool { return !g(env) }
			}
		case *ast.BinaryExpr:
			switch x.Op {
			case token.LAND:
				g, h := build(x.X), build(x.Y)
				return func(env map[string]bool) bool { return g(env) && h(env) }
			case token.LOR:
				g, h := build(x.X), build(x.Y)
				return func(env map[string]bool) bool { return g(env) || h(env) }
			}
		}
		if !c19isBool(f.Info.TypeOf(e)) {
			ok = false
			return func(map[string]bool) bool { return true }
		}
		key, neg := f.Atom(e)
		keys[key] = true
		return func(env map[string]bool) bool { return env[key] != neg }
	}
	eval := build(R)
	if !ok {
		return false, false
	}
	env := map[string]bool{}
	var free []string
	for _, k := range sortedKeys(keys) {
		fixed := false
		for _, w := range want {
			if k == w {
				env[k], fixed = false, true
			}
		}
		for _, a := range assumeFalse {
			if k == a {
				env[k], fixed = false, true
			}
		}
		if fixed {
			continue
		}
		switch st.Get(k) {
		case flow.True:
			env[k] = true
		case flow.False:
			env[k] = false
		default:
			free = append(free, k)
		}
	}
	if len(free) > 12 {
		return false, false
	}
	for m := 0; m < 1<<len(free); m++ {
		for i, k := range free {
			env[k] = m&(1<<i) != 0
		}
		if eval(env) {
			return false, true
		}
	}
	return true, true
}

// ---------------------------------------------------------------------------------------
// R-C19-3

const (
	c19evPcs      = "ev:pcs"      // a pull-compare-send closure was invoked
	c19evIn       = "ev:inloop"   // the loop has been entered
	c19evTick     = "ev:intick"   // the current iteration runs the timer case
	c19evLastDone = "ev:lastdone" // the select case taken last in the loop is the done case
)

// doneFields: the channel fields of the type run is a method of — directly, or in a struct
// (embedded or named, by value or pointer, same package) nested in it up to three levels: the
// channels Close() may close.
func (r *c19run) doneFields() []*types.Var {
	var out []*types.Var
	fd, ok := r.f.Node.(*ast.FuncDecl)
	if !ok || fd.Recv == nil || len(fd.Recv.List) != 1 {
		return nil
	}
	t := r.f.Info.TypeOf(fd.Recv.List[0].Type)
	seen := map[*types.Struct]bool{}
	var walk func(t types.Type, depth int)
	walk = func(t types.Type, depth int) {
		if t == nil || depth > 3 {
			return
		}
		if p, ok := t.Underlying().(*types.Pointer); ok {
			t = p.Elem()
		}
		if n, ok := t.(*types.Named); ok && depth > 0 && (n.Obj().Pkg() == nil || n.Obj().Pkg() != r.f.Pkg.Types) {
			return
		}
		st, ok := t.Underlying().(*types.Struct)
		if !ok || seen[st] {
			return
		}
		seen[st] = true
		for i := 0; i < st.NumFields(); i++ {
			ft := st.Field(i).Type()
			if _, ok := ft.Underlying().(*types.Chan); ok {
				out = append(out, st.Field(i))
				continue
			}
			walk(ft, depth+1)
		}
	}
	walk(t, 0)
	return out
}

// c19resolveLocal: an identifier naming a local that is assigned exactly once in f stands for the
// expression it was assigned (`done := s.done` hoisted out of a loop).
func c19resolveLocal(f *flow.Func, e ast.Expr) ast.Expr {
	e = ast.Unparen(e)
	for depth := 0; depth < 3; depth++ {
		id, ok := e.(*ast.Ident)
		if !ok {
			return e
		}
		o := c19obj(f, id)
		if o == nil {
			return e
		}
		var rhs ast.Expr
		n := 0
		ast.Inspect(f.Body, func(x ast.Node) bool {
			switch s := x.(type) {
			case *ast.AssignStmt:
				for i, l := range s.Lhs {
					if c19obj(f, l) == o {
						n++
						if len(s.Lhs) == len(s.Rhs) {
							rhs = s.Rhs[i]
						} else {
							n++
						}
					}
				}
			case *ast.ValueSpec:
				for i, nm := range s.Names {
					if f.Info.Defs[nm] == o {
						n++
						if i < len(s.Values) {
							rhs = s.Values[i]
						}
					}
				}
			case *ast.UnaryExpr:
				if s.Op == token.AND && c19obj(f, s.X) == o {
					n += 2
				}
			}
			return true
		})
		if n != 1 || rhs == nil {
			return e
		}
		e = ast.Unparen(rhs)
	}
	return e
}

// c19recvFrom returns the channel operand of a receive communication (`<-x`, `v := <-x`).
func c19recvFrom(comm ast.Stmt) ast.Expr {
	var e ast.Expr
	switch s := comm.(type) {
	case *ast.ExprStmt:
		e = s.X
	case *ast.AssignStmt:
		if len(s.Rhs) == 1 {
			e = s.Rhs[0]
		}
	}
	if u, ok := ast.Unparen(e).(*ast.UnaryExpr); ok && u.Op == token.ARROW {
		return ast.Unparen(u.X)
	}
	return nil
}

func c19Skeleton(c *core.Ctx, r *c19run) {
	f := r.f
	isPcs := func(call *ast.CallExpr) bool { return r.isUnitCall(f, call) != nil }
	// the loop: outermost for statement containing a pull-compare-send invocation, in run or in a
	// same-package function below it (run split into setup + loop)
	var loop *ast.ForStmt
	lf := f // the function the loop sits in
	for _, g := range r.funcs {
		if loop != nil {
			break
		}
		c19inspect(g.Body, func(n ast.Node) bool {
			if fs, ok := n.(*ast.ForStmt); ok && loop == nil {
				for _, call := range calls(fs.Body, false) {
					if isPcs(call) {
						loop, lf = fs, g
					}
				}
				if loop != nil {
					return false
				}
			}
			return true
		})
	}
	var loopObj types.Object
	if lfd, ok := lf.Node.(*ast.FuncDecl); ok && lf != f {
		loopObj = lf.Info.Defs[lfd.Name]
	}
	if loop == nil {
		c.Violate("R-C19-3", r.cons+"|periodic pull", pos(c, f.Body),
			"run has no loop that keeps invoking pull-compare-send: after the first snapshot nothing is ever delivered again")
		return
	}
	if loop.Cond != nil {
		c.Undecide("R-C19-3", r.cons+"|loop", pos(c, loop), "the sync loop has a condition: shape not supported")
		return
	}
	// clauses
	chanFields := r.doneFields()
	var tick, done []*ast.CommClause
	c19inspect(loop.Body, func(n ast.Node) bool {
		cc, ok := n.(*ast.CommClause)
		if !ok || cc.Comm == nil {
			return true
		}
		ch := c19recvFrom(cc.Comm)
		if ch == nil {
			return true
		}
		if ct, ok := lf.Info.TypeOf(ch).Underlying().(*types.Chan); ok {
			if nt, ok := ct.Elem().(*types.Named); ok && nt.Obj().Pkg() != nil && nt.Obj().Pkg().Path() == "time" && nt.Obj().Name() == "Time" {
				tick = append(tick, cc)
			}
		}
		if sel, ok := c19resolveLocal(lf, ch).(*ast.SelectorExpr); ok {
			if s := lf.Info.Selections[sel]; s != nil {
				for _, fld := range chanFields {
					if s.Obj() == fld {
						done = append(done, cc)
					}
				}
			}
		}
		return true
	})
	unitOf := func(call *ast.CallExpr) types.Object {
		if u := r.isUnitCall(f, call); u != nil {
			return u.v
		}
		return nil
	}
	isTick := map[ast.Stmt]bool{}
	tickIdx := map[ast.Stmt]int{}
	srcs := make([]c19source, len(tick))
	// rearming[i][unit variable] = calling that closure re-arms source i on every path
	rearming := make([]map[types.Object]bool, len(tick))
	partial := make([]*flow.State, len(tick))
	for i, t := range tick {
		isTick[t] = true
		tickIdx[t] = i
		srcs[i] = c19classifySource(r, lf, c19recvFrom(t.Comm), 0)
		rearming[i] = map[types.Object]bool{}
		if srcs[i].needsRearm() {
			for _, u := range r.units {
				always, bad, ok := c19unitRearms(c, u, srcs[i])
				if !ok {
					return
				}
				rearming[i][u.v] = always
				if !always && bad != nil {
					partial[i] = bad
				}
			}
		}
	}
	rearmKey := func(i int) string { return sprintf("%s:%d", c19evRearm, i) }
	tickKey := func(i int) string { return sprintf("%s:%d", c19evTick, i) }
	badRearm := make([]*flow.State, len(tick))

	var badInit, badTick *flow.State
	first, tickIters := 0, 0
	res := analyze(c, f, flow.Config{
		// run split into setup and loop: interpret the function holding the loop in place
		Inline: func(call *ast.CallExpr, callee *types.Func) *flow.Func {
			if loopObj != nil && types.Object(callee) == loopObj {
				return lf
			}
			return nil
		},
		OnCall: func(st *flow.State, call *ast.CallExpr, callee types.Object, deferred bool) {
			if isPcs(call) {
				st.Set(c19evPcs, flow.True)
			}
			for i, src := range srcs {
				if src.rearmCall(f, call) || (isPcs(call) && rearming[i][unitOf(call)]) {
					st.Set(rearmKey(i), flow.True)
				}
			}
		},
		OnNode: func(st *flow.State, n ast.Node) {
			for i, src := range srcs {
				if src.rearmNode(f, n) {
					st.Set(rearmKey(i), flow.True)
				}
			}
		},
		OnBlock: func(st *flow.State, b *cfg.Block) {
			if b.Stmt == loop && b.Kind == cfg.KindForBody {
				for i, src := range srcs {
					if st.Is(tickKey(i), flow.True) && src.needsRearm() && !st.Is(rearmKey(i), flow.True) && badRearm[i] == nil {
						badRearm[i] = st
					}
					st.Set(tickKey(i), flow.Unknown)
					st.Set(rearmKey(i), flow.Unknown)
				}
				if !st.Is(c19evIn, flow.True) {
					first++
					if !st.Is(c19evPcs, flow.True) && badInit == nil {
						badInit = st
					}
				} else if st.Is(c19evTick, flow.True) {
					tickIters++
					if !st.Is(c19evPcs, flow.True) && badTick == nil {
						badTick = st
					}
				}
				st.Set(c19evIn, flow.True)
				st.Set(c19evLastDone, flow.False)
				st.Set(c19evPcs, flow.False)
				st.Set(c19evTick, flow.False)
			}
			if b.Kind == cfg.KindSelectCaseBody && contains(loop, b.Stmt) {
				isDone := false
				for _, d := range done {
					if d == b.Stmt {
						isDone = true
					}
				}
				if isDone {
					st.Set(c19evLastDone, flow.True)
				} else {
					st.Set(c19evLastDone, flow.False)
				}
			}
			if b.Kind == cfg.KindSelectCaseBody && isTick[b.Stmt] {
				st.Set(c19evTick, flow.True)
				st.Set(tickKey(tickIdx[b.Stmt]), flow.True)
				st.Set(rearmKey(tickIdx[b.Stmt]), flow.False)
			}
		},
	})
	if res == nil {
		return
	}
	if c.RequireCount("R-C19-3", "abstract first entries of the sync loop", first, 1) {
		c.Check(badInit == nil, "R-C19-3", r.cons+"|initial pull before the loop", pos(c, loop),
			sprintf("%d abstract path(s) reach the loop, all after a pull-compare-send", first),
			"the loop is reachable without an initial pull-compare-send: the current content is not delivered first; the consumer waits a whole pull period (minutes to an hour) or for the next write", witness(badInit)...)
	}
	if len(tick) == 0 {
		c.Violate("R-C19-3", r.cons+"|periodic pull", pos(c, loop),
			"no case of the loop's select receives from a timer channel: after a missed watch event, an etcd restart or a cancelled watch the syncer never converges to the store's final content without further writes")
	} else {
		ok := badTick == nil && tickIters > 0
		why := "a path through the timer case reaches the next iteration without pull-compare-send: the periodic pull that guarantees convergence after a missed event / etcd restart does not happen on that path"
		if tickIters == 0 {
			why = "no path through the timer case reaches the next iteration"
		}
		c.Check(ok, "R-C19-3", r.cons+"|periodic pull", pos(c, tick[0]),
			sprintf("%d timer case(s); %d abstract iteration(s) through them, all with pull-compare-send", len(tick), tickIters), why, witness(badTick)...)
	}
	// the periodic source keeps firing
	for i, t := range tick {
		role := r.cons + "|periodic source keeps firing"
		if len(tick) > 1 {
			role = sprintf("%s (timer case#%d)", role, i+1)
		}
		src := srcs[i]
		switch {
		case src.kind == "":
			c.Undecide("R-C19-3", role, pos(c, t), src.why)
		case src.kind == "ticker":
			at := c19tickerStopped(r, src)
			c.Check(at == nil, "R-C19-3", role, pos(c, t),
				"the case receives from a time.Ticker that is only stopped by a defer of run itself",
				"the ticker that drives the periodic pull is stopped while the loop is still running ("+pos(c, at)+"): from then on no periodic pull happens; after a missed watch event or an etcd outage the syncer never converges without a further write")
		case !src.needsRearm():
			c.Discharge("R-C19-3", role, pos(c, t), "the timer channel is armed anew in every iteration (inline time.After/Tick) or is a time.Tick channel")
		default:
			w := witness(badRearm[i])
			if badRearm[i] != nil && partial[i] != nil {
				w = append(w, "path inside the pull-compare-send closure that returns without re-arming:")
				w = append(w, witness(partial[i])...)
			}
			what := "time.Timer"
			if src.kind == "aftervar" {
				what = "time.After channel"
			}
			c.Check(badRearm[i] == nil, "R-C19-3", role, pos(c, t),
				"one-shot "+what+" re-armed on every path from its firing to the next iteration",
				"the periodic pull is driven by a one-shot "+what+" and some path from its firing to the next loop iteration does not re-arm it (e.g. the early return after a failed pull): after one such iteration — a pull that fails while etcd is down — the periodic pull never fires again, so the syncer does not converge after the outage without a further write", w...)
		}
	}
	// run ends only through the done case: on every return path of run that went through the loop,
	// the select case taken last is the one receiving from the syncer's done channel (leaving the
	// loop function to re-create the watcher and entering it again is not an end of run)
	var badExit *flow.Exit
	nExits := 0
	for _, ex := range res.Exits {
		if ex.Kind != flow.ExitReturn || c19phantom(ex) || !ex.State.Is(c19evIn, flow.True) {
			continue
		}
		nExits++
		if !ex.State.Is(c19evLastDone, flow.True) && badExit == nil {
			badExit = ex
		}
	}
	var wx []string
	at := "?"
	if badExit != nil {
		wx = witness(badExit.State)
		at = pos(c, badExit.At)
		if r := badExit.Ret(); r != nil {
			at = pos(c, r)
		}
	}
	c.Check(badExit == nil, "R-C19-3", r.cons+"|loop ends only on done", pos(c, loop),
		sprintf("%d return path(s) of run after the loop was entered, all through the case receiving from the syncer's done channel", nExits),
		"the sync loop can be left for a reason other than Close(): from then on nothing is delivered any more although the store keeps changing (at "+at+")", wx...)
}
