package rules

// C18 — cluster mutex is exclusive; admin mutations serialise with gap-free versions.
//
// Rules (DESIGN.md §3 C18):
//   R-C18-1  typestate of the cluster mutex's Lock/Unlock (flow engine, deferred closures, panic exits)
//   R-C18-2  one process-local lock per (member, name): the Mutex factory hands out memoised values (SSA
//            value origins + flow engine for the check-then-insert discipline of the table)
//   R-C18-3  every write of config objects / config version / member purge in pkg/api is made with the
//            admin server's cluster lock held; the lock is released on every exit (c18_api.go)
//   R-C18-4  version discipline of the create/update/delete handlers, +1 arithmetic of the version
//            counter, X-Config-Version header (c18_api.go)
//   R-C18-5  the object / version key of one name is only ever handed to exact-key cluster operations
//            (added after the round-3 seeded change DeletePrefix(ConfigObjectKey(name)); c18_api.go)
//
// Genuine defect found on today's tree (left violated, see /tmp/vw/C18/out/fix-1.diff + zz_triage_test.go):
//   R-C18-2|pkg/cluster.(cluster).Mutex|one local lock per name — &mutex{} allocated per call.
//
// Tested against (scratch worktree, one at a time; "→" = construct(s) that fired, always exit 1):
//   M1   mutex.Lock: deferred closure tests `panicked || err == nil`           → R-C18-1 Lock|nil return holds…, Lock|error return releases…
//   M2   mutex.Lock: `panicked = false` moved before m.m.Lock(ctx)             → R-C18-1 Lock|panic exit releases local lock
//   M3   mutex.Lock: m.m.Lock(ctx) called before m.lock.Lock()                 → R-C18-1 Lock|etcd acquired under local lock
//   M4   mutex.Unlock: `if err != nil { return err }` before the local unlock  → R-C18-1 Unlock|every return releases local lock
//   M5   mutex.Unlock: local unlock first, then etcd unlock                    → R-C18-1 Unlock|etcd released under local lock
//   M6   mutex.Lock: `_ = m.m.Lock(ctx)` (result dropped)                      → R-C18-1 Lock|nil return holds…
//   M6b  mutex.Lock: deferred closure unlocks only `if panicked`               → R-C18-1 Lock|error return releases local lock
//   M25  mutex.Lock: etcd Lock call replaced by ctx.Err()                      → R-C18-1 Lock|nil return holds… (etcd not called)
//   M26  mutex.Unlock: etcd Unlock call removed                                → R-C18-1 Unlock|every return releases etcd lock
//   M27  local sync.Mutex removed from Lock and Unlock                         → R-C18-1 (3 constructs)
//   (P4' `defer func(){ panicked = false }()` + `return m.m.Lock(ctx)`: looks harmless, is a real panic-path bug — flagged)
//   M7   (fixed tree) Mutex(): map insert without the lookup                   → R-C18-2 one local lock per name
//   M7b  (fixed tree) Mutex(): insert under a constant key                     → R-C18-2 one local lock per name
//   M8   (fixed tree) lookup under RLock, insert after re-Lock without re-check → R-C18-2 lookup and insert in one critical section
//   M8b  (fixed tree) no lock around the table                                 → R-C18-2 lookup and insert in one critical section
//   P7   (unfixed) &mutex{} moved into a newMutex helper                       → R-C18-2 still violated (origin followed through the call)
//   M9   deleteObject: s.Lock()/defer s.Unlock() removed                       → R-C18-3 deleteObject|call of _deleteObject, |call of upgradeConfigVersion
//   M10  updateObject: `defer s.Unlock()` → explicit s.Unlock() on each path   → R-C18-3 updateObject|lock released on every exit (panic exit)
//   M17  Server.Lock: error of mutex.Lock() only logged                        → R-C18-3 Server.Lock|returns only with the cluster mutex acquired
//   M18  purgeMember: _purgeMember called before s.Lock()                      → R-C18-3 purgeMember|call of _purgeMember
//   M11  createObject: s.Lock() moved after the existence check                → R-C18-4 createObject|existence read under the lock
//   M12  createObject: upgradeConfigVersion dropped                            → R-C18-4 createObject|exit table
//   M13  updateObject: missing `return` after the kind-mismatch 400            → R-C18-4 updateObject|exit table, |update guard
//   M14  createObject: conflict status 409 → 400                               → R-C18-4 createObject|refusal status
//   M19  createObject: `existedSpec == nil` (inverted)                         → R-C18-4 createObject|create guard
//   M20  updateObject: kind comparison dropped                                 → R-C18-4 updateObject|update guard
//   M21  deleteObject: upgrade before delete                                   → R-C18-4 deleteObject|exit table
//   M22  updateObject: Unlock/Lock between write and upgrade                   → R-C18-4 updateObject|exit table
//   M15  _plusOneVersion: `version++` dropped / M15b `version += 2`            → R-C18-4 _plusOneVersion|writes version read + 1
//   M23  _plusOneVersion: writes version+1 but returns version                 → R-C18-4 _plusOneVersion|returns the version written
//   M16  upgradeConfigVersion: header from a _getVersion() read before the bump → R-C18-4 upgradeConfigVersion|X-Config-Version carries…
//   NOT caught, by design: M24 deleteObject without the 404 check (a successful delete of an absent name does not
//   contradict the property; only the exit table is required of delete).
//   M28  _deleteObject: Delete → DeletePrefix(ConfigObjectKey(name)) (round-3 seeded b)  → R-C18-5 _deleteObject|exact-key write on ConfigObjectKey
//   M29  deleteObject: helper call replaced by `key := …ConfigObjectKey(name); s.cluster.DeletePrefix(key)` → R-C18-5 deleteObject|exact-key write…
//   M30  _getObject: existence read through GetPrefix(ConfigObjectKey(name))   → R-C18-5 _getObject|exact-key read on ConfigObjectKey
//   M31  _getVersion: GetWithOp(ConfigVersion(), cluster.OpPrefix)             → R-C18-5 _getVersion|exact-key read on ConfigVersion
//   (silent: P11 _deleteObject through PutAndDelete(map[string]*string{key: nil}); _listObjects' GetPrefix(ConfigObjectPrefix()))
// Robustness pass (refactorings /verif/preserving/C18/r1..r4 all silent; c18_resolve.go, c18_delta.go):
//   calls are resolved through locals bound once to a method value / function / straight-line closure, deferred
//   same-package helpers are expanded, the mutex analyses run with engine inlining (helpers acquireEtcd/releaseLocal),
//   a helper or closure the analysis cannot follow turns a failed obligation into Undecide; pkg/api: values written /
//   returned are tracked relative to the version read OR to a parameter (_putVersion(v)), error wrappers
//   (notFound, fail(code)) and bool kind helpers (sameKind/differentKind) are summarised; the version read that
//   feeds an upgrade is a lock-protected site. Variants tried (silent): V1 Lock via method values, V2 Unlock via a
//   closure local, V3 helper methods, V4 handler via method values, V5 error wrappers + differentKind, V6 writer
//   split with string parameter and named result, V7p version handed down by the handler under the lock; the
//   mutants V1m V2m V3m V3n V4m V4n V5m V5n V5o V6m V6n V7n on those shapes are all still reported.
// Second iteration (refactorings r5..r8 silent): R-C18-2 follows the table insertion into a helper that is handed the
//   new mutex and the name (rememberMutex(name, m)); R-C18-1 carries facts across `&x` pointer parameters and through a
//   local flag struct built by a composite literal (closure → method with captured variables as parameters / fields:
//   c18ptrArgs, the engine forgets address-taken locals and does not rename rule-set facts); pkg/api recognises the lock
//   wrapper role (a function that runs its func parameter exactly once, with or without the lock held: withLock(fn)) and
//   analyses the closure from the states reaching the wrapper call (the wrapper's own release-on-every-exit is an
//   obligation of the wrapper). Variants: W1 flag struct, W2 lookupMutex helper, W3 closure in a local + package-level
//   wrapper — silent; mutants on the new shapes r6m1-3, r7m1-4, r8m1-6, W1m/n/o, W3m — all reported (W3n, a wrapper
//   running the closure twice, is undecided).
// Round-4 seeded changes g/h (slips inside honest refactorings): a lock function that returns an error holds the lock
//   only once its result is known to be nil (no lock assumed while the result is unchecked, or if it is dropped); new
//   obligation R-C18-3 `F|Unlock only with the lock held` (g: `defer s.Unlock()` placed before the `if err != nil`);
//   Server.Lock's own check accepts `return mutex.Lock()`; decorator role (`locked(h)` returns a closure running h once
//   under the lock) + entry lock context: a function is entered with the lock held iff EVERY value use of it is the
//   decorated argument of such a decorator (h: DELETE entry left bare → violation at deleteObject naming the registration
//   site). Correct variants /tmp/vw/C18/out/{g,h}-correct.diff silent; mutants g1-g4, h1-h4 reported; g5, h5 silent.
// Third iteration (r9..r12 silent): an unexported interface in front of the etcd session mutex (`remote sessionLocker`)
//   is resolved through the stores into fields of that interface type — all of them *concurrency.Mutex values
//   (c18resolveEtcdFronts); mutants on the r11 / r12 shapes (r11m1-2, r12m1-5) are still reported.
// Fourth iteration (r13..r16 silent): lock / unlock functions by dependency inversion (Lock() hands the method expression
//   cluster.Mutex.Lock to an applicator that calls its func parameter on the mutex; the acquisition check is made on the
//   applicator); a handler that keeps parsing + Lock/defer Unlock and calls a *Locked helper last is judged on the helper
//   re-analysed as entered with the lock held (only if every call site of the helper holds the lock; c18_api.go delegated).
//   Mutants r14m1-2, r16m1-4 on those shapes are reported.
// Behaviour-preserving edits that stay silent (exit unchanged): P1 renamed locals + `nil != err || p` + `return err`;
// P2 Lock without named result (`done` flag, explicit `return e`); P3 Unlock with the etcd error in a local and explicit
// order; P4 `return m.m.Lock(ctx)` with recover-and-repanic closure; P5 double-checked RWMutex table; P6 sync.Map
// Load/LoadOrStore + newMutex helper; P8 `exists := old != nil`, tagless switch in updateObject, `version = version + 1`;
// P9 upgrade inlined into deleteObject with strconv.FormatInt, Sprintf("%d", old+1) + `return old + 1`, kinds compared
// through locals; P10 `if e := mutex.Lock(); e != nil`, purge body moved into a helper called under the lock.

import (
	"fmt"
	"go/ast"
	"go/token"
	"go/types"
	"os"
	"sort"
	"strings"

	"golang.org/x/tools/go/packages"
	"golang.org/x/tools/go/ssa"

	"verif/internal/core"
	"verif/internal/flow"
)

const (
	c18cl  = "pkg/cluster"
	c18api = "pkg/api"

	c18etcdMutex = "go.etcd.io/etcd/client/v3/concurrency.Mutex"
)

func init() { Registry["C18"] = c18 }

func c18(c *core.Ctx) string {
	c.Rule("R-C18-1", "lock typestate of the cluster mutex: at every exit of Lock the process-local lock is held iff no panic propagates and the returned error is nil, a nil return implies the etcd acquisition returned nil, the etcd lock is acquired and released only while the local lock is held; Unlock calls the etcd release and releases the local lock on every return (also when etcd reports an error)")
	c.Rule("R-C18-2", "one process-local lock per (member, name): every non-nil value returned by the Cluster implementation's Mutex(name) originates from a table keyed by the name (map lookup / sync.Map load) or is inserted into that table before it is returned, lookup and insert happen in one critical section (or LoadOrStore); a value allocated afresh per call gives two callers of one member two sync.Mutex values under a single etcd session")
	c.Rule("R-C18-3", "mutations under the lock: every write of the config-object key space, the config version key and every member purge issued by pkg/api is reached only with the admin server's cluster lock held (in the function itself or in all its callers); Server.Lock returns only after the cluster mutex reported success; every function taking the lock releases it on every exit including panics")
	c.Rule("R-C18-4", "version discipline: a mutation handler ends either after an API error with zero object writes and zero version upgrades, or after exactly one object write followed by exactly one version upgrade in the same critical section; the existence read is made under the lock; create writes only when the name is absent and answers 409 otherwise, update writes only when the stored object has the request's kind and answers 400 on another kind; the version helper writes and returns (value read)+1; the upgrade sets X-Config-Version from it")
	c.Rule("R-C18-5", "single-key addressing (sibling agreement of the object handlers): every cluster operation of pkg/api whose key is built by a per-object / per-counter Layout method (ConfigObjectKey, ConfigVersion) is an exact-key operation (Get, GetRaw, Put*, Delete, PutAndDelete*), never a range operation (*Prefix, GetWithOp+OpPrefix); range operations belong to the Layout's *Prefix keys")
	c.NotDecided = []string{
		"etcd's own guarantees (linearizable txn, lease expiry, what concurrency.Mutex leaves behind after a timed-out Lock)",
		"cross-member timing and schedules (lock discipline is checked, interleavings are not explored)",
		"re-entrancy / deadlock freedom of callers that nest locks of the same name",
		"panic exits of mutex.Unlock (only return exits are required to release the local lock)",
		"writes outside the object/version/member scope (wasm code/data events, custom data through customdata.Store)",
		"that the object written is the request's object and the key read equals the key written (value semantics)",
	}

	c18Mutex(c)
	c18Factory(c)
	c18Admin(c)
	if os.Getenv("C18_DEBUG") != "" {
		for _, o := range c.Obligations {
			fmt.Fprintf(os.Stderr, "%-10s %-10s %s @%s — %s\n", o.Verdict, o.Rule, o.Construct, o.Pos, o.Detail)
		}
	}
	return "Static necessary conditions of cluster-mutex exclusion and serialised admin mutations: path-sensitive typestate of mutex.Lock/Unlock including deferred closures and the panic exit of the etcd call; SSA value-origin audit of (*cluster).Mutex (memoised per name vs. allocated per call); interprocedural lock-held analysis of every config/version/member write in pkg/api; exit tables (writes, upgrades, status) of the create/update/delete handlers and +1 arithmetic of the version counter. Not decided: etcd semantics, lease expiry, cross-member timing, value semantics of keys."
}

// ---------------------------------------------------------------------------------------
// R-C18-1

// c18MutexTypes returns the struct types of pkg/cluster that implement cluster.Mutex and own an
// etcd session mutex (field of type *concurrency.Mutex).
func c18MutexTypes(c *core.Ctx) []*types.Named {
	pkg := c.Prog.Pkg(c18cl)
	iface := namedType(c, c18cl, "Mutex")
	if pkg == nil || iface == nil {
		return nil
	}
	c18resolveEtcdFronts(pkg)
	it, ok := iface.Underlying().(*types.Interface)
	if !ok {
		c.Errorf("anchor: %s.Mutex is not an interface", c18cl)
		return nil
	}
	var out []*types.Named
	scope := pkg.Types.Scope()
	for _, name := range scope.Names() {
		tn, ok := scope.Lookup(name).(*types.TypeName)
		if !ok {
			continue
		}
		n, ok := tn.Type().(*types.Named)
		if !ok {
			continue
		}
		st, ok := n.Underlying().(*types.Struct)
		if !ok || !types.Implements(types.NewPointer(n), it) {
			continue
		}
		for i := 0; i < st.NumFields(); i++ {
			if c18isEtcdMutex(st.Field(i).Type()) {
				out = append(out, n)
				break
			}
		}
	}
	return out
}

func c18isEtcdMutex(t types.Type) bool {
	if p, ok := t.(*types.Pointer); ok {
		t = p.Elem()
	}
	n, ok := t.(*types.Named)
	if !ok || n.Obj().Pkg() == nil {
		return false
	}
	return n.Obj().Pkg().Path()+"."+n.Obj().Name() == c18etcdMutex || c18etcdFronts[n.Obj()]
}

// c18etcdFronts holds the interfaces of pkg/cluster that stand in front of the etcd session mutex: a
// struct field of such an interface type is only ever given *concurrency.Mutex values in the package
// (`remote sessionLocker` … `remote: concurrency.NewMutex(session, name)`), so a call through the
// interface is a call of the etcd mutex.
var c18etcdFronts = map[*types.TypeName]bool{}

func c18resolveEtcdFronts(pkg *packages.Package) {
	c18etcdFronts = map[*types.TypeName]bool{}
	info := pkg.TypesInfo
	type tally struct{ etcd, other int }
	stores := map[*types.Var]*tally{} // per struct field of a package-local interface type
	note := func(fld *types.Var, rhs ast.Expr) {
		n, ok := fld.Type().(*types.Named)
		if !ok || n.Obj().Pkg() != pkg.Types || !types.IsInterface(n) {
			return
		}
		t := stores[fld]
		if t == nil {
			t = &tally{}
			stores[fld] = t
		}
		tv, ok := info.Types[rhs]
		if ok && tv.IsNil() {
			return
		}
		if ok && tv.Type != nil {
			rt := tv.Type
			if p, isPtr := rt.(*types.Pointer); isPtr {
				rt = p.Elem()
			}
			if rn, isNamed := rt.(*types.Named); isNamed && rn.Obj().Pkg() != nil && rn.Obj().Pkg().Path()+"."+rn.Obj().Name() == c18etcdMutex {
				t.etcd++
				return
			}
		}
		t.other++
	}
	for _, file := range pkg.Syntax {
		ast.Inspect(file, func(x ast.Node) bool {
			switch t := x.(type) {
			case *ast.CompositeLit:
				tv, ok := info.Types[t]
				if !ok || tv.Type == nil {
					return true
				}
				ct := tv.Type
				if p, isPtr := ct.(*types.Pointer); isPtr {
					ct = p.Elem()
				}
				st, ok := ct.Underlying().(*types.Struct)
				if !ok {
					return true
				}
				for i, el := range t.Elts {
					if kv, ok := el.(*ast.KeyValueExpr); ok {
						if k, ok := kv.Key.(*ast.Ident); ok {
							if fld, ok := info.Uses[k].(*types.Var); ok && fld.IsField() {
								note(fld, kv.Value)
							}
						}
					} else if i < st.NumFields() {
						note(st.Field(i), el)
					}
				}
			case *ast.AssignStmt:
				if len(t.Lhs) != len(t.Rhs) {
					return true
				}
				for i, l := range t.Lhs {
					if sel, ok := ast.Unparen(l).(*ast.SelectorExpr); ok {
						if sl := info.Selections[sel]; sl != nil {
							if fld, ok := sl.Obj().(*types.Var); ok && fld.IsField() {
								note(fld, t.Rhs[i])
							}
						}
					}
				}
			}
			return true
		})
	}
	// an interface is a front of the etcd mutex when every field of that type is only given etcd mutexes
	byIface := map[*types.TypeName]*tally{}
	for fld, t := range stores {
		tn := fld.Type().(*types.Named).Obj()
		b := byIface[tn]
		if b == nil {
			b = &tally{}
			byIface[tn] = b
		}
		b.etcd += t.etcd
		b.other += t.other
	}
	for tn, t := range byIface {
		if t.etcd > 0 && t.other == 0 {
			c18etcdFronts[tn] = true
		}
	}
}

// c18syncOp classifies a call to a sync.Mutex / sync.RWMutex method: "Lock", "Unlock", "RLock",
// "RUnlock" ("" otherwise) and returns the receiver expression.
func c18syncOp(f *flow.Func, call *ast.CallExpr, callee types.Object) (string, ast.Expr) {
	fo, ok := callee.(*types.Func)
	if !ok || fo.Pkg() == nil || fo.Pkg().Path() != "sync" {
		return "", nil
	}
	sig, _ := fo.Type().(*types.Signature)
	if sig == nil || sig.Recv() == nil {
		return "", nil
	}
	rt := sig.Recv().Type()
	if p, ok := rt.(*types.Pointer); ok {
		rt = p.Elem()
	}
	if n, ok := rt.(*types.Named); !ok || (n.Obj().Name() != "Mutex" && n.Obj().Name() != "RWMutex") {
		return "", nil
	}
	sel, ok := ast.Unparen(call.Fun).(*ast.SelectorExpr)
	if !ok {
		return "", nil
	}
	switch fo.Name() {
	case "Lock", "Unlock", "RLock", "RUnlock":
		return fo.Name(), sel.X
	}
	return "", nil
}

// c18etcdOp classifies a call to a method of the etcd session mutex: "acquire" (Lock, TryLock),
// "release" (Unlock), "".
func c18etcdOp(callee types.Object) string {
	fo, ok := callee.(*types.Func)
	if !ok {
		return ""
	}
	sig, _ := fo.Type().(*types.Signature)
	if sig == nil || sig.Recv() == nil || !c18isEtcdMutex(sig.Recv().Type()) {
		return ""
	}
	switch fo.Name() {
	case "Lock", "TryLock":
		return "acquire"
	case "Unlock":
		return "release"
	}
	return ""
}

// c18recvVar returns the receiver variable of a method declaration.
func c18recvVar(f *flow.Func) types.Object {
	fd, ok := f.Node.(*ast.FuncDecl)
	if !ok || fd.Recv == nil || len(fd.Recv.List) != 1 || len(fd.Recv.List[0].Names) != 1 {
		return nil
	}
	return f.Info.Defs[fd.Recv.List[0].Names[0]]
}

// c18rootedAt reports whether e is a selector chain rooted at variable v, and returns the last
// selected field.
func c18rootedAt(f *flow.Func, e ast.Expr, v types.Object) (*types.Var, bool) {
	var last *types.Var
	e = ast.Unparen(e)
	if u, ok := e.(*ast.UnaryExpr); ok && u.Op == token.AND {
		e = ast.Unparen(u.X)
	}
	for {
		switch x := e.(type) {
		case *ast.SelectorExpr:
			if last == nil {
				if s := f.Info.Selections[x]; s != nil {
					last, _ = s.Obj().(*types.Var)
				}
			}
			e = ast.Unparen(x.X)
			continue
		case *ast.Ident:
			return last, v != nil && f.Info.Uses[x] == v
		}
		return last, false
	}
}

// c18namedResult returns the single named error result of f (nil if unnamed).
func c18namedResult(f *flow.Func) *ast.Ident {
	if f.Type == nil || f.Type.Results == nil {
		return nil
	}
	var last *ast.Ident
	for _, fld := range f.Type.Results.List {
		for _, n := range fld.Names {
			last = n
		}
	}
	if last == nil || last.Name == "_" {
		return nil
	}
	if o := f.Info.Defs[last]; o == nil || !c18isErrorType(o.Type()) {
		return nil
	}
	return last
}

func c18isErrorType(t types.Type) bool {
	return t != nil && types.Identical(t, types.Universe.Lookup("error").Type())
}

// c18nilOf evaluates the nil-ness of expression e in st (True = nil).
func c18nilOf(f *flow.Func, st *flow.State, e ast.Expr) flow.Val {
	e = ast.Unparen(e)
	switch x := e.(type) {
	case *ast.Ident:
		if x.Name == "nil" {
			if _, ok := f.Info.Uses[x].(*types.Nil); ok {
				return flow.True
			}
		}
		return st.Get(f.NilKey(x))
	case *ast.SelectorExpr:
		return st.Get(f.NilKey(x))
	case *ast.UnaryExpr:
		if x.Op == token.AND {
			return flow.False
		}
	case *ast.CompositeLit:
		return flow.False
	case *ast.CallExpr:
		if fo, ok := f.Callee(x).(*types.Func); ok && fo.Pkg() != nil {
			switch fo.Pkg().Path() + "." + fo.Name() {
			case "errors.New", "fmt.Errorf":
				return flow.False
			}
		}
		return st.Get(f.NilKey(x)) // facts of an inlined `return h(..)`
	}
	return flow.Unknown
}

// c18errResultIndex is the index of the error among the results of a return statement.
func c18lastResult(ret *ast.ReturnStmt) ast.Expr {
	if ret == nil || len(ret.Results) == 0 {
		return nil
	}
	return ret.Results[len(ret.Results)-1]
}

// c18resultHolder finds where the value of `call` goes: the assigned variable/expression
// (how = "assign"), the function result (how = "return"), nowhere (how = "dropped") or
// something else (how = "other").
func c18resultHolder(body ast.Node, call *ast.CallExpr) (holder ast.Expr, how string) {
	pm := parentMap(body)
	var n ast.Node = call
	for {
		p := pm[n]
		if pe, ok := p.(*ast.ParenExpr); ok {
			n = pe
			continue
		}
		switch s := p.(type) {
		case *ast.AssignStmt:
			for i, r := range s.Rhs {
				if r == n && len(s.Lhs) == len(s.Rhs) {
					if c18isBlank(s.Lhs[i]) {
						return nil, "dropped"
					}
					return s.Lhs[i], "assign"
				}
			}
			return nil, "other"
		case *ast.ValueSpec:
			for i, r := range s.Values {
				if r == n && len(s.Names) == len(s.Values) {
					return s.Names[i], "assign"
				}
			}
			return nil, "other"
		case *ast.ReturnStmt:
			return nil, "return"
		case *ast.ExprStmt:
			return nil, "dropped"
		}
		return nil, "other"
	}
}

func c18isBlank(e ast.Expr) bool {
	id, ok := e.(*ast.Ident)
	return ok && id.Name == "_"
}

const (
	c18evLocal    = "ev:c18:local"       // process-local lock held
	c18evLocalRel = "ev:c18:localRel"    // process-local lock released in this call
	c18evEtcd     = "ev:c18:etcd"        // etcd acquire / release called
	c18evBadOrder = "ev:c18:etcdNoLocal" // etcd op evaluated without the local lock held
)

func c18Mutex(c *core.Ctx) {
	ts := c18MutexTypes(c)
	if !c.RequireCount("R-C18-1", "types of pkg/cluster implementing Mutex over an etcd session mutex", len(ts), 1) {
		return
	}
	for _, t := range ts {
		lockF := fn(c, c18cl, t.Obj().Name(), "Lock")
		unlockF := fn(c, c18cl, t.Obj().Name(), "Unlock")
		var locked, unlocked map[*types.Var]bool
		if lockF != nil {
			locked = c18MutexLock(c, t, lockF)
		}
		if unlockF != nil {
			unlocked = c18MutexUnlock(c, t, unlockF)
		}
		if lockF != nil && unlockF != nil && len(locked) > 0 {
			same := len(locked) == len(unlocked)
			for v := range locked {
				if !unlocked[v] {
					same = false
				}
			}
			c.Check(same, "R-C18-1", fname(c18cl, t.Obj().Name(), "Unlock")+"|releases the lock Lock took", pos(c, unlockF.Body),
				"Lock and Unlock operate on the same process-local lock field",
				"Unlock releases a different process-local lock than the one Lock acquires: the lock taken by Lock is never released")
		}
	}
}

// c18mutexScan is the static part shared by the Lock and Unlock analyses: the etcd operations
// of kind `want` in f and the same-package code it calls, and where their results go.
type c18etcdSite struct {
	g    *flow.Func
	call *ast.CallExpr
}

func c18etcdSites(f *flow.Func, want string) []c18etcdSite {
	var out []c18etcdSite
	for _, g := range reach(f, 2) {
		for _, call := range calls(g.Body, true) {
			callee, _, _ := c18target(f.Pkg, call)
			if c18etcdOp(callee) == want {
				out = append(out, c18etcdSite{g, call})
			}
		}
	}
	return out
}

// c18holderKeys returns the nil-ness fact keys of the places the result of call (in g) ends up
// in: the assigned variable, or — when it is returned — the call expression of g in its caller
// and the variable that one is assigned to. dropped / other report an ignored or untraceable result.
func c18holderKeys(f, g *flow.Func, call *ast.CallExpr, named *ast.Ident, depth int) (keys []string, dropped, other bool) {
	holder, how := c18resultHolder(g.Body, call)
	switch how {
	case "assign":
		keys = append(keys, g.NilKey(holder))
	case "dropped":
		dropped = true
	case "return":
		keys = append(keys, g.NilKey(call))
		if g.Body == f.Body {
			if named != nil {
				keys = append(keys, f.NilKey(named))
			}
			return
		}
		gd, _ := g.Node.(*ast.FuncDecl)
		if gd == nil || depth > 2 {
			other = true
			return
		}
		gobj := f.Info.Defs[gd.Name]
		found := false
		for _, h := range reach(f, 2) {
			for _, c2 := range calls(h.Body, true) {
				if callee, _, _ := c18target(f.Pkg, c2); callee != nil && callee == gobj {
					found = true
					k, d, o := c18holderKeys(f, h, c2, named, depth+1)
					keys = append(keys, k...)
					dropped = dropped || d
					other = other || o
				}
			}
		}
		if !found {
			other = true
		}
	default:
		other = true
	}
	return
}

// c18helperRelevant reports whether a same-package function (transitively) operates on the etcd
// mutex or on a sync lock (rooted at one of roots, if given).
func c18helperRelevant(pkg *packages.Package, fd *ast.FuncDecl, roots map[types.Object]bool) bool {
	for _, g := range reach(flow.NewFunc(pkg, fd), 2) {
		for _, call := range calls(g.Body, true) {
			callee, recv, _ := c18target(pkg, call)
			if c18etcdOp(callee) != "" {
				return true
			}
			if op, x := c18syncOpOf(c18eff{call: call, callee: callee, recv: recv}); op != "" {
				if roots == nil {
					return true
				}
				if _, rooted := c18rootedIn(g, x, roots); rooted {
					return true
				}
			}
		}
	}
	return false
}

// c18opaqueTracker notes helpers / closures the analysis could not follow; a failed obligation
// is then reported as undecided, never as a violation.
type c18opaqueTracker struct {
	pkg     *packages.Package
	opaque  []string
	helpers map[*ast.FuncDecl]bool // direct same-package callees left to the engine's inlining
	// relevant decides whether a helper the engine did not interpret matters to the rule
	// (nil: it operates on a sync lock or the etcd mutex)
	relevant func(fd *ast.FuncDecl) bool
}

func (o *c18opaqueTracker) note(f *flow.Func, call *ast.CallExpr, deferred bool, isOpaque bool) {
	if isOpaque {
		o.opaque = append(o.opaque, f.Pos(call.Pos())+" "+f.Render(call))
	}
	if deferred {
		return
	}
	if fo, ok := f.Callee(call).(*types.Func); ok && fo.Pkg() == o.pkg.Types {
		if fd := declOf(o.pkg, fo); fd != nil {
			if o.helpers == nil {
				o.helpers = map[*ast.FuncDecl]bool{}
			}
			o.helpers[fd] = true
		}
	}
}

// finish adds the relevant helpers that the engine did not interpret in place.
func (o *c18opaqueTracker) finish(res *flow.Result) string {
	inl := map[string]bool{}
	for _, n := range res.Inlined {
		inl[n] = true
	}
	for fd := range o.helpers {
		rel := o.relevant
		if rel == nil {
			rel = func(fd *ast.FuncDecl) bool { return c18helperRelevant(o.pkg, fd, nil) }
		}
		if !inl[flow.NewFunc(o.pkg, fd).Name] && rel(fd) {
			o.opaque = append(o.opaque, "helper "+fd.Name.Name+" is not interpreted in place")
		}
	}
	sort.Strings(o.opaque)
	return strings.Join(o.opaque, "; ")
}

// c18checkOrUndecide is c.Check unless the analysis met code it could not follow.
func c18checkOrUndecide(c *core.Ctx, opaque string, ok bool, rule, construct, p, okDetail, badDetail string, w ...string) {
	if !ok && opaque != "" {
		c.Undecide(rule, construct, p, "not decidable: the analysis could not follow "+opaque+" (would otherwise report: "+badDetail+")")
		return
	}
	c.Check(ok, rule, construct, p, okDetail, badDetail, w...)
}

func c18MutexLock(c *core.Ctx, t *types.Named, f *flow.Func) map[*types.Var]bool {
	cons := fname(c18cl, t.Obj().Name(), "Lock")
	pkg := f.Pkg
	roots := c18recvVarsOf(pkg, t)
	named := c18namedResult(f)
	fields := map[*types.Var]bool{}

	// where does the result of the etcd acquisition go?
	acquires := c18etcdSites(f, "acquire")
	var resKeys []string
	dropped := false
	for _, a := range acquires {
		keys, d, other := c18holderKeys(f, a.g, a.call, named, 0)
		if other {
			c.Undecide("R-C18-1", cons+"|etcd acquisition result", pos(c, a.call), "cannot tell where the result of the etcd Lock goes")
			return fields
		}
		resKeys = append(resKeys, keys...)
		dropped = dropped || d
	}

	track := &c18opaqueTracker{pkg: pkg, relevant: func(fd *ast.FuncDecl) bool { return c18helperRelevant(pkg, fd, roots) }}
	apply := func(st *flow.State, e c18eff) {
		if op, x := c18syncOpOf(e); op != "" {
			fld, rooted := c18rootedIn(f, x, roots)
			if !rooted {
				return
			}
			switch op {
			case "Lock":
				st.Set(c18evLocal, flow.True)
				if fld != nil {
					fields[fld] = true
				}
			case "Unlock":
				st.Set(c18evLocal, flow.False)
			}
			return
		}
		if c18etcdOp(e.callee) == "acquire" {
			if !st.Is(c18evLocal, flow.True) {
				st.Set(c18evBadOrder, flow.True)
			}
			st.Set(c18evEtcd, flow.True)
		}
	}
	ptrs := &c18ptrArgs{f: f, track: track}
	res := analyze(c, f, flow.Config{
		NoHavoc:  true,
		Inline:   inlineSamePkg(f),
		OnInline: ptrs.onInline,
		MayPanic: func(call *ast.CallExpr, callee types.Object) bool {
			target, _, _ := c18target(pkg, call)
			return c18etcdOp(target) != ""
		},
		OnCall: func(st *flow.State, call *ast.CallExpr, callee types.Object, deferred bool) {
			effs, opaque := c18resolve(pkg, call, deferred, 0)
			for _, e := range effs {
				apply(st, e)
			}
			track.note(f, call, deferred, opaque)
		},
		OnNode: func(st *flow.State, n ast.Node) {
			ptrs.onNode(st, n)
			// `return x` in a function with a named error result assigns the result before
			// the deferred functions run
			ret, ok := n.(*ast.ReturnStmt)
			if !ok || named == nil || len(ret.Results) == 0 || c18declOrLitOf(f, ret) != f.Node {
				return
			}
			st.Set(f.NilKey(named), c18nilOf(f, st, c18lastResult(ret)))
		},
	})
	if res == nil {
		return fields
	}
	opaque := track.finish(res)

	type verdict struct {
		n   int
		bad *flow.State
		why string
	}
	var succ, fail, pan, order verdict
	for _, ex := range res.Exits {
		st := ex.State
		held := st.Is(c18evLocal, flow.True)
		if os.Getenv("C18_DEBUG") == "2" {
			fmt.Fprintf(os.Stderr, "Lock exit kind=%d facts=%v\n   trace=%v\n", ex.Kind, st.Facts(), st.Trace())
		}
		if ex.Kind == flow.ExitPanic {
			pan.n++
			if held && pan.bad == nil {
				pan.bad, pan.why = st, "a panic propagating out of Lock (etcd client) leaves the process-local lock held: every later Lock of this name on this member blocks forever"
			}
			continue
		}
		var isNil flow.Val
		switch {
		case named != nil:
			isNil = st.Get(f.NilKey(named))
			if r := c18lastResult(ex.Return); r != nil && c18nilOf(f, st, r) != flow.Unknown {
				isNil = c18nilOf(f, st, r)
			}
		default:
			isNil = c18nilOf(f, st, c18lastResult(ex.Return))
		}
		if st.Is(c18evBadOrder, flow.True) && order.bad == nil {
			order.bad = st
		}
		// an exit whose error value is not correlated with the lock state is wrong for one of
		// the two outcomes
		// (an exit with an unknown error value counts as a success and as a failure exit)
		if isNil != flow.False {
			succ.n++
		}
		if isNil != flow.True {
			fail.n++
		}
		if isNil == flow.True || (isNil == flow.Unknown && !held) {
			switch {
			case succ.bad != nil:
			case !held && isNil == flow.Unknown:
				succ.bad, succ.why = st, "Lock can return a nil error without holding the process-local lock (the returned error is not correlated with the lock state on this path): two goroutines of one member are inside the critical section together"
			case !held:
				succ.bad, succ.why = st, "Lock returns nil without holding the process-local lock: goroutines of one member (one etcd session) are no longer excluded from each other"
			case !st.Is(c18evEtcd, flow.True):
				succ.bad, succ.why = st, "Lock returns nil without having called the etcd session mutex: no exclusion across members"
			case dropped:
				succ.bad, succ.why = st, "the result of the etcd acquisition is discarded: Lock reports success after a failed or timed-out etcd Lock"
			default:
				okRes := false
				for _, k := range resKeys {
					if k != "" && st.Is(k, flow.True) {
						okRes = true
					}
				}
				if !okRes {
					succ.bad, succ.why = st, "Lock returns nil on a path where the etcd acquisition is not known to have returned nil (its error is not what decides the result)"
				}
			}
		}
		if isNil == flow.False || (isNil == flow.Unknown && held) {
			if held && fail.bad == nil {
				fail.why = "Lock returns a non-nil error (failed or timed-out etcd acquisition) with the process-local lock still held: the mutex is not left free, every later Lock on this member blocks forever"
				if isNil == flow.Unknown {
					fail.why = "Lock keeps the process-local lock on a return whose error may be non-nil (the lock state is not correlated with the returned error): a failed or timed-out acquisition does not leave the mutex free"
				}
				fail.bad = st
			}
		}
	}
	// (the etcd call is what the rule demands, not its subject: no vacuity guard on it)
	c.Count("R-C18-1:etcd acquire calls in "+cons, len(acquires))
	c.Count("R-C18-1:panic exits of "+cons, pan.n)
	c.RequireCount("R-C18-1", "success exits of "+cons, succ.n, 1)
	p := pos(c, f.Body)
	c18checkOrUndecide(c, opaque, succ.bad == nil, "R-C18-1", cons+"|nil return holds local lock and etcd lock", p,
		sprintf("%d success exit state(s): local lock held, etcd acquisition returned nil", succ.n), succ.why, witness(succ.bad)...)
	if len(acquires) > 0 {
		c18checkOrUndecide(c, opaque, fail.bad == nil && fail.n > 0, "R-C18-1", cons+"|error return releases local lock", p,
			sprintf("%d failure exit state(s): local lock not held", fail.n),
			c18or(fail.why, "Lock has no exit reporting a failed etcd acquisition"), witness(fail.bad)...)
		c18checkOrUndecide(c, opaque, pan.bad == nil, "R-C18-1", cons+"|panic exit releases local lock", p,
			sprintf("%d panic exit state(s): local lock not held", pan.n), pan.why, witness(pan.bad)...)
	}
	// order at the call itself (covers paths that never return)
	var badAt *flow.State
	for _, a := range acquires {
		for _, st := range res.At[a.call] {
			if !st.Is(c18evLocal, flow.True) {
				badAt = st
			}
		}
	}
	if badAt == nil {
		badAt = order.bad
	}
	if len(acquires) > 0 {
		c18checkOrUndecide(c, opaque, badAt == nil, "R-C18-1", cons+"|etcd acquired under local lock", p,
			"every etcd acquisition is evaluated with the process-local lock held",
			"the etcd session mutex is acquired before the process-local lock: a second goroutine of the same session passes the etcd Lock at once (already owner) and the key is deleted by the first Unlock while the second still holds the lock", witness(badAt)...)
	}
	return fields
}

// c18ptrArgs carries the facts about a local across a call that is handed its address
// (`defer m.releaseOnFailure(&panicked, &err)`: a closure turned into a method, the captured variables
// became pointer parameters). The engine forgets what it knows about x when &x is taken; the value x
// has at that moment is kept as a snapshot until x is assigned again.
type c18ptrArgs struct {
	f      *flow.Func
	track  *c18opaqueTracker
	seeded map[string]bool // fact keys installed by seedStruct (the engine does not rename them at calls)
}

const c18snap = "ev:c18:snap:"

func (p *c18ptrArgs) keys(g *flow.Func, x ast.Expr) []string {
	k, _ := g.Atom(x)
	return []string{k, g.NilKey(x)}
}

// onNode: snapshots at `&x` operands, dropped at assignments to x.
func (p *c18ptrArgs) onNode(st *flow.State, n ast.Node) {
	f := p.f
	drop := func(e ast.Expr) {
		if id, ok := ast.Unparen(e).(*ast.Ident); ok {
			for _, k := range p.keys(f, id) {
				st.Set(c18snap+k, flow.Unknown)
			}
		}
	}
	switch s := n.(type) {
	case *ast.AssignStmt:
		for i, l := range s.Lhs {
			drop(l)
			if sel, ok := ast.Unparen(l).(*ast.SelectorExpr); ok {
				// a field of a local flag struct is assigned: what was seeded from its literal is stale
				for _, k := range p.keys(f, sel) {
					st.Set(k, flow.Unknown)
				}
			}
			if len(s.Lhs) == len(s.Rhs) {
				p.seedStruct(st, l, s.Rhs[i])
			}
			// the engine does not track a variable whose address was taken: keep the shadow value
			// of constant assignments (`panicked = false`, `err = nil`)
			id, ok := ast.Unparen(l).(*ast.Ident)
			if !ok || len(s.Lhs) != len(s.Rhs) || (s.Tok != token.ASSIGN && s.Tok != token.DEFINE) {
				continue
			}
			ks := p.keys(f, id)
			r := ast.Unparen(s.Rhs[i])
			if tv, ok := f.Info.Types[r]; ok && tv.Value != nil {
				switch tv.Value.ExactString() {
				case "true":
					st.Set(c18snap+ks[0], flow.True)
				case "false":
					st.Set(c18snap+ks[0], flow.False)
				}
			} else if rid, ok := r.(*ast.Ident); ok && rid.Name == "nil" {
				if _, isNil := f.Info.Uses[rid].(*types.Nil); isNil {
					st.Set(c18snap+ks[1], flow.True)
				}
			}
		}
	case *ast.IncDecStmt:
		drop(s.X)
	}
	ast.Inspect(n, func(x ast.Node) bool {
		if _, ok := x.(*ast.FuncLit); ok {
			return false
		}
		u, ok := x.(*ast.UnaryExpr)
		if !ok || u.Op != token.AND {
			return true
		}
		if id, ok := ast.Unparen(u.X).(*ast.Ident); ok {
			for _, k := range p.keys(f, id) {
				if v := st.Get(k); v != flow.Unknown {
					st.Set(c18snap+k, v)
				}
			}
		}
		return true
	})
}

// seedStruct records the constant flag fields of a local struct value built by a composite literal
// (`a := &attempt{panicked: true}`: the captured variables of a closure became fields of a struct that is
// handed to a method): bool fields and nil-able fields, zero values for the fields not mentioned.
func (p *c18ptrArgs) seedStruct(st *flow.State, lhs, rhs ast.Expr) {
	f := p.f
	id, ok := ast.Unparen(lhs).(*ast.Ident)
	if !ok || id.Name == "_" {
		return
	}
	r := ast.Unparen(rhs)
	if u, ok := r.(*ast.UnaryExpr); ok && u.Op == token.AND {
		r = ast.Unparen(u.X)
	}
	cl, ok := r.(*ast.CompositeLit)
	if !ok {
		return
	}
	tv, ok := f.Info.Types[cl]
	if !ok || tv.Type == nil {
		return
	}
	stt, ok := tv.Type.Underlying().(*types.Struct)
	if !ok {
		return
	}
	given := map[string]ast.Expr{}
	for _, el := range cl.Elts {
		kv, ok := el.(*ast.KeyValueExpr)
		if !ok {
			return // positional literal: not followed
		}
		if k, ok := kv.Key.(*ast.Ident); ok {
			given[k.Name] = kv.Value
		}
	}
	for i := 0; i < stt.NumFields(); i++ {
		fld := stt.Field(i)
		sel := &ast.SelectorExpr{X: id, Sel: ast.NewIdent(fld.Name())}
		val, mentioned := given[fld.Name()]
		switch t := fld.Type().Underlying().(type) {
		case *types.Basic:
			if t.Info()&types.IsBoolean == 0 {
				continue
			}
			v := flow.False
			if mentioned {
				vt, ok := f.Info.Types[val]
				if !ok || vt.Value == nil {
					continue
				}
				if vt.Value.ExactString() == "true" {
					v = flow.True
				}
			}
			p.seed(st, f.VarKey(sel), v)
		case *types.Pointer, *types.Interface, *types.Map, *types.Slice:
			if !mentioned {
				p.seed(st, f.NilKey(sel), flow.True)
			} else if vid, ok := ast.Unparen(val).(*ast.Ident); ok && vid.Name == "nil" {
				p.seed(st, f.NilKey(sel), flow.True)
			}
		}
	}
}

func (p *c18ptrArgs) seed(st *flow.State, key string, v flow.Val) {
	if p.seeded == nil {
		p.seeded = map[string]bool{}
	}
	p.seeded[key] = true
	st.Set(key, v)
}

// onInline: *param ↔ x for every parameter bound to &x; seeded struct facts follow a parameter bound
// to the struct variable.
func (p *c18ptrArgs) onInline(st *flow.State, ev *flow.InlineEvent) {
	f := p.f
	for i, prm := range ev.Params {
		if i >= len(ev.Args) || prm == nil {
			continue
		}
		arg := ast.Unparen(ev.Args[i])
		if aid, ok := arg.(*ast.Ident); ok && ev.Enter {
			from, to := f.Render(aid)+".", ev.Fn.Render(prm)+"."
			for k := range p.seeded {
				if v := st.Get(k); v != flow.Unknown && strings.Contains(k, from) {
					nk := strings.Replace(k, from, to, 1)
					if st.Get(nk) == flow.Unknown {
						p.seed(st, nk, v)
					}
				}
			}
		}
		u, isAddr := arg.(*ast.UnaryExpr)
		if !isAddr || u.Op != token.AND {
			if tv, ok := f.Info.Types[arg]; ok && tv.Type != nil && ev.Enter && p.track != nil {
				if pt, isPtr := tv.Type.Underlying().(*types.Pointer); isPtr {
					if _, toStruct := pt.Elem().Underlying().(*types.Struct); !toStruct {
						p.track.opaque = append(p.track.opaque, f.Pos(ev.Call.Pos())+" pointer argument "+f.Render(arg)+" is not followed")
					}
				}
			}
			continue
		}
		id, ok := ast.Unparen(u.X).(*ast.Ident)
		if !ok {
			if ev.Enter && p.track != nil {
				p.track.opaque = append(p.track.opaque, f.Pos(ev.Call.Pos())+" address argument "+f.Render(arg)+" is not followed")
			}
			continue
		}
		star := &ast.StarExpr{X: prm}
		from, to := p.keys(f, id), p.keys(ev.Fn, star)
		if !ev.Enter {
			from, to = to, from
		}
		for j := range from {
			v := st.Get(from[j])
			if v == flow.Unknown && ev.Enter {
				v = st.Get(c18snap + from[j])
			}
			if v != flow.Unknown && (ev.Enter || st.Get(to[j]) == flow.Unknown) {
				st.Set(to[j], v)
			}
		}
	}
}

// c18declOrLitOf returns the innermost function (declaration or literal) of f's package that
// spans n.
func c18declOrLitOf(f *flow.Func, n ast.Node) ast.Node {
	fd := c18declAt(f.Pkg, n)
	if fd == nil {
		return nil
	}
	var inner ast.Node = fd
	ast.Inspect(fd, func(x ast.Node) bool {
		if l, ok := x.(*ast.FuncLit); ok && contains(l, n) {
			inner = l
		}
		return true
	})
	return inner
}

func c18or(a, b string) string {
	if a != "" {
		return a
	}
	return b
}

func c18MutexUnlock(c *core.Ctx, t *types.Named, f *flow.Func) map[*types.Var]bool {
	cons := fname(c18cl, t.Obj().Name(), "Unlock")
	pkg := f.Pkg
	roots := c18recvVarsOf(pkg, t)
	fields := map[*types.Var]bool{}
	releases := c18etcdSites(f, "release")
	var badOrder *flow.State
	track := &c18opaqueTracker{pkg: pkg, relevant: func(fd *ast.FuncDecl) bool { return c18helperRelevant(pkg, fd, roots) }}
	apply := func(st *flow.State, e c18eff) {
		if op, x := c18syncOpOf(e); op == "Unlock" {
			if fld, rooted := c18rootedIn(f, x, roots); rooted {
				st.Set(c18evLocalRel, flow.True)
				if fld != nil {
					fields[fld] = true
				}
			}
			return
		}
		if c18etcdOp(e.callee) == "release" {
			if st.Is(c18evLocalRel, flow.True) && badOrder == nil {
				badOrder = st
			}
			st.Set(c18evEtcd, flow.True)
		}
	}
	res := analyze(c, f, flow.Config{
		NoHavoc: true,
		Inline:  inlineSamePkg(f),
		OnCall: func(st *flow.State, call *ast.CallExpr, callee types.Object, deferred bool) {
			effs, opaque := c18resolve(pkg, call, deferred, 0)
			for _, e := range effs {
				apply(st, e)
			}
			track.note(f, call, deferred, opaque)
		},
	})
	if res == nil {
		return fields
	}
	opaque := track.finish(res)
	n := 0
	var badLocal, badEtcd *flow.State
	for _, ex := range res.Exits {
		if ex.Kind != flow.ExitReturn {
			continue
		}
		n++
		if !ex.State.Is(c18evLocalRel, flow.True) && badLocal == nil {
			badLocal = ex.State
		}
		if !ex.State.Is(c18evEtcd, flow.True) && badEtcd == nil {
			badEtcd = ex.State
		}
	}
	c.RequireCount("R-C18-1", "return exits of "+cons, n, 1)
	p := pos(c, f.Body)
	c18checkOrUndecide(c, opaque, badLocal == nil, "R-C18-1", cons+"|every return releases local lock", p,
		sprintf("%d return exit state(s), process-local lock released on all (also when etcd reports an error)", n),
		"Unlock can return without releasing the process-local lock (e.g. when the etcd release fails): every later Lock of this name on this member blocks forever", witness(badLocal)...)
	c18checkOrUndecide(c, opaque, badEtcd == nil, "R-C18-1", cons+"|every return releases etcd lock", p,
		"the etcd release is called on every return path",
		"Unlock can return without calling the etcd release: the lock key stays in etcd and other members never acquire the mutex", witness(badEtcd)...)
	if len(releases) > 0 {
		c18checkOrUndecide(c, opaque, badOrder == nil, "R-C18-1", cons+"|etcd released under local lock", p,
			"the etcd release is evaluated before the process-local lock is released",
			"the process-local lock is released before the etcd key: the next local holder passes the etcd Lock as session owner and then loses the key to this Unlock while inside the critical section", witness(badOrder)...)
	}
	return fields
}

// ---------------------------------------------------------------------------------------
// R-C18-2

type c18origin struct {
	kind string    // "table" | "fresh" | "unknown"
	val  ssa.Value // the value inside the subject function
	key  ssa.Value // table key (nil if not visible)
	desc string
}

func c18isSyncMapMethod(fn *ssa.Function, names ...string) bool {
	if fn == nil || fn.Signature.Recv() == nil {
		return false
	}
	rt := fn.Signature.Recv().Type()
	if p, ok := rt.(*types.Pointer); ok {
		rt = p.Elem()
	}
	n, ok := rt.(*types.Named)
	if !ok || n.Obj().Pkg() == nil || n.Obj().Pkg().Path() != "sync" || n.Obj().Name() != "Map" {
		return false
	}
	for _, nm := range names {
		if fn.Name() == nm {
			return true
		}
	}
	return false
}

func c18origins(v ssa.Value, idx int, seen map[ssa.Value]bool, depth int) []c18origin {
	if v == nil || seen[v] {
		return nil
	}
	seen[v] = true
	rec := func(x ssa.Value) []c18origin { return c18origins(x, 0, seen, depth) }
	switch x := v.(type) {
	case *ssa.Const:
		return nil
	case *ssa.MakeInterface:
		return rec(x.X)
	case *ssa.ChangeInterface:
		return rec(x.X)
	case *ssa.ChangeType:
		return rec(x.X)
	case *ssa.Convert:
		return rec(x.X)
	case *ssa.TypeAssert:
		return rec(x.X)
	case *ssa.Phi:
		var out []c18origin
		for _, e := range x.Edges {
			out = append(out, rec(e)...)
		}
		return out
	case *ssa.Extract:
		switch t := x.Tuple.(type) {
		case *ssa.Call:
			return c18origins(t, x.Index, seen, depth)
		default:
			if x.Index == 0 {
				return rec(x.Tuple)
			}
			return nil
		}
	case *ssa.Lookup:
		if _, ok := x.X.Type().Underlying().(*types.Map); ok {
			return []c18origin{{kind: "table", val: v, key: x.Index, desc: "map lookup"}}
		}
	case *ssa.Alloc:
		return []c18origin{{kind: "fresh", val: v, desc: "allocation of " + x.Type().String()}}
	case *ssa.UnOp:
		if x.Op == token.MUL {
			if a, ok := x.X.(*ssa.Alloc); ok {
				// local cell: what is stored into it
				var out []c18origin
				for _, r := range *a.Referrers() {
					if s, ok := r.(*ssa.Store); ok && s.Addr == a {
						out = append(out, rec(s.Val)...)
					}
				}
				return out
			}
			return []c18origin{{kind: "unknown", val: v, desc: "load of a single (not name-keyed) location " + x.X.String()}}
		}
	case *ssa.Call:
		callee := x.Call.StaticCallee()
		if callee == nil {
			return []c18origin{{kind: "unknown", val: v, desc: "result of a dynamic call"}}
		}
		if c18isSyncMapMethod(callee, "Load", "LoadOrStore") && len(x.Call.Args) >= 2 {
			if idx != 0 {
				return nil
			}
			return []c18origin{{kind: "table", val: v, key: x.Call.Args[1], desc: "sync.Map." + callee.Name()}}
		}
		if callee.Pkg != nil && strings.HasPrefix(callee.Pkg.Pkg.Path(), Mod) && depth < 2 && len(callee.Blocks) > 0 {
			var inner []c18origin
			for _, b := range callee.Blocks {
				for _, ins := range b.Instrs {
					if r, ok := ins.(*ssa.Return); ok && idx < len(r.Results) {
						inner = append(inner, c18origins(r.Results[idx], 0, map[ssa.Value]bool{}, depth+1)...)
					}
				}
			}
			var out []c18origin
			for _, o := range inner {
				out = append(out, c18origin{kind: o.kind, val: v, desc: o.desc + " in " + callee.Name()})
			}
			return out
		}
		return []c18origin{{kind: "unknown", val: v, desc: "result of " + callee.String()}}
	}
	return []c18origin{{kind: "unknown", val: v, desc: v.String()}}
}

// c18dependsOn reports whether v is computed from parameter p.
func c18dependsOn(v ssa.Value, p *ssa.Parameter, seen map[ssa.Value]bool, depth int) bool {
	if v == nil || seen[v] || depth > 10 {
		return false
	}
	seen[v] = true
	if v == p {
		return true
	}
	rec := func(x ssa.Value) bool { return c18dependsOn(x, p, seen, depth+1) }
	switch x := v.(type) {
	case *ssa.BinOp:
		return rec(x.X) || rec(x.Y)
	case *ssa.Convert:
		return rec(x.X)
	case *ssa.ChangeType:
		return rec(x.X)
	case *ssa.MakeInterface:
		return rec(x.X)
	case *ssa.Slice:
		return rec(x.X)
	case *ssa.Phi:
		for _, e := range x.Edges {
			if rec(e) {
				return true
			}
		}
	case *ssa.Call:
		for _, a := range x.Call.Args {
			if rec(a) {
				return true
			}
		}
	}
	return false
}

// c18storedInTable reports whether value v (possibly wrapped) is inserted into a table keyed
// by parameter p in the same function.
func c18storedInTable(v ssa.Value, p *ssa.Parameter, seen map[ssa.Value]bool, depth int) bool {
	if v == nil || seen[v] || depth > 4 || v.Referrers() == nil {
		return false
	}
	seen[v] = true
	for _, r := range *v.Referrers() {
		switch x := r.(type) {
		case *ssa.MapUpdate:
			if x.Value == v && c18dependsOn(x.Key, p, map[ssa.Value]bool{}, 0) {
				return true
			}
		case *ssa.Call:
			if c18isSyncMapMethod(x.Call.StaticCallee(), "Store", "LoadOrStore", "Swap") && len(x.Call.Args) >= 3 && x.Call.Args[2] == v &&
				c18dependsOn(x.Call.Args[1], p, map[ssa.Value]bool{}, 0) {
				return true
			}
			// handed to a same-module helper that records its parameter under a key which is, at this
			// call, computed from the lock name (rememberMutex(name, m))
			if callee := x.Call.StaticCallee(); callee != nil && callee.Pkg != nil && strings.HasPrefix(callee.Pkg.Pkg.Path(), Mod) &&
				len(callee.Blocks) > 0 && depth < 3 && len(callee.Params) == len(x.Call.Args) {
				for i, a := range x.Call.Args {
					if a != v {
						continue
					}
					for j, kp := range callee.Params {
						if j != i && c18dependsOn(x.Call.Args[j], p, map[ssa.Value]bool{}, 0) &&
							c18storedInTable(callee.Params[i], kp, map[ssa.Value]bool{}, depth+1) {
							return true
						}
					}
				}
			}
		case *ssa.MakeInterface:
			if c18storedInTable(x, p, seen, depth+1) {
				return true
			}
		case *ssa.ChangeType:
			if c18storedInTable(x, p, seen, depth+1) {
				return true
			}
		case *ssa.ChangeInterface:
			if c18storedInTable(x, p, seen, depth+1) {
				return true
			}
		case *ssa.Phi:
			if c18storedInTable(x, p, seen, depth+1) {
				return true
			}
		case *ssa.Extract:
			if c18storedInTable(x, p, seen, depth+1) {
				return true
			}
		}
	}
	return false
}

// c18FactoryMethods resolves, by role, the methods of pkg/cluster types implementing the
// Cluster interface that return a cluster.Mutex.
func c18FactoryMethods(c *core.Ctx) (out []*types.Func) {
	pkg := c.Prog.Pkg(c18cl)
	cl := namedType(c, c18cl, "Cluster")
	mx := namedType(c, c18cl, "Mutex")
	if pkg == nil || cl == nil || mx == nil {
		return nil
	}
	it, ok := cl.Underlying().(*types.Interface)
	if !ok {
		c.Errorf("anchor: %s.Cluster is not an interface", c18cl)
		return nil
	}
	var names []string
	for i := 0; i < it.NumMethods(); i++ {
		m := it.Method(i)
		sig := m.Type().(*types.Signature)
		if sig.Results().Len() >= 1 && types.Identical(sig.Results().At(0).Type(), mx) {
			names = append(names, m.Name())
		}
	}
	scope := pkg.Types.Scope()
	for _, name := range scope.Names() {
		tn, ok := scope.Lookup(name).(*types.TypeName)
		if !ok {
			continue
		}
		n, ok := tn.Type().(*types.Named)
		if !ok || types.IsInterface(n) || !types.Implements(types.NewPointer(n), it) {
			continue
		}
		ms := types.NewMethodSet(types.NewPointer(n))
		for _, mn := range names {
			if sel := ms.Lookup(pkg.Types, mn); sel != nil {
				if fo, ok := sel.Obj().(*types.Func); ok {
					out = append(out, fo)
				}
			}
		}
	}
	return out
}

func c18Factory(c *core.Ctx) {
	ms := c18FactoryMethods(c)
	if !c.RequireCount("R-C18-2", "Mutex factory methods of Cluster implementations in pkg/cluster", len(ms), 1) {
		return
	}
	prog, _ := c.Prog.SSA()
	for _, m := range ms {
		recvName := ""
		if sig, ok := m.Type().(*types.Signature); ok && sig.Recv() != nil {
			rt := sig.Recv().Type()
			if p, ok := rt.(*types.Pointer); ok {
				rt = p.Elem()
			}
			if n, ok := rt.(*types.Named); ok {
				recvName = n.Obj().Name()
			}
		}
		cons := fname(c18cl, recvName, m.Name())
		sf := prog.FuncValue(m)
		f := fn(c, c18cl, recvName, m.Name())
		if sf == nil || len(sf.Blocks) == 0 || f == nil {
			c.Errorf("R-C18-2: anchor: no SSA body for %s", cons)
			continue
		}
		// the name parameter: first string parameter after the receiver
		var nameP *ssa.Parameter
		for i, p := range sf.Params {
			if i == 0 {
				continue
			}
			if b, ok := p.Type().Underlying().(*types.Basic); ok && b.Info()&types.IsString != 0 {
				nameP = p
				break
			}
		}
		if nameP == nil {
			c.Errorf("R-C18-2: anchor: %s has no name parameter", cons)
			continue
		}
		var origins []c18origin
		returns := 0
		for _, b := range sf.Blocks {
			for _, ins := range b.Instrs {
				if r, ok := ins.(*ssa.Return); ok && len(r.Results) >= 1 {
					returns++
					origins = append(origins, c18origins(r.Results[0], 0, map[ssa.Value]bool{}, 0)...)
				}
			}
		}
		c.RequireCount("R-C18-2", "return instructions of "+cons, returns, 1)
		nTable, nFresh := 0, 0
		var bad []string
		undecided := ""
		seenVal := map[ssa.Value]bool{}
		for _, o := range origins {
			if seenVal[o.val] {
				continue
			}
			seenVal[o.val] = true
			switch o.kind {
			case "table":
				nTable++
				if o.key != nil && !c18dependsOn(o.key, nameP, map[ssa.Value]bool{}, 0) {
					bad = append(bad, "a returned mutex is looked up with a key that does not depend on the lock name ("+o.desc+")")
				}
			case "fresh":
				nFresh++
				if !c18storedInTable(o.val, nameP, map[ssa.Value]bool{}, 0) {
					bad = append(bad, "a returned mutex is the "+o.desc+", created on every call and never recorded under the lock name")
				}
			default:
				undecided = o.desc
			}
		}
		switch {
		case len(origins) == 0:
			c.Undecide("R-C18-2", cons+"|one local lock per name", pos(c, f.Body), "no non-nil value is returned")
		case len(bad) > 0 || nTable == 0:
			why := "no returned value comes from a per-name table"
			if len(bad) > 0 {
				why = bad[0]
			}
			c.Violate("R-C18-2", cons+"|one local lock per name", pos(c, f.Body),
				why+": two callers asking this member for the same lock name get two different process-local sync.Mutex values, and the etcd mutex is owned by the member's single session (a second Lock through the same session succeeds at once), so both Lock() calls return together — no exclusion between goroutines of one member")
		case undecided != "":
			c.Undecide("R-C18-2", cons+"|one local lock per name", pos(c, f.Body), "cannot classify the origin of a returned value: "+undecided)
		default:
			c.Discharge("R-C18-2", cons+"|one local lock per name", pos(c, f.Body),
				sprintf("%d returned value origin(s) are lookups in a table keyed by the name, %d fresh allocation(s) are inserted under the name before being returned", nTable, nFresh))
			c18TableDiscipline(c, f, cons)
		}
	}
}

// c18TableDiscipline checks the check-then-insert discipline of a map-based mutex table: the
// lookup and the insert are made in one critical section of a sync lock.
func c18TableDiscipline(c *core.Ctx, f *flow.Func, cons string) {
	mx := namedType(c, c18cl, "Mutex")
	if mx == nil {
		return
	}
	isTable := func(e ast.Expr) bool {
		ix, ok := ast.Unparen(e).(*ast.IndexExpr)
		if !ok {
			return false
		}
		tv, ok := f.Info.Types[ix.X]
		if !ok {
			return false
		}
		m, ok := tv.Type.Underlying().(*types.Map)
		if !ok {
			return false
		}
		return types.AssignableTo(m.Elem(), mx)
	}
	const (
		evW      = "ev:c18:wlocked#" // + lock identity
		evR      = "ev:c18:rlocked#"
		evLooked = "ev:c18:looked#"
	)
	// lock identity: the mutex field (or the rendered expression for other locks)
	lockID := func(g *flow.Func, x ast.Expr) string {
		if x == nil {
			return "?"
		}
		e := ast.Unparen(x)
		if u, ok := e.(*ast.UnaryExpr); ok {
			e = ast.Unparen(u.X)
		}
		if sel, ok := e.(*ast.SelectorExpr); ok {
			if sl := f.Info.Selections[sel]; sl != nil {
				if v, ok := sl.Obj().(*types.Var); ok && v.IsField() {
					return v.Name() + "@" + g.Pos(v.Pos())
				}
			}
		}
		return g.Render(e)
	}
	heldWith := func(st *flow.State, prefix string) []string {
		var ids []string
		for _, kv := range st.Facts() {
			if strings.HasPrefix(kv, prefix) && strings.HasSuffix(kv, "=T") {
				ids = append(ids, kv[len(prefix):len(kv)-2])
			}
		}
		return ids
	}
	touchesTable := func(n ast.Node) bool {
		found := false
		ast.Inspect(n, func(x ast.Node) bool {
			if e, ok := x.(ast.Expr); ok && isTable(e) {
				found = true
			}
			return !found
		})
		return found
	}
	var bad *flow.State
	why := ""
	storeSites, lookupSites := map[ast.Node]bool{}, map[ast.Node]bool{}
	track := &c18opaqueTracker{pkg: f.Pkg, relevant: func(fd *ast.FuncDecl) bool {
		for _, g := range reach(flow.NewFunc(f.Pkg, fd), 2) {
			if touchesTable(g.Body) {
				return true
			}
		}
		return false
	}}
	res := analyze(c, f, flow.Config{
		NoHavoc: true,
		Inline:  inlineSamePkg(f),
		OnCall: func(st *flow.State, call *ast.CallExpr, callee types.Object, deferred bool) {
			effs, opq := c18resolve(f.Pkg, call, deferred, 0)
			track.note(f, call, deferred, opq)
			for _, e := range effs {
				op, x := c18syncOpOf(e)
				if op == "" {
					continue
				}
				id := lockID(f, x)
				switch op {
				case "Lock":
					st.Set(evW+id, flow.True)
					st.Set(evLooked+id, flow.False)
				case "Unlock":
					st.Set(evW+id, flow.False)
					st.Set(evLooked+id, flow.False)
				case "RLock":
					st.Set(evR+id, flow.True)
				case "RUnlock":
					st.Set(evR+id, flow.False)
				}
			}
		},
		OnNode: func(st *flow.State, n ast.Node) {
			if _, isCall := n.(*ast.CallExpr); isCall {
				return
			}
			var lhs []ast.Expr
			if as, ok := n.(*ast.AssignStmt); ok {
				lhs = as.Lhs
			}
			isLHS := func(e ast.Expr) bool {
				for _, l := range lhs {
					if ast.Unparen(l) == e {
						return true
					}
				}
				return false
			}
			ast.Inspect(n, func(x ast.Node) bool {
				if _, ok := x.(*ast.FuncLit); ok {
					return false
				}
				e, ok := x.(ast.Expr)
				if !ok || !isTable(e) {
					return true
				}
				w := heldWith(st, evW)
				if isLHS(e) {
					storeSites[e] = true
					looked := false
					for _, id := range w {
						if st.Is(evLooked+id, flow.True) {
							looked = true
						}
					}
					switch {
					case bad != nil:
					case len(w) == 0:
						bad, why = st, "the mutex table is written without holding a lock: two concurrent callers for one name both insert and get different mutexes"
					case !looked:
						bad, why = st, "the mutex table is written without a lookup in the same critical section: a concurrent caller's entry for the name is overwritten and the two callers hold different mutexes"
					}
				} else {
					lookupSites[e] = true
					if len(w) == 0 && len(heldWith(st, evR)) == 0 && bad == nil {
						bad, why = st, "the mutex table is read without holding a lock"
					}
					for _, id := range w {
						st.Set(evLooked+id, flow.True)
					}
				}
				return true
			})
		},
	})
	stores, lookups := len(storeSites), len(lookupSites)
	if res == nil || (stores == 0 && lookups == 0) {
		return // sync.Map based table: LoadOrStore is atomic
	}
	c18checkOrUndecide(c, track.finish(res), bad == nil, "R-C18-2", cons+"|lookup and insert in one critical section", pos(c, f.Body),
		sprintf("%d lookup(s) and %d insert(s) of the mutex table evaluated under the table lock, inserts after a lookup in the same critical section", lookups, stores),
		why, witness(bad)...)
}
