package rules

import (
	"go/ast"
	"go/types"
	"reflect"
	"strings"

	"golang.org/x/tools/go/packages"

	"verif/internal/core"
	"verif/internal/flow"
)

const c06jwtPkg = "github.com/golang-jwt/jwt"

// c06IsJWTPkg accepts the jwt module in any major version.
func c06IsJWTPkg(p *types.Package) bool {
	return p != nil && (p.Path() == c06jwtPkg || strings.HasPrefix(p.Path(), c06jwtPkg+"/"))
}

// c06KeyfuncArg returns the argument of a jwt parse call that has the Keyfunc type.
func c06KeyfuncArg(f *flow.Func, call *ast.CallExpr) ast.Expr {
	fnObj, ok := f.Callee(call).(*types.Func)
	if !ok || !c06IsJWTPkg(fnObj.Pkg()) || !strings.HasPrefix(fnObj.Name(), "Parse") {
		return nil
	}
	sig := fnObj.Type().(*types.Signature)
	for i := 0; i < sig.Params().Len() && i < len(call.Args); i++ {
		if n, ok := sig.Params().At(i).Type().(*types.Named); ok && c06IsJWTPkg(n.Obj().Pkg()) && n.Obj().Name() == "Keyfunc" {
			return call.Args[i]
		}
	}
	return nil
}

// c06ModuleStringField reports whether e is a selector chain ending in a string field of a
// struct declared in the analysed module and not rooted in one of the excluded objects.
func c06ModuleStringField(f *flow.Func, e ast.Expr, exclude map[types.Object]bool) bool {
	fld := c06FieldSel(f, e)
	if fld == nil || fld.Pkg() == nil || !strings.HasPrefix(fld.Pkg().Path(), strings.TrimSuffix(Mod, "/")) {
		return false
	}
	if b, ok := fld.Type().Underlying().(*types.Basic); !ok || b.Info()&types.IsString == 0 {
		return false
	}
	return !c06Mentions(f, e, exclude)
}

// c06Mentions reports whether e mentions one of the objects.
func c06Mentions(f *flow.Func, e ast.Node, objs map[types.Object]bool) bool {
	found := false
	ast.Inspect(e, func(n ast.Node) bool {
		if id, ok := n.(*ast.Ident); ok {
			if o := f.Info.Uses[id]; o != nil && objs[o] {
				found = true
			}
		}
		return !found
	})
	return found
}

func c06JWT(c *core.Ctx) {
	const rule = "R-C06-2"
	// subject: every jwt parse call of the module taking a key function
	type site struct {
		pkg  *packages.Package
		fd   *ast.FuncDecl
		f    *flow.Func
		call *ast.CallExpr
		kf   ast.Expr
	}
	var sites []site
	eachFunc(c, func(pkg *packages.Package, fd *ast.FuncDecl) {
		f := flow.NewFunc(pkg, fd)
		for _, call := range calls(fd.Body, true) {
			if kf := c06KeyfuncArg(f, call); kf != nil {
				sites = append(sites, site{pkg, fd, f, call, kf})
			}
		}
	})
	if !c.RequireCount(rule, "jwt.Parse* call sites with a key function (JWTValidator.Validate, OAuth2Validator.Validate)", len(sites), 2) {
		return
	}
	perFunc := map[string]int{}
	for _, s := range sites {
		name := declName(s.pkg, s.fd)
		perFunc[name]++
		cons := name + "|key function"
		if perFunc[name] > 1 {
			cons = sprintf("%s|key function #%d", name, perFunc[name])
		}
		c06Keyfunc(c, rule, cons, s.f, s.call, s.kf)
		c06Claims(c, rule, name, s.f, s.call)
		c06ParseVerdict(c, rule, name, s.f, s.call)
	}
}

// c06Keyfunc decides algorithm pinning of one key function.
func c06Keyfunc(c *core.Ctx, rule, cons string, f *flow.Func, parse *ast.CallExpr, kfExpr ast.Expr) {
	var kf *flow.Func
	outerDefs := c06SingleDefs(f, f.Body)
	switch x := ast.Unparen(c06Resolve(f, outerDefs, kfExpr)).(type) {
	case *ast.FuncLit:
		kf = f.Lit(x)
	default:
		if fnObj, ok := c06ObjOrSel(f, x).(*types.Func); ok {
			kf = c06FuncDeclOf(c, fnObj)
		}
	}
	if kf == nil || kf.Type == nil || kf.Type.Params == nil || len(kf.Type.Params.List) == 0 || len(kf.Type.Params.List[0].Names) == 0 {
		c.Undecide(rule, cons, pos(c, kfExpr), "the key function handed to the jwt parser is neither a function literal nor a declared function with a named token parameter")
		return
	}
	c.Count("functions_analysed", 1)
	tokenObj := kf.Info.Defs[kf.Type.Params.List[0].Names[0]]
	tokenSet := map[types.Object]bool{tokenObj: true}
	// the key function together with the same-package helpers it delegates to
	gs := reach(kf, 2)
	defs := map[types.Object]ast.Expr{}
	for _, g := range gs {
		for o, d := range c06DefsOf(g) {
			defs[o] = d
		}
	}
	for o, d := range outerDefs {
		if _, dup := defs[o]; !dup {
			defs[o] = d
		}
	}
	// role: "algorithm of the token" = call of SigningMethod.Alg (on anything rooted in the token)
	isAlg := func(e ast.Expr) bool {
		e = c06Resolve(kf, defs, e)
		call, ok := ast.Unparen(e).(*ast.CallExpr)
		if !ok {
			return false
		}
		m, ok := kf.Callee(call).(*types.Func)
		return ok && m.Name() == "Alg" && c06IsJWTPkg(m.Pkg()) && c06Mentions(kf, call, tokenSet)
	}
	// role: "configured algorithm" = string field of a module struct, not derived from the
	// token — or a helper's parameter that is handed such a field
	cfgObjs := map[types.Object]bool{}
	isCfg := func(e ast.Expr) bool {
		r := c06Resolve(kf, defs, e)
		if o := c06Obj(kf, r); o != nil && cfgObjs[o] {
			return true
		}
		return c06ModuleStringField(kf, r, tokenSet)
	}
	// the token and the configured algorithm handed on to helpers: their parameters play the same role
	for round := 0; round < 2; round++ {
		for _, g := range gs {
			for _, call := range calls(g.Body, true) {
				fo, ok := kf.Callee(call).(*types.Func)
				if !ok || fo.Pkg() != kf.Pkg.Types {
					continue
				}
				fd := declOf(kf.Pkg, fo)
				if fd == nil || fd.Type.Params == nil {
					continue
				}
				idx := 0
				for _, fld := range fd.Type.Params.List {
					for _, nm := range fld.Names {
						if idx < len(call.Args) {
							po := kf.Info.Defs[nm]
							if _, assigned := defs[po]; po != nil && !assigned {
								if ao := c06Obj(kf, call.Args[idx]); ao != nil && tokenSet[ao] {
									tokenSet[po] = true
								} else if isCfg(call.Args[idx]) {
									cfgObjs[po] = true
								}
							}
						}
						idx++
					}
				}
			}
		}
	}
	// collect the equality atoms alg == configured
	keys := map[string]bool{}
	visitKeys := func(n ast.Node) bool {
		switch x := n.(type) {
		case *ast.BinaryExpr:
			if x.Op.String() == "==" || x.Op.String() == "!=" {
				if (isAlg(x.X) && isCfg(x.Y)) || (isAlg(x.Y) && isCfg(x.X)) {
					keys[kf.EqKey(x.X, x.Y)] = true
				}
			}
		case *ast.SwitchStmt:
			if x.Tag != nil {
				for _, cl := range x.Body.List {
					for _, ce := range cl.(*ast.CaseClause).List {
						if (isAlg(x.Tag) && isCfg(ce)) || (isCfg(x.Tag) && isAlg(ce)) {
							keys[kf.EqKey(x.Tag, ce)] = true
						}
					}
				}
			}
		}
		return true
	}
	for _, g := range gs {
		ast.Inspect(g.Body, visitKeys)
	}
	res := analyze(c, kf, flow.Config{NoHavoc: true, Inline: inlineSamePkg(kf), OnNode: func(st *flow.State, n ast.Node) { c06TrackNonNil(kf, st, n) }})
	if res == nil {
		return
	}
	keyReturns := 0
	var bad *flow.Exit
	why := ""
	for _, ex := range res.Exits {
		if ex.Kind != flow.ExitReturn {
			continue
		}
		rs := c06Results(kf, ex)
		if r := ex.Ret(); r != nil && r != ex.Return && len(r.Results) == 2 {
			rs = r.Results // `return helper(..)`: the helper's own return lists the values
		}
		if len(rs) != 2 {
			c.Undecide(rule, cons, pos(c, ex.At), "a return of the key function does not list (key, error)")
			return
		}
		keyExpr := rs[0]
		if c06ReturnedNilness(kf, ex.State, keyExpr) == flow.True {
			continue
		}
		if c06ReturnedNilness(kf, ex.State, rs[1]) == flow.False {
			continue // an error is returned: the parser rejects the token whatever the key
		}
		keyReturns++
		if bad != nil {
			continue
		}
		pinned := false
		for k := range keys {
			if ex.State.Is(k, flow.True) {
				pinned = true
			}
		}
		switch {
		case !pinned && len(keys) == 0:
			bad, why = ex, "the key function returns the verification key without ever comparing token.Method.Alg() with the configured algorithm: a token whose header names another algorithm than the configured one is verified and admitted"
		case !pinned:
			bad, why = ex, "the key function returns the verification key on a path where token.Method.Alg() == configured algorithm has not been established: a token whose header names another algorithm is verified and admitted"
		case c06Mentions(kf, c06Resolve(kf, defs, keyExpr), tokenSet):
			bad, why = ex, "the verification key returned by the key function is computed from the token itself"
		}
	}
	switch {
	case bad != nil:
		c.Violate(rule, cons+"|alg pinning", pos(c, bad.At), why, witness(bad.State)...)
	case keyReturns == 0:
		c.Violate(rule, cons+"|alg pinning", pos(c, kf.Body), "no path of the key function returns a key: every token is rejected")
	default:
		c.Discharge(rule, cons+"|alg pinning", pos(c, kf.Body), sprintf("%d key-returning exits, each with token.Method.Alg() == configured algorithm", keyReturns))
	}
}

// c06ObjOrSel resolves an identifier or a package-qualified / method-value selector.
func c06ObjOrSel(f *flow.Func, e ast.Expr) types.Object {
	switch x := ast.Unparen(e).(type) {
	case *ast.Ident:
		return c06Obj(f, x)
	case *ast.SelectorExpr:
		if s := f.Info.Selections[x]; s != nil {
			return s.Obj()
		}
		return f.Info.Uses[x.Sel]
	}
	return nil
}

// c06ParseVerdict: the function calling the jwt parser accepts (returns a nil error) after
// the parse only if the parser's error is nil; JWTValidator.Validate additionally has no
// accepting path that bypasses the parser.
func c06ParseVerdict(c *core.Ctx, rule, name string, f *flow.Func, parse *ast.CallExpr) {
	cons := name + "|accept only with the parser's verdict"
	fd, ok := f.Node.(*ast.FuncDecl)
	errIdx, nres := -1, 0
	if ok && fd.Type.Results != nil {
		for _, fld := range fd.Type.Results.List {
			n := len(fld.Names)
			if n == 0 {
				n = 1
			}
			for i := 0; i < n; i++ {
				if tv, ok := f.Info.Types[fld.Type]; ok && tv.Type != nil && isErrorTypeC06(tv.Type) {
					errIdx = nres
				}
				nres++
			}
		}
	}
	if errIdx < 0 {
		c.Undecide(rule, cons, pos(c, parse), "the function calling the jwt parser does not return an error")
		return
	}
	strict := name == fname(c06val, "JWTValidator", "Validate")
	// the variable receiving the parser's error
	var errObj types.Object
	var errIdent *ast.Ident
	pm := parentMap(f.Body)
	var p ast.Node = parse
	for {
		pp, ok := pm[p].(*ast.ParenExpr)
		if !ok {
			break
		}
		p = pp
	}
	if as, ok := pm[p].(*ast.AssignStmt); ok && len(as.Rhs) == 1 && len(as.Lhs) == 2 {
		if id, ok := as.Lhs[1].(*ast.Ident); ok && id.Name != "_" {
			errIdent, errObj = id, c06Obj(f, id)
		}
	}
	if errObj == nil {
		if rs, ok := pm[p].(*ast.ReturnStmt); ok && len(rs.Results) == 1 {
			_ = rs // return jwt.Parse(...) cannot type-check for a single error result
		}
		c.Violate(rule, cons, pos(c, parse), "the error returned by the jwt parser is discarded: invalid, expired or wrongly signed tokens are accepted")
		return
	}
	// the verdict variable and its single-definition copies (err := e)
	errObjs := map[types.Object]bool{errObj: true}
	errKeys := []string{f.NilKey(errIdent)}
	defs := c06SingleDefs(f, f.Body)
	for id, o := range f.Info.Defs {
		if o == nil || errObjs[o] || !contains(f.Body, id) {
			continue
		}
		if d := defs[o]; d != nil && c06Obj(f, c06Resolve(f, defs, d)) == errObj {
			errObjs[o] = true
			errKeys = append(errKeys, f.NilKey(id))
		}
	}
	verdictNil := func(st *flow.State) bool {
		for _, k := range errKeys {
			if st.Is(k, flow.True) {
				return true
			}
		}
		return false
	}
	res := analyze(c, f, flow.Config{
		NoHavoc: true,
		OnCall: func(st *flow.State, call *ast.CallExpr, callee types.Object, deferred bool) {
			if call == parse {
				st.Set("ev:parsed", flow.True)
				st.Set("ev:errfresh", flow.True)
			}
		},
		OnNode: func(st *flow.State, n ast.Node) {
			c06TrackNonNil(f, st, n)
			// a later assignment to the error variable detaches it from the parser's verdict
			as, ok := n.(*ast.AssignStmt)
			if !ok {
				return
			}
			own := len(as.Rhs) == 1 && ast.Unparen(as.Rhs[0]) == parse
			for _, l := range as.Lhs {
				if c06Obj(f, l) == errObj && !own {
					st.Set("ev:errfresh", flow.False)
				}
			}
		},
	})
	if res == nil {
		return
	}
	var bad *flow.Exit
	why := ""
	n := 0
	for _, ex := range res.Exits {
		if ex.Kind != flow.ExitReturn {
			continue
		}
		rs := c06Results(f, ex)
		if len(rs) != nres {
			c.Undecide(rule, cons, pos(c, ex.At), "a return without an explicit result")
			return
		}
		n++
		if bad != nil {
			continue
		}
		r := rs[errIdx]
		st := ex.State
		parsed := st.Is("ev:parsed", flow.True)
		if errObjs[c06Obj(f, r)] && parsed && st.Is("ev:errfresh", flow.True) {
			continue // the parser's verdict is handed on
		}
		switch c06ReturnedNilness(f, st, r) {
		case flow.False:
			continue
		case flow.True, flow.Unknown:
			switch {
			case parsed && !(verdictNil(st) && st.Is("ev:errfresh", flow.True)):
				bad, why = ex, "a nil error (accept) can be returned after the jwt parser ran without its error being known nil: invalid, expired or wrongly signed tokens are accepted"
			case !parsed && strict:
				bad, why = ex, "a nil error (accept) can be returned on a path that never hands the token to the jwt parser: requests without a valid token are accepted"
			}
		}
	}
	if bad != nil {
		c.Violate(rule, cons, pos(c, bad.At), why, witness(bad.State)...)
	} else {
		c.Discharge(rule, cons, pos(c, parse), sprintf("%d exits: accept only with the parser's error nil", n))
	}
}

// c06Claims: the claims container handed to the jwt parser must be able to hold every form
// RFC 7519 allows for the registered claims (aud: string or array of strings; exp/nbf/iat:
// NumericDate, possibly non-integer). The untyped Parse (MapClaims) and map containers are;
// a struct whose `aud` field is a plain string or whose date fields are integers is not —
// decided from the Go types of the struct fields carrying those json names.
func c06Claims(c *core.Ctx, rule, name string, f *flow.Func, parse *ast.CallExpr) {
	cons := name + "|claims container admits every RFC 7519 form of the registered claims"
	fnObj, _ := f.Callee(parse).(*types.Func)
	if fnObj == nil {
		return
	}
	sig := fnObj.Type().(*types.Signature)
	var arg ast.Expr
	for i := 0; i < sig.Params().Len() && i < len(parse.Args); i++ {
		if n, ok := sig.Params().At(i).Type().(*types.Named); ok && c06IsJWTPkg(n.Obj().Pkg()) && n.Obj().Name() == "Claims" {
			arg = parse.Args[i]
		}
	}
	if arg == nil {
		c.Discharge(rule, cons, pos(c, parse), "parsed with the untyped "+fnObj.Name()+" (claims held in a map)")
		return
	}
	defs := c06SingleDefs(f, f.Body)
	r := c06Resolve(f, defs, arg)
	tv, ok := f.Info.Types[r]
	if !ok || tv.Type == nil {
		c.Undecide(rule, cons, pos(c, arg), "cannot type the claims argument")
		return
	}
	t := tv.Type
	if p, ok := t.Underlying().(*types.Pointer); ok {
		t = p.Elem()
	}
	switch u := t.Underlying().(type) {
	case *types.Map:
		c.Discharge(rule, cons, pos(c, arg), "claims are unmarshalled into a map ("+types.TypeString(t, nil)+")")
		return
	case *types.Struct:
		bad := c06NarrowClaim(u, map[*types.Struct]bool{})
		if bad != "" {
			c.Violate(rule, cons, pos(c, arg), "the token's claims are unmarshalled into "+types.TypeString(t, nil)+", whose "+bad+": a correctly signed, currently valid token using the other form RFC 7519 allows fails to parse and is rejected with 401")
		} else {
			c.Discharge(rule, cons, pos(c, arg), "no registered-claim field of "+types.TypeString(t, nil)+" narrows the RFC 7519 forms")
		}
		return
	}
	c.Undecide(rule, cons, pos(c, arg), "claims container of type "+types.TypeString(tv.Type, nil)+" is neither a map nor a struct")
}

// c06NarrowClaim inspects the fields (embedded structs included) carrying the json names
// aud / exp / nbf / iat and describes the first one whose Go type cannot hold every RFC form.
func c06NarrowClaim(st *types.Struct, seen map[*types.Struct]bool) string {
	if seen[st] {
		return ""
	}
	seen[st] = true
	hasUnmarshal := func(t types.Type) bool {
		for _, tt := range []types.Type{t, types.NewPointer(t)} {
			ms := types.NewMethodSet(tt)
			for i := 0; i < ms.Len(); i++ {
				if ms.At(i).Obj().Name() == "UnmarshalJSON" {
					return true
				}
			}
		}
		return false
	}
	for i := 0; i < st.NumFields(); i++ {
		fld := st.Field(i)
		ft := fld.Type()
		if p, ok := ft.Underlying().(*types.Pointer); ok {
			ft = p.Elem()
		}
		tag := reflectTagC06(st.Tag(i), "json")
		jsonName := strings.Split(tag, ",")[0]
		if fld.Embedded() && jsonName == "" {
			if inner, ok := ft.Underlying().(*types.Struct); ok && !hasUnmarshal(ft) {
				if bad := c06NarrowClaim(inner, seen); bad != "" {
					return bad
				}
			}
			continue
		}
		if jsonName == "" {
			jsonName = fld.Name()
		}
		if hasUnmarshal(ft) {
			continue
		}
		switch strings.ToLower(jsonName) {
		case "aud":
			if b, ok := ft.Underlying().(*types.Basic); ok && b.Info()&types.IsString != 0 {
				return "`aud` field " + fld.Name() + " is a plain string (RFC 7519 §4.1.3 allows an array of strings)"
			}
		case "exp", "nbf", "iat":
			if b, ok := ft.Underlying().(*types.Basic); ok && b.Info()&types.IsInteger != 0 {
				return "`" + strings.ToLower(jsonName) + "` field " + fld.Name() + " is an integer (a NumericDate may be non-integer, RFC 7519 §2)"
			}
		}
	}
	return ""
}

// reflectTagC06 extracts a key from a struct tag (reflect.StructTag.Get without reflect's
// conventions being violated: the tag syntax is the standard one).
func reflectTagC06(tag, key string) string {
	return reflect.StructTag(tag).Get(key)
}
