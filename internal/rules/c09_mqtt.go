package rules

import (
	"go/ast"
	"go/types"
	"strings"

	"verif/internal/core"
	"verif/internal/flow"
)

// c09Mqtt: R-C09-4.
func c09Mqtt(c *core.Ctx, lim *c09limiter, fns []*c09fn) {
	c09Wrappers(c, lim, fns)

	// role: the method of Limiter that charges the library limiters
	var fa *flow.Func
	if cands := funcsByRole(c, mq, func(g *flow.Func, fd *ast.FuncDecl) bool {
		if fd.Recv == nil || c09recv(g) == nil || !strings.HasSuffix(c09recv(g).Type().String(), "/"+mq+".Limiter") {
			return false
		}
		for _, call := range calls(fd.Body, false) {
			if c09calleeIs(g, call, "(*"+c09lib+".RateLimiter).AcquirePermission", "(*"+c09lib+".RateLimiter).AcquireNPermission", "(*"+c09lib+".MultiRateLimiter).AcquirePermission") {
				return true
			}
		}
		return false
	}); len(cands) == 1 {
		fa = cands[0]
		c.Count("functions_analysed", 1)
	} else {
		fa = fn(c, mq, "Limiter", "acquirePermission")
	}
	pkg := c.Prog.Pkg(mq)
	if fa == nil || pkg == nil {
		return
	}
	cons := fname(mq, "Limiter", fa.Node.(*ast.FuncDecl).Name.Name)
	limiterT := namedType(c, mq, "Limiter")
	if limiterT == nil {
		return
	}
	isLimiterField := func(v *types.Var) bool {
		st, ok := limiterT.Underlying().(*types.Struct)
		if !ok || v == nil {
			return false
		}
		for i := 0; i < st.NumFields(); i++ {
			if st.Field(i) == v {
				return true
			}
		}
		return false
	}
	params := map[types.Object]bool{}
	for _, p := range c09params(fa) {
		params[p] = true
	}
	// unit of a charge expression: "RequestRate" (constant 1 per packet) or "BytesRate" (the size parameter)
	unit := func(e ast.Expr) string {
		r := c09resolve(fa, e)
		if c09constIs(fa, r, "1") {
			return "RequestRate"
		}
		if id, ok := r.(*ast.Ident); ok && params[c09obj(fa, id)] {
			return "BytesRate"
		}
		return "?" + fa.Render(r)
	}

	type site struct {
		call    *ast.CallExpr
		field   *types.Var
		recv    ast.Expr
		charges []string
		perm    types.Object
		blankW  bool
	}
	pm := parentMap(fa.Body)
	var sites []*site
	for _, call := range calls(fa.Body, false) {
		var charges []string
		switch {
		case c09calleeIs(fa, call, "(*"+c09lib+".RateLimiter).AcquirePermission"):
			charges = []string{"RequestRate"}
		case c09calleeIs(fa, call, "(*"+c09lib+".RateLimiter).AcquireNPermission"):
			if len(call.Args) == 1 {
				charges = []string{unit(call.Args[0])}
			}
		case c09calleeIs(fa, call, "(*"+c09lib+".MultiRateLimiter).AcquirePermission"):
			if len(call.Args) == 1 {
				if cl, ok := c09resolve(fa, call.Args[0]).(*ast.CompositeLit); ok {
					for _, el := range cl.Elts {
						charges = append(charges, unit(el))
					}
				} else {
					charges = []string{"?" + fa.Render(call.Args[0])}
				}
			}
		default:
			continue
		}
		_, recvX := c09callee(fa, call)
		if recvX == nil {
			continue
		}
		s := &site{call: call, recv: recvX, charges: charges, field: c09fieldOf(fa, c09resolve(fa, recvX))}
		if as, ok := pm[call].(*ast.AssignStmt); ok && len(as.Rhs) == 1 && len(as.Lhs) >= 2 {
			if id, ok := as.Lhs[0].(*ast.Ident); ok && id.Name != "_" {
				s.perm = c09obj(fa, id)
			}
			if id, ok := as.Lhs[1].(*ast.Ident); ok && id.Name == "_" {
				s.blankW = true
			}
		}
		sites = append(sites, s)
	}
	if !c.RequireCount("R-C09-4", "limiter acquire call sites in Limiter.acquirePermission", len(sites), 3) {
		return
	}

	// --- configuration of each charged limiter
	type cfgSite struct {
		at      ast.Node
		timeout bool // constant 0
		rates   []string
	}
	configs := map[*types.Var][]cfgSite{}
	for _, fd := range c09pkgFuncs(pkg) {
		fl := flow.NewFunc(pkg, fd)
		ast.Inspect(fd.Body, func(n ast.Node) bool {
			as, ok := n.(*ast.AssignStmt)
			if !ok || len(as.Lhs) != len(as.Rhs) {
				return true
			}
			for i, l := range as.Lhs {
				fld := c09fieldOf(fl, l)
				if !isLimiterField(fld) {
					continue
				}
				if tv, ok := fl.Info.Types[as.Rhs[i]]; ok && tv.IsNil() {
					continue
				}
				cs := cfgSite{at: as}
				mk, _ := c09resolve(fl, as.Rhs[i]).(*ast.CallExpr)
				if mk == nil || len(mk.Args) != 1 || !(calleeIs(fl, mk, c09lib+".New") || calleeIs(fl, mk, c09lib+".NewMulti")) {
					cs.rates = []string{"?" + fl.Render(as.Rhs[i])}
					configs[fld] = append(configs[fld], cs)
					continue
				}
				pol, _ := c09resolve(fl, mk.Args[0]).(*ast.CallExpr)
				if pol == nil || len(pol.Args) != 3 || !(calleeIs(fl, pol, c09lib+".NewPolicy") || calleeIs(fl, pol, c09lib+".NewMultiPolicy")) {
					cs.rates = []string{"?" + fl.Render(mk.Args[0])}
					configs[fld] = append(configs[fld], cs)
					continue
				}
				cs.timeout = c09constIs(fl, pol.Args[0], "0")
				rate := func(e ast.Expr) string {
					if v := c09fieldOf(fl, c09resolve(fl, e)); v != nil {
						return v.Name()
					}
					return "?" + fl.Render(e)
				}
				if cl, ok := c09resolve(fl, pol.Args[2]).(*ast.CompositeLit); ok {
					for _, el := range cl.Elts {
						cs.rates = append(cs.rates, rate(el))
					}
				} else {
					cs.rates = []string{rate(pol.Args[2])}
				}
				configs[fld] = append(configs[fld], cs)
			}
			return true
		})
	}
	for _, s := range sites {
		if s.field == nil || !isLimiterField(s.field) {
			c.Undecide("R-C09-4", cons+"|charged limiter is a field of Limiter", pos(c, s.call), "cannot identify the limiter that is charged")
			continue
		}
		name := s.field.Name()
		cfgs := configs[s.field]
		if len(cfgs) == 0 {
			c.Errorf("R-C09-4: anchor: no store to %s.Limiter.%s found", mq, name)
			continue
		}
		for _, ch := range s.charges {
			if strings.HasPrefix(ch, "?") {
				c.Undecide("R-C09-4", cons+"|"+name+" charge matches configured rate", pos(c, s.call), "cannot classify the charge "+ch[1:]+" (neither the constant 1 nor the size parameter)")
			}
		}
		okRate, okTimeout := true, true
		var badRate, badTimeout cfgSite
		for _, cs := range cfgs {
			if strings.Join(cs.rates, ",") != strings.Join(s.charges, ",") {
				okRate, badRate = false, cs
			}
			if !cs.timeout {
				okTimeout, badTimeout = false, cs
			}
		}
		c.Check(okRate, "R-C09-4", cons+"|"+name+" charge matches configured rate", pos(c, s.call),
			sprintf("charged %v per packet, configured with %v", s.charges, s.charges),
			sprintf("the limiter %s is charged in units %v but configured with the rates %v (%s): packets are counted against the byte budget or bytes against the packet budget", name, s.charges, badRate.rates, pos(c, badRate.at)))
		if !s.blankW {
			c.Undecide("R-C09-4", cons+"|"+name+" timeout 0", pos(c, s.call), "the wait returned by the limiter is no longer discarded; the timeout-0 rule needs review")
			continue
		}
		c.Check(okTimeout, "R-C09-4", cons+"|"+name+" timeout 0", pos(c, s.call),
			"the wait is discarded and every policy of this limiter has the constant timeout 0 (no reservation of future periods)",
			sprintf("the limiter %s is built with a non-zero timeout (%s) while acquirePermission discards the imposed wait: packets reserved for future periods are let through immediately, more than the configured rate per period", name, pos(c, badTimeout.at)))
	}

	// --- decision table of Limiter.acquirePermission
	idx := map[*ast.CallExpr]int{}
	for i, s := range sites {
		idx[s.call] = i
	}
	named := c09resultsOf(fa)
	res := analyze(c, fa, flow.Config{
		NoHavoc: true,
		OnNode: func(st *flow.State, n ast.Node) {
			named.onNode(st, n)
			// a later assignment to the variable holding a limiter's verdict replaces the verdict
			if as, ok := n.(*ast.AssignStmt); ok {
				fromSite := false
				for _, r := range as.Rhs {
					if call, ok := ast.Unparen(r).(*ast.CallExpr); ok {
						if _, isSite := idx[call]; isSite {
							fromSite = true
						}
					}
				}
				for _, l := range as.Lhs {
					id, ok := ast.Unparen(l).(*ast.Ident)
					if !ok {
						continue
					}
					for _, s := range sites {
						if s.perm != nil && c09obj(fa, id) == s.perm {
							st.Set("ev:overwritten", c09val(!fromSite))
						}
					}
				}
			}
		},
		OnCall: func(st *flow.State, call *ast.CallExpr, callee types.Object, deferred bool) {
			if i, ok := idx[call]; ok {
				st.Set(sprintf("ev:acq:%d", i), flow.True)
			}
		},
	})
	if res == nil {
		return
	}
	var bad *flow.Exit
	why := ""
	exits := 0
	for _, ex := range res.Exits {
		if ex.Kind != flow.ExitReturn {
			continue
		}
		r := named.expr(ex, 0)
		if r == nil {
			continue
		}
		exits++
		var charged []*site
		for i, s := range sites {
			if ex.State.Is(sprintf("ev:acq:%d", i), flow.True) {
				charged = append(charged, s)
			}
		}
		switch len(charged) {
		case 0:
			if v, known := named.constant(ex, 0); !known || v.ExactString() != "true" {
				bad, why = ex, "no limiter was charged but the result is not the constant true"
			}
			for _, s := range sites {
				if !ex.State.Is(fa.NilKey(s.recv), flow.True) {
					bad, why = ex, "a packet is admitted without charging the limiter "+types.ExprString(s.recv)+" although that limiter is not known to be unconfigured (nil): the configured rate is not enforced"
				}
			}
		case 1:
			id, ok := r.(*ast.Ident)
			if !ok || charged[0].perm == nil || c09obj(fa, id) != charged[0].perm || ex.State.Is("ev:overwritten", flow.True) {
				bad, why = ex, "the result is not the verdict of the limiter that was charged ("+types.ExprString(charged[0].recv)+"): rejected packets are admitted (or admitted ones dropped)"
			}
		default:
			bad, why = ex, "more than one limiter is charged for one packet"
		}
		if bad != nil {
			break
		}
	}
	var w []string
	if bad != nil {
		w = append([]string{"exit at " + pos(c, bad.At)}, witness(bad.State)...)
	}
	if exits == 0 {
		c.Errorf("R-C09-4: no exits of %s analysed", cons)
		return
	}
	c.Check(bad == nil, "R-C09-4", cons+"|result is the charged limiter's verdict", pos(c, fa.Body),
		sprintf("%d exit(s): the charged limiter's verdict is returned; true only when every limiter is nil", exits), why, w...)
}

// c09Wrappers: RateLimiter.AcquirePermission charges 1, AcquireNPermission(n) charges n —
// the exported entry points every user (filter, MQTT) goes through.
func c09Wrappers(c *core.Ctx, lim *c09limiter, fns []*c09fn) {
	if lim == nil {
		return
	}
	acquire := map[*types.Func]bool{}
	for _, fn := range fns {
		if fn.fd != nil && fn.obj != nil && fn.acquire {
			acquire[fn.obj] = true
		}
	}
	for _, w := range []struct{ name, want string }{{"AcquirePermission", "1"}, {"AcquireNPermission", "param"}} {
		f := fn(c, c09lib, "RateLimiter", w.name)
		if f == nil {
			continue
		}
		cons := fname(c09lib, "RateLimiter", w.name)
		label := cons + "|charges " + map[string]string{"1": "1", "param": "n"}[w.want]
		if o, ok := f.Info.Defs[f.Node.(*ast.FuncDecl).Name].(*types.Func); ok && acquire[o] {
			// the wrapper has been merged into the acquire function itself: nothing to delegate
			c.Discharge("R-C09-4", label, pos(c, f.Body), "the method is itself an acquire function (checked by R-C09-1)")
			continue
		}
		recv := c09recv(f)
		params := map[types.Object]bool{}
		for _, p := range c09params(f) {
			params[p] = true
		}
		var inner []*ast.CallExpr
		for _, call := range calls(f.Body, false) {
			if fo, ok := f.Callee(call).(*types.Func); ok && acquire[fo] {
				inner = append(inner, call)
			}
		}
		what := "the constant 1"
		if w.want == "param" {
			what = "its parameter n"
		}
		if len(inner) == 0 {
			c.Violate("R-C09-4", label, pos(c, f.Body), "the method does not delegate to the limiter's acquire function: no permit is reserved")
			continue
		}
		ok, why := true, ""
		isInner := map[*ast.CallExpr]bool{}
		for _, call := range inner {
			isInner[call] = true
			sel, isSel := ast.Unparen(call.Fun).(*ast.SelectorExpr)
			if !isSel || c09obj(f, c09root(sel.X)) != recv {
				ok, why = false, "the acquire function is called on another limiter than the receiver"
				continue
			}
			if len(call.Args) != 1 {
				ok, why = false, "unexpected argument list"
				continue
			}
			arg := c09resolve(f, call.Args[0])
			switch w.want {
			case "1":
				if !c09constIs(f, arg, "1") {
					ok, why = false, "AcquirePermission charges "+types.ExprString(arg)+" instead of 1 permit per request: the per-period count of admitted requests is no longer limitForPeriod"
				}
			case "param":
				if id, isID := arg.(*ast.Ident); !isID || !params[c09obj(f, id)] {
					ok, why = false, "AcquireNPermission(n) charges "+types.ExprString(arg)+" instead of n"
				}
			}
		}
		// every exit passes through the delegate and returns its results
		res := analyze(c, f, flow.Config{NoHavoc: true, OnCall: func(st *flow.State, call *ast.CallExpr, callee types.Object, d bool) {
			if isInner[call] {
				st.Set("ev:delegated", flow.True)
			}
		}})
		if res == nil {
			continue
		}
		var wit []string
		for _, ex := range res.Exits {
			if ex.Kind == flow.ExitReturn && !ex.State.Is("ev:delegated", flow.True) && ok {
				ok, why = false, "an exit of the method does not go through the acquire function"
				wit = append([]string{"exit at " + pos(c, ex.At)}, witness(ex.State)...)
			}
			if ex.Kind == flow.ExitReturn && ex.Return != nil && len(ex.Return.Results) >= 1 && ok {
				// the verdict must not be replaced by a constant
				if tv, isConst := f.Info.Types[ex.Return.Results[0]]; isConst && tv.Value != nil {
					ok, why = false, "the verdict of the acquire function is replaced by the constant "+tv.Value.ExactString()
				}
			}
		}
		c.Check(ok, "R-C09-4", label, pos(c, inner[0]), "delegates to the acquire function of the receiver with "+what+" on every path", why, wit...)
	}
}

func c09val(b bool) flow.Val {
	if b {
		return flow.True
	}
	return flow.False
}
