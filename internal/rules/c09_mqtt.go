package rules

import (
	"go/ast"
	"go/types"
	"strings"

	"verif/internal/core"
	"verif/internal/flow"
)

// c09Mqtt: R-C09-4. Sites = every call of a library limiter's acquire method in package mqttproxy,
// in a method or in a closure; the limiter charged is followed to its construction through a
// field of Limiter (stores anywhere in the package) or through single-definition locals (a closure
// over the limiter it was built for); the verdict table is decided per enclosing function, and for
// methods of Limiter that dispatch through a func-typed field holding such closures.
func c09Mqtt(c *core.Ctx, lim *c09limiter, fns []*c09fn) {
	c09Wrappers(c, lim, fns)

	pkg := c.Prog.Pkg(mq)
	limiterT := namedType(c, mq, "Limiter")
	if pkg == nil || limiterT == nil {
		return
	}
	limiterFields := map[*types.Var]bool{}
	if st, ok := limiterT.Underlying().(*types.Struct); ok {
		for i := 0; i < st.NumFields(); i++ {
			limiterFields[st.Field(i)] = true
		}
	}
	// fields of any struct of the package that hold a library limiter (Limiter itself, or the small
	// implementations behind an interface / the captured state of a permitter)
	isLibLimiter := func(t types.Type) bool {
		return c09isPtrTo(t, c09lib, "RateLimiter") || c09isPtrTo(t, c09lib, "MultiRateLimiter")
	}
	for _, name := range pkg.Types.Scope().Names() {
		tn, ok := pkg.Types.Scope().Lookup(name).(*types.TypeName)
		if !ok {
			continue
		}
		if st, ok := tn.Type().Underlying().(*types.Struct); ok {
			for i := 0; i < st.NumFields(); i++ {
				if isLibLimiter(st.Field(i).Type()) {
					limiterFields[st.Field(i)] = true
				}
			}
		}
	}
	acqNames := []string{"(*" + c09lib + ".RateLimiter).AcquirePermission", "(*" + c09lib + ".RateLimiter).AcquireNPermission", "(*" + c09lib + ".MultiRateLimiter).AcquirePermission"}

	// --- configuration of a limiter: New/NewMulti(NewPolicy/NewMultiPolicy(timeout, period, rate(s)))
	type cfgSite struct {
		at      ast.Node
		timeout bool // constant 0
		rates   []string
	}
	parseCfg := func(fl *flow.Func, e ast.Expr, at ast.Node) cfgSite {
		cs := cfgSite{at: at}
		mk, _ := c09resolve(fl, e).(*ast.CallExpr)
		if mk == nil || len(mk.Args) != 1 || !(calleeIs(fl, mk, c09lib+".New") || calleeIs(fl, mk, c09lib+".NewMulti")) {
			cs.rates = []string{"?" + types.ExprString(e)}
			return cs
		}
		pol, _ := c09resolve(fl, mk.Args[0]).(*ast.CallExpr)
		if pol == nil || len(pol.Args) != 3 || !(calleeIs(fl, pol, c09lib+".NewPolicy") || calleeIs(fl, pol, c09lib+".NewMultiPolicy")) {
			cs.rates = []string{"?" + types.ExprString(mk.Args[0])}
			return cs
		}
		cs.timeout = c09constIs(fl, pol.Args[0], "0")
		rate := func(e ast.Expr) string {
			if v := c09fieldOf(fl, c09resolve(fl, e)); v != nil {
				return v.Name()
			}
			return "?" + types.ExprString(e)
		}
		if cl, ok := c09resolve(fl, pol.Args[2]).(*ast.CompositeLit); ok {
			for _, el := range cl.Elts {
				cs.rates = append(cs.rates, rate(el))
			}
		} else {
			cs.rates = []string{rate(pol.Args[2])}
		}
		return cs
	}
	fieldCfgs := map[*types.Var][]cfgSite{}
	funcStores := map[*types.Var][]ast.Expr{} // values stored into func- or interface-typed fields of Limiter
	for _, fd := range c09pkgFuncs(pkg) {
		fl := flow.NewFunc(pkg, fd)
		ast.Inspect(fd.Body, func(n ast.Node) bool {
			as, ok := n.(*ast.AssignStmt)
			if !ok || len(as.Lhs) != len(as.Rhs) {
				return true
			}
			for i, l := range as.Lhs {
				fld := c09fieldOf(fl, l)
				if !limiterFields[fld] {
					continue
				}
				if tv, ok := fl.Info.Types[as.Rhs[i]]; ok && tv.IsNil() {
					continue
				}
				switch fld.Type().Underlying().(type) {
				case *types.Signature, *types.Interface:
					funcStores[fld] = append(funcStores[fld], c09resolve(fl, as.Rhs[i]))
					continue
				}
				fieldCfgs[fld] = append(fieldCfgs[fld], parseCfg(fl, as.Rhs[i], as))
			}
			return true
		})
		// limiter handed over in a struct literal: requestPermitter{rl: l}
		ast.Inspect(fd.Body, func(n ast.Node) bool {
			cl, ok := n.(*ast.CompositeLit)
			if !ok {
				return true
			}
			for _, el := range cl.Elts {
				kv, ok := el.(*ast.KeyValueExpr)
				if !ok {
					continue
				}
				k, ok := kv.Key.(*ast.Ident)
				if !ok {
					continue
				}
				fld, _ := fl.Info.Uses[k].(*types.Var)
				if fld == nil || !limiterFields[fld] || !isLibLimiter(fld.Type()) {
					continue
				}
				if tv, ok := fl.Info.Types[kv.Value]; ok && tv.IsNil() {
					continue
				}
				fieldCfgs[fld] = append(fieldCfgs[fld], parseCfg(fl, kv.Value, kv))
			}
			return true
		})
	}

	// --- sites
	type site struct {
		declName string
		enc      *flow.Func // innermost enclosing function (declaration or literal)
		encLit   *ast.FuncLit
		call     *ast.CallExpr
		recv     ast.Expr
		label    string
		cfgs     []cfgSite
		charges  []string
		perm     types.Object
		blankW   bool
	}
	var sites []*site
	byEnc := map[*ast.BlockStmt][]*site{}
	var encOrder []*ast.BlockStmt
	for _, fd := range c09pkgFuncs(pkg) {
		declF := flow.NewFunc(pkg, fd)
		var lits []*ast.FuncLit
		ast.Inspect(fd.Body, func(n ast.Node) bool {
			if l, ok := n.(*ast.FuncLit); ok {
				lits = append(lits, l)
			}
			return true
		})
		pm := parentMap(fd.Body)
		for _, call := range calls(fd.Body, true) {
			if !c09calleeIs(declF, call, acqNames...) {
				continue
			}
			_, recvX := c09callee(declF, call)
			if recvX == nil {
				continue
			}
			s := &site{declName: declName(pkg, fd), enc: declF, call: call, recv: recvX}
			for _, l := range lits { // innermost literal containing the call
				if contains(l, call) && (s.encLit == nil || contains(s.encLit, l)) {
					s.encLit = l
				}
			}
			if s.encLit != nil {
				s.enc = declF.Lit(s.encLit)
				s.declName += "$closure"
			}
			params := map[types.Object]bool{}
			for _, p := range c09params(s.enc) {
				params[p] = true
			}
			// unit of a charge: "RequestRate" (constant 1 per packet) or "BytesRate" (the size parameter)
			unit := func(e ast.Expr) string {
				r := c09resolve(s.enc, e)
				if c09constIs(declF, r, "1") {
					return "RequestRate"
				}
				if id, ok := r.(*ast.Ident); ok && params[c09obj(declF, id)] {
					return "BytesRate"
				}
				return "?" + types.ExprString(r)
			}
			switch {
			case c09calleeIs(declF, call, acqNames[0]):
				s.charges = []string{"RequestRate"}
			case c09calleeIs(declF, call, acqNames[1]):
				if len(call.Args) == 1 {
					s.charges = []string{unit(call.Args[0])}
				}
			default:
				if len(call.Args) == 1 {
					if cl, ok := c09resolve(s.enc, call.Args[0]).(*ast.CompositeLit); ok {
						for _, el := range cl.Elts {
							s.charges = append(s.charges, unit(el))
						}
					} else {
						s.charges = []string{"?" + types.ExprString(call.Args[0])}
					}
				}
			}
			if as, ok := pm[call].(*ast.AssignStmt); ok && len(as.Rhs) == 1 && len(as.Lhs) >= 2 {
				if id, ok := as.Lhs[0].(*ast.Ident); ok && id.Name != "_" {
					s.perm = c09obj(declF, id)
				}
				if id, ok := as.Lhs[1].(*ast.Ident); ok && id.Name == "_" {
					s.blankW = true
				}
			}
			// the limiter that is charged: a field of Limiter, or a local holding the constructed limiter
			src := c09resolve(declF, recvX)
			switch fld := c09fieldOf(declF, src); {
			case limiterFields[fld]:
				s.label = fld.Name()
				s.cfgs = fieldCfgs[fld]
				// no store at all: the holder is never constructed with a limiter (dead site);
				// reported as such below, the other sites are still decided
			default:
				if mk, ok := src.(*ast.CallExpr); ok && (calleeIs(declF, mk, c09lib+".New") || calleeIs(declF, mk, c09lib+".NewMulti")) {
					s.label = types.ExprString(recvX) + " (" + strings.Join(s.charges, "+") + ")"
					s.cfgs = []cfgSite{parseCfg(declF, src, mk)}
				} else {
					c.Undecide("R-C09-4", s.declName+"|charged limiter is identified", pos(c, call), "cannot follow the charged limiter "+types.ExprString(recvX)+" to a field of Limiter or to its construction")
					continue
				}
			}
			sites = append(sites, s)
			key := s.enc.Body
			if _, seen := byEnc[key]; !seen {
				encOrder = append(encOrder, key)
			}
			byEnc[key] = append(byEnc[key], s)
		}
	}
	if !c.RequireCount("R-C09-4", "limiter acquire call sites in "+mq, len(sites), 3) {
		return
	}

	// --- unit and timeout of each charged limiter
	for _, s := range sites {
		if len(s.cfgs) == 0 {
			c.Discharge("R-C09-4", s.declName+"|"+s.label+" charge matches configured rate", pos(c, s.call), "no limiter is ever stored into "+s.label+": the site cannot be reached with a configured limiter")
			continue
		}
		for _, ch := range s.charges {
			if strings.HasPrefix(ch, "?") {
				c.Undecide("R-C09-4", s.declName+"|"+s.label+" charge matches configured rate", pos(c, s.call), "cannot classify the charge "+ch[1:]+" (neither the constant 1 nor the size parameter)")
			}
		}
		okRate, okTimeout := true, true
		var badRate, badTimeout cfgSite
		for _, cs := range s.cfgs {
			if strings.Join(cs.rates, ",") != strings.Join(s.charges, ",") {
				okRate, badRate = false, cs
			}
			if !cs.timeout {
				okTimeout, badTimeout = false, cs
			}
		}
		c.Check(okRate, "R-C09-4", s.declName+"|"+s.label+" charge matches configured rate", pos(c, s.call),
			sprintf("charged %v per packet, configured with %v", s.charges, s.charges),
			sprintf("the limiter %s is charged in units %v but configured with the rates %v (%s): packets are counted against the byte budget or bytes against the packet budget", s.label, s.charges, badRate.rates, pos(c, badRate.at)))
		if !s.blankW {
			c.Undecide("R-C09-4", s.declName+"|"+s.label+" timeout 0", pos(c, s.call), "the wait returned by the limiter is no longer discarded; the timeout-0 rule needs review")
			continue
		}
		c.Check(okTimeout, "R-C09-4", s.declName+"|"+s.label+" timeout 0", pos(c, s.call),
			"the wait is discarded and every policy of this limiter has the constant timeout 0 (no reservation of future periods)",
			sprintf("the limiter %s is built with a non-zero timeout (%s) while the imposed wait is discarded: packets reserved for future periods are let through immediately, more than the configured rate per period", s.label, pos(c, badTimeout.at)))
	}

	// --- decision table of every function that charges limiters
	chargingLit := map[*ast.FuncLit]bool{}
	for _, key := range encOrder {
		ss := byEnc[key]
		fa := ss[0].enc
		if ss[0].encLit != nil {
			chargingLit[ss[0].encLit] = true
		}
		c.Count("functions_analysed", 1)
		idx := map[*ast.CallExpr]int{}
		for i, s := range ss {
			idx[s.call] = i
		}
		named := c09resultsOf(fa)
		res := analyze(c, fa, flow.Config{
			NoHavoc: true,
			OnNode: func(st *flow.State, n ast.Node) {
				named.onNode(st, n)
				// a later assignment to the variable holding a limiter's verdict replaces the verdict
				if as, ok := n.(*ast.AssignStmt); ok {
					fromSite := false
					for _, r := range as.Rhs {
						if call, ok := ast.Unparen(r).(*ast.CallExpr); ok {
							if _, isSite := idx[call]; isSite {
								fromSite = true
							}
						}
					}
					for _, l := range as.Lhs {
						id, ok := ast.Unparen(l).(*ast.Ident)
						if !ok {
							continue
						}
						for _, s := range ss {
							if s.perm != nil && c09obj(fa, id) == s.perm {
								st.Set("ev:overwritten", c09val(!fromSite))
							}
						}
					}
				}
			},
			OnCall: func(st *flow.State, call *ast.CallExpr, callee types.Object, deferred bool) {
				if i, ok := idx[call]; ok {
					st.Set(sprintf("ev:acq:%d", i), flow.True)
				}
			},
		})
		if res == nil {
			continue
		}
		var bad *flow.Exit
		why := ""
		exits := 0
		for _, ex := range res.Exits {
			if ex.Kind != flow.ExitReturn {
				continue
			}
			r := named.expr(ex, 0)
			if r == nil {
				continue
			}
			exits++
			var charged []*site
			for i, s := range ss {
				if ex.State.Is(sprintf("ev:acq:%d", i), flow.True) {
					charged = append(charged, s)
				}
			}
			switch len(charged) {
			case 0:
				if v, known := named.constant(ex, 0); !known || v.ExactString() != "true" {
					bad, why = ex, "no limiter was charged but the result is not the constant true"
				}
				for _, s := range ss {
					if !ex.State.Is(fa.NilKey(s.recv), flow.True) {
						bad, why = ex, "a packet is admitted without charging the limiter "+types.ExprString(s.recv)+" although that limiter is not known to be unconfigured (nil): the configured rate is not enforced"
					}
				}
			case 1:
				id, ok := r.(*ast.Ident)
				if !ok || charged[0].perm == nil || c09obj(fa, id) != charged[0].perm || ex.State.Is("ev:overwritten", flow.True) {
					bad, why = ex, "the result is not the verdict of the limiter that was charged ("+types.ExprString(charged[0].recv)+"): rejected packets are admitted (or admitted ones dropped)"
				}
			default:
				bad, why = ex, "more than one limiter is charged for one packet"
			}
			if bad != nil {
				break
			}
		}
		var w []string
		if bad != nil {
			w = append([]string{"exit at " + pos(c, bad.At)}, witness(bad.State)...)
		}
		if exits == 0 {
			c.Errorf("R-C09-4: no exits of %s analysed", ss[0].declName)
			continue
		}
		c.Check(bad == nil, "R-C09-4", ss[0].declName+"|result is the charged limiter's verdict", pos(c, fa.Body),
			sprintf("%d exit(s): the charged limiter's verdict is returned; true only when every limiter is nil", exits), why, w...)
	}

	// --- methods of Limiter that dispatch through a func-typed field holding charging closures
	for _, fd := range c09pkgFuncs(pkg) {
		g := flow.NewFunc(pkg, fd)
		rv := c09recv(g)
		if rv == nil || !c09isPtrTo(rv.Type(), mq, "Limiter") {
			continue
		}
		var dyn []*ast.CallExpr
		var dynField *types.Var
		var dynHolder ast.Expr // the expression whose nil-ness says "nothing configured"
		dynMethod := ""
		for _, call := range calls(fd.Body, false) {
			fun := c09resolve(g, call.Fun)
			if fld := c09fieldOf(g, fun); fld != nil && limiterFields[fld] {
				if _, isFunc := fld.Type().Underlying().(*types.Signature); isFunc {
					dyn = append(dyn, call)
					dynField, dynHolder = fld, call.Fun
				}
				continue
			}
			// a method call on an interface-typed field of Limiter
			if sel, ok := fun.(*ast.SelectorExpr); ok {
				if fld := c09fieldOf(g, c09resolve(g, sel.X)); fld != nil && limiterFields[fld] {
					if _, isIface := fld.Type().Underlying().(*types.Interface); isIface {
						dyn = append(dyn, call)
						dynField, dynHolder, dynMethod = fld, sel.X, sel.Sel.Name
					}
				}
			}
		}
		if len(dyn) == 0 {
			continue
		}
		cons := declName(pkg, fd) + "|result is the charged limiter's verdict"
		if len(dyn) != 1 {
			c.Undecide("R-C09-4", cons, pos(c, dyn[1]), "more than one dispatch through a limiter closure")
			continue
		}
		d := dyn[0]
		undecided := ""
		for _, v := range funcStores[dynField] {
			if dynMethod != "" {
				// the single implementation(s) behind the interface: the stored value's type must
				// implement the method by a function that charges a library limiter
				ok := false
				if tv, has := g.Info.Types[v]; has && tv.Type != nil {
					if m := types.NewMethodSet(tv.Type).Lookup(pkg.Types, dynMethod); m != nil {
						if md := declOf(pkg, m.Obj()); md != nil && len(byEnc[md.Body]) > 0 {
							ok = true
						}
					}
				}
				if !ok {
					undecided = "a value stored into Limiter." + dynField.Name() + " does not implement " + dynMethod + " by a method that charges a library limiter"
				}
				continue
			}
			if lit, ok := v.(*ast.FuncLit); !ok || !chargingLit[lit] {
				undecided = "a value stored into Limiter." + dynField.Name() + " is not a closure that charges a library limiter"
			}
		}
		if len(funcStores[dynField]) == 0 {
			undecided = "no closure is ever stored into Limiter." + dynField.Name()
		}
		params := map[types.Object]bool{}
		for _, p := range c09params(g) {
			params[p] = true
		}
		for _, a := range d.Args {
			if id, ok := c09resolve(g, a).(*ast.Ident); !ok || !params[c09obj(g, id)] {
				undecided = "the size handed to the limiter closure is not the method's parameter"
			}
		}
		if undecided != "" {
			c.Undecide("R-C09-4", cons, pos(c, d), undecided)
			continue
		}
		c.Count("functions_analysed", 1)
		pm := parentMap(fd.Body)
		var perm types.Object
		if as, ok := pm[d].(*ast.AssignStmt); ok && len(as.Lhs) == 1 && len(as.Rhs) == 1 {
			if id, ok := as.Lhs[0].(*ast.Ident); ok {
				perm = c09obj(g, id)
			}
		}
		named := c09resultsOf(g)
		res := analyze(c, g, flow.Config{
			NoHavoc: true,
			OnNode: func(st *flow.State, n ast.Node) {
				named.onNode(st, n)
				if as, ok := n.(*ast.AssignStmt); ok && perm != nil {
					for i, l := range as.Lhs {
						if id, ok := ast.Unparen(l).(*ast.Ident); ok && c09obj(g, id) == perm {
							st.Set("ev:overwritten", c09val(!(len(as.Rhs) == len(as.Lhs) && ast.Unparen(as.Rhs[i]) == ast.Expr(d))))
						}
					}
				}
			},
			OnCall: func(st *flow.State, call *ast.CallExpr, callee types.Object, deferred bool) {
				if call == d {
					st.Set("ev:dispatched", flow.True)
				}
			},
		})
		if res == nil {
			continue
		}
		var bad *flow.Exit
		why := ""
		exits := 0
		for _, ex := range res.Exits {
			if ex.Kind != flow.ExitReturn || bad != nil {
				continue
			}
			r := named.expr(ex, 0)
			if r == nil {
				continue
			}
			exits++
			if ex.State.Is("ev:dispatched", flow.True) {
				id, isID := r.(*ast.Ident)
				switch {
				case r == ast.Expr(d):
				case isID && perm != nil && c09obj(g, id) == perm && !ex.State.Is("ev:overwritten", flow.True):
				default:
					bad, why = ex, "the result is not the verdict of the limiter closure that was called: rejected packets are admitted (or admitted ones dropped)"
				}
				continue
			}
			if v, known := named.constant(ex, 0); !known || v.ExactString() != "true" {
				bad, why = ex, "no limiter was charged but the result is not the constant true"
			} else if !ex.State.Is(g.NilKey(dynHolder), flow.True) {
				bad, why = ex, "a packet is admitted without calling the limiter behind "+types.ExprString(dynHolder)+" although it is not known to be unset (nil): the configured rate is not enforced"
			}
		}
		var w []string
		if bad != nil {
			w = append([]string{"exit at " + pos(c, bad.At)}, witness(bad.State)...)
		}
		if exits == 0 {
			c.Errorf("R-C09-4: no exits of %s analysed", declName(pkg, fd))
			continue
		}
		c.Check(bad == nil, "R-C09-4", cons, pos(c, d),
			sprintf("%d exit(s): the verdict of the limiter closure is returned; true only when no closure is set", exits), why, w...)
	}
}

// c09Wrappers: RateLimiter.AcquirePermission charges 1, AcquireNPermission(n) charges n —
// the exported entry points every user (filter, MQTT) goes through.
func c09Wrappers(c *core.Ctx, lim *c09limiter, fns []*c09fn) {
	if lim == nil {
		return
	}
	acquire := map[*types.Func]bool{}
	for _, fn := range fns {
		if fn.fd != nil && fn.obj != nil && fn.acquire {
			acquire[fn.obj] = true
		}
	}
	for _, w := range []struct{ name, want string }{{"AcquirePermission", "1"}, {"AcquireNPermission", "param"}} {
		f := fn(c, c09lib, "RateLimiter", w.name)
		if f == nil {
			continue
		}
		cons := fname(c09lib, "RateLimiter", w.name)
		label := cons + "|charges " + map[string]string{"1": "1", "param": "n"}[w.want]
		if o, ok := f.Info.Defs[f.Node.(*ast.FuncDecl).Name].(*types.Func); ok && acquire[o] {
			// the wrapper has been merged into the acquire function itself: nothing to delegate
			c.Discharge("R-C09-4", label, pos(c, f.Body), "the method is itself an acquire function (checked by R-C09-1)")
			continue
		}
		recv := c09recv(f)
		params := map[types.Object]bool{}
		for _, p := range c09params(f) {
			params[p] = true
		}
		var inner []*ast.CallExpr
		for _, call := range calls(f.Body, false) {
			if fo, ok := f.Callee(call).(*types.Func); ok && acquire[fo] {
				inner = append(inner, call)
			}
		}
		what := "the constant 1"
		if w.want == "param" {
			what = "its parameter n"
		}
		if len(inner) == 0 {
			c.Violate("R-C09-4", label, pos(c, f.Body), "the method does not delegate to the limiter's acquire function: no permit is reserved")
			continue
		}
		ok, why := true, ""
		isInner := map[*ast.CallExpr]bool{}
		for _, call := range inner {
			isInner[call] = true
			sel, isSel := ast.Unparen(call.Fun).(*ast.SelectorExpr)
			if !isSel || c09obj(f, c09root(sel.X)) != recv {
				ok, why = false, "the acquire function is called on another limiter than the receiver"
				continue
			}
			if len(call.Args) != 1 {
				ok, why = false, "unexpected argument list"
				continue
			}
			arg := c09resolve(f, call.Args[0])
			switch w.want {
			case "1":
				if !c09constIs(f, arg, "1") {
					ok, why = false, "AcquirePermission charges "+types.ExprString(arg)+" instead of 1 permit per request: the per-period count of admitted requests is no longer limitForPeriod"
				}
			case "param":
				if id, isID := arg.(*ast.Ident); !isID || !params[c09obj(f, id)] {
					ok, why = false, "AcquireNPermission(n) charges "+types.ExprString(arg)+" instead of n"
				}
			}
		}
		// every exit passes through the delegate and returns its results
		res := analyze(c, f, flow.Config{NoHavoc: true, OnCall: func(st *flow.State, call *ast.CallExpr, callee types.Object, d bool) {
			if isInner[call] {
				st.Set("ev:delegated", flow.True)
			}
		}})
		if res == nil {
			continue
		}
		var wit []string
		for _, ex := range res.Exits {
			if ex.Kind == flow.ExitReturn && !ex.State.Is("ev:delegated", flow.True) && ok {
				ok, why = false, "an exit of the method does not go through the acquire function"
				wit = append([]string{"exit at " + pos(c, ex.At)}, witness(ex.State)...)
			}
			if ex.Kind == flow.ExitReturn && ex.Return != nil && len(ex.Return.Results) >= 1 && ok {
				// the verdict must not be replaced by a constant
				if tv, isConst := f.Info.Types[ex.Return.Results[0]]; isConst && tv.Value != nil {
					ok, why = false, "the verdict of the acquire function is replaced by the constant "+tv.Value.ExactString()
				}
			}
		}
		c.Check(ok, "R-C09-4", label, pos(c, inner[0]), "delegates to the acquire function of the receiver with "+what+" on every path", why, wit...)
	}
}

func c09val(b bool) flow.Val {
	if b {
		return flow.True
	}
	return flow.False
}
