package rules

import (
	"go/ast"
	"go/token"
	"go/types"
	"sort"

	"golang.org/x/tools/go/cfg"
	"golang.org/x/tools/go/packages"

	"verif/internal/core"
	"verif/internal/flow"
)

var c03hopRequired = []string{"Connection", "Keep-Alive", "Proxy-Connection", "Proxy-Authenticate",
	"Proxy-Authorization", "Te", "Trailer", "Transfer-Encoding", "Upgrade"}

// c03hdrStore is a store `X.Header = hdrFn(arg)` to an outbound http.Request.
type c03hdrStore struct {
	f      *flow.Func // enclosing function
	assign *ast.AssignStmt
	lhs    ast.Expr
	call   *ast.CallExpr // nil if the right-hand side is not a call
	callee *types.Func   // module function producing the header (nil otherwise)
	rhs    ast.Expr
	local  types.Object // the header function was inlined: the local clone that is stored
	src    ast.Expr     // … and the header it was cloned from
}

// c03Header resolves the outbound-header stores of the proxy package, decides R-C03-1..3 on
// the header function and hands the enclosing request builder to R-C03-4/5.
func c03Header(c *core.Ctx) {
	reqHeader := c03stdField(c, "net/http", "Request", "Header")
	if reqHeader == nil || c.Prog.Pkg(c03px) == nil {
		if c.Prog.Pkg(c03px) == nil {
			c.Errorf("anchor: package %s not loaded", c03px)
		}
		return
	}
	var stores []*c03hdrStore
	eachFunc(c, func(pkg *packages.Package, fd *ast.FuncDecl) {
		if relPkg(pkg.PkgPath) != c03px {
			return
		}
		f := flow.NewFunc(pkg, fd)
		ast.Inspect(fd.Body, func(n ast.Node) bool {
			as, ok := n.(*ast.AssignStmt)
			if !ok || len(as.Lhs) != len(as.Rhs) {
				return true
			}
			for i, l := range as.Lhs {
				if c03fieldOf(f, l) != reqHeader {
					continue
				}
				s := &c03hdrStore{f: f, assign: as, lhs: l, rhs: as.Rhs[i]}
				if call, ok := ast.Unparen(as.Rhs[i]).(*ast.CallExpr); ok {
					s.call = call
					if fo, ok := f.Callee(call).(*types.Func); ok && c03declOf(c, fo) != nil {
						s.callee = fo
					}
				}
				stores = append(stores, s)
			}
			return true
		})
	})
	if !c.RequireCount("R-C03-1", "stores to the Header of an outbound http.Request in "+c03px, len(stores), 1) {
		return
	}
	seen := map[*types.Func]bool{}
	for _, s := range stores {
		cons := c03fnName(s.f) + "|outbound header"
		if s.callee == nil {
			// the header function inlined into the builder: a local Clone() that is stripped in
			// place and then stored
			if id, ok := ast.Unparen(s.rhs).(*ast.Ident); ok {
				o := c03obj(s.f, id)
				defs := c03defs(s.f, o)
				okClone := len(defs) > 0
				for _, d := range defs {
					op, recv := "", ast.Expr(nil)
					if d.call != nil && d.rhs != nil {
						op, recv = c03hdrOp(s.f, d.call)
					}
					if op != "Clone" {
						okClone = false
					} else {
						s.src = recv
					}
				}
				if okClone {
					s.local = o
					c.Discharge("R-C03-1", cons, pos(c, s.assign), "Header = a local Clone() stripped in the builder itself")
					c03HeaderInline(c, s)
					continue
				}
			}
			c.Violate("R-C03-1", cons, pos(c, s.assign),
				"the outbound request's Header is not produced by a hop-by-hop stripping function of the module: Connection, Keep-Alive, Upgrade … and every header named by Connection reach the backend (and the inbound header map may be shared)")
			continue
		}
		c.Discharge("R-C03-1", cons, pos(c, s.assign), "Header = "+s.callee.Name()+"(…)")
		if !seen[s.callee] {
			seen[s.callee] = true
			c03HeaderFn(c, s.callee)
		}
	}
	// the request builder(s), by role: the innermost function of the package whose reach
	// contains both the request constructor and a store of the stripped header (so that the
	// constructor or the store may live in helpers)
	has := func(g *flow.Func) (ctor bool, mine []*c03hdrStore) {
		for _, h := range reach(g, 2) {
			if len(callsTo(h, h.Body, false, "net/http.NewRequestWithContext", "net/http.NewRequest")) > 0 {
				ctor = true
			}
			for _, t := range stores {
				if t.f.Body == h.Body {
					mine = append(mine, t)
				}
			}
		}
		return
	}
	cands := funcsByRole(c, c03px, func(g *flow.Func, fd *ast.FuncDecl) bool {
		ctor, mine := has(g)
		return ctor && len(mine) > 0
	})
	builders := 0
	for _, g := range cands {
		inner := false
		for _, h := range reach(g, 2)[1:] {
			for _, o := range cands {
				if o.Body == h.Body {
					inner = true
				}
			}
		}
		if inner {
			continue
		}
		_, mine := has(g)
		builders++
		c03Request(c, g, mine)
	}
	c.RequireCount("R-C03-4", "functions building the outbound request (constructor + header store in reach)", builders, 1)
	c03AddrClassifier(c)
}

// ---------------------------------------------------------------------------------------
// header function: R-C03-1, R-C03-2, R-C03-3

type c03hdrSum struct {
	must, may map[string]bool
	exits     int
	lacking   map[string]*flow.State // an exit state lacking the event (witness)
}

type c03hdrAnalysis struct {
	c     *core.Ctx
	memo  map[*types.Func]*c03hdrSum
	busy  map[*types.Func]bool
	loops int // Connection-value loops found (vacuity)
	// delFns: func-typed parameters of helpers (callback iterators) that are bound, at the call,
	// to "delete this key from the outbound header" (a method value H.Del or a literal doing so)
	delFns map[types.Object]bool
}

const (
	c03evListed   = "ev:listed"
	c03evBadOrder = "ev:badorder"
)

func c03HeaderFn(c *core.Ctx, fo *types.Func) {
	f := c03declOf(c, fo)
	if f == nil {
		return
	}
	name := c03fnName(f)
	fd := f.Node.(*ast.FuncDecl)
	// the inbound header parameter
	var in types.Object
	nHdr := 0
	for _, fl := range fd.Type.Params.List {
		for _, id := range fl.Names {
			if o := f.Info.Defs[id]; o != nil && c03isHeaderType(o.Type()) {
				in = o
				nHdr++
			}
		}
	}
	if nHdr != 1 {
		c.Undecide("R-C03-3", name+"|inbound header parameter", pos(c, fd), sprintf("expected exactly one header parameter, found %d", nHdr))
		return
	}
	// H = locals defined (only) from Clone() of the parameter
	H := map[types.Object]bool{}
	notFresh := map[types.Object]string{}
	ast.Inspect(f.Body, func(n ast.Node) bool {
		id, ok := n.(*ast.Ident)
		if !ok {
			return true
		}
		o, ok := f.Info.Defs[id].(*types.Var)
		if !ok || !c03isHeaderType(o.Type()) || o == in {
			return true
		}
		fresh := true
		for _, d := range c03defs(f, o) {
			op, recv := "", ast.Expr(nil)
			if d.call != nil && d.rhs != nil {
				op, recv = c03hdrOp(f, d.call)
			}
			if op != "Clone" || c03rootOf(f, recv) != in {
				fresh = false
			}
		}
		if fresh {
			H[o] = true
		} else if c03canon(f, o) == in {
			notFresh[o] = "is the inbound header itself"
		}
		return true
	})

	// R-C03-3
	muts := 0
	aliased := false
	checkRecv := func(recv ast.Expr, at ast.Node, what string) {
		r := c03rootOf(f, recv)
		if r == nil {
			return
		}
		muts++
		if r == in {
			aliased = true
			c.Violate("R-C03-3", name+"|mutations act on a clone", pos(c, at),
				what+" acts on the inbound header map itself: the client's request (used by later filters, retries and the access log) loses its headers, and concurrent mirror/retry requests race on the map")
		}
	}
	for _, call := range calls(f.Body, true) {
		if op, recv := c03hdrOp(f, call); op == "Del" || op == "Set" || op == "Add" {
			checkRecv(recv, call, op)
		}
		if b, ok := f.Callee(call).(*types.Builtin); ok && b.Name() == "delete" && len(call.Args) == 2 {
			if tv, ok := f.Info.Types[call.Args[0]]; ok && c03isHeaderType(tv.Type) {
				checkRecv(call.Args[0], call, "delete()")
			}
		}
	}
	ast.Inspect(f.Body, func(n ast.Node) bool {
		if as, ok := n.(*ast.AssignStmt); ok {
			for _, l := range as.Lhs {
				if ix, ok := ast.Unparen(l).(*ast.IndexExpr); ok {
					if tv, ok := f.Info.Types[ix.X]; ok && c03isHeaderType(tv.Type) {
						checkRecv(ix.X, as, "index store")
					}
				}
			}
		}
		return true
	})
	retOK, rets := true, 0
	var badRet ast.Node
	// Hret: the header(s) the function returns — the outbound header for R-C03-1/2 (whether it
	// is a proper clone is R-C03-3's business alone)
	Hret := map[types.Object]bool{}
	for o := range H {
		Hret[o] = true
	}
	ast.Inspect(f.Body, func(n ast.Node) bool {
		switch x := n.(type) {
		case *ast.FuncLit:
			return false
		case *ast.ReturnStmt:
			rets++
			if len(x.Results) == 1 {
				if r := c03rootOf(f, x.Results[0]); r != nil {
					Hret[r] = true
				}
			}
			if len(x.Results) != 1 || !H[c03rootOf(f, x.Results[0])] {
				retOK = false
				badRet = x
			}
		}
		return true
	})
	// the parameter handed to a module function that mutates it (one level)
	for _, call := range calls(f.Body, true) {
		fo, ok := f.Callee(call).(*types.Func)
		if !ok {
			continue
		}
		if op, _ := c03hdrOp(f, call); op != "" {
			continue
		}
		for i, arg := range call.Args {
			tv, ok := f.Info.Types[arg]
			if !ok || !c03isHeaderType(tv.Type) || c03rootOf(f, arg) != in {
				continue
			}
			if hf := c03declOf(c, fo); hf != nil && c03mutatesParam(hf, i) {
				muts++
				aliased = true
				c.Violate("R-C03-3", name+"|mutations act on a clone", pos(c, call),
					"the inbound header map itself is handed to "+fo.Name()+", which mutates it: the client's request loses its headers, and concurrent mirror/retry requests race on the map")
			}
		}
	}
	if !aliased {
		c.Discharge("R-C03-3", name+"|mutations act on a clone", pos(c, fd),
			sprintf("%d direct header mutations, none on the parameter or an alias of it", muts))
	}
	c.Check(retOK && rets > 0 && len(H) > 0, "R-C03-3", name+"|returns the clone", pos(c, fd),
		"every return yields a header obtained from Clone() of the parameter",
		"the header function returns something other than a Clone() of the inbound header (aliasing the client's header map, or a header that did not receive the deletions)", pos(c, badRet))

	// R-C03-1 / R-C03-2
	a := &c03hdrAnalysis{c: c, memo: map[*types.Func]*c03hdrSum{}, busy: map[*types.Func]bool{}}
	sum := a.unit(f, Hret, 0)
	if sum == nil {
		return
	}
	for _, k := range c03hopRequired {
		ev := "ev:del:" + k
		c.Check(sum.must[ev], "R-C03-1", name+"|deletes "+k, pos(c, fd),
			sprintf("deleted from the outbound header on all %d exits", sum.exits),
			"hop-by-hop header "+k+" is not removed from the outbound header on every path: the backend receives the client's "+k+" header", witness(sum.lacking[ev])...)
	}
	if a.loops == 0 {
		c.Violate("R-C03-2", name+"|Connection-listed headers deleted", pos(c, fd),
			"no loop over the values of the Connection header deletes the headers it names: a header listed by the client in Connection (RFC 7230 §6.1) is forwarded to the backend")
	} else {
		c.Check(sum.must[c03evListed], "R-C03-2", name+"|Connection-listed headers deleted", pos(c, fd),
			"every non-empty Connection token is deleted from the outbound header on all paths",
			"on some path the headers named by Connection are not deleted from the outbound header", witness(sum.lacking[c03evListed])...)
	}
	c.Check(!sum.may[c03evBadOrder], "R-C03-2", name+"|Connection read before it is deleted", pos(c, fd),
		"the Connection values are read while Connection is still present",
		"the Connection values are read from a header from which Connection has already been deleted: the loop sees no tokens and Connection-listed headers reach the backend")
}

// c03mutatesParam reports whether the function mutates its idx-th parameter (a header map).
func c03mutatesParam(hf *flow.Func, idx int) bool {
	fd, ok := hf.Node.(*ast.FuncDecl)
	if !ok {
		return true
	}
	var params []types.Object
	for _, fl := range fd.Type.Params.List {
		for _, id := range fl.Names {
			params = append(params, hf.Info.Defs[id])
		}
	}
	if idx >= len(params) || params[idx] == nil {
		return true
	}
	p := params[idx]
	mut := false
	for _, call := range calls(hf.Body, true) {
		if op, recv := c03hdrOp(hf, call); (op == "Del" || op == "Set" || op == "Add") && c03rootOf(hf, recv) == p {
			mut = true
		}
		if b, ok := hf.Callee(call).(*types.Builtin); ok && b.Name() == "delete" && len(call.Args) == 2 && c03rootOf(hf, call.Args[0]) == p {
			mut = true
		}
		if _, isFn := hf.Callee(call).(*types.Func); isFn {
			if op, _ := c03hdrOp(hf, call); op == "" {
				for _, a := range call.Args {
					if tv, ok := hf.Info.Types[a]; ok && c03isHeaderType(tv.Type) && c03rootOf(hf, a) == p {
						mut = true // passed on: assume mutated
					}
				}
			}
		}
	}
	ast.Inspect(hf.Body, func(n ast.Node) bool {
		if as, ok := n.(*ast.AssignStmt); ok {
			for _, l := range as.Lhs {
				if ix, ok := ast.Unparen(l).(*ast.IndexExpr); ok && c03rootOf(hf, ix.X) == p {
					mut = true
				}
			}
		}
		return true
	})
	return mut
}

// c03table resolves a ranged expression to a constant string table (package-level variable
// initialised with a composite literal of constants and never assigned, or a literal).
func (a *c03hdrAnalysis) table(f *flow.Func, x ast.Expr) ([]string, bool) {
	lit, _ := ast.Unparen(x).(*ast.CompositeLit)
	if lit == nil {
		id, ok := ast.Unparen(x).(*ast.Ident)
		if !ok {
			return nil, false
		}
		v, ok := c03obj(f, id).(*types.Var)
		if !ok || v.Pkg() == nil || v.Parent() != v.Pkg().Scope() {
			return nil, false
		}
		pkg := a.c.Prog.All[v.Pkg().Path()]
		if pkg == nil {
			return nil, false
		}
		mutated := false
		for _, file := range pkg.Syntax {
			ast.Inspect(file, func(n ast.Node) bool {
				switch s := n.(type) {
				case *ast.ValueSpec:
					for i, nm := range s.Names {
						if pkg.TypesInfo.Defs[nm] == v && i < len(s.Values) {
							lit, _ = ast.Unparen(s.Values[i]).(*ast.CompositeLit)
						}
					}
				case *ast.AssignStmt:
					for _, l := range s.Lhs {
						e := ast.Unparen(l)
						if ix, ok := e.(*ast.IndexExpr); ok {
							e = ast.Unparen(ix.X)
						}
						if lid, ok := e.(*ast.Ident); ok && pkg.TypesInfo.Uses[lid] == v {
							mutated = true
						}
					}
				case *ast.UnaryExpr:
					if s.Op == token.AND {
						if lid, ok := ast.Unparen(s.X).(*ast.Ident); ok && pkg.TypesInfo.Uses[lid] == v {
							mutated = true
						}
					}
				}
				return true
			})
		}
		if lit == nil || mutated {
			return nil, false
		}
		info := pkg.TypesInfo
		var keys []string
		for _, el := range lit.Elts {
			tv, ok := info.Types[el]
			if !ok || tv.Value == nil {
				return nil, false
			}
			k, ok := c03constKey(&flow.Func{Info: info}, el)
			if !ok {
				return nil, false
			}
			keys = append(keys, k)
		}
		return keys, len(keys) > 0
	}
	var keys []string
	for _, el := range lit.Elts {
		k, ok := c03constKey(f, el)
		if !ok {
			return nil, false
		}
		keys = append(keys, k)
	}
	return keys, len(keys) > 0
}

// unit analyses one function whose header variables H denote the outbound header and
// returns the events that hold on all / some return exits.
func (a *c03hdrAnalysis) unit(f *flow.Func, H map[types.Object]bool, depth int) *c03hdrSum {
	return a.unitAt(f, H, depth, nil)
}

// unitAt: as unit, but only the return exits that passed node `at` (the store of the header
// when the stripping is done inline in the builder) are considered.
func (a *c03hdrAnalysis) unitAt(f *flow.Func, H map[types.Object]bool, depth int, at ast.Node) *c03hdrSum {
	c := a.c
	name := c03fnName(f)
	isH := func(e ast.Expr) bool { return H[c03rootOf(f, e)] }
	// delArg: call deletes its argument from the outbound header — H.Del(x), a method value of
	// it held in a local, or a callback parameter bound to such a deletion
	delArg := func(call *ast.CallExpr) (ast.Expr, bool) {
		if len(call.Args) != 1 {
			return nil, false
		}
		if op, recv := c03hdrOp(f, call); op == "Del" && isH(recv) {
			return call.Args[0], true
		}
		if id, ok := ast.Unparen(call.Fun).(*ast.Ident); ok && a.delFns[c03obj(f, id)] {
			return call.Args[0], true
		}
		return nil, false
	}

	// --- Connection-value loops and the tokens derived from them
	type connLoop struct {
		lp      *c03loop
		rs      ast.Stmt
		readAt  ast.Node              // node at which the Connection values are read
		fromH   bool                  // values are read from the outbound header itself
		tainted map[types.Object]bool // variables holding (parts of) the values
		idents  map[types.Object]*ast.Ident
		del     *ast.CallExpr
		chain   *c03chain // rs … innermost loop enclosing the listed Del
		escapes bool      // tokens are stored in a variable declared outside the loop
	}
	var conns []*connLoop
	for _, lp := range c03loops(f, f.Body) {
		collExpr, defAt := c03resolveLocal(f, lp.coll)
		var hdr ast.Expr
		switch x := collExpr.(type) {
		case *ast.IndexExpr:
			if tv, ok := f.Info.Types[x.X]; ok && c03isHeaderType(tv.Type) {
				if tvk, ok := f.Info.Types[x.Index]; ok && tvk.Value != nil && tvk.Value.ExactString() == `"Connection"` {
					hdr = x.X
				}
			}
		case *ast.CallExpr:
			if op, recv := c03hdrOp(f, x); op == "Values" && len(x.Args) == 1 {
				if k, ok := c03constKey(f, x.Args[0]); ok && k == "Connection" {
					hdr = recv
				}
			}
		}
		if hdr == nil {
			continue
		}
		cl := &connLoop{lp: lp, rs: lp.stmt, fromH: isH(hdr), tainted: map[types.Object]bool{}, idents: map[types.Object]*ast.Ident{}}
		cl.readAt = defAt
		if cl.readAt == nil {
			cl.readAt = lp.coll
		}
		// the element: the value variable, or (index forms) anything indexed by the key
		elemObjs := map[types.Object]bool{}
		if lp.val != nil {
			elemObjs[lp.val] = true
		} else {
			elemObjs[lp.key] = true
		}
		for o := range elemObjs {
			cl.tainted[o] = true
		}
		for changed := true; changed; {
			changed = false
			taint := func(l ast.Expr) {
				if id, ok := ast.Unparen(l).(*ast.Ident); ok && id.Name != "_" {
					if o := c03obj(f, id); o != nil && !cl.tainted[o] {
						cl.tainted[o] = true
						cl.idents[o] = id
						changed = true
					}
				}
			}
			ast.Inspect(lp.body, func(m ast.Node) bool {
				switch s := m.(type) {
				case *ast.AssignStmt:
					for i, r := range s.Rhs {
						if c03mentions(f, r, cl.tainted) {
							if len(s.Lhs) == len(s.Rhs) {
								taint(s.Lhs[i])
							} else {
								for _, l := range s.Lhs {
									taint(l)
								}
							}
						}
					}
				case *ast.RangeStmt:
					if c03mentions(f, s.X, cl.tainted) {
						if s.Value != nil {
							taint(s.Value)
						} else if s.Key != nil {
							taint(s.Key)
						}
					}
				case *ast.ForStmt:
					if in := c03loopOf(f, s); in != nil && c03mentions(f, in.coll, cl.tainted) {
						if id, ok := s.Init.(*ast.AssignStmt).Lhs[0].(*ast.Ident); ok {
							taint(id)
						}
					}
				}
				return true
			})
		}
		// the value variable itself can be tested for emptiness too
		ast.Inspect(lp.body, func(m ast.Node) bool {
			if id, ok := m.(*ast.Ident); ok && cl.tainted[c03obj(f, id)] && cl.idents[c03obj(f, id)] == nil {
				cl.idents[c03obj(f, id)] = id
			}
			return true
		})
		derived := map[types.Object]bool{}
		for o := range cl.tainted {
			if !elemObjs[o] {
				derived[o] = true
				if o.Pos() < lp.stmt.Pos() || o.Pos() > lp.stmt.End() {
					cl.escapes = true
				}
			}
		}
		for _, call := range calls(lp.body, false) {
			if arg, ok := delArg(call); ok {
				switch {
				case c03mentions(f, arg, derived):
					cl.del = call
				case lp.isElem(f, arg) && len(derived) == 0 && cl.del == nil:
					// deleting the unsplit value: only right when no splitting happens at all
					cl.del = call
				}
			}
		}
		a.loops++
		conns = append(conns, cl)
	}
	for _, cl := range conns {
		if cl.del == nil {
			continue
		}
		cl := cl
		cl.chain = newC03chain(f, cl.rs, cl.del, func(st *flow.State) bool {
			for _, id := range cl.idents {
				if c03empty(f, st, id) == flow.True {
					return true
				}
			}
			return false
		})
	}

	// --- constant-table loops deleting their element from H
	type tableLoop struct {
		rs   ast.Stmt
		keys []string
		it   *c03iter
		del  *ast.CallExpr
	}
	var tables []*tableLoop
	for _, lp := range c03loops(f, f.Body) {
		tbl, _ := c03resolveLocal(f, lp.coll)
		keys, ok := a.table(f, tbl)
		if !ok {
			continue
		}
		for _, call := range calls(lp.body, false) {
			if arg, ok := delArg(call); ok && lp.isElem(f, arg) {
				tables = append(tables, &tableLoop{rs: lp.stmt, keys: keys, del: call, it: newC03iter(f, lp.stmt, nil)})
				break
			}
		}
	}

	// --- helper calls receiving the outbound header
	helperOf := func(call *ast.CallExpr) (*types.Func, map[types.Object]bool, *flow.Func) {
		fo, ok := f.Callee(call).(*types.Func)
		if !ok || depth >= 2 || a.busy[fo] {
			return nil, nil, nil
		}
		if op, _ := c03hdrOp(f, call); op != "" {
			return nil, nil, nil
		}
		var idx []int
		for i, arg := range call.Args {
			if tv, ok := f.Info.Types[arg]; ok && c03isHeaderType(tv.Type) && isH(arg) {
				idx = append(idx, i)
			}
		}
		if len(idx) == 0 {
			return nil, nil, nil
		}
		hf := c03declOf(c, fo)
		if hf == nil {
			return nil, nil, nil
		}
		fd := hf.Node.(*ast.FuncDecl)
		var params []types.Object
		for _, fl := range fd.Type.Params.List {
			for _, id := range fl.Names {
				params = append(params, hf.Info.Defs[id])
			}
		}
		H2 := map[types.Object]bool{}
		for _, i := range idx {
			if i < len(params) && params[i] != nil {
				H2[params[i]] = true
			}
		}
		if len(H2) == 0 {
			return nil, nil, nil
		}
		// callback iterator: a func argument that deletes its argument from the outbound header
		for i, arg := range call.Args {
			if i >= len(params) || params[i] == nil {
				continue
			}
			if _, isFn := params[i].Type().Underlying().(*types.Signature); !isFn {
				continue
			}
			fnExpr, _ := c03resolveLocal(f, arg)
			isDel := false
			switch x := fnExpr.(type) {
			case *ast.SelectorExpr:
				if sl := f.Info.Selections[x]; sl != nil && sl.Kind() == types.MethodVal && sl.Obj().Name() == "Del" && isH(x.X) {
					if sig, _ := sl.Obj().Type().(*types.Signature); sig != nil && sig.Recv() != nil && c03isHeaderType(sig.Recv().Type()) {
						isDel = true
					}
				}
			case *ast.FuncLit:
				if x.Type.Params != nil && len(x.Type.Params.List) == 1 && len(x.Type.Params.List[0].Names) == 1 {
					p := f.Info.Defs[x.Type.Params.List[0].Names[0]]
					for _, st := range x.Body.List {
						if es, ok := st.(*ast.ExprStmt); ok {
							if cl, ok := es.X.(*ast.CallExpr); ok && len(cl.Args) == 1 {
								if op, recv := c03hdrOp(f, cl); op == "Del" && isH(recv) {
									if id, ok := ast.Unparen(cl.Args[0]).(*ast.Ident); ok && c03obj(f, id) == p {
										isDel = true
									}
								}
							}
						}
					}
				}
			case *ast.Ident:
				isDel = a.delFns[c03obj(f, x)] // handed on from an outer iterator
			}
			if isDel {
				if a.delFns == nil {
					a.delFns = map[types.Object]bool{}
				}
				a.delFns[params[i]] = true
			}
		}
		return fo, H2, hf
	}
	for _, call := range calls(f.Body, false) {
		if fo, H2, hf := helperOf(call); fo != nil {
			if _, ok := a.memo[fo]; !ok {
				a.busy[fo] = true
				a.memo[fo] = a.unit(hf, H2, depth+1)
				delete(a.busy, fo)
			}
		}
	}

	connDeleted := func(st *flow.State) bool {
		return st.Is("ev:del:Connection", flow.True) || st.Is("ev:may:del:Connection", flow.True)
	}
	res := analyze(c, f, flow.Config{
		NoHavoc: true,
		AfterAssume: func(st *flow.State, cond ast.Expr, outcome bool) {
			// a guard hoisted out of the loop: with no Connection values there is nothing to delete
			for _, cl := range conns {
				if cl.del != nil && c03emptyColl(f, st, cl.lp.coll) {
					st.Set(c03evListed, flow.True)
				}
			}
		},
		OnBlock: func(st *flow.State, b *cfg.Block) {
			for _, t := range tables {
				t.it.block(st, b)
				if c03atHead(b, t.rs) {
					for _, k := range t.keys {
						st.Set("ev:del:"+k, flow.True)
					}
				}
			}
			for _, cl := range conns {
				if cl.chain != nil {
					cl.chain.block(st, b)
				}
				if c03atHead(b, cl.rs) && cl.del != nil {
					st.Set(c03evListed, flow.True)
				}
			}
		},
		OnNode: func(st *flow.State, n ast.Node) {
			if at != nil && n == at {
				st.Set("ev:at", flow.True)
			}
			for _, cl := range conns {
				if n == cl.readAt && cl.fromH && connDeleted(st) {
					st.Set(c03evBadOrder, flow.True)
				}
			}
		},
		OnCall: func(st *flow.State, call *ast.CallExpr, callee types.Object, deferred bool) {
			if arg, ok := delArg(call); ok {
				if k, ok := c03constKey(f, arg); ok {
					st.Set("ev:del:"+k, flow.True)
				}
				for _, t := range tables {
					if call == t.del {
						t.it.mark(st)
					}
				}
				for _, cl := range conns {
					if call == cl.del && cl.chain != nil {
						cl.chain.mark(st)
					}
				}
				return
			}
			if fo, ok := callee.(*types.Func); ok {
				if s := a.memo[fo]; s != nil {
					if _, H2, _ := helperOf(call); H2 != nil {
						if s.may["ev:reads-connection"] && connDeleted(st) {
							st.Set(c03evBadOrder, flow.True)
						}
						for ev := range s.must {
							st.Set(ev, flow.True)
						}
						for ev := range s.may {
							if ev == c03evBadOrder {
								st.Set(ev, flow.True)
							} else if !s.must[ev] && len(ev) > 7 && ev[:7] == "ev:del:" {
								st.Set("ev:may:del:"+ev[7:], flow.True)
							}
						}
					}
				}
			}
		},
	})
	if res == nil {
		return nil
	}
	// per-iteration obligations
	for _, t := range tables {
		cons := name + "|table loop deletes every entry"
		early := breaksOut(f, t.rs, labelOf(f.Body, t.rs))
		switch {
		case len(early) > 0:
			c.Violate("R-C03-1", cons, pos(c, early[0]), "the loop over the hop-by-hop table can be left early: entries after the exit are not removed from the outbound header")
		case t.it.bad != nil:
			c.Violate("R-C03-1", cons, pos(c, t.rs), "an iteration over the hop-by-hop table ends without deleting the entry: that hop-by-hop header reaches the backend", witness(t.it.bad)...)
		default:
			c.Discharge("R-C03-1", cons, pos(c, t.rs), sprintf("table of %d constant keys, every iteration deletes its entry, no early exit", len(t.keys)))
		}
	}
	for _, cl := range conns {
		cons := name + "|every Connection token deleted"
		if cl.del == nil && cl.escapes {
			c.Undecide("R-C03-2", cons, pos(c, cl.rs), "the tokens of the Connection values are collected in a variable that outlives the loop; their later deletion is not followed")
			continue
		}
		if cl.del == nil {
			c.Violate("R-C03-2", cons, pos(c, cl.rs), "the loop over the Connection values does not delete the tokens obtained from them from the outbound header (a header named by Connection is forwarded to the backend)")
			continue
		}
		early := cl.chain.early(f)
		bad := cl.chain.bad()
		switch {
		case !cl.chain.ok:
			c.Undecide("R-C03-2", cons, pos(c, cl.del), "a non-range loop sits between the Connection loop and the Del")
		case len(early) > 0:
			c.Violate("R-C03-2", cons, pos(c, early[0]), "the loops over the Connection values/tokens can be left early: later tokens are not removed from the outbound header")
		case bad != nil:
			c.Violate("R-C03-2", cons, pos(c, cl.del), "an iteration ends without deleting a token that is not known to be empty: a header named by Connection is forwarded to the backend", witness(bad)...)
		default:
			c.Discharge("R-C03-2", cons, pos(c, cl.del), sprintf("%d nested loop(s); each iteration deletes the token unless it is empty", len(cl.chain.loops)))
		}
	}

	sum := &c03hdrSum{must: map[string]bool{}, may: map[string]bool{}, lacking: map[string]*flow.State{}}
	all := map[string]bool{}
	var finals []*flow.State
	for _, ex := range res.Exits {
		// with `at`: only the exits that passed the store (the stored map is the local clone,
		// deletions after the store still act on the outbound header)
		if ex.Kind == flow.ExitReturn && (at == nil || ex.State.Is("ev:at", flow.True)) {
			finals = append(finals, ex.State)
		}
	}
	for _, st := range finals {
		sum.exits++
		for _, fa := range st.Facts() {
			if len(fa) > 5 && fa[:3] == "ev:" && fa[len(fa)-2:] == "=T" {
				all[fa[:len(fa)-2]] = true
			}
		}
	}
	for _, k := range c03hopRequired {
		all["ev:del:"+k] = true
	}
	all[c03evListed] = true
	keys := make([]string, 0, len(all))
	for k := range all {
		keys = append(keys, k)
	}
	sort.Strings(keys)
	for _, ev := range keys {
		if len(ev) > 6 && (ev[:6] == "ev:in:" || (len(ev) > 8 && ev[:8] == "ev:done:")) {
			continue
		}
		must := sum.exits > 0
		for _, st := range finals {
			if st.Is(ev, flow.True) {
				sum.may[ev] = true
			} else {
				must = false
				if sum.lacking[ev] == nil {
					sum.lacking[ev] = st
				}
			}
		}
		if must {
			sum.must[ev] = true
		}
	}
	for _, cl := range conns {
		if cl.fromH {
			sum.may["ev:reads-connection"] = true
		}
	}
	return sum
}

// c03emptyColl: the collection expression is known to be empty / nil in the state (facts of a
// guard such as `if len(xs) == 0 { return }` or `if len(xs) > 0 { for … }`).
func c03emptyColl(f *flow.Func, st *flow.State, coll ast.Expr) bool {
	r := f.Render(coll)
	if st.Is("eq:len("+r+")==0", flow.True) || st.Is("lt:0<len("+r+")", flow.False) || st.Is("lt:len("+r+")<1", flow.True) || st.Is("nil:"+r, flow.True) {
		return true
	}
	return false
}

// c03HeaderInline decides R-C03-1..3 when the header function has been inlined into the
// request builder: the local s.local = <inbound header>.Clone() is stripped in the builder and
// then stored; the hop-by-hop obligations are evaluated in the states reaching the store.
func c03HeaderInline(c *core.Ctx, s *c03hdrStore) {
	f := s.f
	name := c03fnName(f)
	H := map[types.Object]bool{s.local: true}
	c.Discharge("R-C03-3", name+"|mutations act on a clone", pos(c, s.assign), "the stored header is a local Clone()")
	c.Discharge("R-C03-3", name+"|returns the clone", pos(c, s.assign), "the local clone itself is stored as the outbound header")
	a := &c03hdrAnalysis{c: c, memo: map[*types.Func]*c03hdrSum{}, busy: map[*types.Func]bool{}}
	sum := a.unitAt(f, H, 0, s.assign)
	if sum == nil {
		return
	}
	for _, k := range c03hopRequired {
		ev := "ev:del:" + k
		c.Check(sum.must[ev], "R-C03-1", name+"|deletes "+k, pos(c, s.assign),
			sprintf("deleted from the outbound header on all %d exits after the store", sum.exits),
			"hop-by-hop header "+k+" is not removed from the outbound header on every path: the backend receives the client's "+k+" header", witness(sum.lacking[ev])...)
	}
	if a.loops == 0 {
		c.Violate("R-C03-2", name+"|Connection-listed headers deleted", pos(c, s.assign),
			"no loop over the values of the Connection header deletes the headers it names: a header listed by the client in Connection (RFC 7230 §6.1) is forwarded to the backend")
	} else {
		c.Check(sum.must[c03evListed], "R-C03-2", name+"|Connection-listed headers deleted", pos(c, s.assign),
			"every non-empty Connection token is deleted from the outbound header on all paths",
			"on some path the headers named by Connection are not deleted from the outbound header", witness(sum.lacking[c03evListed])...)
	}
	c.Check(!sum.may[c03evBadOrder], "R-C03-2", name+"|Connection read before it is deleted", pos(c, s.assign),
		"the Connection values are read while Connection is still present",
		"the Connection values are read from a header from which Connection has already been deleted: the loop sees no tokens and Connection-listed headers reach the backend")
}
