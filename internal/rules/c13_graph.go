package rules

import (
	"go/ast"
	"go/token"
	"go/types"
	"sort"

	"golang.org/x/tools/go/packages"

	"verif/internal/core"
	"verif/internal/flow"
)

// A small whole-module call graph on AST + go/types, used by the C13 rules to restrict their
// subjects to the code that runs when an accepted configuration is instantiated and serves.
//
//   - nodes: function / method declarations with a body in non-test module packages; function
//     literals belong to the declaration (or package-level variable) they are written in;
//   - edges: every *reference* to a function or method (call, method value, function value) —
//     a callback is attributed to the place where it is created, not to where it is invoked;
//     a reference to an interface method fans out to that method of every module type that
//     implements the interface (class hierarchy); a use of a package-level variable leads to the
//     functions referenced in its initialiser (tables of functions);
//   - recover barriers: a function with a deferred literal that calls recover() and does not
//     re-panic turns panics of everything it calls into its own result; the walk does not go
//     through it (filters.NewSpec, resilience.NewPolicy, builder Handle ...).
type c13Node struct {
	name string // construct name "pkg/rel.(Recv).Func" or "pkg/rel.var Name"
	pkg  *packages.Package
	decl *ast.FuncDecl // nil for variable nodes and root literals
	body ast.Node      // what is scanned for references
	obj  types.Object
	// barrier: position after which panics are recovered (token.NoPos = not a barrier)
	barrier token.Pos
	out     []*c13Node
	// reachability
	reached bool
	parent  *c13Node
	root    string
}

type c13Graph struct {
	c      *core.Ctx
	byObj  map[types.Object]*c13Node
	nodes  []*c13Node
	named  []*types.Named // concrete named types of the module
	impl   map[*types.Func][]*c13Node
	roots  []*c13Node
	rootOf map[*c13Node]string
	sites  map[*c13Node][]c13CallSite
	refs   map[*c13Node][]*c13Node
}

func c13Origin(fn *types.Func) *types.Func {
	if o := fn.Origin(); o != nil {
		return o
	}
	return fn
}

func c13BuildGraph(c *core.Ctx) *c13Graph {
	g := &c13Graph{c: c, byObj: map[types.Object]*c13Node{}, impl: map[*types.Func][]*c13Node{}, rootOf: map[*c13Node]string{}}
	for _, pkg := range c.Prog.Module {
		for _, file := range pkg.Syntax {
			for _, d := range file.Decls {
				switch d := d.(type) {
				case *ast.FuncDecl:
					if d.Body == nil {
						continue
					}
					obj := pkg.TypesInfo.Defs[d.Name]
					if obj == nil {
						continue
					}
					n := &c13Node{name: declName(pkg, d), pkg: pkg, decl: d, body: d.Body, obj: obj}
					n.barrier = c13Barrier(pkg, d.Body)
					g.byObj[obj] = n
					g.nodes = append(g.nodes, n)
				case *ast.GenDecl:
					if d.Tok != token.VAR {
						continue
					}
					for _, s := range d.Specs {
						vs := s.(*ast.ValueSpec)
						for i, id := range vs.Names {
							obj := pkg.TypesInfo.Defs[id]
							if obj == nil || id.Name == "_" {
								continue
							}
							var init ast.Node
							if len(vs.Values) == len(vs.Names) {
								init = vs.Values[i]
							} else if len(vs.Values) == 1 {
								init = vs.Values[0]
							}
							if init == nil {
								continue
							}
							n := &c13Node{name: relPkg(pkg.PkgPath) + ".var " + id.Name, pkg: pkg, body: init, obj: obj}
							g.byObj[obj] = n
							g.nodes = append(g.nodes, n)
						}
					}
				}
			}
		}
		sc := pkg.Types.Scope()
		for _, name := range sc.Names() {
			if tn, ok := sc.Lookup(name).(*types.TypeName); ok && !tn.IsAlias() {
				if nt, ok := tn.Type().(*types.Named); ok && !types.IsInterface(nt) && nt.TypeParams().Len() == 0 {
					g.named = append(g.named, nt)
				}
			}
		}
	}
	for _, n := range g.nodes {
		g.scan(n)
	}
	return g
}

// c13Barrier returns the end position of the first top-level `defer func() { ... recover() ... }()`
// whose literal does not call panic again; NoPos if there is none.
func c13Barrier(pkg *packages.Package, body *ast.BlockStmt) token.Pos {
	for _, st := range body.List {
		ds, ok := st.(*ast.DeferStmt)
		if !ok {
			continue
		}
		var recBody *ast.BlockStmt
		if lit, ok := ast.Unparen(ds.Call.Fun).(*ast.FuncLit); ok {
			recBody = lit.Body
		} else if id := c13DeferIdent(ds.Call); id != nil {
			// `defer x.recoverFoo(&result)`: a same-package function whose own body recovers
			if fd := declOf(pkg, pkg.TypesInfo.Uses[id]); fd != nil {
				recBody = fd.Body
			}
		}
		if recBody == nil {
			continue
		}
		rec, rep := false, false
		ast.Inspect(recBody, func(x ast.Node) bool {
			if _, isLit := x.(*ast.FuncLit); isLit && x != ast.Node(recBody) {
				return false // recover() in a nested literal does not recover for this frame
			}
			if call, ok := x.(*ast.CallExpr); ok {
				if id, ok := ast.Unparen(call.Fun).(*ast.Ident); ok {
					if b, ok := pkg.TypesInfo.Uses[id].(*types.Builtin); ok {
						switch b.Name() {
						case "recover":
							rec = true
						case "panic":
							rep = true
						}
					}
				}
			}
			return true
		})
		if rec && !rep {
			return ds.End()
		}
	}
	return token.NoPos
}

func (g *c13Graph) scan(n *c13Node) {
	seen := map[*c13Node]bool{}
	add := func(m *c13Node) {
		if m != nil && m != n && !seen[m] {
			seen[m] = true
			n.out = append(n.out, m)
		}
	}
	info := n.pkg.TypesInfo
	ast.Inspect(n.body, func(x ast.Node) bool {
		id, ok := x.(*ast.Ident)
		if !ok {
			return true
		}
		switch o := info.Uses[id].(type) {
		case *types.Func:
			o = c13Origin(o)
			if m := g.byObj[o]; m != nil {
				add(m)
				return true
			}
			if sig, ok := o.Type().(*types.Signature); ok && sig.Recv() != nil && types.IsInterface(sig.Recv().Type()) {
				for _, m := range g.implementers(o) {
					add(m)
				}
			}
		case *types.Var:
			if !o.IsField() && o.Pkg() != nil && o.Parent() == o.Pkg().Scope() {
				add(g.byObj[o])
			}
		}
		return true
	})
}

// implementers returns the module methods that an interface method may dispatch to.
func (g *c13Graph) implementers(m *types.Func) []*c13Node {
	if r, ok := g.impl[m]; ok {
		return r
	}
	var out []*c13Node
	sig := m.Type().(*types.Signature)
	iface, _ := sig.Recv().Type().Underlying().(*types.Interface)
	if iface == nil {
		g.impl[m] = nil
		return nil
	}
	for _, nt := range g.named {
		pt := types.NewPointer(nt)
		if !types.Implements(nt, iface) && !types.Implements(pt, iface) {
			continue
		}
		obj, _, _ := types.LookupFieldOrMethod(pt, true, m.Pkg(), m.Name())
		if fn, ok := obj.(*types.Func); ok {
			if node := g.byObj[c13Origin(fn)]; node != nil {
				out = append(out, node)
			}
		}
	}
	g.impl[m] = out
	return out
}

// addRoot registers a root node (an existing declaration or a synthetic literal node).
func (g *c13Graph) addRoot(n *c13Node, role string) {
	if n == nil {
		return
	}
	if _, ok := g.rootOf[n]; ok {
		return
	}
	g.rootOf[n] = role
	g.roots = append(g.roots, n)
}

// litNode makes a synthetic node for a function literal that is a root by itself.
func (g *c13Graph) litNode(pkg *packages.Package, name string, lit *ast.FuncLit) *c13Node {
	n := &c13Node{name: name, pkg: pkg, body: lit.Body}
	n.barrier = c13Barrier(pkg, lit.Body)
	g.nodes = append(g.nodes, n)
	g.scan(n)
	return n
}

// reach marks everything reachable from the roots without passing through a recover barrier
// (a barrier function itself is reached; its callees are not).
func (g *c13Graph) reach() {
	var queue []*c13Node
	for _, r := range g.roots {
		if !r.reached {
			r.reached = true
			r.root = g.rootOf[r]
			queue = append(queue, r)
		}
	}
	for len(queue) > 0 {
		n := queue[0]
		queue = queue[1:]
		if n.barrier != token.NoPos {
			continue
		}
		for _, m := range n.out {
			if !m.reached {
				m.reached = true
				m.parent = n
				m.root = n.root
				queue = append(queue, m)
			}
		}
	}
}

// chain renders the call chain from the root to n.
func (n *c13Node) chain() []string {
	var out []string
	for p := n; p != nil; p = p.parent {
		out = append(out, p.name)
	}
	for i, j := 0, len(out)-1; i < j; i, j = i+1, j-1 {
		out[i], out[j] = out[j], out[i]
	}
	if len(out) > 0 {
		out[0] = "root " + n.root + ": " + out[0]
	}
	return out
}

// method returns the node of method name of the named type (pointer receiver method set).
func (g *c13Graph) method(nt *types.Named, name string) *c13Node {
	obj, _, _ := types.LookupFieldOrMethod(types.NewPointer(nt), true, nt.Obj().Pkg(), name)
	if fn, ok := obj.(*types.Func); ok {
		return g.byObj[c13Origin(fn)]
	}
	return nil
}

// reachedFuncs returns the reached function nodes sorted by name.
func (g *c13Graph) reachedFuncs() []*c13Node {
	var out []*c13Node
	for _, n := range g.nodes {
		if n.reached {
			out = append(out, n)
		}
	}
	sort.Slice(out, func(i, j int) bool { return out[i].name < out[j].name })
	return out
}

// flowFunc wraps a node's declaration for the flow engine (nil for variable / literal nodes).
func (n *c13Node) flowFunc() *flow.Func {
	if n.decl == nil {
		return nil
	}
	return flow.NewFunc(n.pkg, n.decl)
}

// c13TypeName renders a named type as "pkg/rel.Name".
func c13TypeName(nt *types.Named) string {
	if nt.Obj().Pkg() == nil {
		return nt.Obj().Name()
	}
	return relPkg(nt.Obj().Pkg().Path()) + "." + nt.Obj().Name()
}

// c13CallSite is one static call of a node's function.
type c13CallSite struct {
	caller *c13Node
	call   *ast.CallExpr
}

// callSites returns the static call sites of n's function in the reached code.
func (g *c13Graph) callSites(n *c13Node) []c13CallSite {
	if g.sites == nil {
		g.sites = map[*c13Node][]c13CallSite{}
		for _, m := range g.nodes {
			if !m.reached {
				continue
			}
			info := m.pkg.TypesInfo
			ast.Inspect(m.body, func(x ast.Node) bool {
				call, ok := x.(*ast.CallExpr)
				if !ok {
					return true
				}
				var id *ast.Ident
				switch f := ast.Unparen(call.Fun).(type) {
				case *ast.Ident:
					id = f
				case *ast.SelectorExpr:
					id = f.Sel
				}
				if id == nil {
					return true
				}
				if fo, ok := info.Uses[id].(*types.Func); ok {
					if t := g.byObj[c13Origin(fo)]; t != nil {
						g.sites[t] = append(g.sites[t], c13CallSite{m, call})
					}
				}
				return true
			})
		}
	}
	return g.sites[n]
}

// owner names the function an obligation is attributed to: an unexported function or method
// that is referenced from exactly one other function of its package belongs to that function
// (extract-function / inline-function leave the attribution unchanged).
func (g *c13Graph) owner(n *c13Node) *c13Node {
	chain := g.ownerChain(n)
	return chain[len(chain)-1]
}

// ownerChain returns n followed by its successive owners.
func (g *c13Graph) ownerChain(n *c13Node) []*c13Node {
	chain := []*c13Node{n}
	if g.refs == nil {
		g.refs = map[*c13Node][]*c13Node{}
		for _, m := range g.nodes {
			if !m.reached {
				continue
			}
			for _, t := range m.out {
				g.refs[t] = append(g.refs[t], m)
			}
		}
	}
	for depth := 0; depth < 4; depth++ {
		if n.decl == nil || ast.IsExported(n.decl.Name.Name) {
			return chain
		}
		if _, isRoot := g.rootOf[n]; isRoot {
			return chain
		}
		refs := g.refs[n]
		if len(refs) != 1 || refs[0].decl == nil || refs[0].pkg != n.pkg || refs[0] == n {
			return chain
		}
		n = refs[0]
		chain = append(chain, n)
	}
	return chain
}

func c13DeferIdent(call *ast.CallExpr) *ast.Ident {
	switch f := ast.Unparen(call.Fun).(type) {
	case *ast.Ident:
		return f
	case *ast.SelectorExpr:
		return f.Sel
	}
	return nil
}
