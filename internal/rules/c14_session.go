package rules

import (
	"go/ast"
	"go/types"

	"verif/internal/core"
	"verif/internal/flow"
)

// R-C14-8 the session's record of subscriptions is persisted.
//
// SessionInfo.Topics is the durable record of a client's subscriptions: on reconnect of a
// persistent session the trie is rebuilt from the *stored* copy. Hence every function that changes an
// element of SessionInfo.Topics (indexed store, delete, clear) must persist the session —
// call (*Session).store, directly, deferred, or through an in-package helper that calls it — on
// every path between the last change and its return. Decided path-sensitively: event "dirty" is
// set by a change and cleared by a persisting call; no return exit may be dirty.
// (The creation of the map in Session.init is an assignment of the field, not an element change.)

const c14evDirty = "ev:c14:topicsDirty"

func c14Session(e *c14env) {
	c := e.c
	topicsF := structField(c, mq, "SessionInfo", "Topics")
	if topicsF == nil {
		return
	}
	_, storeDecl := c.Prog.FuncDecl(mq, "Session", "store")
	if storeDecl == nil {
		c.Errorf("R-C14-8: anchor: method %s.(Session).store not found", mq)
		return
	}
	storeObj := e.funcObj(storeDecl)
	// persisting callees: store itself and in-package functions whose body calls it
	persists := map[*types.Func]bool{storeObj: true}
	e.decls(func(f *flow.Func, fd *ast.FuncDecl) {
		for _, call := range calls(fd.Body, false) {
			if fo, ok := f.Callee(call).(*types.Func); ok && fo == storeObj {
				if o := e.funcObj(fd); o != nil {
					persists[o] = true
				}
			}
		}
	})

	isTopics := func(f *flow.Func, x ast.Expr) bool {
		_, ok := c14fieldRecv(f, x, topicsF)
		return ok
	}
	subjects := 0
	type subj struct {
		f       *flow.Func
		fd      *ast.FuncDecl
		changes map[ast.Node]bool
	}
	var subs []subj
	allChanges := map[ast.Node]bool{}
	changer := map[*types.Func]bool{}
	e.decls(func(f *flow.Func, fd *ast.FuncDecl) {
		changes := map[ast.Node]bool{}
		ast.Inspect(fd.Body, func(n ast.Node) bool {
			switch t := n.(type) {
			case *ast.FuncLit:
				return false
			case *ast.AssignStmt:
				for _, l := range t.Lhs {
					if ix, ok := ast.Unparen(l).(*ast.IndexExpr); ok && isTopics(f, ix.X) {
						changes[t] = true
					}
				}
			case *ast.IncDecStmt:
				if ix, ok := ast.Unparen(t.X).(*ast.IndexExpr); ok && isTopics(f, ix.X) {
					changes[t] = true
				}
			case *ast.CallExpr:
				if c14isBuiltin(f, t, "delete", "clear") && len(t.Args) >= 1 && isTopics(f, t.Args[0]) {
					changes[t] = true
				}
			}
			return true
		})
		if len(changes) == 0 {
			return
		}
		subs = append(subs, subj{f, fd, changes})
		for n := range changes {
			allChanges[n] = true
		}
		if o := e.funcObj(fd); o != nil {
			changer[o] = true
		}
	})
	// a change handed as a closure to a helper that runs it (updateTopicsAndStore(func() {..})):
	// the helper's call of its function parameter is the change site; the functions that hand the
	// closure over are decided through the helper
	changesIn := func(f *flow.Func, root ast.Node) int {
		n := 0
		ast.Inspect(root, func(x ast.Node) bool {
			switch t := x.(type) {
			case *ast.AssignStmt:
				for _, l := range t.Lhs {
					if ix, ok := ast.Unparen(l).(*ast.IndexExpr); ok && isTopics(f, ix.X) {
						n++
					}
				}
			case *ast.IncDecStmt:
				if ix, ok := ast.Unparen(t.X).(*ast.IndexExpr); ok && isTopics(f, ix.X) {
					n++
				}
			case *ast.CallExpr:
				if c14isBuiltin(f, t, "delete", "clear") && len(t.Args) >= 1 && isTopics(f, t.Args[0]) {
					n++
				}
			}
			return true
		})
		return n
	}
	type deleg struct {
		fd  *ast.FuncDecl
		via *types.Func
	}
	var delegs []deleg
	runsParam := map[*types.Func]map[int]bool{} // helper -> indexes of function parameters that receive a changing closure
	e.decls(func(f *flow.Func, fd *ast.FuncDecl) {
		for _, call := range calls(fd.Body, false) {
			fo := c14calleeOf(f, call)
			if fo == nil || fo.Pkg() != e.pkg.Types || declOf(e.pkg, fo) == nil {
				continue
			}
			for i, a := range call.Args {
				if lit, ok := ast.Unparen(a).(*ast.FuncLit); ok && changesIn(f, lit.Body) > 0 {
					if runsParam[fo] == nil {
						runsParam[fo] = map[int]bool{}
					}
					runsParam[fo][i] = true
					delegs = append(delegs, deleg{fd, fo})
				}
			}
		}
	})
	// the subscription map itself handed to a function parameter: update(s.info.Topics) — whatever
	// the closure does with it counts as a change at that call
	handsMap := map[*types.Func]bool{}
	e.decls(func(f *flow.Func, fd *ast.FuncDecl) {
		o := e.funcObj(fd)
		if o == nil {
			return
		}
		params := c14params(f)
		for _, call := range calls(fd.Body, false) {
			id, ok := ast.Unparen(call.Fun).(*ast.Ident)
			if !ok {
				continue
			}
			for i, pv := range params {
				if f.Info.Uses[id] != pv {
					continue
				}
				for _, a := range call.Args {
					if isTopics(f, a) {
						if runsParam[o] == nil {
							runsParam[o] = map[int]bool{}
						}
						runsParam[o][i] = true
						handsMap[o] = true
					}
				}
			}
		}
	})
	e.decls(func(f *flow.Func, fd *ast.FuncDecl) {
		for _, call := range calls(fd.Body, false) {
			fo := c14calleeOf(f, call)
			if fo == nil || !handsMap[fo] {
				continue
			}
			for i, a := range call.Args {
				if _, isLit := ast.Unparen(a).(*ast.FuncLit); isLit && runsParam[fo][i] {
					dup := false
					for _, d := range delegs {
						if d.fd == fd && d.via == fo {
							dup = true
						}
					}
					if !dup {
						delegs = append(delegs, deleg{fd, fo})
					}
				}
			}
		}
	})
	for fo, idxs := range runsParam {
		hd := declOf(e.pkg, fo)
		h := funcOf(e.pkg, hd)
		params := c14params(h)
		changes := map[ast.Node]bool{}
		for _, call := range calls(hd.Body, false) {
			if id, ok := ast.Unparen(call.Fun).(*ast.Ident); ok {
				for i := range idxs {
					if i < len(params) && h.Info.Uses[id] == params[i] {
						changes[call] = true
					}
				}
			}
		}
		if len(changes) == 0 {
			c.Undecide("R-C14-8", declName(e.pkg, hd)+"|subscription record persisted after every change", pos(c, hd.Body), "a closure that changes SessionInfo.Topics is handed to "+fo.Name()+", which does not call it directly: cannot decide when the change happens")
			continue
		}
		subs = append(subs, subj{h, hd, changes})
		for n := range changes {
			allChanges[n] = true
		}
		changer[fo] = true
	}

	// dirtyExit analyses g (changing helpers interpreted in place) and returns an exit that is
	// reached with an unpersisted change
	dirtyExit := func(g *flow.Func) (*flow.Exit, int, bool) {
		base := inlineSamePkg(g)
		res := analyze(c, g, flow.Config{
			NoHavoc: true,
			Inline: func(call *ast.CallExpr, callee *types.Func) *flow.Func {
				if callee == nil || !changer[callee] {
					return nil
				}
				return base(call, callee)
			},
			OnNode: func(st *flow.State, n ast.Node) {
				if allChanges[n] {
					st.Set(c14evDirty, flow.True)
				}
			},
			OnCall: func(st *flow.State, call *ast.CallExpr, callee types.Object, d bool) {
				if allChanges[call] {
					st.Set(c14evDirty, flow.True)
					return
				}
				if fo := c14calleeOf(g, call); fo != nil && persists[fo] {
					st.Set(c14evDirty, flow.False)
				}
			},
		})
		if res == nil {
			return nil, 0, false
		}
		var bad *flow.Exit
		n := 0
		for _, ex := range res.Exits {
			if ex.Kind != flow.ExitReturn {
				continue
			}
			n++
			if ex.State.Is(c14evDirty, flow.True) {
				bad = ex
			}
		}
		return bad, n, true
	}
	for _, sj := range subs {
		subjects++
		cons := declName(e.pkg, sj.fd)
		bad, n, ok := dirtyExit(sj.f)
		if !ok {
			continue
		}
		detail := sprintf("%d change site(s) of SessionInfo.Topics; none of the %d abstract exits is reached with an unpersisted change", len(sj.changes), n)
		badIn := sj.f
		if bad != nil {
			// a helper that only changes the record: every caller must persist after the call
			self := e.funcObj(sj.fd)
			callers := 0
			var callerBad *flow.Exit
			var callerFn *flow.Func
			e.decls(func(g *flow.Func, gd *ast.FuncDecl) {
				if gd == sj.fd {
					return
				}
				if len(c14callsToFn(g, gd.Body, true, self)) == 0 {
					return
				}
				callers++
				if b2, _, ok2 := dirtyExit(g); ok2 && b2 != nil {
					callerBad, callerFn = b2, g
				} else if !ok2 {
					callerBad, callerFn = bad, sj.f
				}
			})
			if callers > 0 && callerBad == nil {
				bad = nil
				detail = sprintf("%d change site(s) of SessionInfo.Topics; the function itself does not persist, all %d caller(s) call Session.store after it on every path", len(sj.changes), callers)
			} else if callerBad != nil {
				bad, badIn = callerBad, callerFn
			}
		}
		c.Check(bad == nil, "R-C14-8", cons+"|subscription record persisted after every change", pos(c, sj.fd.Body), detail,
			"the function can return after changing SessionInfo.Topics without persisting the session (no Session.store on that path, neither here nor in its callers): the stored copy keeps the old subscription set, and when a persistent session reconnects the trie is rebuilt from it — an unsubscribed filter is routed again / a new subscription is lost", func() []string {
				if bad == nil {
					return nil
				}
				return append([]string{"exit of " + badIn.Name + " at " + pos(c, bad.At)}, witness(bad.State)...)
			}()...)
	}
	// the functions that hand a changing closure to such a helper: persisted iff the helper persists
	for _, d := range delegs {
		subjects++
		helperOK := true
		for _, o := range c.Obligations {
			if o.Rule == "R-C14-8" && o.Construct == declName(e.pkg, declOf(e.pkg, d.via))+"|subscription record persisted after every change" && o.Verdict != core.Discharged {
				helperOK = false
			}
		}
		if helperOK {
			c.Discharge("R-C14-8", declName(e.pkg, d.fd)+"|subscription record persisted after every change", pos(c, d.fd.Body), "the change is handed as a closure to "+d.via.Name()+", which runs it and persists the session on every path afterwards")
		} else {
			c.Violate("R-C14-8", declName(e.pkg, d.fd)+"|subscription record persisted after every change", pos(c, d.fd.Body), "the change of SessionInfo.Topics is handed as a closure to "+d.via.Name()+", which can return without persisting the session after running it: the stored copy keeps the old subscription set")
		}
	}
	c.RequireCount("R-C14-8", "functions changing SessionInfo.Topics", subjects, 2)
}
