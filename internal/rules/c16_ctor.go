package rules

// R-C16-6, extension (round 4): every session that enters the session cache can persist itself.
// Session.store() hands its snapshots to Session.storeCh; a session whose store channel was never
// set from the manager's channel blocks there forever (send on a nil channel), so its SUBSCRIBEs
// are acknowledged but never stored and the next cleanSession=false reconnect restores nothing.
// Necessary structural condition: at every sessionMap.Store(key, s) - the only way a session
// reaches a connection - the store channel of the session under construction has been set (field
// of the composite literal, or an assignment to <session>.storeCh) from a channel of SessionStore
// on every path; constructors, init methods and helpers of the package are interpreted in place.

import (
	"go/ast"
	"go/types"

	"verif/internal/flow"
)

func c16IsSessionLit(f *flow.Func, x ast.Expr) *ast.CompositeLit {
	x = ast.Unparen(x)
	if u, ok := x.(*ast.UnaryExpr); ok {
		x = ast.Unparen(u.X)
	}
	lit, ok := x.(*ast.CompositeLit)
	if !ok {
		return nil
	}
	tv, ok := f.Info.Types[lit]
	if !ok || tv.Type == nil {
		return nil
	}
	n, ok := tv.Type.(*types.Named)
	if !ok || n.Obj().Name() != "Session" || n.Obj().Pkg() == nil || n.Obj().Pkg().Path() != Mod+mq {
		return nil
	}
	return lit
}

func c16SessionCtors(e *c16Env) {
	c := e.c
	p := &c16Persist{e: e}
	p.storeChF = structField(c, mq, "Session", "storeCh")
	p.smStoreF = structField(c, mq, "SessionManager", "storeCh")
	if p.storeChF == nil || p.smStoreF == nil {
		return
	}
	const evCh = "ev:c16storeChSet"
	isNewSession := func(g *flow.Func, x ast.Expr) (isNew, withCh bool) {
		if lit := c16IsSessionLit(g, x); lit != nil {
			for _, el := range lit.Elts {
				if kv, ok := el.(*ast.KeyValueExpr); ok {
					if id, ok := kv.Key.(*ast.Ident); ok && g.Info.Uses[id] == p.storeChF && p.isStoreChan(g, kv.Value, 0) {
						return true, true
					}
				}
			}
			return true, false
		}
		if call, ok := ast.Unparen(x).(*ast.CallExpr); ok && calleeFull(g, call) == "builtin.new" && len(call.Args) == 1 {
			if tv, ok := g.Info.Types[call.Args[0]]; ok && tv.Type != nil && tv.Type.String() == Mod+mq+".Session" {
				return true, false
			}
		}
		return false, false
	}
	sites := 0
	var decls []*ast.FuncDecl
	for _, d := range e.decls {
		decls = append(decls, d)
	}
	sortDecls(decls)
	for _, d := range decls {
		f := funcOf(e.pkg, d)
		var stores []*ast.CallExpr
		for _, call := range calls(d.Body, true) {
			if c16Is(f, call, "(*sync.Map).Store", "(*sync.Map).LoadOrStore") && c16Sel(f, c16Recv(call), e.sessMapF) {
				stores = append(stores, call)
			}
		}
		if len(stores) == 0 {
			continue
		}
		sites += len(stores)
		cons := declName(e.pkg, d) + "|cached session has its store channel"
		res := analyze(c, f, flow.Config{
			NoHavoc:        true,
			InlineClosures: true,
			Inline: e.inlineWhere(f, func(g *flow.Func, n ast.Node) bool {
				switch x := n.(type) {
				case *ast.AssignStmt:
					for _, l := range x.Lhs {
						if c16Sel(g, l, p.storeChF) {
							return true
						}
					}
				case *ast.CompositeLit:
					return c16IsSessionLit(g, x) != nil
				case *ast.CallExpr:
					isNew, _ := isNewSession(g, x)
					return isNew
				}
				return false
			}),
			OnNode: func(st *flow.State, n ast.Node) {
				switch x := n.(type) {
				case *ast.AssignStmt:
					if len(x.Lhs) != len(x.Rhs) {
						return
					}
					for i, l := range x.Lhs {
						if isNew, withCh := isNewSession(f, x.Rhs[i]); isNew {
							st.Set(evCh, map[bool]flow.Val{true: flow.True, false: flow.False}[withCh])
						}
						if c16Sel(f, l, p.storeChF) {
							if f.Info.Types[x.Rhs[i]].IsNil() || !p.isStoreChan(f, x.Rhs[i], 0) {
								st.Set(evCh, flow.False)
							} else {
								st.Set(evCh, flow.True)
							}
						}
					}
				case *ast.ReturnStmt:
					// `return &Session{...}` in an inlined constructor
					for _, r := range x.Results {
						if isNew, withCh := isNewSession(f, r); isNew {
							st.Set(evCh, map[bool]flow.Val{true: flow.True, false: flow.False}[withCh])
						}
					}
				case *ast.ValueSpec:
					for _, v := range x.Values {
						if isNew, withCh := isNewSession(f, v); isNew {
							st.Set(evCh, map[bool]flow.Val{true: flow.True, false: flow.False}[withCh])
						}
					}
				}
			},
		})
		if res == nil {
			continue
		}
		var bad *flow.State
		n := 0
		for _, s := range stores {
			for _, st := range res.At[s] {
				n++
				if !st.Is(evCh, flow.True) && bad == nil {
					bad = st
				}
			}
		}
		if n == 0 {
			c.Undecide("R-C16-6", cons, pos(c, stores[0]), "the store into the session cache is not reached by the analysis")
			continue
		}
		c.Check(bad == nil, "R-C16-6", cons, pos(c, stores[0]), sprintf("%d states reach sessionMap.Store, each after the session's storeCh was set from the store channel (inlined: %v)", n, res.Inlined),
			"a session is put into the session cache on a path on which its store channel (Session.storeCh) has not been set from the manager's channel: Session.store() then blocks forever on a nil channel, so a SUBSCRIBE on this session is acknowledged but never persisted and the next cleanSession=false reconnect, rebuilt from storage, does not get its subscriptions back", witness(bad)...)
	}
	c.RequireCount("R-C16-6", "stores into the session cache (SessionManager.sessionMap)", sites, 2)
}
