package rules

import (
	"go/ast"
	"go/token"
	"go/types"
	"strings"

	"verif/internal/core"
	"verif/internal/flow"
)

// R-C13-9: a pointer field that is dereferenced without a nil test must not receive the value
// result of a `v, err := f()` call on a path where err may be non-nil.
//
// Subject: stores (composite-literal key or assignment) into a pointer-typed struct field, in
// the reachable code, of a local variable that — directly or through local copies — holds the
// value result of a call returning (..., error) made in the same function. If some dereference
// of that field in the module (x.F.m(), x.F.g) is not dominated by a non-nil test of x.F, then on
// every path to the store the value must be free of "possibly failed": the paired err is known
// nil (tested since the call and not reassigned), or the value itself is known non-nil. By Go
// convention the value result is nil/zero when err != nil; an object built on the error path
// (logged and ignored) then carries a nil pointer that the request path dereferences.

const (
	c13EvTaint = "ev:taint:"
	c13EvMaybe = "ev:maybe:"
)

type c13NilStore struct {
	at    ast.Node // the key-value / assignment
	field *types.Var
	val   *ast.Ident
}

func c13NilStores(c *core.Ctx, g *c13Graph, sf *c13SpecFields) {
	nStores := 0
	derefCache := map[*types.Var]string{}
	for _, n := range g.reachedFuncs() {
		if n.decl == nil {
			continue
		}
		top := n.flowFunc()
		byFunc := map[*flow.Func][]c13NilStore{}
		funcs := map[ast.Node]*flow.Func{}
		for _, s := range c13PointerFieldStores(n) {
			f := c13Innermost(top, s.at)
			if prev, ok := funcs[f.Node]; ok {
				f = prev
			} else {
				funcs[f.Node] = f
			}
			if !c13FromPairCall(f, s.val) {
				continue
			}
			byFunc[f] = append(byFunc[f], s)
		}
		for f, stores := range byFunc {
			nStores += len(stores)
			bad := c13TaintedStores(c, n, sf, f, stores)
			seen := map[string]bool{}
			for _, s := range stores {
				cons := n.name + "|store of a (value, err) result into " + strings.TrimPrefix(sf.name(s.field), n.pkg.Types.Name()+".")
				if seen[cons] {
					continue
				}
				// the first tainted store of this field, if any
				var st *flow.State
				at := s.at
				for _, s2 := range stores {
					if s2.field == s.field && bad[s2.at] != nil && st == nil {
						st, at = bad[s2.at], s2.at
					}
				}
				seen[cons] = true
				if st == nil {
					c.Discharge("R-C13-9", cons, pos(c, at), "on every path to the store the paired err is known nil (or the value known non-nil)")
					continue
				}
				deref, ok := derefCache[s.field]
				if !ok {
					deref = c13UnguardedDeref(c, g, s.field)
					derefCache[s.field] = deref
				}
				c.Check(deref == "", "R-C13-9", cons, pos(c, at),
					"the value may come from a failed call, but every dereference of the field is dominated by a nil test",
					sprintf("the value result of a call returning (value, error) reaches field %s on a path where err may be non-nil (the error is logged or ignored, the path continues), and the field is dereferenced without a nil test at %s: an accepted configuration that makes the call fail builds an object with a nil %s and the first use panics with a nil pointer dereference", sf.name(s.field), deref, s.field.Name()),
					append(witness(st), n.chain()...)...)
			}
		}
	}
	c.RequireCount("R-C13-9", "stores of (value, err) results into pointer fields", nStores, 1)
}

// c13PointerFieldStores lists stores of a local identifier into a pointer-typed struct field.
func c13PointerFieldStores(n *c13Node) []c13NilStore {
	info := n.pkg.TypesInfo
	var out []c13NilStore
	isPtr := func(v *types.Var) bool {
		_, ok := v.Type().Underlying().(*types.Pointer)
		return ok
	}
	local := func(e ast.Expr) *ast.Ident {
		id, ok := ast.Unparen(e).(*ast.Ident)
		if !ok {
			return nil
		}
		v, ok := info.Uses[id].(*types.Var)
		if !ok || v.IsField() || v.Pkg() == nil || v.Parent() == v.Pkg().Scope() {
			return nil
		}
		return id
	}
	ast.Inspect(n.body, func(x ast.Node) bool {
		switch e := x.(type) {
		case *ast.KeyValueExpr:
			if k, ok := e.Key.(*ast.Ident); ok {
				if v, ok := info.Uses[k].(*types.Var); ok && v.IsField() && isPtr(v) {
					if id := local(e.Value); id != nil {
						out = append(out, c13NilStore{e, v.Origin(), id})
					}
				}
			}
		case *ast.AssignStmt:
			if len(e.Lhs) == len(e.Rhs) && e.Tok == token.ASSIGN {
				for i, l := range e.Lhs {
					if v := c13FieldOf(n, l); v != nil && isPtr(v) {
						if id := local(e.Rhs[i]); id != nil {
							out = append(out, c13NilStore{e, v, id})
						}
					}
				}
			}
		}
		return true
	})
	return out
}

// c13PairCall recognises `a, ..., err := f(...)` / `=`: returns the value identifiers and the
// error identifier (nil if the error is discarded).
func c13PairCall(f *flow.Func, as *ast.AssignStmt) (vals []*ast.Ident, errID *ast.Ident, ok bool) {
	if len(as.Lhs) < 2 || len(as.Rhs) != 1 {
		return nil, nil, false
	}
	call, isCall := ast.Unparen(as.Rhs[0]).(*ast.CallExpr)
	if !isCall {
		return nil, nil, false
	}
	tup, isTup := f.Info.Types[call].Type.(*types.Tuple)
	if !isTup || tup.Len() != len(as.Lhs) || !types.Identical(tup.At(tup.Len()-1).Type(), types.Universe.Lookup("error").Type()) {
		return nil, nil, false
	}
	last, isID := as.Lhs[len(as.Lhs)-1].(*ast.Ident)
	if !isID {
		return nil, nil, false
	}
	if last.Name != "_" {
		errID = last
	}
	for _, l := range as.Lhs[:len(as.Lhs)-1] {
		if id, ok := l.(*ast.Ident); ok && id.Name != "_" {
			vals = append(vals, id)
		}
	}
	return vals, errID, true
}

func c13Obj(f *flow.Func, id *ast.Ident) types.Object {
	if o := f.Info.Uses[id]; o != nil {
		return o
	}
	return f.Info.Defs[id]
}

// c13FromPairCall: the variable, or a local it is copied from, is a value result of a
// (value, err) call with a named err in this function.
func c13FromPairCall(f *flow.Func, v *ast.Ident) bool {
	pair := map[types.Object]bool{}
	copies := map[types.Object][]types.Object{}
	ast.Inspect(f.Body, func(x ast.Node) bool {
		as, ok := x.(*ast.AssignStmt)
		if !ok {
			return true
		}
		if vals, errID, ok := c13PairCall(f, as); ok {
			if errID != nil {
				for _, id := range vals {
					pair[c13Obj(f, id)] = true
				}
			}
			return true
		}
		if len(as.Lhs) == len(as.Rhs) {
			for i, l := range as.Lhs {
				lid, ok1 := l.(*ast.Ident)
				rid, ok2 := ast.Unparen(as.Rhs[i]).(*ast.Ident)
				if ok1 && ok2 {
					copies[c13Obj(f, lid)] = append(copies[c13Obj(f, lid)], c13Obj(f, rid))
				}
			}
		}
		return true
	})
	seen := map[types.Object]bool{}
	var walk func(o types.Object) bool
	walk = func(o types.Object) bool {
		if o == nil || seen[o] {
			return false
		}
		seen[o] = true
		if pair[o] {
			return true
		}
		for _, r := range copies[o] {
			if walk(r) {
				return true
			}
		}
		return false
	}
	return walk(c13Obj(f, v))
}

// c13TaintedStores runs the flow engine with a small taint discipline kept in event facts and
// returns, per store, a state in which the stored value may come from a failed call.
func c13TaintedStores(c *core.Ctx, node *c13Node, sf *c13SpecFields, f *flow.Func, stores []c13NilStore) map[ast.Node]*flow.State {
	bad := map[ast.Node]*flow.State{}
	facts := func(st *flow.State, prefix string) []string {
		var out []string
		for _, kv := range st.Facts() {
			if strings.HasPrefix(kv, prefix) && strings.HasSuffix(kv, "=T") {
				out = append(out, kv[:len(kv)-2])
			}
		}
		return out
	}
	clearVar := func(st *flow.State, r string) {
		st.Set(c13EvTaint+r, flow.Unknown)
		for _, k := range facts(st, c13EvMaybe+r+"|") {
			st.Set(k, flow.Unknown)
		}
	}
	// the variable r is assigned: pairs whose err it is lose their witness
	errReassigned := func(st *flow.State, r string) {
		for _, k := range facts(st, c13EvMaybe) {
			if !strings.HasSuffix(k, "|"+r) {
				continue
			}
			v := strings.TrimSuffix(strings.TrimPrefix(k, c13EvMaybe), "|"+r)
			st.Set(k, flow.Unknown)
			if !st.Is("nil:"+r, flow.True) {
				st.Set(c13EvTaint+v, flow.True)
			}
		}
	}
	tainted := func(st *flow.State, id *ast.Ident) bool {
		r := f.Render(id)
		if st.Is("nil:"+r, flow.False) {
			return false
		}
		if st.Is(c13EvTaint+r, flow.True) {
			return true
		}
		for _, k := range facts(st, c13EvMaybe+r+"|") {
			e := strings.TrimPrefix(k, c13EvMaybe+r+"|")
			if !st.Is("nil:"+e, flow.True) {
				return true
			}
		}
		return false
	}
	isLocalIdent := func(e ast.Expr) *ast.Ident {
		id, ok := ast.Unparen(e).(*ast.Ident)
		if !ok || id.Name == "_" {
			return nil
		}
		if v, ok := c13Obj(f, id).(*types.Var); ok && !v.IsField() && v.Pkg() != nil && v.Parent() != v.Pkg().Scope() {
			return id
		}
		return nil
	}
	cfg := flow.Config{
		Track: func(k string) bool { return strings.HasPrefix(k, "nil:") || strings.HasPrefix(k, "v:") },
		OnNode: func(st *flow.State, n ast.Node) {
			// stores are judged in the state before the node executes
			for _, s := range stores {
				if contains(n, s.at) && bad[s.at] == nil && tainted(st, s.val) {
					inner := false
					ast.Inspect(n, func(x ast.Node) bool {
						if lit, ok := x.(*ast.FuncLit); ok && contains(lit, s.at) {
							inner = true
						}
						return !inner
					})
					if !inner {
						bad[s.at] = st
					}
				}
			}
			as, ok := n.(*ast.AssignStmt)
			if !ok {
				return
			}
			if vals, errID, ok := c13PairCall(f, as); ok {
				if errID != nil {
					errReassigned(st, f.Render(errID))
				}
				for _, id := range vals {
					r := f.Render(id)
					clearVar(st, r)
					errReassigned(st, r)
					if errID != nil && !c13CannotFail(node, sf, as) {
						st.Set(c13EvMaybe+r+"|"+f.Render(errID), flow.True)
					}
				}
				return
			}
			if len(as.Lhs) == len(as.Rhs) && (as.Tok == token.ASSIGN || as.Tok == token.DEFINE) {
				type upd struct {
					l     string
					taint bool
					maybe []string
				}
				var ups []upd
				for i, l := range as.Lhs {
					lid := isLocalIdent(l)
					if lid == nil {
						continue
					}
					u := upd{l: f.Render(lid)}
					if rid := isLocalIdent(as.Rhs[i]); rid != nil {
						rr := f.Render(rid)
						u.taint = st.Is(c13EvTaint+rr, flow.True)
						for _, k := range facts(st, c13EvMaybe+rr+"|") {
							u.maybe = append(u.maybe, strings.TrimPrefix(k, c13EvMaybe+rr+"|"))
						}
					}
					ups = append(ups, u)
				}
				for _, u := range ups {
					clearVar(st, u.l)
					errReassigned(st, u.l)
					if u.taint {
						st.Set(c13EvTaint+u.l, flow.True)
					}
					for _, e := range u.maybe {
						st.Set(c13EvMaybe+u.l+"|"+e, flow.True)
					}
				}
				return
			}
			for _, l := range as.Lhs {
				if lid := isLocalIdent(l); lid != nil {
					clearVar(st, f.Render(lid))
					errReassigned(st, f.Render(lid))
				}
			}
		},
	}
	analyze(c, f, cfg)
	return bad
}

// c13CannotFail: the call is regexp.Compile* of a spec field that validation has compiled
// (format=regexp or a Validate() that compiles it): it does not fail for accepted specs.
func c13CannotFail(n *c13Node, sf *c13SpecFields, as *ast.AssignStmt) bool {
	call, ok := ast.Unparen(as.Rhs[0]).(*ast.CallExpr)
	if !ok || len(call.Args) != 1 {
		return false
	}
	id := c13CalleeIdent(call)
	if id == nil {
		return false
	}
	fo, ok := n.pkg.TypesInfo.Uses[id].(*types.Func)
	if !ok || fo.Pkg() == nil || fo.Pkg().Path() != "regexp" || !strings.HasPrefix(fo.Name(), "Compile") {
		return false
	}
	v := c13FieldOf(n, c13Core(n, call.Args[0]))
	if v == nil || !sf.isSpec(v) {
		return false
	}
	format, _ := sf.schemaOpt(v, "format")
	return format == "regexp" || sf.compiled[v]
}

// c13NilTestedBefore: the dereference sits to the right of `x.F != nil &&` (or `x.F == nil ||`)
// in the same condition.
func c13NilTestedBefore(f *flow.Func, site ast.Expr) bool {
	want := f.Render(site)
	var stack []ast.Node
	found, guarded := false, false
	var holds func(cond ast.Expr, outcome bool) bool
	holds = func(cond ast.Expr, outcome bool) bool {
		cond = ast.Unparen(cond)
		switch e := cond.(type) {
		case *ast.UnaryExpr:
			if e.Op == token.NOT {
				return holds(e.X, !outcome)
			}
		case *ast.BinaryExpr:
			switch {
			case e.Op == token.LAND && outcome, e.Op == token.LOR && !outcome:
				return holds(e.X, outcome) || holds(e.Y, outcome)
			case e.Op == token.NEQ && outcome, e.Op == token.EQL && !outcome:
				return f.Render(e.X) == want && f.Info.Types[e.Y].IsNil() || f.Render(e.Y) == want && f.Info.Types[e.X].IsNil()
			}
		}
		return false
	}
	ast.Inspect(f.Body, func(x ast.Node) bool {
		if found {
			return false
		}
		if x == nil {
			stack = stack[:len(stack)-1]
			return true
		}
		stack = append(stack, x)
		if x != ast.Node(site) {
			return true
		}
		found = true
		for i := len(stack) - 2; i >= 0; i-- {
			if be, ok := stack[i].(*ast.BinaryExpr); ok && (be.Op == token.LAND || be.Op == token.LOR) && contains(be.Y, site) {
				if holds(be.X, be.Op == token.LAND) {
					guarded = true
				}
			}
			if _, isExpr := stack[i].(ast.Expr); !isExpr {
				break
			}
		}
		return false
	})
	return guarded
}

// c13UnguardedDeref returns the position of a dereference x.F.sel of the field that is not
// dominated by a non-nil test of x.F ("" if every dereference is guarded).
func c13UnguardedDeref(c *core.Ctx, g *c13Graph, field *types.Var) string {
	for _, n := range g.nodes {
		if n.decl == nil {
			continue
		}
		info := n.pkg.TypesInfo
		var sites []*ast.SelectorExpr
		ast.Inspect(n.body, func(x ast.Node) bool {
			outer, ok := x.(*ast.SelectorExpr)
			if !ok {
				return true
			}
			inner, ok := ast.Unparen(outer.X).(*ast.SelectorExpr)
			if !ok {
				return true
			}
			if s := info.Selections[inner]; s != nil {
				if v, ok := s.Obj().(*types.Var); ok && v.Origin() == field {
					sites = append(sites, inner)
				}
			}
			return true
		})
		if len(sites) == 0 {
			continue
		}
		top := n.flowFunc()
		for _, site := range sites {
			f := c13Innermost(top, site)
			if c13NilTestedBefore(f, site) {
				continue
			}
			key := f.NilKey(site)
			states, seen := c13StatesAt(c, f, site, flow.Config{
				Track: func(k string) bool { return k == key || strings.HasPrefix(k, "v:") },
				Pure:  c13PureFor(f, c13BaseObj(f, site)),
			}, func(st *flow.State) bool { return st.Is(key, flow.False) })
			if !seen {
				continue
			}
			for _, st := range states {
				if !st.Is(key, flow.False) {
					return pos(c, site)
				}
			}
		}
	}
	return ""
}
