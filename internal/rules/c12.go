package rules

import (
	"go/ast"
	"go/token"
	"go/types"

	"verif/internal/core"
	"verif/internal/flow"
)

func init() { Registry["C12"] = c12 }

// Robustness pass: see muxsearch.go — puts may be made through a local closure / method value or a
// renamed helper (resolved by "calls cache.Add"), the lookup through a renamed helper with named
// results, the hit decision in a helper returning (route, hit); the value cached may sit in a local
// (classified by the state where its origin is ambiguous); the cache may be created by a helper or
// stored by a tuple assignment. Mutants re-tried on refactored forms: 404 put unconditionally through
// the closure → R-C12-2; extracted hit decision without the chain test → R-C12-2; header guard of
// the success put dropped in the extracted path walk → R-C12-1.
//
// Second iteration: the cache may be any golang-lru value reached through a local or a
// same-package wrapper type with get/put methods (Get / Add are recognised by the receiver's
// type); the key is followed package-wide to its concatenation, through helpers taking the request
// or its fields and through a key computed once by the caller; freshness accepts a cache built
// before the instance literal and a new wrapper literal. Mutants re-tried: rule-level cacheability
// dropped → R-C12-2; key helper without delimiters → R-C12-3; failureCacheable always true → R-C12-2.
//
// Third set of refactorings: the cache field may be declared with an interface (Get / Add) when
// every value the package stores in it is a golang-lru cache or nil; a key variable declared empty
// and filled when the cache is on is read like the constant ""; a failure route handed to a helper
// (cacheFailure(req, methodNotAllowed, flags)) is known per path through the parameter.
func c12(c *core.Ctx) string {
	c.Rule("R-C12-1", "no header dependence: no cache put is reachable in a state in which a branch on the header matcher has been taken since function entry (the key does not contain headers)")
	c.Rule("R-C12-2", "IP dependence re-validated: every IP-filter test passed on a path to a cache put is re-evaluated on the hit path before the cached value is returned (server-level test before the lookup or chain check on hit; no put after a non-nil rule/path filter of an earlier entry was passed; failure routes only when no rule-level filter was consulted)")
	c.Rule("R-C12-3", "injective key: lookup and insert build the same key from host, method, path with constant delimiters between the variable components")
	c.Rule("R-C12-4", "hit path adds nothing else: on a hit only the cached route or the 403 route is returned")
	c.Rule("R-C12-5", "cache is per generation: muxInstance.cache is only ever assigned a freshly created cache (a cache carried over a reload would keep routes whose filter chains belong to the old generation)")
	c.NotDecided = []string{"ARC eviction behaviour (third-party)", "rewrite equality (C01)", "that the uncached search itself is right (C01/C05)"}

	s := analyzeSearch(c, "R-C12")
	if s != nil {
		c12Search(c, s)
	}
	// the hit path re-validates only the cached path's chain: it must contain all three levels
	muxBuildChecks(c, "R-C12-2", "")
	c12Key(c)
	c12Fresh(c)
	// the chain checked on a hit must decide like the single filters of the uncached walk (shared with R-C05-1)
	c.Alias("R-C05-1", "R-C12-6")
	c.Rule("R-C05-1", "the filter chain consulted on a cache hit is the plain conjunction of its filters' verdicts (no verdict of its own, e.g. for unparsable addresses): cached and uncached paths agree (shared with R-C05-1)")
	c05Conj(c)
	c.Alias("R-C05-1", "")
	ipChainNoAliasing(c, "R-C12-7")
	return "Information-flow audit of the route cache: the cached decision must be a function of the key (host, method, path) and of facts re-validated on a hit. Decided path-sensitively over all paths of muxInstance.search (disjunctive states correlate the mismatch flags with the dependence events), plus key construction and cache freshness. Not decided: ARC eviction, correctness of the uncached search (C01/C05)."
}

// c12SearchIPOnly reports only the IP-related cache obligations (R-C12-2) under another rule id.
func c12SearchIPOnly(c *core.Ctx, s *searchInfo, rule string) {
	c.Alias("R-C12-2", rule)
	c.Alias("R-C12-1", "-")
	c.Alias("R-C12-4", "-")
	c12Search(c, s)
	c.Alias("R-C12-2", "")
	c.Alias("R-C12-1", "")
	c.Alias("R-C12-4", "")
	c.Drop("-")
}

func c12Search(c *core.Ctx, s *searchInfo) {
	if !c.RequireCount("R-C12-1", "cache put call sites in search", len(s.puts), 2) {
		return
	}
	if len(s.gets) == 0 || len(s.holders) == 0 {
		c.Errorf("R-C12: anchor: cache lookup in search not found")
		return
	}
	get := s.gets[0]
	// hit-path facts
	hitCoversServer := true
	hitCoversChain := true
	hitReturns := 0
	var badHit, badChain *flow.State
	var badRet *flow.Exit
	for _, ex := range s.res.Exits {
		if ex.Kind != flow.ExitReturn || ex.Return == nil || !ex.State.Is(evHit, flow.True) {
			continue
		}
		hitReturns++
		st := ex.State
		if s.allowed(st, "server") != flow.True {
			hitCoversServer = false
			badHit = st
		}
		// what is returned?
		switch s.exitKind(ex) {
		case "cached":
			// cached route: success routes need the chain check
			if s.cachedCodeZero(st) == flow.False {
				break // failure route, nothing more to re-validate here (see puts)
			}
			if passed, _ := s.chainPassed(st); !passed {
				hitCoversChain = false
				badChain = st
			}
		case "403":
		default:
			badRet = ex
		}
	}
	c.RequireCount("R-C12-4", "hit-path returns in search", hitReturns, 2)
	c.Check(badRet == nil, "R-C12-4", s.cons+"|hit returns cached route or 403", pos(c, get),
		sprintf("%d hit-path exits return the cached route or forbidden", hitReturns),
		"on a cache hit something other than the cached route or the 403 route is returned", func() []string {
			if badRet != nil {
				return append([]string{"return at " + pos(c, badRet.Ret())}, witness(badRet.State)...)
			}
			return nil
		}()...)
	c.Check(hitCoversChain, "R-C12-2", s.cons+"|hit re-validates the cached path's filter chain", pos(c, get),
		"a cached success route is returned only with a nil chain or chain.Allow(ip) = true",
		"a cached success route is returned without re-validating its IP filter chain", witness(badChain)...)

	for _, put := range s.puts {
		states := s.res.At[put.call]
		if len(states) == 0 {
			c.Discharge("R-C12-1", s.cons+"|put(unreachable)", pos(c, put.call), "unreachable put")
			continue
		}
		// group the states by the kind of value they hand to the cache
		byKind := map[string][]*flow.State{}
		for _, st := range states {
			k := s.putKindIn(st, put)
			byKind[k] = append(byKind[k], st)
		}
		for _, kind := range sortedKeys(byKind) {
			sts := byKind[kind]
			if kind == "" {
				c.Undecide("R-C12-1", s.cons+"|put(?)", pos(c, put.call), "cannot classify the value handed to the cache")
				continue
			}
			name := "put(status " + kind + ")"
			if kind == "path" {
				name = "put(success route)"
			}
			// R-C12-1
			var bad *flow.State
			for _, st := range sts {
				if st.Is(evHdep, flow.True) {
					bad = st
					break
				}
			}
			c.Check(bad == nil, "R-C12-1", s.cons+"|"+name, pos(c, put.call),
				sprintf("%d states reach the put, none after a header-dependent branch", len(sts)),
				"the route is cached after a header-conditioned entry was consulted: a later request with the same host+method+path but other headers is served the cached outcome although the cache-less router decides differently", witness(bad)...)
			// R-C12-2
			bad = nil
			why := ""
			for _, st := range sts {
				ruleDep := st.Is(evIPRule, flow.True) && !s.nilFilterKnown(st, "rule")
				switch {
				case st.Is(evIPEarly, flow.True):
					bad, why = st, "the put is reachable after the IP filter of an earlier rule/path was passed; that filter is not part of the cached path's chain, so a client it denies is served from the cache"
				case kind != "path" && ruleDep:
					bad, why = st, "a failure route is cached after a rule-level IP filter was passed; on a hit no IP test is repeated, so a client that filter denies gets the cached status instead of 403"
				case kind != "path" && st.Is(evIPSrv, flow.True) && !hitCoversServer:
					bad, why = st, "a failure route is cached after the server-level IP filter was passed, but the hit path returns cached failure routes without any IP test: a denied client gets the cached 404/405 instead of 403"
				}
				if bad != nil {
					break
				}
			}
			w := witness(bad)
			if bad != nil && kind != "path" && !hitCoversServer && badHit != nil {
				w = append(w, "hit path without server-level test:")
				w = append(w, witness(badHit)...)
			}
			c.Check(bad == nil, "R-C12-2", s.cons+"|"+name, pos(c, put.call),
				sprintf("%d states reach the put; every IP test they passed is re-validated on a hit", len(sts)), why, w...)
		}
	}
}

// keyShape extracts the components of the key handed to cache.<method> in f: a list of
// ("var", accessor) / ("const", value). The key expression is followed through locals, parameters
// (all call sites in the package) and same-package helpers to the concatenation that builds it
// (stringtool.Cat(..) or a + b + c); each component is followed the same way to the request
// accessor it is (req.Host() ...). Every origin must give the same shape.
func keyShape(c *core.Ctx, f *flow.Func, ro *muxRoles, method string) ([][2]string, ast.Node) {
	vf := newMuxFlow(funcsByRole(c, hs, func(g *flow.Func, fd *ast.FuncDecl) bool { return true }))
	var keyExpr ast.Expr
	for _, call := range calls(f.Body, true) {
		if ro.cacheMethodCall(f.Info, call, method) && len(call.Args) >= 1 {
			keyExpr = call.Args[0]
		}
	}
	if keyExpr == nil {
		return nil, nil
	}
	component := func(e ast.Expr) [2]string {
		if v, ok := f.Info.Types[e]; ok && v.Value != nil {
			return [2]string{"const", v.Value.ExactString()}
		}
		name := ""
		for _, v := range vf.flat(e) {
			if v.root == nil && v.expr != nil {
				if tv, ok := f.Info.Types[v.expr]; ok && tv.Value != nil {
					return [2]string{"const", tv.Value.ExactString()}
				}
			}
			call, ok := v.expr.(*ast.CallExpr)
			full := ""
			if ok && v.root == nil {
				full = calleeFull(f, call)
			}
			if full == "" || (name != "" && name != full) {
				return [2]string{"var", "?" + f.Render(e)}
			}
			name = full
		}
		if name == "" {
			return [2]string{"var", "?" + f.Render(e)}
		}
		return [2]string{"var", name}
	}
	var flatten func(e ast.Expr, parts *[][2]string)
	flatten = func(e ast.Expr, parts *[][2]string) {
		e = ast.Unparen(e)
		if be, ok := e.(*ast.BinaryExpr); ok && be.Op == token.ADD {
			flatten(be.X, parts)
			flatten(be.Y, parts)
			return
		}
		*parts = append(*parts, component(e))
	}
	var shape [][2]string
	var at ast.Node
	for _, v := range vf.flat(keyExpr) {
		if v.zero && v.root == nil {
			continue // `var key string`, left empty for a disabled cache (like the constant "" below)
		}
		if v.root != nil || v.expr == nil {
			return nil, nil
		}
		var parts [][2]string
		switch x := ast.Unparen(v.expr).(type) {
		case *ast.CallExpr:
			if !calleeIs(f, x, "pkg/util/stringtool.Cat") {
				return nil, nil
			}
			for _, a := range x.Args {
				parts = append(parts, component(a))
			}
		case *ast.BinaryExpr:
			flatten(x, &parts)
		default:
			if tv, ok := f.Info.Types[v.expr]; ok && tv.Value != nil {
				continue // e.g. "" for a disabled cache
			}
			return nil, nil
		}
		if shape != nil && sprintf("%v", shape) != sprintf("%v", parts) {
			return nil, nil
		}
		shape, at = parts, v.expr
	}
	return shape, at
}

func c12Key(c *core.Ctx) {
	ro := muxRolesOf(c, "R-C12-3")
	if ro == nil {
		return
	}
	byCall := func(prefer, method string) *flow.Func {
		g, n := muxFuncByRole(c, hs, prefer, func(g *flow.Func, fd *ast.FuncDecl) bool {
			return muxOwnCalls(g, func(call *ast.CallExpr) bool { return ro.cacheMethodCall(g.Info, call, method) })
		})
		if g == nil {
			c.Errorf("R-C12-3: anchor: cannot resolve the function that calls cache.%s (%d candidates)", method, n)
		}
		return g
	}
	get, put := byCall("getRouteFromCache", "Get"), byCall("putRouteToCache", "Add")
	if get == nil || put == nil {
		return
	}
	getName, putName := muxFuncConstruct(get), muxFuncConstruct(put)
	gs, gat := keyShape(c, get, ro, "Get")
	ps, pat := keyShape(c, put, ro, "Add")
	if gs == nil || ps == nil {
		c.Undecide("R-C12-3", hs+".cache key|construction", pos(c, get.Body), "cannot find the key construction (stringtool.Cat or + concatenation of request accessors)")
		return
	}
	same := len(gs) == len(ps)
	if same {
		for i := range gs {
			if gs[i] != ps[i] {
				same = false
			}
		}
	}
	c.Check(same, "R-C12-3", hs+".cache key|lookup and insert agree", pos(c, pat),
		sprintf("both build %v", gs), sprintf("lookup builds %v but insert builds %v", gs, ps))
	for name, sh := range map[string][][2]string{getName: gs, putName: ps} {
		at := gat
		if name == putName {
			at = pat
		}
		vars := 0
		injective := true
		why := ""
		for i, p := range sh {
			if p[0] != "var" {
				continue
			}
			vars++
			if len(p[1]) > 0 && p[1][0] == '?' {
				injective, why = false, "component "+p[1]+" is not a request accessor itself but a value derived from it (a lossy transformation such as cutting at a colon maps different hosts to one key)"
			}
			// next component (if any variable follows) must be a non-empty constant
			if i+1 < len(sh) && sh[i+1][0] == "var" {
				injective = false
				why = sprintf("components %s and %s are concatenated without a delimiter: host %q+method %q and host %q+method %q give the same key", short2(p[1]), short2(sh[i+1][1]), "aP", "OST", "a", "POST")
			}
			if i+1 < len(sh) && sh[i+1][0] == "const" && (sh[i+1][1] == `""`) {
				injective, why = false, "empty delimiter"
			}
		}
		// the path must be the last variable (it may contain any delimiter)
		lastVar := ""
		for _, p := range sh {
			if p[0] == "var" {
				lastVar = p[1]
			}
		}
		if injective && vars >= 2 && !hasSuffix(lastVar, ".Path") {
			injective, why = false, "the path (which may contain the delimiter) is not the last component"
		}
		if vars < 3 {
			injective, why = false, "the key does not contain host, method and path"
		}
		c.Check(injective, "R-C12-3", name+"|delimited key", pos(c, at),
			sprintf("key components %v", sh), "cache key is not injective: "+why)
	}
}

func short2(s string) string {
	for i := len(s) - 1; i >= 0; i-- {
		if s[i] == '.' || s[i] == ')' {
			return s[i+1:]
		}
	}
	return s
}

func hasSuffix(s, suf string) bool { return len(s) >= len(suf) && s[len(s)-len(suf):] == suf }

// c12Fresh: every store to muxInstance.cache takes the result of a cache constructor
// called in the same function.
func c12Fresh(c *core.Ctx) { muxCacheFresh(c, "R-C12-5") }

// muxCacheFresh is shared with C11 (a cache carried over a reload keeps routes of the old generation).
// Every store to a cache field — the instance's cache field and every lru-typed field of a
// same-package wrapper type — must take a freshly created value: the result of an lru constructor,
// nil, a new composite literal of the wrapper type, a local that only ever holds such values, or
// the result of a same-package helper whose returns are such values.
func muxCacheFresh(c *core.Ctx, rule string) {
	ro := muxRolesOf(c, rule)
	if ro == nil {
		return
	}
	if ro.cacheF == nil {
		c.Errorf("%s: anchor: the instance has no cache field (a field of a golang-lru cache type or of a same-package wrapper of one)", rule)
		return
	}
	pkgT := c.Prog.Pkg(hs).Types
	isCacheField := func(v *types.Var) bool {
		return v != nil && v.IsField() && v.Pkg() == pkgT && (v == ro.cacheF || muxIsLRU(v.Type()))
	}
	stores := 0
	for _, g := range funcsByRole(c, hs, func(g *flow.Func, fd *ast.FuncDecl) bool { return true }) {
		g := g
		fd := g.Node.(*ast.FuncDecl)
		var vf *muxFlow
		isCtor := func(e ast.Expr) bool {
			call, ok := ast.Unparen(e).(*ast.CallExpr)
			if !ok {
				return false
			}
			full := calleeFull(g, call)
			return full == "github.com/hashicorp/golang-lru.NewARC" || full == "github.com/hashicorp/golang-lru.New2Q" || full == "github.com/hashicorp/golang-lru.New"
		}
		isNewWrapper := func(e ast.Expr) bool {
			cl := litOf(e)
			if cl == nil {
				return false
			}
			tv, ok := g.Info.Types[cl]
			n := muxDerefNamed(tv.Type)
			return ok && n != nil && n.Obj().Pkg() == pkgT
		}
		check := func(rhs ast.Expr, at ast.Node) {
			stores++
			if vf == nil {
				vf = newMuxFlow(reach(g, 2))
			}
			ok := true
			vals := vf.flat(rhs)
			for _, v := range vals {
				switch {
				case v.root == nil && v.expr != nil && (v.zero || isCtor(v.expr) || isNewWrapper(v.expr) || g.Info.Types[v.expr].IsNil()):
				default:
					ok = false
				}
			}
			c.Check(ok && len(vals) > 0, rule, declName(g.Pkg, fd)+"|store to muxInstance.cache", pos(c, at),
				"assigned a cache created for this instance", "muxInstance.cache is assigned a value that is not a freshly created cache (routes cached by another generation would survive the reload)")
		}
		ast.Inspect(fd.Body, func(n ast.Node) bool {
			switch x := n.(type) {
			case *ast.AssignStmt:
				for i, l := range x.Lhs {
					sel, ok := ast.Unparen(l).(*ast.SelectorExpr)
					if !ok {
						continue
					}
					sl := g.Info.Selections[sel]
					if sl == nil {
						continue
					}
					if fv, _ := sl.Obj().(*types.Var); !isCacheField(fv) {
						continue
					}
					switch {
					case len(x.Rhs) == len(x.Lhs):
						check(x.Rhs[i], x)
					case len(x.Rhs) == 1 && i == 0:
						check(x.Rhs[0], x) // inst.cache, err = ctor(..)
					default:
						stores++
						c.Violate(rule, declName(g.Pkg, fd)+"|store to muxInstance.cache", pos(c, x), "muxInstance.cache is assigned a value that is not a freshly created cache (routes cached by another generation would survive the reload)")
					}
				}
			case *ast.CompositeLit:
				tv, ok := g.Info.Types[x]
				if !ok {
					return true
				}
				n := muxDerefNamed(tv.Type)
				if n == nil || n.Obj().Pkg() != pkgT {
					return true
				}
				for _, el := range x.Elts {
					if kv, ok := el.(*ast.KeyValueExpr); ok {
						if k, ok := kv.Key.(*ast.Ident); ok {
							if fv := muxOneField(n, k.Name, func(v *types.Var) bool { return v.Name() == k.Name }); isCacheField(fv) {
								check(kv.Value, kv)
							}
						}
					}
				}
			}
			return true
		})
	}
	c.RequireCount(rule, "stores to muxInstance.cache", stores, 1)
}
