package rules

// R-C09-9: carried reservations are forgotten only by the clamp. In the acquire functions of the
// limiter the local that carries the number of permits already handed out from the start of the
// current cycle (the value written back to the tokens field) may be lowered by the elapsed-cycles
// subtraction, but an assignment of the constant 0 to it is legal only as the clamp of a negative
// value: directly under a test "<that local> < 0". Zeroing it under any other condition (an "idle
// long enough" shortcut) forgets reservations that still reach into the current period: new
// arrivals are released on top of the earlier waiters (more than limitForPeriod in that period).
// Decides the guard of the reset only — not the subtraction's arithmetic nor the reject bound.

import (
	"go/ast"
	"go/constant"
	"go/token"
	"go/types"

	"golang.org/x/tools/go/packages"

	"verif/internal/core"
)

func c09Clamp(c *core.Ctx) {
	const rule = "R-C09-9"
	const rel = "pkg/util/ratelimiter"
	c.Rule(rule, "reservations are forgotten only by the clamp: in every function of the limiter package that writes an integer counter field of RateLimiter (tokens, cycle), a local whose value flows into that write is assigned the constant 0 only directly under the test that this local is negative (tokens < 0); any other reset drops permits that are still reserved in the current period")
	// the counter fields by role, not by name: every integer field of the limiter struct (a write of
	// the cycle index makes the cycle local a carrier too; it is never reset to a constant)
	fields := map[types.Object]bool{}
	if n := namedType(c, rel, "RateLimiter"); n != nil {
		if st, ok := n.Underlying().(*types.Struct); ok {
			for i := 0; i < st.NumFields(); i++ {
				if b, ok := st.Field(i).Type().(*types.Basic); ok && b.Info()&types.IsInteger != 0 {
					fields[st.Field(i)] = true
				}
			}
		}
	}
	if len(fields) == 0 {
		c.Discharge(rule, rel+"|no scalar local carries the permits", rel, "RateLimiter has no integer counter field: the reset-guard rule has no instance in this form of the limiter (nothing is decided by it)")
		return
	}
	subjects, resets := 0, 0
	eachFunc(c, func(pkg *packages.Package, fd *ast.FuncDecl) {
		if relPkg(pkg.PkgPath) != rel {
			return
		}
		info := pkg.TypesInfo
		// locals flowing into a write of the tokens field
		carriers := map[types.Object]bool{}
		ast.Inspect(fd.Body, func(x ast.Node) bool {
			as, ok := x.(*ast.AssignStmt)
			if !ok {
				return true
			}
			for i, l := range as.Lhs {
				sel, ok := ast.Unparen(l).(*ast.SelectorExpr)
				if !ok || !fields[info.Uses[sel.Sel]] || i >= len(as.Rhs) {
					continue
				}
				ast.Inspect(as.Rhs[i], func(y ast.Node) bool {
					if id, ok := y.(*ast.Ident); ok {
						if v, ok := info.Uses[id].(*types.Var); ok && !v.IsField() && v.Pkg() == pkg.Types && v.Parent() != pkg.Types.Scope() {
							if b, ok := v.Type().(*types.Basic); ok && b.Info()&types.IsInteger != 0 {
								carriers[v] = true
							}
						}
					}
					return true
				})
			}
			return true
		})
		// parameters are not carriers (the charge count)
		if fd.Type.Params != nil {
			for _, p := range fd.Type.Params.List {
				for _, n := range p.Names {
					delete(carriers, info.Defs[n])
				}
			}
		}
		if len(carriers) == 0 {
			return
		}
		subjects++
		name := declName(pkg, fd)
		parents := parentMap(fd.Body)
		isZero := func(e ast.Expr) bool {
			tv, ok := info.Types[e]
			return ok && tv.Value != nil && tv.Value.Kind() == constant.Int && constant.Sign(tv.Value) == 0
		}
		var negTest func(cond ast.Expr, v types.Object) bool
		negTest = func(cond ast.Expr, v types.Object) bool {
			if ue, ok := ast.Unparen(cond).(*ast.UnaryExpr); ok && ue.Op == token.NOT {
				// !(v >= 0), !(0 <= v)
				if be, ok := ast.Unparen(ue.X).(*ast.BinaryExpr); ok {
					idOf := func(e ast.Expr) bool {
						id, ok := ast.Unparen(e).(*ast.Ident)
						return ok && info.Uses[id] == v
					}
					return (be.Op == token.GEQ && idOf(be.X) && isZero(be.Y)) || (be.Op == token.LEQ && isZero(be.X) && idOf(be.Y))
				}
				return false
			}
			be, ok := ast.Unparen(cond).(*ast.BinaryExpr)
			if !ok {
				return false
			}
			isV := func(e ast.Expr) bool {
				id, ok := ast.Unparen(e).(*ast.Ident)
				return ok && info.Uses[id] == v
			}
			switch be.Op {
			case token.LSS:
				return isV(be.X) && isZero(be.Y)
			case token.GTR:
				return isZero(be.X) && isV(be.Y)
			}
			return false
		}
		ast.Inspect(fd.Body, func(x ast.Node) bool {
			as, ok := x.(*ast.AssignStmt)
			if !ok || as.Tok != token.ASSIGN || len(as.Lhs) != len(as.Rhs) {
				return true
			}
			for i, l := range as.Lhs {
				id, ok := ast.Unparen(l).(*ast.Ident)
				if !ok || !carriers[info.Uses[id]] || !isZero(as.Rhs[i]) {
					continue
				}
				resets++
				v := info.Uses[id]
				// nearest enclosing if whose THEN branch contains the assignment
				guarded := false
				var n ast.Node = as
				for p := parents[n]; p != nil; n, p = p, parents[p] {
					if ifs, ok := p.(*ast.IfStmt); ok && n == ast.Node(ifs.Body) {
						guarded = negTest(ifs.Cond, v)
						break
					}
				}
				c.Check(guarded, rule, name+"|"+id.Name+" reset to 0 only as the clamp of a negative value", pos(c, as),
					"the reset is the clamp: directly under "+id.Name+" < 0",
					"the permits carried from earlier cycles are reset to 0 under a condition other than '"+id.Name+" < 0': reservations that still reach into the current period are forgotten and new arrivals are released on top of them (more than limitForPeriod releases in that period)")
			}
			return true
		})
	})
	c.Count("R-C09-9 functions writing a counter field of RateLimiter from a local", subjects)
	if subjects == 0 {
		// counters kept in another form (slices per dimension, a state struct): there is no scalar
		// local to reset; the rule has no instance and says so instead of guessing
		c.Discharge(rule, rel+"|no scalar local carries the permits", rel, "no function writes an integer counter field of RateLimiter from a local: the reset-guard rule has no instance in this form of the limiter (nothing is decided by it)")
	}
	if subjects > 0 && resets == 0 {
		c.Discharge(rule, rel+"|carried permits are never reset to a constant", "pkg/util/ratelimiter", "no local flowing into the tokens field is assigned the constant 0 (the clamp is written without a reset, e.g. max(tokens, 0))")
	}
}
