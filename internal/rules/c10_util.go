package rules

import (
	"go/ast"
	"go/constant"
	"go/token"
	"go/types"
	"reflect"
	"strings"

	"verif/internal/core"
	"verif/internal/flow"
)

// ---- private helpers of property C10 (prefix c10) --------------------------------------------

// c10obj resolves an identifier to its object (use or definition).
func c10obj(f *flow.Func, id *ast.Ident) types.Object {
	if id == nil {
		return nil
	}
	if o := f.Info.Uses[id]; o != nil {
		return o
	}
	return f.Info.Defs[id]
}

// c10ident returns e as an identifier (parentheses stripped) or nil.
func c10ident(e ast.Expr) *ast.Ident {
	if e == nil {
		return nil
	}
	id, _ := ast.Unparen(e).(*ast.Ident)
	return id
}

// c10isConv reports whether call is a type conversion and returns its operand.
func c10isConv(f *flow.Func, e ast.Expr) (ast.Expr, bool) {
	call, ok := ast.Unparen(e).(*ast.CallExpr)
	if !ok || len(call.Args) != 1 {
		return nil, false
	}
	if tv, ok := f.Info.Types[call.Fun]; ok && tv.IsType() {
		return call.Args[0], true
	}
	return nil, false
}

// c10strip removes parentheses and type conversions.
func c10strip(f *flow.Func, e ast.Expr) ast.Expr {
	for {
		e = ast.Unparen(e)
		if x, ok := c10isConv(f, e); ok {
			e = x
			continue
		}
		return e
	}
}

// c10fieldSel reports whether e selects the struct field fld (resolved by object).
func c10fieldSel(f *flow.Func, e ast.Expr, fld *types.Var) bool {
	if e == nil || fld == nil {
		return false
	}
	sel, ok := ast.Unparen(e).(*ast.SelectorExpr)
	if !ok {
		return false
	}
	s := f.Info.Selections[sel]
	return s != nil && s.Obj() == fld
}

// c10mentions reports whether any sub-expression of e selects fld.
func c10mentions(f *flow.Func, e ast.Node, fld *types.Var) bool {
	found := false
	if e == nil {
		return false
	}
	ast.Inspect(e, func(n ast.Node) bool {
		if x, ok := n.(ast.Expr); ok && c10fieldSel(f, x, fld) {
			found = true
		}
		return !found
	})
	return found
}

// c10firstSel returns the first selector expression under root that selects fld.
func c10firstSel(f *flow.Func, root ast.Node, fld *types.Var) ast.Expr {
	var out ast.Expr
	ast.Inspect(root, func(n ast.Node) bool {
		if out != nil {
			return false
		}
		if x, ok := n.(*ast.SelectorExpr); ok && c10fieldSel(f, x, fld) {
			out = x
			return false
		}
		return true
	})
	return out
}

// c10write is one syntactic write to a local variable.
type c10write struct {
	at  ast.Node    // the statement
	rhs ast.Expr    // value assigned (nil: zero-value declaration, multi-value, range, inc/dec)
	tok token.Token // ASSIGN, DEFINE, op-assign, INC, DEC, VAR (declaration), RANGE
	idx int         // index among the left-hand sides
	n   int         // number of left-hand sides
	src ast.Expr    // for multi-value assignments the single right-hand side
}

// c10writes lists every syntactic write to obj under root (function literals included).
func c10writes(f *flow.Func, root ast.Node, obj types.Object) []c10write {
	var out []c10write
	if obj == nil || root == nil {
		return nil
	}
	is := func(e ast.Expr) bool {
		id := c10ident(e)
		return id != nil && c10obj(f, id) == obj
	}
	ast.Inspect(root, func(n ast.Node) bool {
		switch s := n.(type) {
		case *ast.AssignStmt:
			for i, l := range s.Lhs {
				if !is(l) {
					continue
				}
				w := c10write{at: s, tok: s.Tok, idx: i, n: len(s.Lhs)}
				if len(s.Rhs) == len(s.Lhs) {
					w.rhs = s.Rhs[i]
				} else if len(s.Rhs) == 1 {
					w.src = s.Rhs[0]
				}
				out = append(out, w)
			}
		case *ast.ValueSpec:
			for i, id := range s.Names {
				if f.Info.Defs[id] != obj {
					continue
				}
				w := c10write{at: s, tok: token.VAR, idx: i, n: len(s.Names)}
				if len(s.Values) == len(s.Names) {
					w.rhs = s.Values[i]
				} else if len(s.Values) == 1 {
					w.src = s.Values[0]
				}
				out = append(out, w)
			}
		case *ast.IncDecStmt:
			if is(s.X) {
				out = append(out, c10write{at: s, tok: s.Tok, n: 1})
			}
		case *ast.RangeStmt:
			if (s.Key != nil && is(s.Key)) || (s.Value != nil && is(s.Value)) {
				out = append(out, c10write{at: s, tok: token.RANGE, n: 1})
			}
		case *ast.UnaryExpr:
			if s.Op == token.AND && is(s.X) {
				out = append(out, c10write{at: s, tok: token.AND, n: 1})
			}
		}
		return true
	})
	return out
}

// c10alias follows single-assignment local aliases and conversions: if e is a local variable
// written exactly once under root with a single value, the value is returned (depth <= 4).
func c10alias(f *flow.Func, root ast.Node, e ast.Expr) ast.Expr {
	for depth := 0; depth < 4; depth++ {
		e = c10strip(f, e)
		id := c10ident(e)
		if id == nil {
			return e
		}
		v, ok := c10obj(f, id).(*types.Var)
		if !ok || v.IsField() || v.Pkg() == nil || v.Parent() == v.Pkg().Scope() {
			return e
		}
		ws := c10writes(f, root, v)
		if len(ws) != 1 || ws[0].rhs == nil || (ws[0].tok != token.DEFINE && ws[0].tok != token.VAR && ws[0].tok != token.ASSIGN) {
			return e
		}
		e = ws[0].rhs
	}
	return e
}

// c10constInt returns the exact integer value of a constant expression.
func c10constInt(f *flow.Func, e ast.Expr) (int64, bool) {
	tv, ok := f.Info.Types[e]
	if !ok || tv.Value == nil {
		return 0, false
	}
	v := constant.ToInt(tv.Value)
	if v.Kind() != constant.Int {
		return 0, false
	}
	return constant.Int64Val(v)
}

// c10constFloat returns the value of a numeric constant expression.
func c10constFloat(f *flow.Func, e ast.Expr) (float64, bool) {
	tv, ok := f.Info.Types[e]
	if !ok || tv.Value == nil {
		return 0, false
	}
	v := constant.ToFloat(tv.Value)
	if v.Kind() != constant.Float {
		return 0, false
	}
	x, _ := constant.Float64Val(v)
	return x, true
}

// c10constString returns the value of a constant string expression.
func c10constString(f *flow.Func, e ast.Expr) (string, bool) {
	tv, ok := f.Info.Types[e]
	if !ok || tv.Value == nil || tv.Value.Kind() != constant.String {
		return "", false
	}
	return constant.StringVal(tv.Value), true
}

// c10isCtxType reports whether t is context.Context.
func c10isCtxType(t types.Type) bool {
	n, ok := t.(*types.Named)
	return ok && n.Obj().Pkg() != nil && n.Obj().Pkg().Path() == "context" && n.Obj().Name() == "Context"
}

// c10isHandlerSig reports whether t's underlying type is func(context.Context) error.
func c10isHandlerSig(t types.Type) bool {
	if t == nil {
		return false
	}
	sig, ok := t.Underlying().(*types.Signature)
	if !ok || sig.Params().Len() != 1 || sig.Results().Len() != 1 || sig.Variadic() {
		return false
	}
	return c10isCtxType(sig.Params().At(0).Type()) && types.Identical(sig.Results().At(0).Type(), types.Universe.Lookup("error").Type())
}

// c10recv returns the receiver expression of a method call (nil for others).
func c10recv(call *ast.CallExpr) ast.Expr {
	if sel, ok := ast.Unparen(call.Fun).(*ast.SelectorExpr); ok {
		return sel.X
	}
	return nil
}

// c10tag returns the comma separated items of the struct tag `key` of field fld of the named
// struct type.
func c10tag(n *types.Named, fld *types.Var, key string) []string {
	st, ok := n.Underlying().(*types.Struct)
	if !ok {
		return nil
	}
	for i := 0; i < st.NumFields(); i++ {
		if st.Field(i) == fld {
			v := reflect.StructTag(st.Tag(i)).Get(key)
			if v == "" {
				return nil
			}
			return strings.Split(v, ",")
		}
	}
	return nil
}

// c10paramObj returns the object of the i-th (flattened) parameter of a function type.
func c10paramObj(f *flow.Func, ft *ast.FuncType, i int) types.Object {
	if ft == nil || ft.Params == nil {
		return nil
	}
	k := 0
	for _, fld := range ft.Params.List {
		if len(fld.Names) == 0 {
			k++
			continue
		}
		for _, n := range fld.Names {
			if k == i {
				return f.Info.Defs[n]
			}
			k++
		}
	}
	return nil
}

// c10sign is a test of the sign of a duration-valued field against the constant 0 found in the
// source: the atom key of the comparison and how its truth translates to "field > 0".
type c10sign struct {
	key string
	neg bool // the atom is the negation of key
	// truth of the comparison expression means: positive (field > 0) when pos is true,
	// non-positive when pos is false
	pos bool
}

// c10signTests collects the comparisons of fld with 0 under root that decide positivity
// (> 0, <= 0, != 0, == 0 and their mirrored spellings). `>= 0` and `< 0` do not decide it.
func c10signTests(f *flow.Func, root ast.Node, fld *types.Var) []c10sign {
	var out []c10sign
	ast.Inspect(root, func(n ast.Node) bool {
		be, ok := n.(*ast.BinaryExpr)
		if !ok {
			return true
		}
		x, y := c10strip(f, be.X), c10strip(f, be.Y)
		op := be.Op
		zero := func(e ast.Expr) bool { v, ok := c10constFloat(f, e); return ok && v == 0 }
		switch {
		case c10fieldSel(f, c10alias(f, root, x), fld) && zero(be.Y):
		case c10fieldSel(f, c10alias(f, root, y), fld) && zero(be.X):
			// mirror: 0 OP fld  ≡  fld OP' 0
			switch op {
			case token.LSS:
				op = token.GTR
			case token.GTR:
				op = token.LSS
			case token.LEQ:
				op = token.GEQ
			case token.GEQ:
				op = token.LEQ
			}
		default:
			return true
		}
		var pos bool
		switch op {
		case token.GTR, token.NEQ:
			pos = true
		case token.LEQ, token.EQL:
			pos = false
		default:
			return true
		}
		k, neg := f.Atom(be)
		out = append(out, c10sign{key: k, neg: neg, pos: pos})
		return true
	})
	return out
}

// c10positive evaluates "field > 0" in a state from the collected sign tests.
func c10positive(st *flow.State, tests []c10sign) flow.Val {
	for _, t := range tests {
		v := st.Get(t.key)
		if v == flow.Unknown {
			continue
		}
		truth := (v == flow.True) != t.neg // truth of the comparison expression
		if truth == t.pos {
			return flow.True
		}
		return flow.False
	}
	return flow.Unknown
}

// c10enclosingLit returns the innermost function literal under root containing n.
func c10enclosingLit(pm map[ast.Node]ast.Node, n ast.Node) *ast.FuncLit {
	for p := pm[n]; p != nil; p = pm[p] {
		if l, ok := p.(*ast.FuncLit); ok {
			return l
		}
	}
	return nil
}

// c10undecideOrViolate is a tiny convenience for "shape not understood".
func c10shape(c *core.Ctx, rule, construct, at, detail string) {
	c.Undecide(rule, construct, at, "shape not understood by the checker: "+detail)
}
