package rules

// "Value relative to the version read" mini-domain of R-C18-4. A tracked value is base + delta,
// where base is "r" (the config version read from the store) or "p<i>" (parameter i of the
// function being analysed — a helper that is handed the value, e.g. _putVersion(version)); the
// facts are ev:c18:d:<var>#<base>#<delta> (… #? = assigned something untracked).

import (
	"go/ast"
	"go/token"
	"go/types"
	"strconv"
	"strings"

	"verif/internal/flow"
)

type c18dv struct {
	base string
	d    int
}

func (v c18dv) plus(k int) c18dv { return c18dv{v.base, v.d + k} }

func (v c18dv) String() string { return v.base + "#" + strconv.Itoa(v.d) }

func c18parseDV(s string) (c18dv, bool) {
	i := strings.LastIndex(s, "#")
	if i <= 0 {
		return c18dv{}, false
	}
	d, err := strconv.Atoi(s[i+1:])
	if err != nil {
		return c18dv{}, false
	}
	return c18dv{s[:i], d}, true
}

// c18getDelta returns the tracked value of a variable; present is false when nothing has been
// recorded for it on this path (known is false after an untracked assignment).
func c18getDelta(st *flow.State, render string) (v c18dv, known, present bool) {
	pre := c18dPrefix + render + "#"
	for _, kv := range st.Facts() {
		if !strings.HasPrefix(kv, pre) || !strings.HasSuffix(kv, "=T") {
			continue
		}
		rest := kv[len(pre) : len(kv)-2]
		if rest == "?" {
			return c18dv{}, false, true
		}
		if dv, ok := c18parseDV(rest); ok {
			return dv, true, true
		}
	}
	return c18dv{}, false, false
}

func c18setDelta(st *flow.State, render string, v c18dv, ok bool) {
	pre := c18dPrefix + render + "#"
	for _, kv := range st.Facts() {
		if strings.HasPrefix(kv, pre) {
			st.Set(kv[:len(kv)-2], flow.Unknown)
		}
	}
	if ok {
		st.Set(pre+v.String(), flow.True)
	} else {
		st.Set(pre+"?", flow.True)
	}
}

func c18constInt(info *types.Info, e ast.Expr) (int, bool) {
	tv, ok := info.Types[e]
	if !ok || tv.Value == nil {
		return 0, false
	}
	n, err := strconv.Atoi(tv.Value.ExactString())
	return n, err == nil
}

// c18dctx evaluates expressions of one analysed function.
type c18dctx struct {
	a      *c18apiCtx
	f      *flow.Func
	params map[types.Object]int // parameters of the analysed function
}

func c18paramIndex(f *flow.Func) map[types.Object]int {
	out := map[types.Object]int{}
	if f.Type == nil || f.Type.Params == nil {
		return out
	}
	i := 0
	for _, fld := range f.Type.Params.List {
		if len(fld.Names) == 0 {
			i++
			continue
		}
		for _, n := range fld.Names {
			if o := f.Info.Defs[n]; o != nil {
				out[o] = i
			}
			i++
		}
	}
	return out
}

// eval evaluates e as base + delta.
func (x *c18dctx) eval(st *flow.State, e ast.Expr) (c18dv, bool) {
	f, a := x.f, x.a
	e = ast.Unparen(e)
	switch t := e.(type) {
	case *ast.Ident:
		v, known, present := c18getDelta(st, f.Render(t))
		if present {
			return v, known
		}
		if i, ok := x.params[f.Info.Uses[t]]; ok {
			return c18dv{"p" + strconv.Itoa(i), 0}, true
		}
		return c18dv{}, false
	case *ast.StarExpr:
		return x.eval(st, t.X)
	case *ast.BinaryExpr:
		switch t.Op {
		case token.ADD:
			if k, ok := c18constInt(f.Info, t.Y); ok {
				v, ok2 := x.eval(st, t.X)
				return v.plus(k), ok2
			}
			if k, ok := c18constInt(f.Info, t.X); ok {
				v, ok2 := x.eval(st, t.Y)
				return v.plus(k), ok2
			}
		case token.SUB:
			if k, ok := c18constInt(f.Info, t.Y); ok {
				v, ok2 := x.eval(st, t.X)
				return v.plus(-k), ok2
			}
		}
	case *ast.CallExpr:
		if tv, ok := f.Info.Types[t.Fun]; ok && tv.IsType() && len(t.Args) == 1 {
			return x.eval(st, t.Args[0])
		}
		if d := a.direct[t]; d != nil && !d.write && d.kind == "version" {
			return c18dv{"r", 0}, true
		}
		fo := a.calleeOf(t)
		if fo == nil {
			return c18dv{}, false
		}
		if _, mine := a.decls[fo]; mine {
			s := a.summary(fo)
			if s == nil || !s.retKnown {
				return c18dv{}, false
			}
			return x.rebase(st, t, s.ret)
		}
		if fo.Pkg() != nil {
			switch fo.Pkg().Path() + "." + fo.Name() {
			case "fmt.Sprintf", "fmt.Sprint", "strconv.FormatInt", "strconv.Itoa", "strconv.FormatUint",
				"strconv.ParseInt", "strconv.Atoi", "strconv.ParseUint":
				// a textual form of exactly one tracked value
				n := 0
				var val c18dv
				for _, arg := range t.Args {
					if v, ok := x.eval(st, arg); ok {
						n++
						val = v
					}
				}
				if n == 1 {
					return val, true
				}
			}
		}
	}
	return c18dv{}, false
}

// rebase turns a value of a callee's vocabulary (base r or p<i> of the callee) into the
// caller's: p<i> is replaced by the value of the call's i-th argument.
func (x *c18dctx) rebase(st *flow.State, call *ast.CallExpr, v c18dv) (c18dv, bool) {
	if v.base == "r" {
		return v, true
	}
	if !strings.HasPrefix(v.base, "p") {
		return c18dv{}, false
	}
	i, err := strconv.Atoi(v.base[1:])
	if err != nil || i < 0 || i >= len(call.Args) {
		return c18dv{}, false
	}
	av, ok := x.eval(st, call.Args[i])
	if !ok {
		return c18dv{}, false
	}
	return av.plus(v.d), true
}

// node is the transfer function of the domain (assignments, ++/--, +=, returns).
func (x *c18dctx) node(st *flow.State, n ast.Node) {
	f := x.f
	switch s := n.(type) {
	case *ast.AssignStmt:
		switch {
		case s.Tok == token.ASSIGN || s.Tok == token.DEFINE:
			if len(s.Lhs) == len(s.Rhs) {
				type upd struct {
					r  string
					v  c18dv
					ok bool
				}
				var us []upd
				for i, l := range s.Lhs {
					if id, ok := l.(*ast.Ident); ok && id.Name != "_" {
						v, ok := x.eval(st, s.Rhs[i])
						us = append(us, upd{f.Render(id), v, ok})
					}
				}
				for _, u := range us {
					c18setDelta(st, u.r, u.v, u.ok)
				}
			} else if len(s.Rhs) == 1 {
				for i, l := range s.Lhs {
					id, ok := l.(*ast.Ident)
					if !ok || id.Name == "_" {
						continue
					}
					if i == 0 {
						v, ok := x.eval(st, s.Rhs[0])
						c18setDelta(st, f.Render(id), v, ok)
					} else {
						c18setDelta(st, f.Render(id), c18dv{}, false)
					}
				}
			}
		case len(s.Lhs) == 1 && len(s.Rhs) == 1:
			id, ok := s.Lhs[0].(*ast.Ident)
			if !ok {
				return
			}
			v, known := x.eval(st, id)
			k, isConst := c18constInt(f.Info, s.Rhs[0])
			switch {
			case known && isConst && s.Tok == token.ADD_ASSIGN:
				c18setDelta(st, f.Render(id), v.plus(k), true)
			case known && isConst && s.Tok == token.SUB_ASSIGN:
				c18setDelta(st, f.Render(id), v.plus(-k), true)
			default:
				c18setDelta(st, f.Render(id), c18dv{}, false)
			}
		}
	case *ast.IncDecStmt:
		if id, ok := s.X.(*ast.Ident); ok {
			if v, known := x.eval(st, id); known {
				if s.Tok == token.INC {
					c18setDelta(st, f.Render(id), v.plus(1), true)
				} else {
					c18setDelta(st, f.Render(id), v.plus(-1), true)
				}
			}
		}
	case *ast.ValueSpec:
		if len(s.Names) == len(s.Values) {
			for i, id := range s.Names {
				v, ok := x.eval(st, s.Values[i])
				c18setDelta(st, f.Render(id), v, ok)
			}
		}
	case *ast.ReturnStmt:
		if c18declOrLitOf(f, s) != f.Node {
			return
		}
		var r ast.Expr
		switch {
		case len(s.Results) >= 1:
			r = s.Results[0]
		case f.Type != nil && f.Type.Results != nil && len(f.Type.Results.List) > 0 && len(f.Type.Results.List[0].Names) > 0:
			r = f.Type.Results.List[0].Names[0] // bare return of a named result
		default:
			return
		}
		if tv, ok := f.Info.Types[r]; ok && tv.Value != nil {
			return // constant (e.g. "no version stored yet")
		}
		if v, ok := x.eval(st, r); ok {
			st.Set(c18evRet+v.String(), flow.True)
		} else {
			st.Set(c18evRetUnk, flow.True)
		}
	}
}
