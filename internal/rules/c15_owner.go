package rules

import (
	"go/ast"
	"go/types"

	"verif/internal/flow"
)

// R-C15-7: a resend loop never outlives its session's registration under the client id. doResend
// looks the client up BY ID, so a session that is replaced in (or removed from) the session table but
// not closed keeps retransmitting its unacknowledged QoS1 messages to whichever connection owns the id
// now — whose PUBACKs reach the new session object, so the retransmission never stops.
//   * wherever a session is stored into the session table, on every path reaching the store the entry
//     is known to be absent (a failed lookup in the same function), or the previous session was obtained
//     (a call of a function reading the table) and is nil or has been closed — in the storing function,
//     or at every call site of it (up the callers);
//   * wherever an entry is taken out of the table (LoadAndDelete), the session taken out is closed.
// Tried: seeded C15/g (discard gated by !prev.cleanSession()) [7]; discard helper not closing, close
// only in one branch of the discard, delLocal without close [7]; the same refactoring done correctly,
// discard via helper / early return / sessionForConnect form (C16 r4) silent.

func c15Ownership(e *c15env) {
	c := e.c
	pkg := e.pkg
	smT := namedType(c, mq, "SessionManager")
	if smT == nil {
		return
	}
	isSyncMap := func(t types.Type) bool {
		n, ok := c15deref(t).(*types.Named)
		return ok && n.Obj().Pkg() != nil && n.Obj().Pkg().Path() == "sync" && n.Obj().Name() == "Map"
	}
	tableF := e.field(smT, "table of the live sessions by client id (sync.Map or map to *Session)", "sessionMap", func(t types.Type) bool {
		if isSyncMap(t) {
			return true
		}
		m, ok := t.Underlying().(*types.Map)
		return ok && c15isNamed(m.Elem(), e.sessT)
	})
	if tableF == nil {
		return
	}
	// the function closing a session: close(s.done)
	closeM := e.pickOpt("end of a session (closes its done channel)", "close", e.methodsOf(e.sessT, func(g *flow.Func, sig *types.Signature) bool {
		if sig.Params().Len() != 0 {
			return false
		}
		found := false
		for _, call := range calls(g.Body, false) {
			if b, ok := g.Callee(call).(*types.Builtin); ok && b.Name() == "close" && len(call.Args) == 1 && e.selects(call.Args[0], e.doneF) {
				found = true
			}
		}
		return found
	}))
	if closeM == nil {
		c.Violate("R-C15-7", mq+".(Session).close|session can be ended", "", "no function closes a session's done channel: no resend loop ever ends")
		return
	}
	// table operations
	type op struct {
		fn   *flow.Func
		node ast.Node      // the call / assignment (key of flow.Result.At)
		call *ast.CallExpr // sync.Map method call (nil for native map operations)
		kind string        // store | load | remove
		val  *ast.Ident    // load / remove: variable receiving the value
		ok   *ast.Ident    // load / remove: variable receiving the presence flag
	}
	var ops []op
	for _, g := range e.fns {
		g := g
		lhsOf := func(x ast.Expr) (v, ok *ast.Ident) {
			ast.Inspect(g.Body, func(n ast.Node) bool {
				if as, isAs := n.(*ast.AssignStmt); isAs && len(as.Rhs) == 1 && ast.Unparen(as.Rhs[0]) == x {
					if len(as.Lhs) >= 1 {
						v, _ = as.Lhs[0].(*ast.Ident)
					}
					if len(as.Lhs) == 2 {
						ok, _ = as.Lhs[1].(*ast.Ident)
					}
				}
				return true
			})
			return
		}
		ast.Inspect(g.Body, func(n ast.Node) bool {
			switch x := n.(type) {
			case *ast.CallExpr:
				if sel, isSel := ast.Unparen(x.Fun).(*ast.SelectorExpr); isSel && e.selects(sel.X, tableF) {
					o := op{fn: g, node: x, call: x}
					switch sel.Sel.Name {
					case "Store", "Swap", "LoadOrStore", "CompareAndSwap":
						o.kind = "store"
					case "Load":
						o.kind = "load"
						o.val, o.ok = lhsOf(x)
					case "LoadAndDelete":
						o.kind = "remove"
						o.val, o.ok = lhsOf(x)
					case "Delete", "CompareAndDelete":
						o.kind = "remove"
					default:
						return true
					}
					ops = append(ops, o)
				}
				if b, isB := g.Callee(x).(*types.Builtin); isB && b.Name() == "delete" && len(x.Args) == 2 && e.selects(x.Args[0], tableF) {
					ops = append(ops, op{fn: g, node: x, call: x, kind: "remove"})
				}
			case *ast.AssignStmt:
				for _, l := range x.Lhs {
					if ix, isIx := ast.Unparen(l).(*ast.IndexExpr); isIx && e.selects(ix.X, tableF) {
						ops = append(ops, op{fn: g, node: x, kind: "store"})
					}
				}
				if len(x.Rhs) == 1 {
					if ix, isIx := ast.Unparen(x.Rhs[0]).(*ast.IndexExpr); isIx && e.selects(ix.X, tableF) {
						o := op{fn: g, node: x, kind: "load"}
						if len(x.Lhs) >= 1 {
							o.val, _ = x.Lhs[0].(*ast.Ident)
						}
						if len(x.Lhs) == 2 {
							o.ok, _ = x.Lhs[1].(*ast.Ident)
						}
						ops = append(ops, o)
					}
				}
			}
			return true
		})
	}
	readsTable := map[*ast.BlockStmt]bool{}
	for _, o := range ops {
		if o.kind == "load" {
			readsTable[o.fn.Body] = true
		}
	}
	// getters: functions returning a *Session that read the table (directly or one call down)
	isGetter := func(h *flow.Func) bool {
		sig := e.sig(h)
		if sig == nil || sig.Results().Len() == 0 || !c15isNamed(sig.Results().At(0).Type(), e.sessT) {
			return false
		}
		for _, g := range e.reachSync(h, 1) {
			if readsTable[g.Body] {
				return true
			}
		}
		return false
	}
	defIdent := map[types.Object]*ast.Ident{}
	for id, o := range pkg.TypesInfo.Defs {
		if o != nil {
			defIdent[o] = id
		}
	}
	closedKey := func(g *flow.Func, x ast.Expr) string { return "ev:closed:" + g.Render(ast.Unparen(x)) }
	// only the helpers that matter are interpreted in place (a discard helper, a predicate on the previous
	// session); the trie walks etc. below unsubscribe stay opaque — they would only cost states
	relevant := map[*ast.BlockStmt]int{}
	wanted := func(h *flow.Func) bool {
		if v, ok := relevant[h.Body]; ok {
			return v == 1
		}
		relevant[h.Body] = 2
		want := false
		for _, g := range e.reachSync(h, 2) {
			for _, o := range ops {
				if o.fn.Body == g.Body {
					want = true
				}
			}
			for _, call := range calls(g.Body, true) {
				if o, _ := c15callee(g, call); o == e.obj(closeM) {
					want = true
				}
			}
		}
		if !want {
			// a small predicate: bool result, no loop
			if sig := e.sig(h); sig != nil && sig.Results().Len() == 1 && types.Identical(sig.Results().At(0).Type().Underlying(), types.Typ[types.Bool]) {
				want = true
				ast.Inspect(h.Body, func(n ast.Node) bool {
					switch n.(type) {
					case *ast.ForStmt, *ast.RangeStmt:
						want = false
					}
					return true
				})
			}
		}
		if want {
			relevant[h.Body] = 1
		}
		return want
	}
	hooks := func(root *flow.Func, except ...*flow.Func) flow.Config {
		all := e.inline(root, append(except, closeM)...)
		return flow.Config{NoHavoc: true, InlineClosures: true,
			Inline: func(call *ast.CallExpr, callee *types.Func) *flow.Func {
				h := all(call, callee)
				if h == nil || !wanted(h) {
					return nil
				}
				return h
			},
			OnCall: func(st *flow.State, call *ast.CallExpr, callee types.Object, deferred bool) {
				g := e.fnAt(call.Pos())
				if g == nil {
					return
				}
				if o, _ := c15callee(g, call); o == e.obj(closeM) {
					if subj := e.subjectOf(g, call); subj != nil {
						st.Set(closedKey(g, subj), flow.True)
						// the same session under the other local names it has in this function
						// (sess := val.(*Session); sess.close() closes val)
						tr := e.trace()
						tr.origins(g, subj)
						for o := range tr.vars {
							if id := defIdent[o]; id != nil && g.Body.Pos() <= o.Pos() && o.Pos() < g.Body.End() {
								st.Set("ev:closed:"+g.Render(id), flow.True)
							}
						}
					}
				}
			}}
	}
	// released: in state st the previous session held by variable p of function h is nil or closed
	released := func(st *flow.State, h *flow.Func, p types.Object) bool {
		id := defIdent[p]
		if id == nil {
			return false
		}
		if st.Is(h.NilKey(id), flow.True) {
			return true
		}
		for a := range e.aliases(h, p) {
			if aid := defIdent[a]; aid != nil && st.Is("ev:closed:"+h.Render(aid), flow.True) {
				return true
			}
		}
		return false
	}
	// prevVars: the variables of h holding the session registered before (result of a getter, or the value of a lookup)
	prevVars := func(h *flow.Func) []types.Object {
		var out []types.Object
		ast.Inspect(h.Body, func(n ast.Node) bool {
			as, ok := n.(*ast.AssignStmt)
			if !ok || len(as.Rhs) != 1 || len(as.Lhs) == 0 {
				return true
			}
			call, ok := ast.Unparen(as.Rhs[0]).(*ast.CallExpr)
			if !ok {
				return true
			}
			o, _ := c15callee(h, call)
			if g := e.byObj[o]; g != nil && isGetter(g) {
				if id, ok := as.Lhs[0].(*ast.Ident); ok && id.Name != "_" {
					out = append(out, c15objOf(h, id))
				}
			}
			return true
		})
		// a *Session parameter that every caller fills with the result of a getter (the lookup moved to the caller)
		if h.Type != nil && h.Type.Params != nil && len(e.sites[e.obj(h)]) > 0 {
			var getters []*flow.Func
			for _, g := range e.fns {
				if isGetter(g) {
					getters = append(getters, g)
				}
			}
			for _, fld := range h.Type.Params.List {
				for _, nm := range fld.Names {
					po := h.Info.Defs[nm]
					if po == nil || !c15isNamed(po.Type(), e.sessT) {
						continue
					}
					terms := e.trace(getters...).origins(h, nm)
					all := len(terms) > 0
					for _, t := range terms {
						call, ok := t.expr.(*ast.CallExpr)
						if !ok || t.idx != 0 {
							all = false
							break
						}
						o, _ := c15callee(t.fn, call)
						if g := e.byObj[o]; g == nil || !isGetter(g) {
							all = false
						}
					}
					if all {
						out = append(out, po)
					}
				}
			}
		}
		return out
	}
	const why = "a session is registered under the client id while the session registered before may still be live (not known absent, not nil, not closed): its resend loop keeps retransmitting its unacknowledged messages to the connection that owns the id now, whose PUBACKs reach the new session"
	// judgeAt: all states reaching node in root release the previous session (looked up in root itself or obtained by a getter)
	failed := false // an interpretation ended in an engine error: no verdict
	var judgeUp func(g *flow.Func, depth int) (ok, decided bool, bad *flow.State, where string)
	judgeIn := func(root *flow.Func, node ast.Node, skip *flow.Func) (ok, decided bool, bad *flow.State) {
		var loads []op
		for _, o := range ops {
			if o.kind == "load" && o.fn.Body == root.Body && o.ok != nil {
				loads = append(loads, o)
			}
		}
		prev := prevVars(root)
		if len(loads) == 0 && len(prev) == 0 {
			return false, false, nil
		}
		var except []*flow.Func
		if skip != nil {
			except = append(except, skip)
		}
		res := analyze(c, root, hooks(root, except...))
		if res == nil {
			failed = true
			return false, true, nil
		}
		if len(res.At[node]) == 0 {
			return false, false, nil
		}
		for _, st := range res.At[node] {
			fine := false
			for _, l := range loads {
				if st.Is(root.VarKey(l.ok), flow.False) {
					fine = true
				}
				if l.val != nil && released(st, root, c15objOf(root, l.val)) {
					fine = true
				}
			}
			for _, p := range prev {
				if released(st, root, p) {
					fine = true
				}
			}
			if !fine {
				return false, true, st
			}
		}
		return true, true, nil
	}
	judgeUp = func(g *flow.Func, depth int) (bool, bool, *flow.State, string) {
		callers := e.sites[e.obj(g)]
		if len(callers) == 0 || depth > 3 {
			return false, false, nil, e.name(g)
		}
		for _, s := range callers {
			ok, decided, bad := judgeIn(s.fn, s.call, g)
			if !decided {
				// the caller does not look at the previous session either: its callers must
				ok2, decided2, bad2, where := judgeUp(s.fn, depth+1)
				if !decided2 || !ok2 {
					return ok2, decided2, bad2, where
				}
				continue
			}
			if !ok {
				return false, true, bad, e.name(s.fn)
			}
		}
		return true, true, nil, ""
	}
	stores := 0
	for _, o := range ops {
		switch o.kind {
		case "store":
			stores++
			cons := e.name(o.fn) + "|previous session released before a session is registered"
			ok, decided, bad := judgeIn(o.fn, o.node, nil)
			where := e.name(o.fn)
			if !decided {
				ok, decided, bad, where = judgeUp(o.fn, 0)
			}
			switch {
			case failed:
				failed = false
				c.Undecide("R-C15-7", cons, pos(c, o.node), "the function looking at the previous session could not be interpreted (engine error reported above)")
			case !decided:
				c.Violate("R-C15-7", cons, pos(c, o.node), "a session is registered under the client id and neither "+where+" nor its callers look at the session registered before: "+why)
			case ok:
				c.Discharge("R-C15-7", cons, pos(c, o.node), "on every path reaching the store the entry is absent, or the previous session is nil or closed")
			default:
				c.Violate("R-C15-7", cons, pos(c, o.node), "in "+where+": "+why, witness(bad)...)
			}
		case "remove":
			cons := e.name(o.fn) + "|session taken out of the table is closed"
			if o.val == nil || o.ok == nil {
				c.Undecide("R-C15-7", cons, pos(c, o.node), "an entry is removed from the session table without taking the session out (Delete): cannot tell which session must be closed")
				continue
			}
			// close calls on a variable holding the value taken out
			var keys []string
			for _, g := range e.reachSync(o.fn, 1) {
				for _, call := range calls(g.Body, true) {
					if fo, _ := c15callee(g, call); fo != e.obj(closeM) {
						continue
					}
					subj := e.subjectOf(g, call)
					if subj == nil {
						continue
					}
					for _, t := range e.trace().origins(g, subj) {
						if t.expr == ast.Expr(o.call) && t.idx == 0 {
							keys = append(keys, closedKey(g, subj))
						}
					}
				}
			}
			if len(keys) == 0 {
				c.Violate("R-C15-7", cons, pos(c, o.node), "a session is taken out of the session table and not closed: its resend loop runs on and retransmits to whichever connection owns the client id")
				continue
			}
			res := analyze(c, o.fn, hooks(o.fn))
			if res == nil {
				continue
			}
			var bad *flow.State
			n := 0
			for _, ex := range res.Exits {
				if ex.Kind != flow.ExitReturn || !ex.State.Is(o.fn.VarKey(o.ok), flow.True) {
					continue
				}
				n++
				closed := false
				for _, k := range keys {
					if ex.State.Is(k, flow.True) {
						closed = true
					}
				}
				if !closed {
					bad = ex.State
				}
			}
			c.Check(bad == nil, "R-C15-7", cons, pos(c, o.node), sprintf("%d exits with an entry found: the session taken out is closed on each", n),
				"a session is taken out of the session table and not closed on some path: its resend loop runs on", witness(bad)...)
		}
	}
	c.RequireCount("R-C15-7", "stores into the session table", stores, 1)
}
