package rules

import (
	"go/ast"

	"verif/internal/core"
	"verif/internal/flow"
)

// Rules added after the second and third round of independently seeded changes (see DESIGN.md §8).
// Each is a structural necessary condition stated independently of the seeded patch's text;
// the mutants and behaviour-preserving edits they were tested with are in selftest/mutants/C15.json.

// R-C15-3 (extension): the resend queue is maintained only by publish and doResend.
func c15QueueWriters(c *core.Ctx) {
	pkg := c.Prog.Pkg(mq)
	queueF := structField(c, mq, "Session", "pendingQueue")
	if pkg == nil || queueF == nil {
		return
	}
	allowed := map[string]bool{"publish": true, "doResend": true, "init": true, "newSessionFromYaml": true}
	writers := 0
	for _, file := range pkg.Syntax {
		for _, d := range file.Decls {
			fd, ok := d.(*ast.FuncDecl)
			if !ok || fd.Body == nil {
				continue
			}
			f := flow.NewFunc(pkg, fd)
			var at ast.Node
			ast.Inspect(fd.Body, func(n ast.Node) bool {
				if as, ok := n.(*ast.AssignStmt); ok {
					for _, l := range as.Lhs {
						e := ast.Unparen(l)
						if ix, ok := e.(*ast.IndexExpr); ok {
							e = ast.Unparen(ix.X)
						}
						if sel, ok := e.(*ast.SelectorExpr); ok {
							if s := f.Info.Selections[sel]; s != nil && s.Obj() == queueF {
								at = as
							}
						}
					}
				}
				return true
			})
			if at == nil {
				continue
			}
			writers++
			c.Check(allowed[fd.Name.Name], "R-C15-3", declName(pkg, fd)+"|resend queue written only by publish / doResend / constructors", pos(c, at),
				"queue writer is the enqueueing or the resending function", "the resend queue is modified outside publish/doResend (e.g. trimmed when a PUBACK arrives): doResend retransmits only ids it finds in the queue, so ids dropped from it while still pending are never retransmitted although unacknowledged")
		}
	}
	c.RequireCount("R-C15-3", "functions writing Session.pendingQueue", writers, 2)
}
