package rules

import (
	"go/ast"
	"go/types"
	"strings"

	"verif/internal/flow"
)

// Rules added after the second and third round of independently seeded changes (see DESIGN.md §8).
// Each is a structural necessary condition stated independently of the seeded patch's text;
// the mutants and behaviour-preserving edits they were tested with are in selftest/mutants/C15.json.

// R-C15-3 (extension): the resend queue is maintained only by the enqueueing function (publish),
// the resending function (doResend), the helpers they call, and the functions initialising a
// Session (those that also create the pending map).
func c15QueueWriters(e *c15env) {
	c := e.c
	allowed := map[*ast.BlockStmt]bool{}
	for _, root := range []*flow.Func{e.publish, e.doResend} {
		if root == nil {
			return
		}
		for _, g := range e.reachOf(root, 2) {
			allowed[g.Body] = true
		}
	}
	// session initialisers: the functions creating the pending map (s.pending = make(..) / map literal), and their helpers
	for _, f := range e.fns {
		initialises := false
		ast.Inspect(f.Body, func(n ast.Node) bool {
			if as, ok := n.(*ast.AssignStmt); ok && len(as.Lhs) == len(as.Rhs) {
				for i, l := range as.Lhs {
					if !e.selects(l, e.pendingF) {
						continue
					}
					switch r := ast.Unparen(as.Rhs[i]).(type) {
					case *ast.CallExpr:
						if b, ok := f.Callee(r).(*types.Builtin); ok && b.Name() == "make" {
							initialises = true
						}
					case *ast.CompositeLit:
						initialises = true
					}
				}
			}
			return true
		})
		if initialises {
			for _, g := range e.reachSync(f, 2) {
				allowed[g.Body] = true
			}
		}
	}
	writers := 0
	for _, f := range e.fns {
		var at ast.Node
		ast.Inspect(f.Body, func(n ast.Node) bool {
			if as, ok := n.(*ast.AssignStmt); ok {
				for _, l := range as.Lhs {
					x := ast.Unparen(l)
					if ix, ok := x.(*ast.IndexExpr); ok {
						x = ast.Unparen(ix.X)
					}
					if e.selects(x, e.queueF) {
						at = as
					}
				}
			}
			return true
		})
		if at == nil {
			continue
		}
		writers++
		c.Check(allowed[f.Body], "R-C15-3", e.name(f)+"|resend queue written only by publish / doResend / constructors", pos(c, at),
			"queue writer is the enqueueing or the resending function (or a helper of theirs, or a session initialiser)", "the resend queue is modified outside publish/doResend (e.g. trimmed when a PUBACK arrives): doResend retransmits only ids it finds in the queue, so ids dropped from it while still pending are never retransmitted although unacknowledged")
	}
	c.RequireCount("R-C15-3", "functions writing the resend queue of Session", writers, 2)
}

// c15ResendLoop: R-C15-5.
func c15ResendLoop(e *c15env) {
	c := e.c
	pkg := e.pkg
	if e.bgResend == nil {
		return
	}
	bgObj := e.obj(e.bgResend)
	// aliases of a session variable: the receivers / parameters it is bound to in same-package calls
	aliases := e.aliases
	isResendGo := func(f *flow.Func, n ast.Node, objs map[types.Object]bool) bool {
		gs, ok := n.(*ast.GoStmt)
		if !ok {
			return false
		}
		o, recv := c15callee(f, gs.Call)
		if o != bgObj || recv == nil {
			return false
		}
		id, ok := ast.Unparen(recv).(*ast.Ident)
		return ok && objs[c15objOf(f, id)]
	}
	// startsFor: does f, on every path returning variable obj, start the loop for it?
	startsFor := func(f *flow.Func, obj types.Object) (bool, *flow.State) {
		objs := aliases(f, obj)
		res := analyze(c, f, flow.Config{NoHavoc: true, Inline: e.inline(f, e.bgResend), OnNode: func(st *flow.State, n ast.Node) {
			if isResendGo(f, n, objs) {
				st.Set("ev:resend", flow.True)
			}
		}})
		if res == nil {
			return false, nil
		}
		for _, ex := range res.Exits {
			if ex.Kind != flow.ExitReturn || ex.Return == nil {
				continue
			}
			returnsIt := false
			for _, r := range ex.Return.Results {
				if id, ok := ast.Unparen(r).(*ast.Ident); ok && f.Info.Uses[id] == obj {
					returnsIt = true
				}
			}
			if len(ex.Return.Results) == 0 && f.Type.Results != nil {
				// bare return with the session as a named result
				for _, fld := range f.Type.Results.List {
					for _, nm := range fld.Names {
						if f.Info.Defs[nm] == obj {
							returnsIt = true
						}
					}
				}
			}
			if returnsIt && !ex.State.Is("ev:resend", flow.True) {
				return false, ex.State
			}
		}
		return true, nil
	}
	isNewSession := func(f *flow.Func, x ast.Expr) bool {
		x = ast.Unparen(x)
		if lit := litOf(x); lit != nil {
			tv, ok := f.Info.Types[lit]
			return ok && types.Identical(tv.Type, e.sessT)
		}
		if call, ok := x.(*ast.CallExpr); ok && len(call.Args) == 1 {
			if b, ok := f.Callee(call).(*types.Builtin); ok && b.Name() == "new" {
				tv, ok := f.Info.Types[call.Args[0]]
				return ok && types.Identical(tv.Type, e.sessT)
			}
		}
		return false
	}
	// returnsFresh: f hands a new session to its caller directly (`return &Session{..}`)
	returnsFresh := func(f *flow.Func) bool {
		found := false
		ast.Inspect(f.Body, func(n ast.Node) bool {
			switch r := n.(type) {
			case *ast.FuncLit:
				return false
			case *ast.ReturnStmt:
				for _, x := range r.Results {
					if isNewSession(f, x) {
						found = true
					}
				}
			}
			return true
		})
		return found
	}
	// boundTo: the variable a call's result is bound to (nil if it is used in another way)
	boundTo := func(f *flow.Func, call *ast.CallExpr) types.Object {
		var obj types.Object
		ast.Inspect(f.Body, func(n ast.Node) bool {
			switch s := n.(type) {
			case *ast.AssignStmt:
				if len(s.Rhs) == 1 && ast.Unparen(s.Rhs[0]) == ast.Expr(call) && len(s.Lhs) >= 1 {
					if id, ok := s.Lhs[0].(*ast.Ident); ok && id.Name != "_" {
						obj = c15objOf(f, id)
					}
				}
			case *ast.ValueSpec:
				if len(s.Values) == 1 && ast.Unparen(s.Values[0]) == ast.Expr(call) && len(s.Names) >= 1 {
					obj = f.Info.Defs[s.Names[0]]
				}
			}
			return true
		})
		return obj
	}
	hasGo := func(f *flow.Func, obj types.Object) bool {
		objs := aliases(f, obj)
		started := false
		for _, g := range e.reachOf(f, 2) {
			ast.Inspect(g.Body, func(n ast.Node) bool {
				if isResendGo(g, n, objs) {
					started = true
				}
				return true
			})
		}
		return started
	}
	// handledBy: every caller of f (a function handing on a session whose loop is not started yet) binds the
	// session to a variable and starts the loop for it on every path returning it — or hands it on in turn
	var handledBy func(f *flow.Func, depth int) (bool, string, *flow.State)
	handledBy = func(f *flow.Func, depth int) (bool, string, *flow.State) {
		callers := e.sites[e.obj(f)]
		if len(callers) == 0 || depth > 3 {
			return false, "", nil
		}
		for _, s := range callers {
			f2 := s.fn
			robj := boundTo(f2, s.call)
			if robj == nil {
				return false, e.name(f2), nil
			}
			if hasGo(f2, robj) {
				if ok, bad := startsFor(f2, robj); !ok {
					return false, e.name(f2), bad
				}
				continue
			}
			// f2 does not start the loop itself: it must hand the session on
			if ok, who, bad := handledBy(f2, depth+1); !ok {
				if who == "" {
					who = e.name(f2)
				}
				return false, who, bad
			}
		}
		return true, "", nil
	}
	sites := 0
	for _, f := range e.fns {
		fd := f.Node.(*ast.FuncDecl)
		// construction sites: a variable holding a new Session, or a new Session returned directly
		var objs []types.Object
		ast.Inspect(fd.Body, func(n ast.Node) bool {
			switch s := n.(type) {
			case *ast.AssignStmt:
				if len(s.Lhs) == len(s.Rhs) {
					for i, r := range s.Rhs {
						if id, ok := s.Lhs[i].(*ast.Ident); ok && isNewSession(f, r) {
							objs = append(objs, c15objOf(f, id))
						}
					}
				}
			case *ast.ValueSpec:
				if len(s.Names) == len(s.Values) {
					for i, r := range s.Values {
						if isNewSession(f, r) {
							objs = append(objs, f.Info.Defs[s.Names[i]])
						}
					}
				}
			}
			return true
		})
		direct := returnsFresh(f)
		if len(objs) == 0 && !direct {
			continue
		}
		sites++
		cons := declName(pkg, fd) + "|resend loop started for the new session"
		here := !direct
		var bad *flow.State
		for _, obj := range objs {
			ok, b := startsFor(f, obj)
			if !ok {
				here, bad = false, b
			}
		}
		if here {
			c.Discharge("R-C15-5", cons, pos(c, fd), "go s.backgroundResendPending() on every path returning the session")
			continue
		}
		// the session leaves this function without its loop: the callers (transitively) must start it
		if ok, who, b := handledBy(f, 0); ok {
			c.Discharge("R-C15-5", cons, pos(c, fd), "started by every caller the new session is handed to, on every path returning it")
		} else {
			if b != nil {
				bad = b
			}
			c.Violate("R-C15-5", cons, pos(c, fd), "a Session is created without its resend loop: unacknowledged QoS1 messages of that session are never retransmitted (not started here"+
				map[bool]string{true: ", nor in caller " + who, false: ""}[who != ""]+")", witness(bad)...)
		}
	}
	c.RequireCount("R-C15-5", "construction sites of a Session", sites, 1)
}

// c15Registry: R-C15-6.
func c15Registry(e *c15env) {
	c := e.c
	pkg := e.pkg
	// roles: the test "this client is disconnected" and the close of a client
	var discConst types.Object
	if o := pkg.Types.Scope().Lookup("Disconnected"); o != nil {
		discConst = o
	}
	usesDisc := func(g *flow.Func) bool {
		found := false
		ast.Inspect(g.Body, func(n ast.Node) bool {
			if id, ok := n.(*ast.Ident); ok && discConst != nil && g.Info.Uses[id] == discConst {
				found = true
			}
			return true
		})
		return found
	}
	byNameOr := func(cands []*flow.Func, name string) *flow.Func {
		if len(cands) == 1 {
			return cands[0]
		}
		for _, g := range cands {
			if c15declName(g) == name {
				return g
			}
		}
		for _, g := range e.methodsOf(e.clientT, func(g *flow.Func, sig *types.Signature) bool { return c15declName(g) == name }) {
			return g
		}
		return nil
	}
	discM := byNameOr(e.methodsOf(e.clientT, func(g *flow.Func, sig *types.Signature) bool {
		return sig.Params().Len() == 0 && sig.Results().Len() == 1 && types.Identical(sig.Results().At(0).Type().Underlying(), types.Typ[types.Bool]) && usesDisc(g)
	}), "disconnected")
	closeM := byNameOr(e.methodsOf(e.clientT, func(g *flow.Func, sig *types.Signature) bool {
		return sig.Params().Len() == 0 && sig.Results().Len() == 0 && usesDisc(g)
	}), "close")
	if discM == nil || closeM == nil {
		c.Errorf("R-C15-6: anchor: cannot resolve the Client methods testing / setting the disconnected state (today: disconnected, close)")
		return
	}
	// lookups `val, ok := b.clients[k]`
	type lookup struct {
		key     string
		val, ok *ast.Ident
		keyX    ast.Expr
	}
	lookupsIn := func(g *flow.Func) []lookup {
		var out []lookup
		ast.Inspect(g.Body, func(n ast.Node) bool {
			if as, ok := n.(*ast.AssignStmt); ok && len(as.Lhs) == 2 && len(as.Rhs) == 1 {
				if key := e.clientLookup(g, as.Rhs[0]); key != nil {
					v, _ := as.Lhs[0].(*ast.Ident)
					o, _ := as.Lhs[1].(*ast.Ident)
					if v != nil && o != nil {
						out = append(out, lookup{g.Render(key), v, o, key})
					}
				}
			}
			return true
		})
		return out
	}
	// judge: the states reaching del when root is interpreted (helper, if any, in place) and the
	// first one in which the entry found by lk may be a live connection
	judge := func(root, helper *flow.Func, del *ast.CallExpr, lk lookup) (int, *flow.State) {
		discKeys := []string{}
		for _, g := range []*flow.Func{root, helper} {
			if g == nil {
				continue
			}
			for _, call := range calls(g.Body, false) {
				if o, recv := c15callee(g, call); o == e.obj(discM) && recv != nil {
					discKeys = append(discKeys, g.CallKey(call)+"\x00"+g.Render(recv))
				}
			}
		}
		cfg := flow.Config{NoHavoc: true, OnCall: func(st *flow.State, call *ast.CallExpr, callee types.Object, deferred bool) {
			g := e.fnAt(call.Pos())
			if g == nil {
				return
			}
			if o, recv := c15callee(g, call); o == e.obj(closeM) && recv != nil {
				st.Set("ev:closed:"+g.Render(recv), flow.True)
			}
		}}
		if helper != nil {
			ho := e.obj(helper)
			cfg.Inline = func(call *ast.CallExpr, callee *types.Func) *flow.Func {
				if callee.Origin() == ho {
					return helper
				}
				return nil
			}
		}
		res := analyze(c, root, cfg)
		if res == nil {
			return 0, nil
		}
		var bad *flow.State
		val := root.Render(lk.val)
		for _, st := range res.At[del] {
			if st.Is(root.VarKey(lk.ok), flow.False) || st.Is("ev:closed:"+val, flow.True) {
				continue
			}
			known := false
			for _, dk := range discKeys {
				if i := strings.IndexByte(dk, 0); dk[i+1:] == val && st.Is(dk[:i], flow.True) {
					known = true
				}
			}
			if !known {
				bad = st
			}
		}
		return len(res.At[del]), bad
	}
	const okDetail = "%d states: entry absent, registered client disconnected, or just closed"
	const badDetail = "the client table entry is deleted although the registered client may be a live connection (after a take-over the new connection is dropped from delivery)"
	sites := 0
	// units: every declared function, and every function literal in it (b.withLock(func() { .. }) — this
	// rule does not depend on the lock, so a literal is simply judged like a function of its own)
	type unit struct {
		fn    *flow.Func
		decl  *flow.Func
		isLit bool
	}
	var units []unit
	for _, f := range e.fns {
		units = append(units, unit{f, f, false})
		ast.Inspect(f.Body, func(n ast.Node) bool {
			if l, ok := n.(*ast.FuncLit); ok {
				units = append(units, unit{f.Lit(l), f, true})
			}
			return true
		})
	}
	for _, u := range units {
		f := u.fn
		fd := u.decl.Node.(*ast.FuncDecl)
		var dels []*ast.CallExpr
		for _, call := range calls(f.Body, false) {
			if b, ok := f.Callee(call).(*types.Builtin); ok && b.Name() == "delete" && len(call.Args) == 2 && e.selects(call.Args[0], e.clientsF) {
				dels = append(dels, call)
			}
		}
		if len(dels) == 0 {
			continue
		}
		own := lookupsIn(f)
	nextDel:
		for _, del := range dels {
			sites++
			cons := declName(pkg, fd) + "|delete from Broker.clients"
			k := f.Render(del.Args[1])
			for _, lk := range own {
				if lk.key == k {
					n, bad := judge(f, nil, del, lk)
					c.Check(bad == nil, "R-C15-6", cons, pos(c, del), sprintf(okDetail, n), badDetail, witness(bad)...)
					continue nextDel
				}
			}
			// the lookup and the test live in a predicate helper called with the same key (b.isGone(id)):
			// judge with the helper interpreted in place
			for _, g := range e.reachOf(f, 1)[1:] {
				for _, lk := range lookupsIn(g) {
					id, ok := ast.Unparen(lk.keyX).(*ast.Ident)
					if !ok {
						continue
					}
					v, ok := c15objOf(g, id).(*types.Var)
					if !ok {
						continue
					}
					pi, isRecv, isPar := e.paramIndex(v)
					if !isPar || isRecv {
						continue
					}
					same := false
					for _, call := range calls(f.Body, false) {
						if o, _ := c15callee(f, call); o == e.obj(g) {
							if args := c15args(f, call); pi < len(args) && f.Render(ast.Unparen(args[pi])) == k {
								same = true
							}
						}
					}
					if !same {
						continue
					}
					if n, bad := judge(f, g, del, lk); n > 0 {
						c.Check(bad == nil, "R-C15-6", cons, pos(c, del), sprintf(okDetail+" (lookup and test in the helper "+c15declName(g)+", interpreted in place)", n), badDetail, witness(bad)...)
						continue nextDel
					}
				}
			}
			if u.isLit {
				c.Undecide("R-C15-6", cons, pos(c, del), "the client table entry is deleted in a function literal that does not look the registered client up itself")
				continue
			}
			// the key is a parameter and every caller looks the entry up itself: judge from the callers
			if id, ok := ast.Unparen(del.Args[1]).(*ast.Ident); ok {
				if v, ok := c15objOf(f, id).(*types.Var); ok {
					pi, isRecv, isPar := e.paramIndex(v)
					callers := e.sites[e.obj(f)]
					if isPar && !isRecv && len(callers) > 0 {
						var lks []lookup
						for _, s := range callers {
							if pi >= len(s.call.Args) || s.inGo || s.inDefer {
								break
							}
							for _, lk := range lookupsIn(s.fn) {
								if lk.key == s.fn.Render(ast.Unparen(s.call.Args[pi])) {
									lks = append(lks, lk)
									break
								}
							}
						}
						if len(lks) == len(callers) {
							total := 0
							var bad *flow.State
							for i, s := range callers {
								n, b := judge(s.fn, f, del, lks[i])
								total += n
								if b != nil {
									bad = b
								}
							}
							if total == 0 {
								c.Undecide("R-C15-6", cons, pos(c, del), "the delete is not reached when its callers are interpreted with the helper in place")
							} else {
								c.Check(bad == nil, "R-C15-6", cons, pos(c, del), sprintf(okDetail+" (judged from the %d call sites, where the entry is looked up)", total, len(callers)), badDetail, witness(bad)...)
							}
							continue nextDel
						}
					}
				}
			}
			// the lookup may live in a helper called from here: then this function alone cannot be judged
			for _, g := range e.reachOf(f, 2)[1:] {
				if len(lookupsIn(g)) > 0 {
					c.Undecide("R-C15-6", cons, pos(c, del), "the client table entry is deleted here and looked up in the helper "+c15declName(g)+": cannot relate the two")
					continue nextDel
				}
			}
			c.Violate("R-C15-6", cons, pos(c, del), "the client table entry is deleted without looking at the registered client: after a take-over the stale connection's teardown removes the new, live connection, which then receives no messages")
		}
	}
	c.RequireCount("R-C15-6", "delete(Broker.clients, id) sites", sites, 1)
}

// c15rootIdent returns the identifier at the root of a selector chain (nil otherwise).
func c15rootIdent(x ast.Expr) *ast.Ident {
	for {
		switch t := ast.Unparen(x).(type) {
		case *ast.Ident:
			return t
		case *ast.SelectorExpr:
			x = t.X
		default:
			return nil
		}
	}
}

// aliases of a variable: the receivers / parameters it is bound to in same-package calls (two levels).
func (e *c15env) aliases(f *flow.Func, obj types.Object) map[types.Object]bool {
	out := map[types.Object]bool{obj: true}
	frontier := []*flow.Func{f}
	for d := 0; d < 2; d++ {
		var next []*flow.Func
		for _, g := range frontier {
			for _, call := range calls(g.Body, true) {
				o, recv := c15callee(g, call)
				h := e.byObj[o]
				if h == nil {
					continue
				}
				is := func(x ast.Expr) bool {
					id, ok := ast.Unparen(x).(*ast.Ident)
					return ok && out[c15objOf(g, id)]
				}
				hit := false
				if recv != nil && is(recv) {
					if fd, ok := h.Node.(*ast.FuncDecl); ok && fd.Recv != nil && len(fd.Recv.List) == 1 && len(fd.Recv.List[0].Names) == 1 {
						out[h.Info.Defs[fd.Recv.List[0].Names[0]]] = true
						hit = true
					}
				}
				for i, a := range call.Args {
					if is(a) {
						if pid := e.paramIdent(h, i); pid != nil {
							out[h.Info.Defs[pid]] = true
							hit = true
						}
					}
				}
				if hit {
					next = append(next, h)
				}
			}
		}
		frontier = next
	}
	return out
}
