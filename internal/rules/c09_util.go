package rules

// Helpers of the robustness pass: identity of variables across helper functions (canon),
// element loops in any spelling, calls through method values, values of named results.

import (
	"go/ast"
	"go/constant"
	"go/token"
	"go/types"
	"strings"

	"golang.org/x/tools/go/cfg"
	"golang.org/x/tools/go/packages"

	"verif/internal/core"
	"verif/internal/flow"
)

type c09site struct {
	g    *flow.Func
	call *ast.CallExpr
}

type c09paramRef struct {
	fd  *ast.FuncDecl
	idx int // -1 = receiver
}

// c09index is a per-package index of declarations, parameters and static call sites.
type c09index struct {
	pkg     *packages.Package
	fds     []*ast.FuncDecl
	fl      map[*ast.FuncDecl]*flow.Func
	paramOf map[types.Object]c09paramRef
	sites   map[*types.Func][]c09site
	escapes map[*types.Func]bool // referenced other than as the callee of a call
}

var c09indexes = map[*packages.Package]*c09index{}

func c09indexOf(pkg *packages.Package) *c09index {
	if x := c09indexes[pkg]; x != nil {
		return x
	}
	x := &c09index{pkg: pkg, fl: map[*ast.FuncDecl]*flow.Func{}, paramOf: map[types.Object]c09paramRef{},
		sites: map[*types.Func][]c09site{}, escapes: map[*types.Func]bool{}}
	x.fds = c09pkgFuncs(pkg)
	for _, fd := range x.fds {
		g := flow.NewFunc(pkg, fd)
		x.fl[fd] = g
		if fd.Recv != nil && len(fd.Recv.List) == 1 && len(fd.Recv.List[0].Names) == 1 {
			if o := pkg.TypesInfo.Defs[fd.Recv.List[0].Names[0]]; o != nil {
				x.paramOf[o] = c09paramRef{fd, -1}
			}
		}
		i := 0
		if fd.Type.Params != nil {
			for _, fld := range fd.Type.Params.List {
				if len(fld.Names) == 0 {
					i++
				}
				for _, n := range fld.Names {
					if o := pkg.TypesInfo.Defs[n]; o != nil {
						x.paramOf[o] = c09paramRef{fd, i}
					}
					i++
				}
			}
		}
	}
	for _, fd := range x.fds {
		g := x.fl[fd]
		callFuns := map[ast.Expr]bool{}
		for _, call := range calls(fd.Body, true) {
			callFuns[ast.Unparen(call.Fun)] = true
			if fo, ok := g.Callee(call).(*types.Func); ok && fo.Pkg() == pkg.Types {
				x.sites[fo] = append(x.sites[fo], c09site{g, call})
			}
		}
		ast.Inspect(fd.Body, func(n ast.Node) bool {
			switch e := n.(type) {
			case *ast.SelectorExpr:
				if fo, ok := g.Info.Uses[e.Sel].(*types.Func); ok && !callFuns[e] {
					x.escapes[fo] = true
				}
			}
			return true
		})
	}
	c09indexes[pkg] = x
	return x
}

// enclosing returns the declared function whose body spans pos.
func (x *c09index) enclosing(p token.Pos) *flow.Func {
	for _, fd := range x.fds {
		if fd.Pos() <= p && p < fd.End() {
			return x.fl[fd]
		}
	}
	return nil
}

// canon follows a variable to where its value comes from, across helper boundaries: a parameter
// (or receiver) of a function with exactly one call site in the package is the argument at that
// site; a local defined once from another variable is that variable; a local defined once from a
// call of a same-package function all of whose non-nil returns name one variable is that variable.
// Two expressions rooted in variables with the same canon denote the same object.
func (x *c09index) canon(o types.Object) types.Object {
	for depth := 0; depth < 8 && o != nil; depth++ {
		v, ok := o.(*types.Var)
		if !ok || v.IsField() || v.Pkg() != x.pkg.Types || v.Parent() == v.Pkg().Scope() {
			return o
		}
		if p, isParam := x.paramOf[v]; isParam {
			fo, _ := x.pkg.TypesInfo.Defs[p.fd.Name].(*types.Func)
			ss := x.sites[fo]
			if fo == nil || len(ss) != 1 || x.escapes[fo] {
				return o
			}
			var arg ast.Expr
			if p.idx < 0 {
				sel, ok := ast.Unparen(ss[0].call.Fun).(*ast.SelectorExpr)
				if !ok {
					return o
				}
				arg = sel.X
			} else {
				if p.idx >= len(ss[0].call.Args) || ss[0].call.Ellipsis.IsValid() {
					return o
				}
				arg = ss[0].call.Args[p.idx]
			}
			id, ok := ast.Unparen(arg).(*ast.Ident)
			if !ok {
				return o
			}
			next := c09obj(ss[0].g, id)
			if next == nil || next == o {
				return o
			}
			o = next
			continue
		}
		g := x.enclosing(v.Pos())
		if g == nil {
			return o
		}
		rhs := c09singleDef(g, v)
		resIdx := 0
		if rhs == nil {
			if call, i := c09tupleDef(g, v); call != nil {
				rhs, resIdx = call, i
			} else if src := c09soleSource(g, v); src != nil && src != o {
				o = src
				continue
			} else {
				return o
			}
		}
		switch r := ast.Unparen(rhs).(type) {
		case *ast.Ident:
			next := c09obj(g, r)
			if _, isVar := next.(*types.Var); !isVar {
				return o
			}
			o = next
			continue
		case *ast.CallExpr:
			fo, ok := g.Callee(r).(*types.Func)
			if !ok || fo.Pkg() != x.pkg.Types {
				return o
			}
			fd := declOf(x.pkg, fo)
			if fd == nil || fo.Type().(*types.Signature).Results().Len() <= resIdx {
				return o
			}
			nres := fo.Type().(*types.Signature).Results().Len()
			h := x.fl[fd]
			var ret types.Object
			okRet := true
			ast.Inspect(fd.Body, func(n ast.Node) bool {
				switch s := n.(type) {
				case *ast.FuncLit:
					return false
				case *ast.ReturnStmt:
					if len(s.Results) != nres {
						okRet = false
						return true
					}
					if tv, ok := h.Info.Types[s.Results[resIdx]]; ok && tv.IsNil() {
						return true
					}
					id, ok := ast.Unparen(s.Results[resIdx]).(*ast.Ident)
					if !ok {
						okRet = false
						return true
					}
					ro := c09obj(h, id)
					if ret != nil && ret != ro {
						okRet = false
					}
					ret = ro
				}
				return true
			})
			if !okRet || ret == nil {
				return o
			}
			o = ret
			continue
		}
		return o
	}
	return o
}

// canonRoot is canon of the root variable of e (after following single-definition locals).
func (x *c09index) canonRoot(g *flow.Func, e ast.Expr) types.Object {
	// follow single-definition locals only while the definition is itself a path (x, x.f, &x.f):
	// `u := urls[i]` stays u (an element is not its slice)
	for depth := 0; depth < 4; depth++ {
		id, ok := ast.Unparen(e).(*ast.Ident)
		if !ok {
			break
		}
		def := c09singleDef(g, c09obj(g, id))
		if def == nil || !c09isPath(def) {
			break
		}
		e = def
	}
	for depth := 0; depth < 4; depth++ {
		id := c09root(e)
		if id == nil {
			return nil
		}
		if _, isIndex := c09hasIndex(e); isIndex {
			return nil // an element of a container has no variable identity
		}
		// the root is a local standing for a longer path (`spec := rl.spec; spec.URLs`)
		if def := c09singleDef(g, c09obj(g, id)); def != nil && c09isPath(def) {
			if _, isID := ast.Unparen(def).(*ast.Ident); !isID {
				e = def
				continue
			}
		}
		return x.canon(c09obj(g, id))
	}
	return nil
}

func c09isPath(e ast.Expr) bool {
	switch x := ast.Unparen(e).(type) {
	case *ast.Ident:
		return true
	case *ast.SelectorExpr:
		return c09isPath(x.X)
	case *ast.StarExpr:
		return c09isPath(x.X)
	case *ast.UnaryExpr:
		return x.Op == token.AND && c09isPath(x.X)
	}
	return false
}

func c09hasIndex(e ast.Expr) (*ast.IndexExpr, bool) {
	for e != nil {
		switch x := ast.Unparen(e).(type) {
		case *ast.IndexExpr:
			return x, true
		case *ast.SelectorExpr:
			e = x.X
		case *ast.StarExpr:
			e = x.X
		case *ast.UnaryExpr:
			e = x.X
		default:
			return nil, false
		}
	}
	return nil, false
}

// c09callee resolves the function a call invokes, also through a method value held in a local
// (`acquire := x.rl.AcquirePermission; acquire()`); recv is the receiver expression.
func c09callee(g *flow.Func, call *ast.CallExpr) (fo *types.Func, recv ast.Expr) {
	fun := ast.Unparen(call.Fun)
	if id, ok := fun.(*ast.Ident); ok {
		if _, isFunc := c09obj(g, id).(*types.Func); !isFunc {
			fun = c09resolve(g, id)
		}
	}
	switch x := fun.(type) {
	case *ast.SelectorExpr:
		if s := g.Info.Selections[x]; s != nil {
			if m, ok := s.Obj().(*types.Func); ok && (s.Kind() == types.MethodVal) {
				return m, x.X
			}
			return nil, nil
		}
		if m, ok := g.Info.Uses[x.Sel].(*types.Func); ok { // pkg.Func
			return m, nil
		}
	case *ast.Ident:
		if m, ok := c09obj(g, x).(*types.Func); ok {
			return m, nil
		}
	}
	return nil, nil
}

// c09calleeIs is calleeIs through c09callee.
func c09calleeIs(g *flow.Func, call *ast.CallExpr, names ...string) bool {
	fo, _ := c09callee(g, call)
	if fo == nil {
		return false
	}
	full := strings.ReplaceAll(fo.FullName(), Mod, "")
	for _, n := range names {
		if full == n {
			return true
		}
	}
	return false
}

// c09loop describes a loop over the elements of a slice in any spelling:
// `for _, e := range s`, `for i := range s { e := s[i] }`, `for i := 0; i < len(s); i++ { e := s[i] }`.
type c09loop struct {
	stmt  ast.Stmt
	g     *flow.Func
	slice ast.Expr // the slice (single-definition locals followed)
	key   types.Object
	elem  types.Object // nil when the element is only used as s[i]
	body  *ast.BlockStmt
	post  bool
}

func c09loopOf(g *flow.Func, s ast.Stmt) *c09loop {
	l := &c09loop{stmt: s, g: g}
	objOf := func(e ast.Expr) types.Object {
		id, ok := e.(*ast.Ident)
		if !ok || id.Name == "_" {
			return nil
		}
		return c09obj(g, id)
	}
	switch x := s.(type) {
	case *ast.RangeStmt:
		l.slice, l.body = c09resolve(g, x.X), x.Body
		if x.Key != nil {
			l.key = objOf(x.Key)
		}
		if x.Value != nil {
			l.elem = objOf(x.Value)
		}
	case *ast.ForStmt:
		be, ok := ast.Unparen(x.Cond).(*ast.BinaryExpr)
		if x.Cond == nil || !ok {
			return nil
		}
		var idx, bound ast.Expr
		switch be.Op {
		case token.LSS, token.NEQ:
			idx, bound = be.X, be.Y
		case token.GTR:
			idx, bound = be.Y, be.X
		default:
			return nil
		}
		call, ok := ast.Unparen(bound).(*ast.CallExpr)
		if !ok || len(call.Args) != 1 {
			if id, isID := ast.Unparen(bound).(*ast.Ident); isID { // n := len(s); i < n
				call, ok = c09resolve(g, id).(*ast.CallExpr)
			}
			if !ok || call == nil || len(call.Args) != 1 {
				return nil
			}
		}
		if b, ok := g.Callee(call).(*types.Builtin); !ok || b.Name() != "len" {
			return nil
		}
		l.slice, l.body, l.post = c09resolve(g, call.Args[0]), x.Body, x.Post != nil
		l.key = objOf(ast.Unparen(idx))
	default:
		return nil
	}
	if l.elem == nil && l.key != nil && l.body != nil {
		want := g.Render(l.slice)
		for _, st := range l.body.List {
			as, ok := st.(*ast.AssignStmt)
			if !ok || len(as.Lhs) != 1 || len(as.Rhs) != 1 {
				continue
			}
			r := ast.Unparen(as.Rhs[0])
			if u, ok := r.(*ast.UnaryExpr); ok && u.Op == token.AND {
				r = ast.Unparen(u.X)
			}
			ix, ok := r.(*ast.IndexExpr)
			if !ok || objOf(ast.Unparen(ix.Index)) != l.key || g.Render(c09resolve(g, ix.X)) != want {
				continue
			}
			l.elem = objOf(as.Lhs[0])
			break
		}
	}
	return l
}

// block roles of a loop statement
func (l *c09loop) isBody(b *cfg.Block) bool {
	return b.Stmt == l.stmt && (b.Kind == cfg.KindRangeBody || b.Kind == cfg.KindForBody)
}

// isIterEnd: the block every finished iteration passes (the target of continue).
func (l *c09loop) isIterEnd(b *cfg.Block) bool {
	if b.Stmt != l.stmt {
		return false
	}
	switch b.Kind {
	case cfg.KindRangeLoop:
		return true
	case cfg.KindForPost:
		return true
	case cfg.KindForLoop:
		return !l.post
	}
	return false
}

func (l *c09loop) isDone(b *cfg.Block) bool {
	return b.Stmt == l.stmt && (b.Kind == cfg.KindRangeDone || b.Kind == cfg.KindForDone)
}

// isElemExpr: e denotes the current element of the loop (the element variable, or s[i]).
func (l *c09loop) isElemExpr(g *flow.Func, x *c09index, e ast.Expr) bool {
	r := c09resolve(g, e)
	if u, ok := r.(*ast.UnaryExpr); ok && u.Op == token.AND {
		r = ast.Unparen(u.X)
	}
	if ix, ok := r.(*ast.IndexExpr); ok && g == l.g {
		if id, ok := ast.Unparen(ix.Index).(*ast.Ident); ok && l.key != nil && c09obj(g, id) == l.key &&
			g.Render(c09resolve(g, ix.X)) == g.Render(l.slice) {
			return true
		}
	}
	if l.elem == nil {
		return false
	}
	return x.canonRoot(g, e) == l.elem
}

// c09results tracks assignments to the named results of f (the engine does not give the results
// of the analysed function their zero value): hook for OnNode, and value lookup at an exit.
type c09results struct {
	f     *flow.Func
	names []*ast.Ident
}

func c09resultsOf(f *flow.Func) *c09results {
	r := &c09results{f: f}
	if f.Type != nil && f.Type.Results != nil {
		for _, fld := range f.Type.Results.List {
			r.names = append(r.names, fld.Names...)
		}
	}
	return r
}

func (r *c09results) onNode(st *flow.State, n ast.Node) {
	if len(r.names) == 0 {
		return
	}
	mark := func(e ast.Expr) {
		if id, ok := ast.Unparen(e).(*ast.Ident); ok {
			for _, nm := range r.names {
				if c09obj(r.f, id) == r.f.Info.Defs[nm] {
					st.Set("ev:resultset:"+r.f.Render(nm), flow.True)
				}
			}
		}
	}
	switch s := n.(type) {
	case *ast.AssignStmt:
		for _, l := range s.Lhs {
			mark(l)
		}
	case *ast.IncDecStmt:
		mark(s.X)
	}
}

// expr returns the expression giving the i-th returned value at an exit: the result expression of
// the (innermost) return statement, or the named result for a bare return (nil if unknown).
func (r *c09results) expr(ex *flow.Exit, i int) ast.Expr {
	ret := ex.Ret()
	if ret != nil && len(ret.Results) > i {
		return ast.Unparen(ret.Results[i])
	}
	if (ret == nil || len(ret.Results) == 0) && i < len(r.names) && ex.Inner == nil {
		return r.names[i]
	}
	return nil
}

// constant returns the constant value returned as i-th result at an exit, if it is known: a
// constant expression, or a variable / named result known equal to a constant (zero value when a
// named result was never assigned on the path).
func (r *c09results) constant(ex *flow.Exit, i int) (constant.Value, bool) {
	e := r.expr(ex, i)
	if e == nil {
		return nil, false
	}
	f := r.f
	if tv, ok := f.Info.Types[e]; ok && tv.Value != nil {
		return tv.Value, true
	}
	id, ok := e.(*ast.Ident)
	if !ok {
		return nil, false
	}
	st := ex.State
	switch st.Get(f.VarKey(id)) {
	case flow.True:
		return constant.MakeBool(true), true
	case flow.False:
		return constant.MakeBool(false), true
	}
	pre := "eq:" + f.Render(id) + "=="
	for _, fact := range st.Facts() {
		if len(fact) > len(pre)+2 && fact[:len(pre)] == pre && fact[len(fact)-2:] == "=T" {
			lit := fact[len(pre) : len(fact)-2]
			if len(lit) > 0 && lit[0] == '"' {
				if v := constant.MakeFromLiteral(lit, token.STRING, 0); v.Kind() == constant.String {
					return v, true
				}
			}
		}
	}
	for _, nm := range r.names {
		if f.Info.Defs[nm] == c09obj(f, id) && !st.Is("ev:resultset:"+f.Render(nm), flow.True) {
			// never assigned on this path: zero value
			switch b := f.Info.Defs[nm].Type().Underlying().(type) {
			case *types.Basic:
				switch {
				case b.Info()&types.IsString != 0:
					return constant.MakeString(""), true
				case b.Info()&types.IsBoolean != 0:
					return constant.MakeBool(false), true
				}
			}
		}
	}
	return nil, false
}

// c09parents builds one parent map over the bodies of several functions.
func c09parents(fs []*flow.Func) map[ast.Node]ast.Node {
	pm := map[ast.Node]ast.Node{}
	for _, g := range fs {
		for k, v := range parentMap(g.Body) {
			pm[k] = v
		}
	}
	return pm
}

// c09owner maps every call expression in the bodies of fs to the function it belongs to.
func c09owner(fs []*flow.Func) map[*ast.CallExpr]*flow.Func {
	out := map[*ast.CallExpr]*flow.Func{}
	for _, g := range fs {
		for _, call := range calls(g.Body, true) {
			if _, seen := out[call]; !seen {
				out[call] = g
			}
		}
	}
	return out
}

// c09fieldByType resolves a struct field by its type (role), the declared name only breaks ties:
// renaming an unexported field does not lose the anchor. Ambiguity / absence is a checker error.
func c09fieldByType(c *core.Ctx, rel, typ string, fits func(t types.Type) bool, name string) *types.Var {
	n := namedType(c, rel, typ)
	if n == nil {
		return nil
	}
	st, ok := n.Underlying().(*types.Struct)
	if !ok {
		c.Errorf("anchor: %s.%s is not a struct", rel, typ)
		return nil
	}
	var cands []*types.Var
	for i := 0; i < st.NumFields(); i++ {
		if fits(st.Field(i).Type()) {
			cands = append(cands, st.Field(i))
		}
	}
	if len(cands) == 1 {
		return cands[0]
	}
	for _, v := range cands {
		if v.Name() == name {
			return v
		}
	}
	c.Errorf("anchor: field of %s.%s with the role of %q not found (%d candidates by type)", rel, typ, name, len(cands))
	return nil
}

func c09isPtrTo(t types.Type, pkgRel, name string) bool {
	p, ok := t.(*types.Pointer)
	if !ok {
		return false
	}
	n, ok := p.Elem().(*types.Named)
	return ok && n.Obj().Pkg() != nil && n.Obj().Pkg().Path() == Mod+pkgRel && n.Obj().Name() == name
}

// the role-resolved fields of the filter package
func c09filterFields(c *core.Ctx) (rlF, urlsF, specF *types.Var) {
	rlF = c09fieldByType(c, c09flt, "URLRule", func(t types.Type) bool { return c09isPtrTo(t, c09lib, "RateLimiter") }, "rl")
	urlsF = c09fieldByType(c, c09flt, "Spec", func(t types.Type) bool {
		s, ok := t.(*types.Slice)
		return ok && c09isPtrTo(s.Elem(), c09flt, "URLRule")
	}, "URLs")
	specF = c09fieldByType(c, c09flt, "RateLimiter", func(t types.Type) bool { return c09isPtrTo(t, c09flt, "Spec") }, "spec")
	return
}

// c09isPolicyCmp: the role of the two-generation policy comparison — a function or method of the
// filter package returning bool that gets two *Spec (receiver included) and one policy name.
func c09isPolicyCmp(g *flow.Func, fd *ast.FuncDecl) bool {
	if fd.Type.Results == nil || len(fd.Type.Results.List) != 1 || len(fd.Type.Results.List[0].Names) > 1 {
		return false
	}
	if tv, ok := g.Info.Types[fd.Type.Results.List[0].Type]; !ok || tv.Type.String() != "bool" {
		return false
	}
	specs, strs := 0, 0
	count := func(t types.Type) {
		switch {
		case c09isPtrTo(t, c09flt, "Spec"):
			specs++
		case t.String() == "string":
			strs++
		}
	}
	if rv := c09recv(g); rv != nil {
		count(rv.Type())
	} else if fd.Recv != nil {
		return false
	}
	for _, p := range c09params(g) {
		count(p.Type())
	}
	return specs == 2 && strs == 1
}
