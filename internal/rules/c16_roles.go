package rules

// Anchors of C16 resolved by role (what a function does), with the historical name only as a
// fallback / tie-breaker, so that renaming an unexported function, moving it to another file or
// splitting handleConn does not lose them.

import (
	"go/ast"
	"go/token"
	"go/types"

	"verif/internal/flow"
)

type c16Anchor struct {
	recv, name string
	role       func(e *c16Env, g *flow.Func, fd *ast.FuncDecl) bool
}

func c16RecvIs(fd *ast.FuncDecl, typ string) bool {
	if fd.Recv == nil || len(fd.Recv.List) != 1 {
		return typ == ""
	}
	t := types.ExprString(fd.Recv.List[0].Type)
	return t == typ || t == "*"+typ
}

func c16BodyCalls(g *flow.Func, pred func(call *ast.CallExpr) bool) bool {
	found := false
	ast.Inspect(g.Body, func(n ast.Node) bool {
		if call, ok := n.(*ast.CallExpr); ok && pred(call) {
			found = true
		}
		return !found
	})
	return found
}

var c16Anchors = map[string]c16Anchor{
	// the read loop of a connection: the Client method that reads packets from the connection
	"readLoop": {"Client", "readLoop", func(e *c16Env, g *flow.Func, fd *ast.FuncDecl) bool {
		return c16RecvIs(fd, "Client") && c16BodyCalls(g, func(call *ast.CallExpr) bool { return calleeFull(g, call) == c16Packets+".ReadPacket" })
	}},
	// the write loop: the Client method that receives from Client.writeCh
	"writeLoop": {"Client", "writeLoop", func(e *c16Env, g *flow.Func, fd *ast.FuncDecl) bool {
		if !c16RecvIs(fd, "Client") || e.writeChF == nil {
			return false
		}
		found := false
		ast.Inspect(g.Body, func(n ast.Node) bool {
			if u, ok := n.(*ast.UnaryExpr); ok && u.Op == token.ARROW && c16Sel(g, u.X, e.writeChF) {
				found = true
			}
			return !found
		})
		return found
	}},
	// the SUBSCRIBE handler: mentions *packets.SubscribePacket and calls TopicManager.subscribe
	"processSubscribe": {"", "processSubscribe", func(e *c16Env, g *flow.Func, fd *ast.FuncDecl) bool {
		mentions := false
		ast.Inspect(fd, func(n ast.Node) bool {
			if x, ok := n.(ast.Expr); ok {
				if tv, ok := g.Info.Types[x]; ok && tv.IsType() && tv.Type != nil && tv.Type.String() == "*"+c16Packets+".SubscribePacket" {
					mentions = true
				}
			}
			return !mentions
		})
		return mentions && c16BodyCalls(g, func(call *ast.CallExpr) bool { return calleeIs(g, call, "(*"+mq+".TopicManager).subscribe") })
	}},
	// the cache+storage lookup of a session
	"sessionGet": {"SessionManager", "get", func(e *c16Env, g *flow.Func, fd *ast.FuncDecl) bool {
		return c16RecvIs(fd, "SessionManager") &&
			c16BodyCalls(g, func(call *ast.CallExpr) bool {
				return calleeIs(g, call, "(*sync.Map).Load") && c16Sel(g, c16Recv(call), e.sessMapF)
			}) &&
			c16BodyCalls(g, func(call *ast.CallExpr) bool { return ifaceMethodCall(g, call, mq, "storage", "get") })
	}},
	// the constructor of a session for a CONNECT
	"sessionNew": {"SessionManager", "newSessionFromConn", func(e *c16Env, g *flow.Func, fd *ast.FuncDecl) bool {
		if !c16RecvIs(fd, "SessionManager") || fd.Type.Params == nil {
			return false
		}
		hasConnect := false
		for _, p := range fd.Type.Params.List {
			if tv, ok := g.Info.Types[p.Type]; ok && tv.Type != nil && tv.Type.String() == "*"+c16Packets+".ConnectPacket" {
				hasConnect = true
			}
		}
		return hasConnect && c16BodyCalls(g, func(call *ast.CallExpr) bool {
			return calleeIs(g, call, "(*sync.Map).Store") && c16Sel(g, c16Recv(call), e.sessMapF)
		})
	}},
}

// anchor resolves a role; nil (plus a checker error) if it cannot be resolved uniquely.
func (e *c16Env) anchor(key string) *flow.Func {
	if f, ok := e.anchors[key]; ok {
		return f
	}
	if e.anchors == nil {
		e.anchors = map[string]*flow.Func{}
	}
	var f *flow.Func
	switch key {
	case "handleConn": // the top of the connect path: the function from which the read loop of a new
		// connection is reached by synchronous calls and that no other such function calls synchronously
		rl := e.anchor("readLoop")
		if rl != nil {
			runs := func(g *flow.Func) bool {
				for _, h := range syncReach(e, g, 3) {
					if c16BodyCallsSync(h, func(call *ast.CallExpr) bool { return e.callTo(h, call, rl) }) {
						return true
					}
				}
				return false
			}
			in := funcsByRole(e.c, mq, func(g *flow.Func, fd *ast.FuncDecl) bool { return runs(g) })
			var tops []*flow.Func
			for _, g := range in {
				called := false
				for _, h := range in {
					if h.Body == g.Body {
						continue
					}
					if c16BodyCallsSync(h, func(call *ast.CallExpr) bool { return e.callTo(h, call, g) }) {
						called = true
					}
				}
				if !called {
					tops = append(tops, g)
				}
			}
			switch {
			case len(tops) == 1:
				f = tops[0]
				if fd, ok := f.Node.(*ast.FuncDecl); ok {
					f = funcOf(e.pkg, fd)
				}
			case len(tops) == 0:
				f = fn(e.c, mq, "Broker", "handleConn")
			default:
				for _, g := range tops {
					if fd, ok := g.Node.(*ast.FuncDecl); ok && fd.Name.Name == "handleConn" {
						f = g
					}
				}
				if f == nil {
					e.c.Errorf("anchor handleConn: %d functions start a connection's read loop and none is called handleConn", len(tops))
				}
			}
		}
	case "chooser": // the function that decides between the previous and a new session
		get, nw := e.anchor("sessionGet"), e.anchor("sessionNew")
		if get != nil && nw != nil {
			// it creates the new session, and gets the previous one from the manager itself or from
			// its caller (a *Session parameter)
			f = e.pick(key, "Broker", "setSession", func(g *flow.Func, fd *ast.FuncDecl) bool {
				if !c16BodyCalls(g, func(call *ast.CallExpr) bool { return e.callTo(g, call, nw) }) {
					return false
				}
				if c16BodyCalls(g, func(call *ast.CallExpr) bool { return e.callTo(g, call, get) }) {
					return true
				}
				return c16SessionParam(g, fd) != nil
			})
		}
	default:
		a := c16Anchors[key]
		f = e.pick(key, a.recv, a.name, func(g *flow.Func, fd *ast.FuncDecl) bool { return a.role(e, g, fd) })
	}
	e.anchors[key] = f
	return f
}

func (e *c16Env) pick(key, recv, name string, role func(g *flow.Func, fd *ast.FuncDecl) bool) *flow.Func {
	cands := funcsByRole(e.c, mq, role)
	switch len(cands) {
	case 1:
		e.c.Count("functions_analysed", 1)
		return cands[0]
	case 0:
		return fn(e.c, mq, recv, name) // historical name; checker error if that is gone too
	}
	for _, g := range cands {
		if fd, ok := g.Node.(*ast.FuncDecl); ok && fd.Name.Name == name && c16RecvIs(fd, recv) {
			return g
		}
	}
	e.c.Errorf("anchor %s: %d functions fit the role and none is called %s; cannot decide which one is meant", key, len(cands), name)
	return nil
}

// callTo reports whether call invokes the function declared by target.
func (e *c16Env) callTo(g *flow.Func, call *ast.CallExpr, target *flow.Func) bool {
	if target == nil {
		return false
	}
	fo, ok := c16FnOK(g, call)
	if !ok {
		return false
	}
	fd, _ := target.Node.(*ast.FuncDecl)
	return fd != nil && e.decls[fo] == fd
}

// fnameOf renders the construct name of a resolved function.
func (e *c16Env) fnameOf(f *flow.Func) string {
	if fd, ok := f.Node.(*ast.FuncDecl); ok {
		return declName(e.pkg, fd)
	}
	return f.Name
}

// clientTargets extends a set of variables holding "the connection" with the parameters /
// receivers they are bound to in the same-package functions reachable from f.
func (e *c16Env) bindParams(f *flow.Func, targets map[types.Object]bool, depth int) {
	for changed, round := true, 0; changed && round < 4; round++ {
		changed = false
		inspectReach(f, depth, func(g *flow.Func, n ast.Node) bool {
			call, ok := n.(*ast.CallExpr)
			if !ok {
				return true
			}
			fo, ok := c16FnOK(g, call)
			if !ok {
				return true
			}
			d := e.decls[fo]
			if d == nil {
				return true
			}
			idx := 0
			if d.Type.Params != nil {
				for _, fld := range d.Type.Params.List {
					for _, nm := range fld.Names {
						if idx < len(call.Args) && targets[c16Obj(g, call.Args[idx])] {
							if po := g.Info.Defs[nm]; po != nil && !targets[po] {
								targets[po] = true
								changed = true
							}
						}
						idx++
					}
				}
			}
			return true
		})
	}
}

// inlineWhere is a flow.Config.Inline function that interprets a same-package callee in place
// only if the callee (or what it calls, depth 2) contains a node the rule cares about; methods of
// Client (the connection's own life-cycle methods, which rules model by summaries) stay opaque.
// Inlining everything makes handleConn explode.
func (e *c16Env) inlineWhere(f *flow.Func, want func(g *flow.Func, n ast.Node) bool) func(*ast.CallExpr, *types.Func) *flow.Func {
	memo := map[*ast.FuncDecl]*flow.Func{}
	seen := map[*ast.FuncDecl]bool{}
	return func(call *ast.CallExpr, callee *types.Func) *flow.Func {
		if callee == nil {
			return nil
		}
		d := e.decls[callee]
		if d == nil || c16IsClientMethod(d) {
			return nil
		}
		if seen[d] {
			return memo[d]
		}
		seen[d] = true
		g := flow.NewFunc(e.pkg, d)
		found := false
		inspectReach(g, 2, func(h *flow.Func, n ast.Node) bool {
			if !found && want(h, n) {
				found = true
			}
			return !found
		})
		if found {
			memo[d] = g
		}
		return memo[d]
	}
}

// declOfAnchor returns the declaration of a role-resolved function (nil if unresolved).
func (e *c16Env) declOfAnchor(key string) *ast.FuncDecl {
	if f := e.anchor(key); f != nil {
		fd, _ := f.Node.(*ast.FuncDecl)
		return fd
	}
	return nil
}

// objFunc returns the *types.Func of a declaration.
func (e *c16Env) objFunc(fd *ast.FuncDecl) *types.Func {
	fo, _ := e.pkg.TypesInfo.Defs[fd.Name].(*types.Func)
	return fo
}

// cidParams returns the string parameters of the same-package functions reachable from f that are
// bound to a client id at every call site seen in that reach.
func (e *c16Env) cidParams(f *flow.Func, depth int) map[types.Object]bool {
	good, bad := map[types.Object]bool{}, map[types.Object]bool{}
	for round := 0; round < 3; round++ {
		inspectReach(f, depth, func(g *flow.Func, n ast.Node) bool {
			call, ok := n.(*ast.CallExpr)
			if !ok {
				return true
			}
			fo, ok := c16FnOK(g, call)
			if !ok {
				return true
			}
			d := e.decls[fo]
			if d == nil || d.Type.Params == nil {
				return true
			}
			idx := 0
			for _, fld := range d.Type.Params.List {
				for _, nm := range fld.Names {
					if po := g.Info.Defs[nm]; po != nil && idx < len(call.Args) {
						if b, ok := po.Type().Underlying().(*types.Basic); ok && b.Kind() == types.String {
							if e.isCidReach(g, call.Args[idx]) || good[c16Obj(g, call.Args[idx])] {
								good[po] = true
							} else {
								bad[po] = true
							}
						}
					}
					idx++
				}
			}
			return true
		})
	}
	for o := range bad {
		delete(good, o)
	}
	return good
}

// c16BodyCallsSync is c16BodyCalls without the calls under `go` (and inside function literals).
func c16BodyCallsSync(g *flow.Func, pred func(call *ast.CallExpr) bool) bool {
	found := false
	ast.Inspect(g.Body, func(n ast.Node) bool {
		switch x := n.(type) {
		case *ast.GoStmt, *ast.FuncLit:
			return false
		case *ast.CallExpr:
			if pred(x) {
				found = true
			}
		}
		return !found
	})
	return found
}

// syncReach is reach restricted to synchronous calls (no `go`, no function literals).
func syncReach(e *c16Env, f *flow.Func, depth int) []*flow.Func {
	out := []*flow.Func{f}
	seen := map[*ast.BlockStmt]bool{f.Body: true}
	frontier := []*flow.Func{f}
	for d := 0; d < depth && len(frontier) > 0; d++ {
		var next []*flow.Func
		for _, g := range frontier {
			g := g
			ast.Inspect(g.Body, func(n ast.Node) bool {
				switch x := n.(type) {
				case *ast.GoStmt, *ast.FuncLit:
					return false
				case *ast.CallExpr:
					if fo, ok := c16FnOK(g, x); ok {
						if fd := e.decls[fo]; fd != nil && !seen[fd.Body] {
							seen[fd.Body] = true
							h := funcOf(e.pkg, fd)
							out = append(out, h)
							next = append(next, h)
						}
					}
				}
				return true
			})
		}
		frontier = next
	}
	return out
}

// c16SessionParam returns the single parameter of type *Session of fd (nil if none or several).
func c16SessionParam(g *flow.Func, fd *ast.FuncDecl) *ast.Ident {
	var out []*ast.Ident
	if fd.Type.Params != nil {
		for _, fld := range fd.Type.Params.List {
			for _, nm := range fld.Names {
				if o := g.Info.Defs[nm]; o != nil && c16PtrTo(o.Type(), "Session") {
					out = append(out, nm)
				}
			}
		}
	}
	if len(out) == 1 {
		return out[0]
	}
	return nil
}
