package rules

// R-C20-5 — a namespace leaves TrafficController.namespaces only when every entity map of that
// namespace is known to be empty (or every entity of it was just closed), under tc.mutex.
//
// Why it is a necessary condition of C20: Update*/Delete*/Apply* look the namespace up first; once
// the namespace entry is gone while one of its maps still holds a live object, every later change
// of that object fails with "namespace not found" (no Inherit, no Close) and a re-appearing name
// is initialised a second time in a fresh namespace while the orphan keeps running.
//
// Shape decided (roles resolved by type/field, not by name):
//   - subject: every delete(<TrafficController.namespaces>, k) in pkg/object/trafficcontroller;
//   - entity maps: every sync.Map field of the Namespace struct;
//   - a *probe* of map F is `ns.F.Range(func…)` whose literal unconditionally bumps / sets a captured
//     local; a *drain* of F is `ns.F.Range(func…)` whose literal unconditionally calls
//     CloseWithRecovery on the ranged value and never stops the iteration;
//   - at the delete, for every F: drained(F), or probed(F) and a zero test over probe variables
//     covering F holds in the state (==0, !=0, >0, <1 … of a variable or a sum; or bool flags).
//     Facts about a probe variable die when a closure assigning it is created, so a test made
//     before the probe does not count;
//   - ns must be the namespace that is removed (looked up / ranged with the deleted key);
//   - tc.mutex held at the delete, or — when the function does not lock itself — at every call of it.
//
// Tried (script /tmp/vw/C20/out/mutants5.py): seeded C20/b (second probe over trafficGates),
// N1 test only the gate counter, N2 `||` of the two zero tests, N3 `*` instead of `+`, N4 delete
// before the probes, N5 conditional increment in the pipeline probe, N6 Close() no longer drains
// pipelines, N7 Close() drain stops after the first entity, N8 DeleteTrafficGate calls _cleanSpace
// after unlocking, N9 probe of another namespace → all violated. Preserving: Q1 `a == 0 && b == 0`,
// Q2 early `if a+b > 0 { return }`, Q3 one shared counter, Q4 bool flags, Q5 renamed locals and
// swapped probe order → silent.

import (
	"go/ast"
	"go/constant"
	"go/token"
	"go/types"

	"golang.org/x/tools/go/cfg"
	"golang.org/x/tools/go/packages"

	"verif/internal/core"
	"verif/internal/flow"
)

func c20IsSyncMap(t types.Type) bool {
	n, ok := t.(*types.Named)
	return ok && n.Obj().Name() == "Map" && n.Obj().Pkg() != nil && n.Obj().Pkg().Path() == "sync"
}

// c20Captured: v is a local declared outside lit (and used inside it).
func c20Captured(v *types.Var, lit *ast.FuncLit) bool {
	return v != nil && !v.IsField() && (v.Pos() < lit.Pos() || v.Pos() > lit.End())
}

type c20Probe struct {
	call  *ast.CallExpr
	field *types.Var
	space *types.Var
	vars  []*types.Var // captured locals unconditionally modified
	drain bool
}

// c20ZeroTest is a condition whose outcome tells whether all its variables are zero / unset.
type c20ZeroTest struct {
	key     string
	neg     bool
	zeroVal flow.Val // value of the condition that means "empty"
	vars    []*types.Var
}

func c20Namespaces(c *core.Ctx) {
	c.Rule("R-C20-5", "a namespace is removed from TrafficController.namespaces only when every sync.Map of that Namespace is known empty (own probe per map, tested after the probe) or all its entities were just closed, with tc.mutex held (by the function or by every caller): otherwise objects left in the dropped namespace are orphaned — later changes fail with 'namespace not found' (no Inherit, no Close) and a re-appearing name is initialised twice")
	nsF := c20TCNamespacesField(c)
	mutexF := c20TCMutexField(c)
	nsT := namedType(c, c20tc, "Namespace")
	pkg := c.Prog.Pkg(c20tc)
	if nsF == nil || mutexF == nil || nsT == nil || pkg == nil {
		return
	}
	var maps []*types.Var
	if st, ok := nsT.Underlying().(*types.Struct); ok {
		for i := 0; i < st.NumFields(); i++ {
			if c20IsSyncMap(st.Field(i).Type()) {
				maps = append(maps, st.Field(i))
			}
		}
	}
	if !c.RequireCount("R-C20-5", "sync.Map fields of trafficcontroller.Namespace", len(maps), 2) {
		return
	}
	sites := 0
	for _, file := range pkg.Syntax {
		for _, d := range file.Decls {
			fd, ok := d.(*ast.FuncDecl)
			if !ok || fd.Body == nil {
				continue
			}
			f := flow.NewFunc(pkg, fd)
			var dels []*ast.CallExpr
			for _, call := range calls(fd.Body, true) {
				if b, ok := f.Callee(call).(*types.Builtin); ok && b.Name() == "delete" && len(call.Args) == 2 && c20FieldOf(f, call.Args[0]) == nsF {
					dels = append(dels, call)
				}
			}
			if len(dels) == 0 {
				continue
			}
			sites += len(dels)
			c.Count("functions_analysed", 1)
			c20NamespaceFunc(c, f, fd, declName(pkg, fd), dels, nsF, mutexF, maps)
		}
	}
	c.RequireCount("R-C20-5", "removals from TrafficController.namespaces", sites, 2)
}

func c20NamespaceFunc(c *core.Ctx, f *flow.Func, fd *ast.FuncDecl, cons string, dels []*ast.CallExpr, nsF, mutexF *types.Var, maps []*types.Var) {
	pm := parentMap(fd)
	inLit := func(n ast.Node) bool {
		for p := pm[n]; p != nil; p = pm[p] {
			if _, ok := p.(*ast.FuncLit); ok {
				return true
			}
		}
		return false
	}
	isMap := func(v *types.Var) bool {
		for _, m := range maps {
			if m == v {
				return true
			}
		}
		return false
	}

	// ---- probes and drains
	var probes []*c20Probe
	conditional := map[*types.Var]bool{} // captured locals also modified conditionally / elsewhere in a literal
	probeFields := map[*types.Var]map[*types.Var]bool{}
	for _, call := range calls(fd.Body, false) {
		op, recv := c20SyncMapOp(f, call)
		if op != "Range" || len(call.Args) != 1 {
			continue
		}
		fld := c20FieldOf(f, recv)
		lit, ok := ast.Unparen(call.Args[0]).(*ast.FuncLit)
		if !ok {
			// a closure bound once to a named local: space.pipelines.Range(closePipeline)
			lit, ok = f.FuncValue(call.Args[0]).(*ast.FuncLit)
		}
		if !isMap(fld) || !ok {
			continue
		}
		p := &c20Probe{call: call, field: fld, space: c20Root(f, recv)}
		// the ranged value parameter
		var valParam *types.Var
		if ps := lit.Type.Params; ps != nil {
			var ids []*ast.Ident
			for _, fl := range ps.List {
				ids = append(ids, fl.Names...)
			}
			if len(ids) == 2 {
				valParam, _ = f.Info.Defs[ids[1]].(*types.Var)
			}
		}
		direct := map[ast.Stmt]bool{}
		for _, s := range lit.Body.List {
			if _, isRet := s.(*ast.ReturnStmt); isRet {
				break
			}
			direct[s] = true
		}
		closes := false
		ast.Inspect(lit.Body, func(n ast.Node) bool {
			switch s := n.(type) {
			case *ast.IncDecStmt:
				if v := c20Var(f, s.X); c20Captured(v, lit) {
					if direct[s] && s.Tok == token.INC {
						p.vars = append(p.vars, v)
					} else {
						conditional[v] = true
					}
				}
			case *ast.AssignStmt:
				for _, l := range s.Lhs {
					if v := c20Var(f, l); c20Captured(v, lit) && s.Tok != token.DEFINE {
						if direct[s] {
							p.vars = append(p.vars, v)
						} else {
							conditional[v] = true
						}
					}
				}
			case *ast.ExprStmt:
				if call, ok := s.X.(*ast.CallExpr); ok && direct[s] {
					wk, wrecv := c20Wrapper(f, call)
					if wk == "close" && valParam != nil && c20RootOrigin(f, wrecv) == valParam {
						closes = true
					}
				}
			}
			return true
		})
		// a drain must visit every entry: every return of the literal returns the constant true
		allTrue := true
		ast.Inspect(lit.Body, func(n ast.Node) bool {
			if _, nested := n.(*ast.FuncLit); nested {
				return false
			}
			if r, ok := n.(*ast.ReturnStmt); ok {
				if len(r.Results) != 1 {
					allTrue = false
				} else if tv := f.Info.Types[r.Results[0]]; tv.Value == nil || tv.Value.Kind() != constant.Bool || !constant.BoolVal(tv.Value) {
					allTrue = false
				}
			}
			return true
		})
		p.drain = closes && allTrue
		for _, v := range p.vars {
			if probeFields[v] == nil {
				probeFields[v] = map[*types.Var]bool{}
			}
			probeFields[v][fld] = true
		}
		if len(p.vars) > 0 || p.drain {
			probes = append(probes, p)
		}
	}

	// ---- zero tests over probe variables
	var tests []c20ZeroTest
	sumVars := func(e ast.Expr) []*types.Var {
		var out []*types.Var
		ok := true
		var walk func(e ast.Expr)
		walk = func(e ast.Expr) {
			e = ast.Unparen(e)
			if be, isBin := e.(*ast.BinaryExpr); isBin && be.Op == token.ADD {
				walk(be.X)
				walk(be.Y)
				return
			}
			if v := c20Var(f, e); v != nil && probeFields[v] != nil {
				out = append(out, v)
				return
			}
			ok = false
		}
		walk(e)
		if !ok {
			return nil
		}
		return out
	}
	cmp := func(op token.Token, a, b int64) bool {
		switch op {
		case token.EQL:
			return a == b
		case token.NEQ:
			return a != b
		case token.LSS:
			return a < b
		case token.LEQ:
			return a <= b
		case token.GTR:
			return a > b
		case token.GEQ:
			return a >= b
		}
		return false
	}
	c20SkipLits(fd.Body, func(n ast.Node) bool {
		switch x := n.(type) {
		case *ast.BinaryExpr:
			switch x.Op {
			case token.EQL, token.NEQ, token.LSS, token.LEQ, token.GTR, token.GEQ:
			default:
				return true
			}
			var e ast.Expr
			var k int64
			left := true
			if tv := f.Info.Types[x.Y]; tv.Value != nil && tv.Value.Kind() == constant.Int {
				e = x.X
				k, _ = constant.Int64Val(tv.Value)
			} else if tv := f.Info.Types[x.X]; tv.Value != nil && tv.Value.Kind() == constant.Int {
				e, left = x.Y, false
				k, _ = constant.Int64Val(tv.Value)
			} else {
				return true
			}
			vars := sumVars(e)
			if len(vars) == 0 {
				return true
			}
			at := func(val int64) bool {
				if left {
					return cmp(x.Op, val, k)
				}
				return cmp(x.Op, k, val)
			}
			t0, t1, t2 := at(0), at(1), at(2)
			var zv flow.Val
			switch {
			case t0 && !t1 && !t2:
				zv = flow.True
			case !t0 && t1 && t2:
				zv = flow.False
			default:
				return true
			}
			key, neg := f.Atom(x)
			tests = append(tests, c20ZeroTest{key, neg, zv, vars})
		case *ast.Ident:
			// bool flag: one constant initialisation outside the literals, only the opposite
			// constant assigned inside the probes
			v := c20Var(f, x)
			if v == nil || probeFields[v] == nil || conditional[v] {
				return true
			}
			if b, ok := v.Type().Underlying().(*types.Basic); !ok || b.Info()&types.IsBoolean == 0 {
				return true
			}
			var outside, inside []bool
			okConst := true
			for _, d := range c20Defs(f, fd, v) {
				tv := f.Info.Types[d.rhs]
				if d.rhs == nil || tv.Value == nil || tv.Value.Kind() != constant.Bool {
					okConst = false
					continue
				}
				if inLit(d.stmt) {
					inside = append(inside, constant.BoolVal(tv.Value))
				} else {
					outside = append(outside, constant.BoolVal(tv.Value))
				}
			}
			if !okConst || len(outside) != 1 || len(inside) == 0 {
				return true
			}
			for _, b := range inside {
				if b == outside[0] {
					return true
				}
			}
			zv := flow.False
			if outside[0] {
				zv = flow.True
			}
			tests = append(tests, c20ZeroTest{f.VarKey(x), false, zv, []*types.Var{v}})
		}
		return true
	})

	// ---- loops around the deletes (per-iteration reset of the events)
	loopOf := map[ast.Stmt]bool{}
	for _, d := range dels {
		for _, l := range enclosingLoops(fd.Body, d) {
			loopOf[l] = true
		}
	}
	probeOf := map[*ast.CallExpr]*c20Probe{}
	for _, p := range probes {
		probeOf[p.call] = p
	}
	const evLocked = "ev:locked"
	var events []string
	for _, m := range maps {
		events = append(events, "ev:probed:"+m.Name(), "ev:drained:"+m.Name())
	}
	locks := 0
	ast.Inspect(fd.Body, func(n ast.Node) bool {
		if call, ok := n.(*ast.CallExpr); ok {
			if fnObj, ok := f.Callee(call).(*types.Func); ok && fnObj.Pkg() != nil && fnObj.Pkg().Path() == "sync" && fnObj.Name() == "Lock" {
				if sel, ok := ast.Unparen(call.Fun).(*ast.SelectorExpr); ok && c20FieldOf(f, sel.X) == mutexF {
					locks++
				}
			}
		}
		return true
	})
	lockHook := func(g *flow.Func) func(st *flow.State, call *ast.CallExpr, callee types.Object, deferred bool) {
		return func(st *flow.State, call *ast.CallExpr, callee types.Object, deferred bool) {
			fnObj, ok := callee.(*types.Func)
			if !ok || fnObj.Pkg() == nil || fnObj.Pkg().Path() != "sync" {
				return
			}
			if sel, ok := ast.Unparen(call.Fun).(*ast.SelectorExpr); ok && c20FieldOf(g, sel.X) == mutexF {
				switch fnObj.Name() {
				case "Lock":
					st.Set(evLocked, flow.True)
				case "Unlock":
					st.Set(evLocked, flow.False)
				}
			}
		}
	}
	onLock := lockHook(f)
	res := analyze(c, f, flow.Config{
		OnBlock: func(st *flow.State, b *cfg.Block) {
			if b.Kind == cfg.KindRangeBody && loopOf[b.Stmt] {
				for _, k := range events {
					st.Set(k, flow.False)
				}
			}
		},
		OnCall: func(st *flow.State, call *ast.CallExpr, callee types.Object, deferred bool) {
			if p := probeOf[call]; p != nil {
				// the probe runs now: whatever was tested about its variables before is stale (the
				// engine forgets them where the closure is created, which may be earlier)
				for _, t := range tests {
					for _, tv := range t.vars {
						for _, pv := range p.vars {
							if tv == pv {
								st.Set(t.key, flow.Unknown)
							}
						}
					}
				}
				if len(p.vars) > 0 {
					st.Set("ev:probed:"+p.field.Name(), flow.True)
				}
				if p.drain {
					st.Set("ev:drained:"+p.field.Name(), flow.True)
				}
			}
			onLock(st, call, callee, deferred)
		},
	})
	if res == nil {
		return
	}

	for _, del := range dels {
		if inLit(del) {
			c.Undecide("R-C20-5", cons+"|namespace removed only when every entity map is empty", pos(c, del), "the namespace is removed inside a function literal")
			continue
		}
		var fEmpty, fLock c20Finding
		// the namespace value whose maps must be examined: looked up / ranged with the deleted key
		keyR := f.Render(del.Args[1])
		spaceOK := func(v *types.Var) bool {
			if v == nil {
				return false
			}
			for _, l := range c20Lookups(f, fd.Body) {
				if l.val == v && l.mField == nsF && f.Render(l.key) == keyR {
					return true
				}
			}
			for _, d := range c20Defs(f, fd, v) {
				if rs, ok := d.stmt.(*ast.RangeStmt); ok && c20FieldOf(f, rs.X) == nsF && rs.Key != nil && f.Render(rs.Key) == keyR && c20Var(f, rs.Value) == v {
					return true
				}
			}
			return false
		}
		usable := map[*types.Var]map[*types.Var]bool{} // probe var → fields, restricted to probes of the right namespace
		drains := map[*types.Var]bool{}
		wrongSpace := false
		for _, p := range probes {
			if !spaceOK(p.space) {
				wrongSpace = true
				continue
			}
			if p.drain {
				drains[p.field] = true
			}
			for _, v := range p.vars {
				if conditional[v] {
					continue
				}
				if usable[v] == nil {
					usable[v] = map[*types.Var]bool{}
				}
				usable[v][p.field] = true
			}
		}
		// a probe variable fed by a probe of another namespace is not evidence
		for _, p := range probes {
			if !spaceOK(p.space) {
				for _, v := range p.vars {
					delete(usable, v)
				}
			}
		}
		if len(probes) == 0 {
			c.Undecide("R-C20-5", cons+"|namespace removed only when every entity map is empty", pos(c, del),
				"the function removes a namespace but contains no Range probe/drain of the namespace's sync.Maps the rule could read (emptiness established by a helper?)")
			continue
		}
		states := res.At[del]
		for _, st := range states {
			fEmpty.n++
			for _, m := range maps {
				ok := drains[m] && st.Is("ev:drained:"+m.Name(), flow.True)
				if !ok && st.Is("ev:probed:"+m.Name(), flow.True) {
					for _, t := range tests {
						if c20Tri(st, t.key, t.neg) != t.zeroVal {
							continue
						}
						for _, v := range t.vars {
							if usable[v][m] {
								ok = true
							}
						}
					}
				}
				if !ok {
					why := "a namespace is removed from TrafficController.namespaces without its " + m.Name() + " map being known empty at that point (no probe of that map tested zero after it ran, and its entities were not all closed): objects left in " + m.Name() + " are orphaned — their later updates/deletes fail with 'namespace not found' (no Inherit, no Close) and a re-appearing name is initialised a second time in a fresh namespace"
					if wrongSpace {
						why += " (a probe in this function examines another namespace value than the one being removed)"
					}
					fEmpty.fail(st, del, why)
				}
			}
			fLock.n++
			if locks > 0 && !st.Is(evLocked, flow.True) {
				fLock.fail(st, del, "the namespace is removed without tc.mutex held: a concurrent Create/Apply can store an object into the namespace value that is being dropped")
			}
		}
		if len(states) == 0 {
			fEmpty.fail(nil, del, "the removal of the namespace is unreachable: empty namespaces accumulate (not a lifecycle break) — but the rule cannot confirm its guard")
		}
		fEmpty.report(c, "R-C20-5", cons+"|namespace removed only when every entity map is empty", del,
			sprintf("%d states at the removal: every sync.Map of the namespace (%d) probed empty after its probe, or drained by CloseWithRecovery", fEmpty.n, len(maps)))

		// lock: held here, or (function never locks) held at every call of this function
		if locks == 0 {
			// the mutex must be held at every call of this function — by the caller itself, or (the
			// caller being another non-locking "…Locked" helper) by the caller's callers
			var held func(fnObj *types.Func, name string, depth int)
			held = func(fnObj *types.Func, name string, depth int) {
				callers := 0
				eachFunc(c, func(pkg2 *packages.Package, fd2 *ast.FuncDecl) {
					if pkg2.PkgPath != f.Pkg.PkgPath || fnObj == nil {
						return
					}
					g := flow.NewFunc(pkg2, fd2)
					if g.Info.Defs[fd2.Name] == types.Object(fnObj) {
						return
					}
					var sitesHere []*ast.CallExpr
					callerLocks := false
					for _, call := range calls(fd2.Body, true) {
						if g.Callee(call) == types.Object(fnObj) {
							sitesHere = append(sitesHere, call)
						}
						if fo, ok := g.Callee(call).(*types.Func); ok && fo.Pkg() != nil && fo.Pkg().Path() == "sync" && (fo.Name() == "Lock" || fo.Name() == "RLock") {
							if sel, ok := ast.Unparen(call.Fun).(*ast.SelectorExpr); ok && c20FieldOf(g, sel.X) == mutexF {
								callerLocks = true
							}
						}
					}
					if len(sitesHere) == 0 {
						return
					}
					callers += len(sitesHere)
					if !callerLocks && depth < 3 {
						// a non-locking helper itself: its callers must hold the mutex
						if o2, ok := g.Info.Defs[fd2.Name].(*types.Func); ok {
							held(o2, fd2.Name.Name, depth+1)
							return
						}
					}
					r2 := analyze(c, g, flow.Config{NoHavoc: true, OnCall: lockHook(g)})
					if r2 == nil {
						return
					}
					for _, call := range sitesHere {
						sts := r2.At[call]
						if len(sts) == 0 {
							c.Undecide("R-C20-5", cons+"|namespace removed under tc.mutex", pos(c, call), declName(pkg2, fd2)+" calls "+name+" from a function literal or unreachable code: the rule cannot see tc.mutex held there")
						}
						for _, st := range sts {
							fLock.n++
							if !st.Is(evLocked, flow.True) {
								fLock.fail(st, call, declName(pkg2, fd2)+" calls "+name+" (which leads to the removal of a namespace and does not lock itself) without tc.mutex held: a concurrent Create/Apply can store an object into the namespace value that is being dropped, or the emptiness probe races with it")
							}
						}
					}
				})
				if callers == 0 {
					fLock.fail(nil, del, name+" leads to the removal of a namespace, does not lock tc.mutex itself and has no caller in the package that could hold it")
				}
			}
			fnObj, _ := f.Info.Defs[fd.Name].(*types.Func)
			held(fnObj, fd.Name.Name, 0)
		}
		fLock.report(c, "R-C20-5", cons+"|namespace removed under tc.mutex", del,
			sprintf("%d states (at the removal / at the callers of the non-locking helper) all hold tc.mutex", fLock.n))
	}
}
