package rules

import (
	"go/ast"
	"go/types"

	"verif/internal/flow"
)

// Refactoring tolerance for the C17 rules: a root function is looked at together with the
// same-package functions it calls (reach); values are followed through parameters (callee parameter
// → the argument of its only call site), through single-assignment locals, and through results
// (`x := h(..)` where every return of h returns the same variable).

type c17Site struct {
	g    *flow.Func
	call *ast.CallExpr
}

type c17Bind struct {
	root  *flow.Func
	funcs []*flow.Func
	byObj map[*types.Func]*flow.Func
	sites map[*types.Func][]c17Site    // call sites (inside the reach) of a reach function
	owner map[types.Object]*types.Func // parameter object → function
	pidx  map[types.Object]int
	asg   map[types.Object][]ast.Expr // local → right-hand sides (nil entry = not 1:1)
	dirty map[types.Object]bool       // inc/dec, range variable, address taken
}

func c17NewBind(root *flow.Func, depth int) *c17Bind {
	b := &c17Bind{root: root, funcs: reach(root, depth), byObj: map[*types.Func]*flow.Func{},
		sites: map[*types.Func][]c17Site{}, owner: map[types.Object]*types.Func{}, pidx: map[types.Object]int{},
		asg: map[types.Object][]ast.Expr{}, dirty: map[types.Object]bool{}}
	for _, g := range b.funcs {
		fo := c17FuncObj(g)
		if fo == nil {
			continue
		}
		b.byObj[fo] = g
		if fd, ok := g.Node.(*ast.FuncDecl); ok && fd.Recv != nil && len(fd.Recv.List) == 1 && len(fd.Recv.List[0].Names) == 1 {
			if o := g.Info.Defs[fd.Recv.List[0].Names[0]]; o != nil {
				b.owner[o] = fo
				b.pidx[o] = -1
			}
		}
		if g.Type != nil && g.Type.Params != nil {
			i := 0
			for _, fld := range g.Type.Params.List {
				for _, nm := range fld.Names {
					if o := g.Info.Defs[nm]; o != nil {
						b.owner[o] = fo
						b.pidx[o] = i
					}
					i++
				}
				if len(fld.Names) == 0 {
					i++
				}
			}
		}
	}
	for _, g := range b.funcs {
		g := g
		ast.Inspect(g.Body, func(n ast.Node) bool {
			switch x := n.(type) {
			case *ast.CallExpr:
				if fo := c17CalleeFunc(g, x); fo != nil && b.byObj[fo.Origin()] != nil {
					b.sites[fo.Origin()] = append(b.sites[fo.Origin()], c17Site{g, x})
				}
			case *ast.AssignStmt:
				for i, l := range x.Lhs {
					if o := c17Obj(g, l); o != nil {
						if len(x.Lhs) == len(x.Rhs) {
							b.asg[o] = append(b.asg[o], x.Rhs[i])
						} else {
							b.asg[o] = append(b.asg[o], nil)
						}
					}
				}
			case *ast.ValueSpec:
				for i, nm := range x.Names {
					if o := g.Info.Defs[nm]; o != nil && i < len(x.Values) && len(x.Names) == len(x.Values) {
						b.asg[o] = append(b.asg[o], x.Values[i])
					}
				}
			case *ast.IncDecStmt:
				if o := c17Obj(g, x.X); o != nil {
					b.dirty[o] = true
				}
			case *ast.RangeStmt:
				for _, e := range []ast.Expr{x.Key, x.Value} {
					if e != nil {
						if o := c17Obj(g, e); o != nil {
							b.dirty[o] = true
						}
					}
				}
			case *ast.UnaryExpr:
				if x.Op.String() == "&" {
					if o := c17Obj(g, x.X); o != nil {
						b.dirty[o] = true
					}
				}
			}
			return true
		})
	}
	return b
}

// isRootParam reports whether o is a parameter of the root function.
func (b *c17Bind) isRootParam(o types.Object) bool {
	fo, ok := b.owner[o]
	return ok && fo == c17FuncObj(b.root)
}

// step resolves an expression one level: a bound parameter → its argument, a single-assignment
// local → its right-hand side, a call whose callee always returns the same variable → that variable.
func (b *c17Bind) step(e ast.Expr) (ast.Expr, bool) {
	e = ast.Unparen(e)
	if call, ok := e.(*ast.CallExpr); ok {
		if fo := c17CalleeFunc(b.root, call); fo != nil {
			if g := b.byObj[fo.Origin()]; g != nil {
				var ret ast.Expr
				var obj types.Object
				okAll := true
				ast.Inspect(g.Body, func(n ast.Node) bool {
					if _, isLit := n.(*ast.FuncLit); isLit {
						return false
					}
					if rs, isRet := n.(*ast.ReturnStmt); isRet {
						if len(rs.Results) != 1 {
							okAll = false
							return true
						}
						o := c17Obj(g, rs.Results[0])
						if o == nil || (obj != nil && o != obj) {
							okAll = false
						}
						obj, ret = o, rs.Results[0]
					}
					return true
				})
				if okAll && ret != nil {
					return ret, true
				}
			}
		}
		return e, false
	}
	o := c17Obj(b.root, e)
	if o == nil {
		return e, false
	}
	if fo, isParam := b.owner[o]; isParam {
		if fo == c17FuncObj(b.root) {
			return e, false
		}
		ss := b.sites[fo]
		if len(ss) == 1 && len(b.asg[o]) == 0 && !b.dirty[o] {
			if b.pidx[o] == -1 {
				if sel, ok := ast.Unparen(ss[0].call.Fun).(*ast.SelectorExpr); ok {
					return sel.X, true
				}
				return e, false
			}
			if b.pidx[o] < len(ss[0].call.Args) {
				return ss[0].call.Args[b.pidx[o]], true
			}
		}
		return e, false
	}
	if v, ok := o.(*types.Var); ok && !v.IsField() && len(b.asg[o]) == 1 && b.asg[o][0] != nil && !b.dirty[o] {
		return b.asg[o][0], true
	}
	return e, false
}

// resolve follows step through parentheses and conversions until it cannot go further.
func (b *c17Bind) resolve(e ast.Expr) ast.Expr {
	for i := 0; i < 8; i++ {
		e = c17StripConv(b.root, e)
		n, ok := b.step(e)
		if !ok {
			return e
		}
		e = n
	}
	return c17StripConv(b.root, e)
}

// canonObj is the last variable on the resolution chain of e (the variable an identifier ultimately
// stands for; itself if it cannot be followed; nil if e is not a variable).
func (b *c17Bind) canonObj(e ast.Expr) types.Object {
	var last types.Object
	for i := 0; i < 8; i++ {
		e = c17StripConv(b.root, e)
		if o := c17Obj(b.root, e); o != nil {
			if _, isVar := o.(*types.Var); isVar {
				last = o
			}
		}
		n, ok := b.step(e)
		if !ok {
			break
		}
		e = n
	}
	return last
}

// canon renders the resolved expression; selector bases are resolved too (cid → client.info.cid,
// p.info.cid with p bound to client → client.info.cid).
func (b *c17Bind) canon(e ast.Expr) string {
	r := b.resolve(e)
	if sel, ok := r.(*ast.SelectorExpr); ok {
		if _, isPkg := b.root.Info.Uses[identOf(sel.X)].(*types.PkgName); !isPkg {
			return b.canon(sel.X) + "." + sel.Sel.Name
		}
	}
	return b.root.Render(r)
}

func identOf(e ast.Expr) *ast.Ident {
	id, _ := ast.Unparen(e).(*ast.Ident)
	return id
}

// fieldOf resolves e (through locals/parameters) to the struct field it denotes.
func (b *c17Bind) fieldOf(e ast.Expr) *types.Var {
	return c17Field(b.root, b.resolve(e))
}

// enclosing returns the reach function whose body contains n.
func (b *c17Bind) enclosing(n ast.Node) *flow.Func {
	for _, g := range b.funcs {
		if contains(g.Body, n) {
			return g
		}
	}
	return nil
}

// inline returns a flow.Config.Inline function that interprets in place exactly those reach
// functions that (transitively) contain a node the rule cares about; everything else stays opaque
// (so that large unrelated callees do not blow up the state space).
func (b *c17Bind) inline(relevant func(g *flow.Func, n ast.Node) bool) func(*ast.CallExpr, *types.Func) *flow.Func {
	rel := map[*flow.Func]bool{}
	for _, g := range b.funcs {
		g := g
		ast.Inspect(g.Body, func(n ast.Node) bool {
			if n != nil && !rel[g] && relevant(g, n) {
				rel[g] = true
			}
			return !rel[g]
		})
	}
	for changed := true; changed; {
		changed = false
		for fo, ss := range b.sites {
			if !rel[b.byObj[fo]] {
				continue
			}
			for _, s := range ss {
				if !rel[s.g] {
					rel[s.g] = true
					changed = true
				}
			}
		}
	}
	return func(call *ast.CallExpr, callee *types.Func) *flow.Func {
		if callee == nil {
			return nil
		}
		g := b.byObj[callee.Origin()]
		if g == nil || g == b.root || !rel[g] {
			return nil
		}
		return g
	}
}

// c17LockRoots: the functions from which a construct inside g must be analysed so that the
// lock that protects it is visible: g itself if it (or its reach) takes a mutex, otherwise its
// same-package callers (up to two levels).
func c17LockRoots(g *flow.Func, all []*flow.Func, takesLock func(h *flow.Func) bool) []*flow.Func {
	if takesLock(g) {
		return []*flow.Func{g}
	}
	cur := []*flow.Func{g}
	for level := 0; level < 2; level++ {
		var next, locked []*flow.Func
		for _, h := range cur {
			ho := c17FuncObj(h)
			if ho == nil {
				continue
			}
			for _, caller := range all {
				if caller.Body == h.Body {
					continue
				}
				calls := false
				ast.Inspect(caller.Body, func(n ast.Node) bool {
					if call, ok := n.(*ast.CallExpr); ok {
						if fo := c17CalleeFunc(caller, call); fo != nil && fo.Origin() == ho {
							calls = true
						}
					}
					return !calls
				})
				if !calls {
					continue
				}
				if takesLock(caller) {
					locked = append(locked, caller)
				} else {
					next = append(next, caller)
				}
			}
		}
		if len(locked) > 0 && len(next) == 0 {
			return locked
		}
		if len(next) == 0 {
			break
		}
		cur = append(locked, next...)
	}
	return []*flow.Func{g}
}

// c17Ascend replaces g by its caller while g has exactly one call site in the package and that call
// is an ordinary (not go / defer) call, at most levels times.
func c17Ascend(g *flow.Func, all []*flow.Func, levels int) *flow.Func {
	for i := 0; i < levels; i++ {
		fo := c17FuncObj(g)
		if fo == nil {
			return g
		}
		var caller *flow.Func
		n, plain := 0, true
		for _, h := range all {
			pm := map[ast.Node]ast.Node(nil)
			ast.Inspect(h.Body, func(nd ast.Node) bool {
				call, ok := nd.(*ast.CallExpr)
				if !ok {
					return true
				}
				if co := c17CalleeFunc(h, call); co != nil && co.Origin() == fo {
					n++
					caller = h
					if pm == nil {
						pm = parentMap(h.Body)
					}
					switch pm[call].(type) {
					case *ast.GoStmt, *ast.DeferStmt:
						plain = false
					}
				}
				return true
			})
		}
		if n != 1 || !plain || caller == nil || caller.Body == g.Body {
			return g
		}
		g = caller
	}
	return g
}

// c17Derived is a lookup of the client table made through an accessor helper: the helper body holds
// `v, ok := table[param]` and returns those variables; the call site `x, y := b.lookup(key)` is where the
// rule can read the outcome (x / y in the caller's vocabulary) — per call site, because the accessor is
// shared by several callers with different keys.
type c17Derived struct {
	stmt  *ast.AssignStmt // the caller's assignment
	g     *flow.Func      // the function containing it
	valID *ast.Ident      // caller variable receiving the looked-up value (nil if none)
	okID  *ast.Ident      // caller variable receiving the comma-ok flag (nil if none)
}

// derivedLookups finds accessor-mediated lookups of field tableF whose key argument at the call site
// has the canonical rendering wantCanon.
func (b *c17Bind) derivedLookups(tableF *types.Var, wantCanon string) []c17Derived {
	var out []c17Derived
	for _, h := range b.funcs {
		ho := c17FuncObj(h)
		if ho == nil || len(b.sites[ho]) == 0 {
			continue
		}
		// the raw lookup inside the helper, keyed by one of its parameters
		var raw *ast.AssignStmt
		var keyParam types.Object
		nRaw := 0
		ast.Inspect(h.Body, func(n ast.Node) bool {
			as, ok := n.(*ast.AssignStmt)
			if !ok || len(as.Rhs) != 1 {
				return true
			}
			ix, ok := ast.Unparen(as.Rhs[0]).(*ast.IndexExpr)
			if !ok || c17Field(h, ix.X) != tableF {
				return true
			}
			if o := c17Obj(h, ix.Index); o != nil {
				if fo, isP := b.owner[o]; isP && fo == ho && b.pidx[o] >= 0 && len(b.asg[o]) == 0 {
					raw, keyParam = as, o
					nRaw++
				}
			}
			return true
		})
		if nRaw != 1 {
			continue
		}
		var valObj, okObj types.Object
		if id, ok := raw.Lhs[0].(*ast.Ident); ok && id.Name != "_" {
			valObj = c17Obj(h, id)
		}
		if len(raw.Lhs) == 2 {
			if id, ok := raw.Lhs[1].(*ast.Ident); ok && id.Name != "_" {
				okObj = c17Obj(h, id)
			}
		}
		// every return hands back those variables at fixed result positions
		valIdx, okIdx, consistent := -1, -1, true
		nRet := 0
		ast.Inspect(h.Body, func(n ast.Node) bool {
			if _, isLit := n.(*ast.FuncLit); isLit {
				return false
			}
			rs, isRet := n.(*ast.ReturnStmt)
			if !isRet {
				return true
			}
			nRet++
			vi, oi := -1, -1
			for i, e := range rs.Results {
				o := c17Obj(h, e)
				if o != nil && o == valObj {
					vi = i
				}
				if o != nil && o == okObj {
					oi = i
				}
			}
			if nRet > 1 && (vi != valIdx || oi != okIdx) {
				consistent = false
			}
			valIdx, okIdx = vi, oi
			return true
		})
		if nRet == 0 || !consistent || (valIdx < 0 && okIdx < 0) {
			continue
		}
		for _, s := range b.sites[ho] {
			if b.pidx[keyParam] >= len(s.call.Args) || b.canon(s.call.Args[b.pidx[keyParam]]) != wantCanon {
				continue
			}
			var as *ast.AssignStmt
			ast.Inspect(s.g.Body, func(n ast.Node) bool {
				if a, ok := n.(*ast.AssignStmt); ok && len(a.Rhs) == 1 && ast.Unparen(a.Rhs[0]) == ast.Expr(s.call) {
					as = a
				}
				return as == nil
			})
			if as == nil {
				continue
			}
			d := c17Derived{stmt: as, g: s.g}
			if valIdx >= 0 && valIdx < len(as.Lhs) {
				if id, ok := as.Lhs[valIdx].(*ast.Ident); ok && id.Name != "_" {
					d.valID = id
				}
			}
			if okIdx >= 0 && okIdx < len(as.Lhs) {
				if id, ok := as.Lhs[okIdx].(*ast.Ident); ok && id.Name != "_" {
					d.okID = id
				}
			}
			out = append(out, d)
		}
	}
	return out
}
