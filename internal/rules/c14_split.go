package rules

import (
	"go/ast"
	"go/types"
	"strings"

	"golang.org/x/tools/go/cfg"

	"verif/internal/flow"
)

// R-C14-7 wildcard placement in splitTopic (shape part of the character automaton).
//
// splitTopic walks the topic once; a boolean "wildcard seen" flag is raised by '+' and '#', and
// every time a level is closed (stored into the result slice: at a '/' and after the loop) a level
// that contains a wildcard must have length <= 1, else the topic is rejected. The rule decides,
// path-sensitively over all paths of splitTopic:
//   (a) every iteration that knows the current character to be '+' or '#' ends with a flag raised;
//   (b) whenever a level is closed after a flag was raised for it (since the previous close), the length of *that very level* is tested
//       (and found <= 1) before the topic can be accepted. "That very level" = the value stored
//       (variable or slice expression) or the slot it was stored into, as long as none of the
//       variables these expressions mention has been assigned since the store (an advanced cursor
//       makes `levels[levelsLoc]` / `topic[levelStart:i]` denote another string).
// Roles: result slice = first result of the `return X, true` exits; character loop = range over the
// string parameter; flags = bool locals assigned the constant true inside that loop; closes = stores
// into the result slice (indexed store or append).
// An implementation without a flag (strings.ContainsAny per level ...) or with arithmetic length
// tests (i-levelStart > 1) is reported as undecided, not as violated.
// Not decided here: that '#' is the last character (arithmetic on i), over-rejection of valid filters
// (missing reset of the flag), the empty filter.

const (
	c14sPending = "ev:c14s:pending" // a level was closed with a flag raised and its length is not yet tested
	c14sMissed  = "ev:c14s:missed"  // ... and can no longer be tested (sticky)
	c14sInC     = "ev:c14s:inChar"
	c14sWild    = "ev:c14s:wild" // a flag has been seen raised since the last close
)

type c14alias struct {
	render string
	deps   map[types.Object]bool
}

type c14close struct {
	at      ast.Node
	aliases []c14alias // [0] = the stored value
}

func c14deps(f *flow.Func, x ast.Expr) map[types.Object]bool {
	d := map[types.Object]bool{}
	ast.Inspect(x, func(n ast.Node) bool {
		if id, ok := n.(*ast.Ident); ok {
			if v, ok := f.Info.Uses[id].(*types.Var); ok {
				d[v] = true
			} else if v, ok := f.Info.Defs[id].(*types.Var); ok {
				d[v] = true
			}
		}
		return true
	})
	return d
}

// c14lenLE1 reports whether the state knows len(<r>) <= 1 (or an equivalent form).
func c14lenLE1(st *flow.State, r string) bool {
	l := "len(" + r + ")"
	return st.Is("lt:1<"+l, flow.False) || st.Is("lt:"+l+"<2", flow.True) || st.Is("eq:"+l+"==1", flow.True) ||
		st.Is("eq:"+l+"==0", flow.True) || st.Is("lt:"+l+"<1", flow.True) || st.Is("lt:0<"+l, flow.False)
}

func c14Split(e *c14env) {
	c := e.c
	f := e.roles.split.f
	cons := e.roles.split.cons

	// ---- roles
	var result types.Object
	isSuccess := func(st *flow.State, r *ast.ReturnStmt) bool {
		if r == nil || len(r.Results) != 2 {
			return false
		}
		if tv, ok := f.Info.Types[r.Results[1]]; ok && tv.Value != nil {
			return tv.Value.ExactString() == "true"
		}
		if id, ok := ast.Unparen(r.Results[1]).(*ast.Ident); ok && st != nil {
			return !st.Is(f.VarKey(id), flow.False)
		}
		return true
	}
	ast.Inspect(f.Body, func(n ast.Node) bool {
		if r, ok := n.(*ast.ReturnStmt); ok && isSuccess(nil, r) {
			if o := c14obj(f, r.Results[0]); o != nil {
				result = o
			}
		}
		return true
	})
	// the character loop: any element-wise loop over the string parameter (runes or bytes)
	var loop ast.Stmt
	var loopIt *c14iter
	for _, l := range c14loops(f.Body) {
		it := c14iterOf(f, l)
		if it == nil {
			continue
		}
		if o := c14obj(f, it.slice); o != nil && c14isParam(f, o) && c14isStr(o.Type()) {
			loop, loopIt = l, it
		}
	}
	if result == nil || loop == nil {
		c.Errorf("R-C14-7: anchor: %s: cannot identify the result slice / the loop over the topic string", cons)
		return
	}
	var charID *ast.Ident
	if loopIt.elem != nil {
		ast.Inspect(loop, func(n ast.Node) bool {
			if id, ok := n.(*ast.Ident); ok && charID == nil && f.Info.Defs[id] == loopIt.elem {
				charID = id
			}
			return true
		})
	}
	loopBody := c14loopBody(loop)
	flags := map[types.Object]*ast.Ident{}
	ast.Inspect(loopBody, func(n ast.Node) bool {
		if as, ok := n.(*ast.AssignStmt); ok && len(as.Lhs) == len(as.Rhs) {
			for i, l := range as.Lhs {
				id, ok := l.(*ast.Ident)
				if !ok {
					continue
				}
				if tv, ok := f.Info.Types[as.Rhs[i]]; ok && tv.Value != nil && tv.Value.ExactString() == "true" {
					if o := c14obj(f, id); o != nil {
						flags[o] = id
					}
				}
			}
		}
		return true
	})
	// every assignment to a flag must be a constant (the raise events are read off the assignments)
	raises := map[ast.Node]bool{}
	constFlags := true
	ast.Inspect(f.Body, func(n ast.Node) bool {
		if as, ok := n.(*ast.AssignStmt); ok && len(as.Lhs) == len(as.Rhs) {
			for i, l := range as.Lhs {
				if o := c14obj(f, l); o != nil && flags[o] != nil {
					tv, ok := f.Info.Types[as.Rhs[i]]
					switch {
					case !ok || tv.Value == nil:
						constFlags = false
					case tv.Value.ExactString() == "true":
						raises[as] = true
					}
				}
			}
		}
		return true
	})
	if !constFlags {
		c.Undecide("R-C14-7", cons+"|closed level tested before acceptance", pos(c, loop), "a wildcard flag of splitTopic is assigned a non-constant value: the rule reads the raise/reset events off constant assignments only")
		return
	}
	if charID == nil || charID.Name == "_" || len(flags) == 0 {
		c.Undecide("R-C14-7", cons+"|closed level tested before acceptance", pos(c, loop), "splitTopic has no boolean wildcard flag raised inside the loop over the characters: the placement check is implemented in a shape this rule does not read")
		return
	}
	var flagKeys []string
	for _, id := range flags {
		flagKeys = append(flagKeys, f.VarKey(id))
	}
	flagTrue := func(st *flow.State) bool {
		for _, k := range flagKeys {
			if st.Is(k, flow.True) {
				return true
			}
		}
		return false
	}

	// closes
	closeAt := map[ast.Node]*c14close{}
	var closes []*c14close
	ast.Inspect(f.Body, func(n ast.Node) bool {
		as, ok := n.(*ast.AssignStmt)
		if !ok || len(as.Lhs) != len(as.Rhs) {
			return true
		}
		for i, l := range as.Lhs {
			l = ast.Unparen(l)
			r := ast.Unparen(as.Rhs[i])
			var cl *c14close
			if ix, ok := l.(*ast.IndexExpr); ok && c14obj(f, ix.X) == result {
				cl = &c14close{at: as, aliases: []c14alias{{f.Render(r), c14deps(f, r)}, {f.Render(l), c14deps(f, l)}}}
			} else if c14obj(f, l) == result {
				if call, ok := r.(*ast.CallExpr); ok && c14isBuiltin(f, call, "append") && len(call.Args) == 2 && c14obj(f, call.Args[0]) == result {
					v := ast.Unparen(call.Args[1])
					cl = &c14close{at: as, aliases: []c14alias{{f.Render(v), c14deps(f, v)}}}
				}
			}
			if cl != nil {
				closeAt[as] = cl
				closes = append(closes, cl)
			}
		}
		return true
	})
	if !c.RequireCount("R-C14-7", "level closes (stores into the result slice) in splitTopic", len(closes), 2) {
		return
	}
	idx := map[*c14close]int{}
	for i, cl := range closes {
		idx[cl] = i
	}
	curKey := func(i int) string { return sprintf("ev:c14s:cur:%d", i) }
	staleKey := func(i, j int) string { return sprintf("ev:c14s:stale:%d:%d", i, j) }
	current := func(st *flow.State) *c14close {
		for i, cl := range closes {
			if st.Is(curKey(i), flow.True) {
				return cl
			}
		}
		return nil
	}
	clearCur := func(st *flow.State) {
		for i, cl := range closes {
			st.Set(curKey(i), flow.Unknown)
			for j := range cl.aliases {
				st.Set(staleKey(i, j), flow.Unknown)
			}
		}
	}

	plusKey := "eq:" + f.Render(charID) + "==43"
	hashKey := "eq:" + f.Render(charID) + "==35"
	var badRaise *flow.State
	raised := 0

	res := analyze(c, f, flow.Config{
		NoHavoc: true,
		// predicates such as wildcardNotAlone(level, flag) are interpreted in place: what they test
		// about their arguments is known in this function's vocabulary
		Inline: inlineSamePkg(f),
		OnBlock: func(st *flow.State, b *cfg.Block) {
			if b.Stmt != loop {
				return
			}
			switch {
			case c14isBody(b.Kind):
				st.Set(c14sInC, flow.True)
				// the cursor moves: a level closed earlier can no longer be tested
				if st.Is(c14sPending, flow.True) {
					st.Set(c14sMissed, flow.True)
					st.Set(c14sPending, flow.Unknown)
				}
				clearCur(st)
			case c14isHead(b.Kind):
				if st.Is(c14sInC, flow.True) && (st.Is(plusKey, flow.True) || st.Is(hashKey, flow.True)) {
					raised++
					if !flagTrue(st) && badRaise == nil {
						badRaise = st
					}
				}
				st.Set(c14sInC, flow.Unknown)
			}
		},
		OnNode: func(st *flow.State, n ast.Node) {
			// "the level being read contains a wildcard" = a flag was raised at some point since
			// the last close (resetting the flag early does not make the level clean)
			if raises[n] {
				st.Set(c14sWild, flow.True)
			}
			if cl, ok := closeAt[n]; ok {
				if st.Is(c14sPending, flow.True) {
					st.Set(c14sMissed, flow.True)
				}
				clearCur(st)
				st.Set(curKey(idx[cl]), flow.True)
				if st.Is(c14sWild, flow.True) && !c14lenLE1(st, cl.aliases[0].render) {
					st.Set(c14sPending, flow.True)
				} else {
					st.Set(c14sPending, flow.Unknown)
				}
				st.Set(c14sWild, flow.Unknown)
				return
			}
			if !st.Is(c14sPending, flow.True) {
				return
			}
			cl := current(st)
			if cl == nil {
				return
			}
			var assigned []types.Object
			switch t := n.(type) {
			case *ast.AssignStmt:
				for _, l := range t.Lhs {
					if o := c14obj(f, l); o != nil {
						assigned = append(assigned, o)
					}
				}
			case *ast.IncDecStmt:
				if o := c14obj(f, t.X); o != nil {
					assigned = append(assigned, o)
				}
			case *ast.ValueSpec:
				for _, nm := range t.Names {
					if o := f.Info.Defs[nm]; o != nil {
						assigned = append(assigned, o)
					}
				}
			}
			for _, o := range assigned {
				for j, a := range cl.aliases {
					if a.deps[o] {
						st.Set(staleKey(idx[cl], j), flow.True)
					}
				}
			}
		},
		AfterAssume: func(st *flow.State, cond ast.Expr, outcome bool) {
			if !st.Is(c14sPending, flow.True) {
				return
			}
			cl := current(st)
			if cl == nil {
				return
			}
			for j, a := range cl.aliases {
				if !st.Is(staleKey(idx[cl], j), flow.True) && c14lenLE1(st, a.render) {
					st.Set(c14sPending, flow.Unknown)
				}
			}
		},
	})
	if res == nil {
		return
	}

	// (a)
	switch {
	case raised == 0:
		c.Undecide("R-C14-7", cons+"|wildcard characters raise the flag", pos(c, loop), "no path through the character loop establishes char == '+' or char == '#' by an equality test: the classification of characters is implemented in a shape this rule does not read")
	default:
		c.Check(badRaise == nil, "R-C14-7", cons+"|wildcard characters raise the flag", pos(c, loop),
			sprintf("%d abstract iterations with the character known to be '+' or '#', all ending with a wildcard flag raised", raised),
			"an iteration that has seen '+' or '#' ends without the wildcard flag raised: a level that mixes the wildcard with other characters ('a+', 'b#') is accepted as a literal level", witness(badRaise)...)
	}

	// (b)
	var bad *flow.Exit
	succ := 0
	for _, ex := range res.Exits {
		if ex.Kind != flow.ExitReturn || ex.Return == nil || !isSuccess(ex.State, ex.Return) {
			continue
		}
		succ++
		if ex.State.Is(c14sPending, flow.True) || ex.State.Is(c14sMissed, flow.True) {
			bad = ex
		}
	}
	c.RequireCount("R-C14-7", "accepting exits of splitTopic", succ, 1)
	if bad != nil {
		// a length test spelled with cursor arithmetic is not read by this rule
		for _, k := range bad.State.Facts() {
			if (strings.HasPrefix(k, "lt:") || strings.HasPrefix(k, "eq:") || strings.HasPrefix(k, "expr:")) && (strings.Contains(k, " - ") || strings.Contains(k, " + ")) {
				c.Undecide("R-C14-7", cons+"|closed level tested before acceptance", pos(c, bad.Return), "a level is closed with the wildcard flag raised and no len(<level>) test was found, but the path carries an arithmetic test ("+k+") that may be the length test in another spelling")
				return
			}
		}
	}
	c.Check(bad == nil, "R-C14-7", cons+"|closed level tested before acceptance", pos(c, f.Body),
		sprintf("%d level closes; on all %d accepting abstract exits every level closed with a wildcard flag raised had its own length tested <= 1 first", len(closes), succ),
		"the topic can be accepted although a level was closed (stored into the result) with the wildcard flag raised and the length of that very level was never tested — the test is missing, or it reads another string because the cursor it is spelled with had already advanced: filters such as 'sport/ten+nis/player1' or '++/tennis' are accepted, cached and routed as literal levels", func() []string {
			if bad == nil {
				return nil
			}
			return append([]string{"return at " + pos(c, bad.Return)}, witness(bad.State)...)
		}()...)
}
